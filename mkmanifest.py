#!/usr/bin/env python3
"""Regenerates MANIFEST.json from the table below (keeps it valid and in one place)."""
import json, os

HERE = os.path.dirname(os.path.abspath(__file__))

# property -> (technique, level text, level note, design ref); only properties with a working monitor are listed
CLAIMED = {
    "C01": ("online reference-model monitor: real Value/Collection stepped in lock-step with a sequential register/map model, events observed at quiescent points",
            "Runtime monitoring: every single call over a small id/value alphabet x every subset of the write options from three pre-states and two configurations (bounded-exhaustive), all length-2 (thorough: length-3) sequences over a covering option set, and long random sequences on four message types are executed on the real resource; return value, error class, callback and interceptor counts, the Get/List after the call and the events seen by a backpressured subscriber are compared with the model after every step.",
            "The model is written from pkg/resource doc comments and the property text (DESIGN.md appendix C); where several preconditions fail at once any of their codes is accepted; nested update-mask paths through oneof members and overlapping mask paths are left to C05/C06.",
            "DESIGN.md §4 C01, appendix C"),
    "C02": ("recorded-history linearizability checking (porcupine, per-id partitions, logical-clock call/return events) over forced window interleavings (build-tag hooks + parking) and stress with pseudo-random yields; independent conservation checkers",
            "Runtime monitoring: concurrent Set/Add/Update/Delete/Get histories with uniquely tagged values are recorded at the client boundary and checked offline against the sequential model of C01 (Aborted/Unavailable are always-legal no-ops, precondition failures legal only in a justifying state). Every (victim op, window, interfering op sequence, pre-state) combination is forced deterministically by parking the victim inside the window, depth 2 adds a second parked victim; stress adds random 2-4 writer histories. Conservation (increments, generated ids, Adds per id, and every successful call taking effect as its own call: per-call id callbacks and interceptor stamps under concurrent Adds) is checked independently of porcupine.",
            "Windows are the hook points between optimistic read, change, lock and save; more than 4 writers and windows inside user callbacks are not explored; a porcupine timeout is inconclusive.",
            "DESIGN.md §4 C02"),
    "C03": ("offline checkers over recorded event logs (reference fold vs Get/List at quiescent points; per-subscriber delivery order vs commit order tapped under the write lock) over forced subscribe/publish windows (hooks + parking) and stress",
            "Runtime monitoring: subscribers of every kind and option combination are opened while writers are parked inside their commit/publish windows (and vice versa), and at random instants under stress with random consumer pacing; all written values are uniquely tagged. At the quiescent point after the writers returned, each subscriber's folded view must equal Get/List (with its read mask), its delivery order must not contradict the commit order, a backpressured stream must have no gaps, and no writer may be blocked while consumers keep receiving. Further forced parts: tolerance comparers with drifting writes, subscriptions opened with a dead context, subscriptions opened on a just emptied collection with unpublished commits pending, partial (masked) updates, and a hook-free storm of seeded subscriptions against a counting writer.",
            "Quiescence (every goroutine blocked in two identical atomic dumps) stands for 'once writers stop and the reader has drained'; consumers that stop receiving are C09/C10's subject; more than 3 writers are not explored.",
            "DESIGN.md §4 C03"),
    "C04": ("online trace checker: every backpressured subscriber's events compared with the single writer's log (sequential model) after each write, at quiescent points; counting fake clock for change times",
            "Runtime monitoring: histories of successful and failing Set/Add/Update/Delete calls (with and without WithWriteTime) are driven one call at a time; backpressured subscribers with every option combination are opened before every step; after every step count, order, id, kind, new/old value, change time, seed flags, seed order and seed change times of what each subscriber received are compared with the writer's log. Exhaustive for short histories, random for long ones; equivalences configured: none, an equivalence relation, and a non-transitive tolerance (judged against the value each subscriber holds). Forced parts: joins between snapshot and registration, during a publish, after unpublished commits, a subscriber leaving mid-seed, and a backpressured reader that pauses over a whole write script.",
            "Change times are decided with a counting fake clock (a reported time identifies the reading it came from): exact when a write time is given, otherwise within the readings taken during the call; equivalences are applied to read-masked values; for the tolerance the expectation is per subscriber and per id (value last sent, or the previous stored value before anything was sent).",
            "DESIGN.md §4 C04"),
    "C06": ("reference-model monitor: independent projection oracle + shadow copies of stored/passed messages and masks, corrupted masks under recover / crash isolation",
            "Runtime monitoring: nil, empty and every mask of <= 3 paths from a pool (nested, through repeated messages, parent+child, duplicates) x 8 stored messages, random masks, and systematically corrupted masks (unknown segment, continuation through scalar / map / repeated scalar, empty segment) are run through ResponseFilter.Validate/Filter/FilterClone, Value.Get/Pull, Collection.Get/List/Pull/PullID; every returned message is compared with an independent projection, the stored and passed-in messages and the mask are shadow-copied and re-compared, validation must report corrupted masks invalid and no read may panic (Pull cases behind crash isolation). Trait messages: several subscribers with different masks at once, and masked reads (nested paths, opened masked Pull streams) through every reading RPC of every trait model server, after which the unmasked reads must return what they returned before.",
            "A result with or without empty shells of unselected parent messages is accepted; unknown fields kept by a masked read are counted, not judged; at trait-server level a masked response (unary, or the first messages of a Pull stream) must be, element by element, the reference projection of the unmasked one; an element returned whole by a server path that never applies the mask (wastepb) is counted, not judged.",
            "DESIGN.md §4 C06"),
    "C07": ("shadow-copy monitor: every message crossing an API boundary is deep-copied when it crosses and re-compared after every later operation; inputs are scribbled after each write",
            "Runtime monitoring: random operation sequences on Value/Collection (with 0-2 open subscriptions whose seeds and events are retained), on every trait model server reachable through its Register method (handlers called directly so the real pointers flow, ids harvested from earlier responses, random valid read and update masks including nested paths) and on model-level methods without an RPC (parent, metadata model and collection, enter/leave, electric). After every operation all retained messages are compared with their copies; after every write the caller's message is overwritten (field by field, and through the pointers of optional scalars and the backing arrays of bytes fields) and the store (and everything retained) must be unaffected. Forced parts: subscriptions opened while a write is pending, events shared between subscribers, and a writer held between its read and the lock while another writer commits.",
            "The harness never mutates messages it obtained from reads; constructor initial values are cloned by the harness; a result that merely aliases the caller's own input is reported under its own key class.",
            "DESIGN.md §4 C07"),
    "C08": ("online reference-model monitor: decision table per event and fold(filtered stream) vs List(WithInclude) at quiescent points, predicates enumerated as truth tables",
            "Runtime monitoring: all 64 predicates over (id, value) as truth tables x exhaustive short write histories x backpressure on/off are run on the real collection; after every write the drained events are judged against the four-row inclusion decision table and the fold of the stream against List with the same predicate; lossy merges are enumerated by parking the consumer at quiescent points. The booking server's ListBookings/PullBookings are checked the same way; further phases: several subscribers with different predicates at once, and collections configured with an equivalence (judged modulo it).",
            "An absent item is never a member of the filtered collection whatever the predicate answers for nil; change times and old values of merged lossy events are not asserted.",
            "DESIGN.md §4 C08"),
    "C05": ("reference-model monitor: independent leaf-path masked-merge oracle and frame comparison over exhaustive small mask tuples and random tuples",
            "Runtime monitoring: every (stored, written, update mask, writable mask, reset mask) tuple over a 19-path pool of the all-field-kinds message (masks of <= 2 paths, duplicates and related paths in both orders) and random tuples on four trait messages are run through masks.FieldUpdater and through Value.Set / Collection.Update (writable fields given on the resource, via WithMoreWritableFields or WithAllFieldsWritable); results are compared leaf by leaf with an independent reference: frame outside M∩W unchanged, scalars set or cleared, message/list/map fields per field_mask.proto, reset paths cleared, invalid or out-of-W masks rejected with InvalidArgument and nothing changed.",
            "An absent message/list/map named by the mask may be cleared or left; switching a oneof arm by a nested path is exempt from the frame; rejection of valid masks with duplicate paths is counted, not judged.",
            "DESIGN.md §4 C05"),
    "C09": ("permit-driven consumer + quiescence oracle: bounded-exhaustive op sequences x receive patterns, reference fold with per-id chain checks, blocked-writer detection on goroutine state",
            "Runtime monitoring: every valid add/update/remove sequence over two ids (Value: set) up to length 4 (thorough 6) x every pattern of consumer receives is executed with each step taken at a quiescent point, so which sends are separated by a receive is enumerated, not scheduled by chance; folded view with chain checks vs List/Get after a final drain; every lossy write must have returned at the quiescent point after it; with backpressure nothing is dropped, order is kept and writers wait beyond the pipeline depth; an undeliverable Value write must return an error. Further scenarios: resources with a comparer, the backpressure option given twice or not at all, masked next to unmasked subscribers, subscribers cancelled mid-seed or joining late, during a write or during a held-up delivery.",
            "Quiescence stands for 'the consumer has received all it will get'; the send-timeout clause waits on the library's real five-second timer and is decided by the returned error; emission order between different ids is not asserted.",
            "DESIGN.md §4 C09"),
    "C10": ("forced cancel injection at hook points (parking) + stress, decided by quiescence: channel closure, returned writers, goroutine-dump leak check against a baseline, exactly-once/order checker over tagged bus events; crash isolation per scenario",
            "Runtime monitoring: for Bus, Value.Pull, Collection.Pull and PullID (lossy/backpressured, seed/updates-only) a cancel is injected while a sender, subscriber or stopper is parked at each hook point, while a send is blocked on a consumer that stopped receiving, with pre-cancelled contexts and at random instants under stress with 0-8 subscribers and 0-3 writers. At quiescent points: every cancelled channel closed, no writer stalled by a cancelled subscription, every goroutine started by the library gone even if the consumer never reads again, PullID ended by removal of its item (also when the item was created after subscribing and the consumer paused meanwhile), Listen not held up by a send in progress, bus events exactly once and in per-sender order for listeners live for the whole send. A dead worker process is a violation of the scenario that ran.",
            "Quiescence is decided from atomic goroutine dumps; the library's 1 s log-only alarm goroutines are ignored; 'live for the whole send' is decided with a logical clock.",
            "DESIGN.md §4 C10"),
    "C11": ("Go race detector (go build -race) over seeded random concurrent programs on every concurrently-usable type; reports parsed from GORACE logs and de-duplicated by the pair of innermost sc-golang functions",
            "Runtime monitoring with a sanitizer: 17 workload families (Value, Collection with generated ids / id interceptor / interceptors / all Pull options / cancels, Bus, router with factory and fallback, wrapped client streams within gRPC's concurrency contract, group.Execute*, and the electric (several models at once), parent, metadata, vending, publication, hail, waste, open/close, mode and fan speed models) run as programs of 4-16 goroutines x 260-460 operations, a third with stress yields at hook points, a third with a synchronisation-free yield handler, a third plain; every race report with an sc-golang frame is a violation keyed by the normalised function pair. Evidence counts programs, operations, overlapping operation pairs and method pairs actually exercised.",
            "The detector only sees accesses that overlap in a run: a silent run is 'none observed'. Callbacks and consumers only read the messages they are given; the harness adds no happens-before edges of its own in two thirds of the programs.",
            "DESIGN.md §4 C11"),
    "C12": ("recording fakes + map model + forced first-Get windows (hooks) + differential regeneration of the generated routers/wrappers from linked-in descriptors",
            "Runtime monitoring: every method of every generated router found in the tree is driven with random requests and scripted responses (k messages, header, trailer, error at any position) against recording fake clients per name; registry histories against a map model with the exact change log; concurrent first Gets forced window by window; default-name interceptors over all request types; and the real protoc-gen-router / protoc-gen-wrapper are rebuilt and re-run on the linked-in API descriptors and compared declaration by declaration with the checked-in files. A router or service in the tree without a table entry is reported.",
            "Unary response headers/trailers and fallback-vs-factory precedence are observed, not judged; regeneration compares go/printer forms (import grouping is a note).",
            "DESIGN.md §4 C12"),
    "C13": ("differential execution: the same lock-step call script through wrap.ServerToClient and through a real gRPC server on bufconn, client-side transcripts compared; quiescence-based hang/leak oracle on the wrapped side",
            "Runtime monitoring: an exhaustive grid (0-2, thorough 0-3 messages per direction) and random scripts for unary, unary-as-stream, server-, client- and bidi-streaming calls with SetHeader/SendHeader/SetTrailer at each position, error codes at each position, client half-close/cancel/deadline at each position and pre-cancelled contexts are executed on both transports; response messages and order, terminal outcome, user header and trailer keys are compared; messages mutated on one side must not show on the other; unknown methods and mismatched shapes; request metadata for six kinds of client context, response metadata with reused call-option targets and with a context taken from an enclosing handler, receivers of another message type; after every wrapped call no pkg/wrap goroutine may remain at the quiescent point (also when the handler left a reader goroutine of its own behind).",
            "Scripts are lock-step (every send meets a ready receiver); cancellation and deadline are compared as classes; harness-triggered deadline contexts; server-side observations after the client left are counted, not judged.",
            "DESIGN.md §4 C13"),
    "C14": ("online relations monitor through the full wrapper-router-wrapper stack, triples discovered from service descriptors, servers discovered from the source tree; streams judged at quiescent points; crash isolation per step",
            "Runtime monitoring: for every model server / memory device found in the tree that has a Get/Update/Pull triple, random histories of updates (valid, rule-violating, masked), masked Gets and 0-2 open Pull streams run through WrapApi(router(WrapApi(server))): Update response = next Get, masked Get = projection of the full Get, a new Pull starts with the current value, every large change appears on every open stream with the response's value and the Pull request's name, a rejected Update leaves Get unchanged, update masks are honoured, and the process must not die.",
            "Servers without an Update RPC are out of domain; in the generated histories lightpb.MemoryDevice runs only with zero tween duration (its ramp writer is driven by separate ramp-then-plain-Update cases whose verdict waits for the ramp goroutine to exit) and hail without wall-clock GC; a server type found in the tree but missing from the table makes the run inconclusive.",
            "DESIGN.md §4 C14"),
    "C15": ("online oracle over page walks: concatenation of the pages followed by next_page_token vs the model's full listing, plus hostile inputs under recover / child-process isolation",
            "Runtime monitoring: for each of the seven paged List RPCs, collections of sizes 0-60 and the boundary sizes with random ids (prefixes of each other included) are walked with every page size of the property's list (mixed sizes too), directly and through the wrapped stack; every walk must return each item exactly once in listing order, pages no longer than the effective size, total_size right and a finite chain. Negative sizes and corrupted tokens (truncated, bit-flipped, non-base64, foreign, out-of-range numeric) must be answered with an error status, never a panic or an endless chain. Several clients paging at the same time each get their own listing; a hail model with its garbage collection armed is not changed by listing it.",
            "Collection contents are held fixed while paging; a token that decodes may be honoured; read masks are an extra dimension (keys with suffix mask-without-key).",
            "DESIGN.md §4 C15"),
    "C16": ("reference-model monitor (independent equality / big-number tolerance oracle) over mutation pairs, exhaustive logic tables, and an online stream checker at quiescent points",
            "Runtime monitoring: pairs derived from a common ancestor by 0-3 mutations (all field kinds, unknown fields, NaN, typed nil, Change look-alikes) are run through cmp.Equal and the tolerance comparers and compared with an independent reference equality and an exact-arithmetic tolerance oracle (reflexivity, symmetry, inside/outside the tolerance, other kinds untouched); And/Or/ValueAnd/ValueOr against truth tables; resources with an equivalence are written and each subscriber's stream is judged against the value it holds.",
            "Presence-only differences of change_time and one-sided well-known values are counted, not judged; durations and times are kept in the exactly representable range.",
            "DESIGN.md §4 C16"),
    "C17": ("contract evaluator over gated executions: members gated by channels released in an enumerated order with quiescence between releases; goroutine-dump leak and hang detection; child process per batch",
            "Runtime monitoring: for member counts 0-4 (thorough 5-6) every success/failure assignment x every completion order x every strategy and entry point (Execute, Execute*, ExecuteUpTo, and the onoffpb/lightpb groups through fake clients) is executed with members gated by the harness, and the returned error, results and indexes, the first error, which member contexts are cancelled when, panics, hangs and leaked pkg/group goroutines are compared with a contract evaluator written from the property statement; random scenarios up to 8 members with cancellation-aware members and caller cancels; every strategy again with a caller whose context is already done or cancelled by a member; group Pull with members that deliver values.",
            "Completion order is an enumerated input (one gate released per quiescent point); where the statement leaves cancellation of still-running members open after a success decision both behaviours are accepted and counted.",
            "DESIGN.md §4 C17"),
    "C18": ("reference-model monitor (dense-timeline / step-function brute-force oracle) over exhaustive small grids and random inputs",
            "Runtime monitoring: every period pair on a small exhaustive grid, random 64-bit-range timestamps and random segment/mode lists are run through the real functions and compared with brute-force mathematical oracles; arguments are shadow-copied to detect mutation. Held on the executions listed in the evidence, nothing more.",
            "Oracles are written from the property text; float32 magnitudes are small integers so arithmetic is exact; inputs outside the stated domain (inverted periods) are counted, not judged.",
            "DESIGN.md §4 C18"),
    "C19": ("online invariant + reference monitor over bounded-exhaustive and random sequences with a fake model clock; concurrent part with stress yields, atomic Modes() snapshots and folded Pull streams at quiescence",
            "Runtime monitoring: all length-4 (thorough length-5) sequences over create/add/update/delete(±allow-missing)/set-active/change-active/clear-active on up to 4 modes through the Model API and the ElectricApi/MemorySettingsApi servers, random 100-step sequences through model, server, wrapped clients and mixes (switches also to the empty id), and 2-4 goroutines issuing the operations concurrently (mixes A/B over every operation, mix C made only of writers competing for the normal slot); after every step (resp. in every atomic snapshot and at quiescence): at most one normal mode, active mode never deleted and always existing once changed, clear-active selects the normal mode, a switch to a different mode stamps the fake clock's current reading, delete of an absent mode NotFound unless allow-missing.",
            "SetActiveMode start times and re-selecting the active mode are observed, not judged; documented return codes beyond the statement are counted only.",
            "DESIGN.md §4 C19"),
    "C20": ("online reference-model monitors: per-model executable specifications (set algebra, exact rational arithmetic, lookup tables, counters, fake clocks, content hashes) stepped in lock-step with the real models and servers",
            "Runtime monitoring: random operation sequences with random configurations on parent, vending (+unit conversion over every unit pair), fan speed, mode, enter/leave, meter and publication models and their servers; every getter and RPC response is compared with a small executable specification written from doc comments and sc-api comments; panics on well-formed requests are violations.",
            "Requests the documentation leaves open are counted, not judged; aliasing is C07's subject.",
            "DESIGN.md §4 C20"),
}

NOT_YET = "not claimed"

ALL = ["C%02d" % i for i in range(1, 21)]


def main():
    checks = []
    for pid in ALL:
        if pid not in CLAIMED:
            continue
        tech, text, note, ref = CLAIMED[pid]
        checks.append({
            "property_id": pid,
            "quick_cmd": "./check %s --tier quick" % pid,
            "thorough_cmd": "./check %s --tier thorough" % pid,
            "evidence_file": "/verif/evidence/%s.json" % pid,
            "replay_cmd_template": "./check %s --replay {path}" % pid,
            "engine": "go-runtime-monitors",
            "level_claimed": {"category": "exploration", "text": text, "design_ref": ref},
            "level_note": note,
            "technique": tech,
        })
    man = {
        "version": 1,
        "setup_cmd": "./setup.sh",
        "hooks": {
            "guard": "verif",
            "enable": "go build -tags verif (the driver ./check builds every monitor from a scratch copy of /repo's working tree with this tag; C11 additionally with -race)",
            "baseline_off_cmd": "cd /repo && GOFLAGS=-mod=mod GOPROXY=off GOSUMDB=off GOTOOLCHAIN=local go test -json -vet=off -count=1 -timeout 25m ./...",
            "source_commits": open(os.path.join(HERE, "hooks_commits.txt")).read().split(),
            "add_only": True,
        },
        "engines": [{
            "name": "go-runtime-monitors",
            "path": "/verif/check",
            "serves_properties": [c["property_id"] for c in checks],
            "kind_free_text": "python driver + Go monitors (harness/cNN) built into a scratch copy of /repo with -tags verif; reference-model monitors, forced schedules via build-tag hooks and a goroutine-dump quiescence oracle, recorded-history checkers (porcupine), Go race detector, differential execution",
        }],
        "checks": checks,
        "notes": "Every check rebuilds from /repo's working tree. Exit 0 held / 1 VIOLATION / 3 build failure or inconclusive. Open findings: known_findings.jsonl.",
        "not_applicable": [{"property_id": p, "reason": NOT_YET} for p in ALL if p not in CLAIMED],
    }
    json.dump(man, open(os.path.join(HERE, "MANIFEST.json"), "w"), indent=1)
    print("wrote MANIFEST.json with", len(checks), "checks")


if __name__ == "__main__":
    main()
