#!/bin/sh
# mutcheck.sh <patch.diff> <ID> [<ID>...]: applies a patch to a scratch copy of /repo, runs the repository's own
# tests there (must pass) and then the quick tier of the given checks against that copy. Evidence files of /verif
# are restored afterwards. Prints one line per check: CAUGHT / MISSED.
patch=$(realpath "$1"); shift
export GOFLAGS=-mod=mod GOPROXY=off GOSUMDB=off GOTOOLCHAIN=local
d=$(mktemp -d /tmp/mut.XXXXXX)
rsync -a --exclude .git /repo/ "$d/"
if ! (cd "$d" && patch -p1 -s < "$patch"); then echo "PATCH FAILED"; rm -rf "$d"; exit 2; fi
if ! (cd "$d" && go build ./...); then echo "BUILD FAILS with the patch"; rm -rf "$d"; exit 2; fi
if [ -z "$NOTEST" ]; then
if ! (cd "$d" && go test -vet=off -count=1 ./... >"$d/.test.out" 2>&1); then echo "REPO TESTS FAIL with the patch (not a valid mutation; NOTEST=1 to run the checks anyway):"; grep -v "^ok\|no test files" "$d/.test.out" | head -6; rm -rf "$d"; exit 2; fi
echo "repo tests pass with the patch"
fi
cd /verif
for id in "$@"; do
  cp evidence/$id.json "$d/.ev.$id" 2>/dev/null
  VERIF_REPO="$d" ./check "$id" ${SHARDS:+--shards $SHARDS} > "$d/.out.$id" 2>&1; rc=$?
  cp "$d/.ev.$id" evidence/$id.json 2>/dev/null
  if [ $rc -eq 1 ]; then echo "CAUGHT $id: $(grep -c '^VIOLATION' "$d/.out.$id") keys: $(grep '^  key:' "$d/.out.$id" | head -5 | tr '\n' ' ')"; else echo "MISSED $id (exit $rc): $(tail -1 "$d/.out.$id")"; fi
done
rm -rf "$d"
