#!/usr/bin/env python3
"""triage.py <ID> [n]: list the violation keys of the last run of a check with the first line(s) of their detail."""
import json,glob,sys
pid=sys.argv[1]; n=int(sys.argv[2]) if len(sys.argv)>2 else 1; w=int(sys.argv[3]) if len(sys.argv)>3 else 600
rows=[]
for f in glob.glob('/verif/replays/%s/*.json'%pid):
    d=json.load(open(f)); rows.append((d['key'],d['count'],(d.get('detail') or '').split('\n')[:n]))
rows.sort()
for k,c,d in rows:
    print(k,'x%d'%c)
    for l in d: print('     ',l[:w])
