#!/bin/sh
# Warms the Go build cache: builds every monitor once (offline) from /repo's working tree.
cd "$(dirname "$0")" || exit 1
export GOFLAGS=-mod=mod GOPROXY=off GOSUMDB=off GOTOOLCHAIN=local
rc=0
for d in harness/c*/; do
  id=$(basename "$d" | tr a-z A-Z)
  ./check "$id" --build-only || rc=1
done
exit $rc
