#!/usr/bin/env python3
"""seedeval.py <PROP> <variant-dir> <name> [--checks C01,C02] [--dir pkg/resource]

Confirms a seeded change produced by a blind sub-agent and records it under /verif/seeded/<name>/:
  1. the patch applies to a scratch copy of /repo and the repository's own suite still passes,
  2. the demonstration test fails with the patch and passes without it,
  3. the quick tier of the given checks (default: the property's own) is run against the patched copy.
Writes patch.diff, the demonstration and meta.json (what it breaks, what it needs to manifest, what was run, outcome).
"""
import argparse, json, os, re, shutil, subprocess, sys, tempfile, time

ENV = dict(os.environ, GOFLAGS="-mod=mod", GOPROXY="off", GOSUMDB="off", GOTOOLCHAIN="local")


def sh(cmd, cwd=None, timeout=3600):
    r = subprocess.run(cmd, cwd=cwd, env=ENV, stdout=subprocess.PIPE, stderr=subprocess.STDOUT, text=True, timeout=timeout, shell=isinstance(cmd, str))
    return r.returncode, r.stdout


def suite(d):
    rc, out = sh("go build ./... && go test -vet=off -count=1 ./...", cwd=d)
    bad = [l for l in out.splitlines() if l.startswith("FAIL") or l.startswith("--- FAIL")]
    if rc != 0:
        # timing-sensitive group tests: re-run failing packages once
        pk = sorted(set(re.findall(r"^FAIL[ \t]+(\S+)", out, re.M)))
        if pk and all("lightpb" in p or "onoffpb" in p or "minibus" in p for p in pk):
            for _ in range(4):
                rc2, out2 = sh("go test -vet=off -count=1 " + " ".join(pk), cwd=d)
                if rc2 == 0:
                    return True, "pass (after re-running the timing-sensitive %s)" % pk
        return False, "\n".join(bad[:6])
    return True, "pass"


RACE = False


def run_demo(d, demo, pkgdir, times=3):
    dst = os.path.join(d, pkgdir, "zz_seed_demo_test.go")
    shutil.copy(demo, dst)
    fails = 0
    last = ""
    for _ in range(times):
        rc, out = sh("go test %s-vet=off -count=1 -run 'Demo|Seed|C[0-9][0-9]' ./%s" % ("-race " if RACE else "", pkgdir), cwd=d, timeout=900)
        if rc != 0:
            fails += 1
            last = out[-1500:]
    os.remove(dst)
    return fails, last


def main():
    ap = argparse.ArgumentParser()
    ap.add_argument("prop")
    ap.add_argument("vdir")
    ap.add_argument("name")
    ap.add_argument("--checks")
    ap.add_argument("--dir")
    ap.add_argument("--race", action="store_true", help="run the demonstration with go test -race")
    a = ap.parse_args()
    global RACE
    RACE = a.race
    patch = os.path.join(a.vdir, "patch.diff")
    demo = os.path.join(a.vdir, "demo_test.go")
    readme = open(os.path.join(a.vdir, "README.md")).read() if os.path.exists(os.path.join(a.vdir, "README.md")) else ""
    pkgdir = a.dir
    if not pkgdir:
        head = open(demo).read()[:3000]
        m = re.search(r"((?:pkg|internal)/[A-Za-z0-9_/]+)", head)
        pkgdir = m.group(1).rstrip("/") if m else "pkg/resource"
    checks = a.checks.split(",") if a.checks else [a.prop]
    meta = dict(property=a.prop, name=a.name, demo_package=pkgdir, demo_needs_race_detector=a.race, checks_run=checks, when=time.strftime("%Y-%m-%d %H:%M:%S"))
    clean = tempfile.mkdtemp(prefix="seedclean.")
    mut = tempfile.mkdtemp(prefix="seedmut.")
    try:
        for d in (clean, mut):
            sh(["rsync", "-a", "--exclude", ".git", "/repo/", d + "/"])
        rc, out = sh(["patch", "-p1", "-s", "-i", os.path.abspath(patch)], cwd=mut)
        meta["patch_applies"] = rc == 0
        if rc != 0:
            meta["error"] = out[-800:]
            print("PATCH DOES NOT APPLY:", out[-400:])
            return finish(a, meta, patch, demo, readme, keep=False)
        ok, why = suite(mut)
        meta["suite_with_patch"] = why
        print("suite with patch:", why)
        f1, last1 = run_demo(mut, demo, pkgdir)
        f0, last0 = run_demo(clean, demo, pkgdir)
        meta["demo_fails_with_patch"] = "%d/3" % f1
        meta["demo_fails_without_patch"] = "%d/3" % f0
        print("demo: fails with patch %d/3, without %d/3" % (f1, f0))
        if last1:
            meta["demo_failure_excerpt"] = last1[-600:]
        valid = ok and f1 >= 2 and f0 == 0
        meta["valid"] = valid
        results = {}
        for c in checks:
            ev = os.path.join("/verif/evidence", c + ".json")
            bak = ev + ".seedbak"
            if os.path.exists(ev):
                shutil.copy(ev, bak)
            e = dict(ENV, VERIF_REPO=mut)
            t0 = time.time()
            r = subprocess.run(["/verif/check", c], env=e, stdout=subprocess.PIPE, stderr=subprocess.STDOUT, text=True, cwd="/verif")
            if os.path.exists(bak):
                shutil.move(bak, ev)
            keys = re.findall(r"^  key: (\S+)", r.stdout, re.M)
            results[c] = dict(exit=r.returncode, caught=r.returncode == 1, keys=keys[:8], n_keys=len(keys), wall_s=round(time.time() - t0, 1), last=r.stdout.strip().splitlines()[-1] if r.stdout.strip() else "")
            print("%s: %s (%d keys) %s" % (c, "CAUGHT" if r.returncode == 1 else "MISSED exit=%d" % r.returncode, len(keys), keys[:3]))
        meta["checks"] = results
        meta["caught_by"] = [c for c, v in results.items() if v["caught"]]
        return finish(a, meta, patch, demo, readme, keep=valid)
    finally:
        shutil.rmtree(clean, ignore_errors=True)
        shutil.rmtree(mut, ignore_errors=True)


def finish(a, meta, patch, demo, readme, keep):
    out = os.path.join("/verif/seeded", a.name)
    if not readme and os.path.exists(os.path.join(out, "meta.json")):
        # re-evaluation from the recorded directory (which has no README.md): keep the recorded description
        readme = json.load(open(os.path.join(out, "meta.json"))).get("readme", "")
    if keep:
        os.makedirs(out, exist_ok=True)
        for src, dst in ((patch, os.path.join(out, "patch.diff")), (demo, os.path.join(out, "demo_test.go"))):
            if os.path.abspath(src) != os.path.abspath(dst):
                shutil.copy(src, dst)
        m = re.search(r"(?is)(manifest|needs?|needed).{0,600}", readme)
        meta["needs_to_manifest"] = (m.group(0)[:600] if m else readme[:600])
        meta["readme"] = readme[:3000]
        json.dump(meta, open(os.path.join(out, "meta.json"), "w"), indent=1)
        print("kept as", out)
    else:
        print("NOT KEPT (not confirmed):", json.dumps({k: meta.get(k) for k in ("patch_applies", "suite_with_patch", "demo_fails_with_patch", "demo_fails_without_patch")}))
    return 0


if __name__ == "__main__":
    sys.exit(main())
