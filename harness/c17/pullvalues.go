package main

import (
	"context"
	"errors"
	"fmt"
	"sync"

	"github.com/smart-core-os/sc-api/go/traits"
	"google.golang.org/grpc"

	"github.com/smart-core-os/sc-golang/internal/verif/vk"
	"github.com/smart-core-os/sc-golang/pkg/group"
	"github.com/smart-core-os/sc-golang/pkg/trait/lightpb"
	"github.com/smart-core-os/sc-golang/pkg/trait/onoffpb"
)

// pullWithValues: group Pull with members that DELIVER values (the contract scenarios above only end members with an
// error). Every member stream yields one value at once and then waits for its context. Either the group's own
// subscriber fails on the first Send, or the subscriber goes away later: in both cases the group call must return and
// every goroutine it started must end, also the members that were in the middle of handing a value over.
// Run in-process: a call that has not returned at the quiescent point is a hang, goroutines of the library that are
// left are a leak.

type valStream[T any] struct {
	grpc.ClientStream
	ctx  context.Context
	mk   func() *T
	sent bool
}

func (s *valStream[T]) Recv() (*T, error) {
	if !s.sent {
		s.sent = true
		return s.mk(), nil
	}
	<-s.ctx.Done()
	return nil, s.ctx.Err()
}
func (s *valStream[T]) Context() context.Context { return s.ctx }

type valOnOff struct{ traits.OnOffApiClient }

func (valOnOff) PullOnOff(ctx context.Context, in *traits.PullOnOffRequest, _ ...grpc.CallOption) (grpc.ServerStreamingClient[traits.PullOnOffResponse], error) {
	return &valStream[traits.PullOnOffResponse]{ctx: ctx, mk: func() *traits.PullOnOffResponse {
		return &traits.PullOnOffResponse{Changes: []*traits.PullOnOffResponse_Change{{Name: in.Name, OnOff: &traits.OnOff{State: traits.OnOff_ON}}}}
	}}, nil
}

type valLight struct{ traits.LightApiClient }

func (valLight) PullBrightness(ctx context.Context, in *traits.PullBrightnessRequest, _ ...grpc.CallOption) (grpc.ServerStreamingClient[traits.PullBrightnessResponse], error) {
	return &valStream[traits.PullBrightnessResponse]{ctx: ctx, mk: func() *traits.PullBrightnessResponse {
		return &traits.PullBrightnessResponse{Changes: []*traits.PullBrightnessResponse_Change{{Name: in.Name, Brightness: &traits.Brightness{LevelPercent: 40}}}}
	}}, nil
}

type failingServerStream[T any] struct {
	grpc.ServerStream
	ctx    context.Context
	mu     sync.Mutex
	sends  int
	failAt int // Send number (1-based) that fails; 0 = never
}

var errSubscriberGone = errors.New("subscriber went away")

func (s *failingServerStream[T]) Context() context.Context { return s.ctx }
func (s *failingServerStream[T]) Send(*T) error {
	s.mu.Lock()
	defer s.mu.Unlock()
	s.sends++
	if s.failAt > 0 && s.sends >= s.failAt {
		return errSubscriberGone
	}
	return nil
}

func pullWithValues(r *vk.Run) {
	strategies := []group.ExecutionStrategy{group.ExecutionStrategyAll, group.ExecutionStrategyMost, group.ExecutionStrategyAny, group.ExecutionStrategyRace, group.ExecutionStrategyFast}
	idx := 0
	for _, target := range []string{"onoffpb.Group", "lightpb.Group"} {
		for _, st := range strategies {
			for n := 2; n <= 3; n++ {
				for _, ending := range []string{"send-fails", "subscriber-cancels"} {
					idx++
					if !r.Mine(idx) {
						continue
					}
					base := vk.IDs(vk.Goroutines())
					ctx, cancel := context.WithCancel(context.Background())
					failAt := map[string]int{"send-fails": 1}[ending]
					var err error
					t := vk.Go(func() {
						if target == "onoffpb.Group" {
							g := onoffpb.NewGroup(valOnOff{}, names(n)...)
							g.ReadExecution = st
							err = g.PullOnOff(&traits.PullOnOffRequest{Name: "the-group"}, &failingServerStream[traits.PullOnOffResponse]{ctx: ctx, failAt: failAt})
						} else {
							g := lightpb.NewGroup(valLight{}, names(n)...)
							g.ReadExecution = st
							err = g.PullBrightness(&traits.PullBrightnessRequest{Name: "the-group"}, &failingServerStream[traits.PullBrightnessResponse]{ctx: ctx, failAt: failAt})
						}
					})
					vk.Quiesce()
					if ending == "subscriber-cancels" {
						cancel()
						vk.Quiesce()
					}
					gs := vk.Goroutines()
					r.Eval(1)
					r.Count("pull-with-values-scenarios", 1)
					r.Distinct(fmt.Sprintf("pullvalues|%s|%v|%d|%s", target, st, n, ending))
					key := fmt.Sprintf("C17/%s.%v/pull-with-values/%s", target, st, ending)
					replay := map[string]any{"target": target, "strategy": fmt.Sprint(st), "members": n, "ending": ending}
					if !t.Done() {
						r.Violation(key+"/hang", fmt.Sprintf("%s Pull (read strategy %v, %d members that each deliver a value) has not returned at the quiescent point after its subscriber was gone (%s)\n%s", target, st, n, ending, vk.DescribeGs(vk.LibraryGoroutines(gs, base))), replay)
						cancel()
						return // the stuck goroutines stay: later quiescence checks of this worker would be disturbed
					}
					if left := vk.LibraryGoroutines(gs, base); len(left) > 0 {
						r.Violation(key+"/leak", fmt.Sprintf("%s Pull (read strategy %v, %d members) returned (%v) but goroutines it started are still there:\n%s", target, st, n, err, vk.DescribeGs(left)), replay)
						cancel()
						return
					}
					cancel()
				}
			}
		}
	}
	r.Require("pull-with-values-scenarios", 5)
}
