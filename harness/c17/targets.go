package main

import (
	"context"
	"fmt"

	"github.com/smart-core-os/sc-api/go/traits"
	"google.golang.org/grpc"
	"google.golang.org/protobuf/proto"
	"google.golang.org/protobuf/types/known/wrapperspb"

	"github.com/smart-core-os/sc-golang/pkg/group"
	"github.com/smart-core-os/sc-golang/pkg/trait/lightpb"
	"github.com/smart-core-os/sc-golang/pkg/trait/onoffpb"
)

// callRes is what the call under test returned, normalised.
type callRes struct {
	Shape string // "slice": []proto.Message, err; "single": msg, index, err; "opaque": reduced response, err
	Slice []proto.Message
	Msg   proto.Message
	Idx   int
	Err   error
}

func (c callRes) String() string {
	switch c.Shape {
	case "slice":
		return fmt.Sprintf("results=%v err=%v", renderSlice(c.Slice), c.Err)
	case "single":
		return fmt.Sprintf("msg=%v index=%d err=%v", renderMsg(c.Msg), c.Idx, c.Err)
	}
	return fmt.Sprintf("response=%v err=%v", renderMsg(c.Msg), c.Err)
}

func renderMsg(m proto.Message) string {
	if m == nil {
		return "nil"
	}
	if w, ok := m.(*wrapperspb.Int64Value); ok {
		if w == nil {
			return "nil"
		}
		return fmt.Sprintf("msg#%d", w.Value%1000)
	}
	return fmt.Sprintf("%v", m)
}

func renderSlice(s []proto.Message) string {
	out := "["
	for i, m := range s {
		if i > 0 {
			out += " "
		}
		out += renderMsg(m)
	}
	return out + "]"
}

// memberMsg is the unique message member m of case i answers with.
func memberMsg(i, m int) proto.Message { return wrapperspb.Int64(int64(i)*1000 + int64(m)) }

func memberName(m int) string { return fmt.Sprintf("member/%d", m) }

// invoke performs the call under test of scenario sp on the calling goroutine.
func invoke(sp *Spec, a *arena, ctx context.Context) callRes {
	switch sp.Target {
	case "exec":
		return invokeExec(sp, a, ctx)
	case "onoffpb":
		return invokeOnOff(sp, a, ctx)
	case "lightpb":
		return invokeLight(sp, a, ctx)
	}
	panic("harness: unknown target " + sp.Target)
}

func invokeExec(sp *Spec, a *arena, ctx context.Context) callRes {
	members := make([]group.Member, sp.N)
	for m := range members {
		m := m
		members[m] = func(ctx context.Context) (proto.Message, error) {
			ok, cancelled := a.answer(m, ctx)
			switch {
			case cancelled:
				err := a.cancelErr(m, ctx)
				a.leave(m, false, true, nil, err)
				return nil, err
			case ok:
				msg := memberMsg(sp.I, m)
				a.leave(m, true, false, msg, nil)
				return msg, nil
			}
			err := a.failErr(m)
			a.leave(m, false, false, nil, err)
			return nil, err
		}
	}
	var (
		sl  []proto.Message
		msg proto.Message
		idx int
		err error
	)
	switch sp.Method {
	case "Execute":
		sl, err = group.Execute(ctx, group.ExecutionStrategy(sp.Strat), members)
	case "ExecuteAll":
		sl, err = group.ExecuteAll(ctx, members)
	case "ExecuteMost":
		sl, err = group.ExecuteMost(ctx, members)
	case "ExecuteAny":
		sl, err = group.ExecuteAny(ctx, members)
	case "ExecuteUpTo":
		sl, err = group.ExecuteUpTo(ctx, sp.Allowed, members)
	case "ExecuteOne":
		msg, idx, err = group.ExecuteOne(ctx, members)
		return callRes{Shape: "single", Msg: msg, Idx: idx, Err: err}
	case "ExecuteFast":
		msg, idx, err = group.ExecuteFast(ctx, members)
		return callRes{Shape: "single", Msg: msg, Idx: idx, Err: err}
	case "ExecuteRace":
		msg, idx, err = group.ExecuteRace(ctx, members)
		return callRes{Shape: "single", Msg: msg, Idx: idx, Err: err}
	default:
		panic("harness: unknown method " + sp.Method)
	}
	return callRes{Shape: "slice", Slice: sl, Err: err}
}

// ---- trait groups: fake member clients gated through the same arena ----

func nameIndex(a *arena, name string) int {
	for m := 0; m < a.sp.N; m++ {
		if memberName(m) == name {
			return m
		}
	}
	a.add(ev{K: "badname", M: -1})
	return -1
}

// unary runs a gated unary member call; mk builds the success response of member m.
func unary[T proto.Message](a *arena, ctx context.Context, name string, mk func(m int) T) (T, error) {
	var zero T
	m := nameIndex(a, name)
	if m < 0 {
		return zero, fmt.Errorf("no such member %q", name)
	}
	ok, cancelled := a.answer(m, ctx)
	switch {
	case cancelled:
		err := a.cancelErr(m, ctx)
		a.leave(m, false, true, nil, err)
		return zero, err
	case ok:
		msg := mk(m)
		a.leave(m, true, false, msg, nil)
		return msg, nil
	}
	err := a.failErr(m)
	a.leave(m, false, false, nil, err)
	return zero, err
}

// fakeClientStream is a member's server stream: its only Recv blocks on the member's gate and then ends the
// stream with the member's error (a Pull member can only ever end with an error).
type fakeClientStream[T any] struct {
	grpc.ClientStream
	a   *arena
	m   int
	ctx context.Context
}

func (s *fakeClientStream[T]) Recv() (*T, error) {
	if s.a.await(s.m, s.ctx) {
		err := s.a.cancelErr(s.m, s.ctx)
		s.a.leave(s.m, false, true, nil, err)
		return nil, err
	}
	err := s.a.failErr(s.m)
	s.a.leave(s.m, false, false, nil, err)
	return nil, err
}

func (s *fakeClientStream[T]) Context() context.Context { return s.ctx }

func openStream[T any](a *arena, ctx context.Context, name string) (*fakeClientStream[T], error) {
	m := nameIndex(a, name)
	if m < 0 {
		return nil, fmt.Errorf("no such member %q", name)
	}
	a.begin(m, ctx)
	return &fakeClientStream[T]{a: a, m: m, ctx: ctx}, nil
}

type fakeServerStream[T any] struct {
	grpc.ServerStream
	ctx context.Context
}

func (s *fakeServerStream[T]) Context() context.Context { return s.ctx }
func (s *fakeServerStream[T]) Send(*T) error            { return nil }

type fakeOnOff struct{ a *arena }

func (f fakeOnOff) resp(m int) *traits.OnOff {
	if m%2 == 0 {
		return &traits.OnOff{State: traits.OnOff_ON}
	}
	return &traits.OnOff{State: traits.OnOff_OFF}
}
func (f fakeOnOff) GetOnOff(ctx context.Context, in *traits.GetOnOffRequest, _ ...grpc.CallOption) (*traits.OnOff, error) {
	return unary(f.a, ctx, in.GetName(), f.resp)
}
func (f fakeOnOff) UpdateOnOff(ctx context.Context, in *traits.UpdateOnOffRequest, _ ...grpc.CallOption) (*traits.OnOff, error) {
	return unary(f.a, ctx, in.GetName(), f.resp)
}
func (f fakeOnOff) PullOnOff(ctx context.Context, in *traits.PullOnOffRequest, _ ...grpc.CallOption) (grpc.ServerStreamingClient[traits.PullOnOffResponse], error) {
	s, err := openStream[traits.PullOnOffResponse](f.a, ctx, in.GetName())
	if err != nil {
		return nil, err
	}
	return s, nil
}

func names(n int) []string {
	out := make([]string, n)
	for m := range out {
		out[m] = memberName(m)
	}
	return out
}

func invokeOnOff(sp *Spec, a *arena, ctx context.Context) callRes {
	g := onoffpb.NewGroup(fakeOnOff{a}, names(sp.N)...)
	g.ReadExecution, g.WriteExecution = readWrite(sp)
	switch sp.Method {
	case "Get":
		res, err := g.GetOnOff(ctx, &traits.GetOnOffRequest{Name: "the-group"})
		return opaque(res, res == nil, err)
	case "Update":
		res, err := g.UpdateOnOff(ctx, &traits.UpdateOnOffRequest{Name: "the-group", OnOff: &traits.OnOff{State: traits.OnOff_ON}})
		return opaque(res, res == nil, err)
	case "Pull":
		err := g.PullOnOff(&traits.PullOnOffRequest{Name: "the-group"}, &fakeServerStream[traits.PullOnOffResponse]{ctx: ctx})
		return callRes{Shape: "opaque-stream", Err: err}
	}
	panic("harness: unknown method " + sp.Method)
}

type fakeLight struct{ a *arena }

func (f fakeLight) resp(m int) *traits.Brightness {
	return &traits.Brightness{LevelPercent: float32(10 * (m + 1))}
}
func (f fakeLight) GetBrightness(ctx context.Context, in *traits.GetBrightnessRequest, _ ...grpc.CallOption) (*traits.Brightness, error) {
	return unary(f.a, ctx, in.GetName(), f.resp)
}
func (f fakeLight) UpdateBrightness(ctx context.Context, in *traits.UpdateBrightnessRequest, _ ...grpc.CallOption) (*traits.Brightness, error) {
	return unary(f.a, ctx, in.GetName(), f.resp)
}
func (f fakeLight) PullBrightness(ctx context.Context, in *traits.PullBrightnessRequest, _ ...grpc.CallOption) (grpc.ServerStreamingClient[traits.PullBrightnessResponse], error) {
	s, err := openStream[traits.PullBrightnessResponse](f.a, ctx, in.GetName())
	if err != nil {
		return nil, err
	}
	return s, nil
}

func invokeLight(sp *Spec, a *arena, ctx context.Context) callRes {
	g := lightpb.NewGroup(fakeLight{a}, names(sp.N)...)
	g.ReadExecution, g.WriteExecution = readWrite(sp)
	switch sp.Method {
	case "Get":
		res, err := g.GetBrightness(ctx, &traits.GetBrightnessRequest{Name: "the-group"})
		return opaque(res, res == nil, err)
	case "Update":
		res, err := g.UpdateBrightness(ctx, &traits.UpdateBrightnessRequest{Name: "the-group", Brightness: &traits.Brightness{LevelPercent: 50}})
		return opaque(res, res == nil, err)
	case "Pull":
		err := g.PullBrightness(&traits.PullBrightnessRequest{Name: "the-group"}, &fakeServerStream[traits.PullBrightnessResponse]{ctx: ctx})
		return callRes{Shape: "opaque-stream", Err: err}
	}
	panic("harness: unknown method " + sp.Method)
}

func opaque(res proto.Message, isNil bool, err error) callRes {
	if isNil {
		return callRes{Shape: "opaque", Err: err}
	}
	return callRes{Shape: "opaque", Msg: res, Err: err}
}

// readWrite gives the strategy under test to the execution the method uses (reads: Get, Pull; writes: Update)
// and a strategy with a different contract to the other one, so that a mix-up is observable.
func readWrite(sp *Spec) (read, write group.ExecutionStrategy) {
	s := group.ExecutionStrategy(sp.Strat)
	other := group.ExecutionStrategyAll
	if s == group.ExecutionStrategyAll || s == group.ExecutionStrategyUnspecified {
		other = group.ExecutionStrategyRace
	}
	if sp.Method == "Update" {
		return other, s
	}
	return s, other
}
