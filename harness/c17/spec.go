package main

import (
	"fmt"
	"strings"

	"github.com/smart-core-os/sc-golang/pkg/group"
)

// Spec is one scenario: which entry point is driven, how many members it has, what each member answers when the
// harness releases its gate, in which order the gates are released, which members watch their context, and
// whether (and when) the caller's own context is cancelled. It is a pure function of the case number, so any
// worker can regenerate it, and it is what a violation carries as replay data.
type Spec struct {
	I       int    `json:"i"`
	Target  string `json:"target"`            // "exec" (pkg/group directly), "onoffpb", "lightpb" (trait Group servers)
	Method  string `json:"method"`            // exec: Execute, ExecuteAll, ..., ExecuteUpTo; trait groups: Get, Update, Pull
	Strat   int    `json:"strat"`             // group.ExecutionStrategy passed to Execute / set on the trait Group
	Allowed int    `json:"allowed,omitempty"` // ExecuteUpTo only
	N       int    `json:"n"`
	Ok      []bool `json:"ok"`      // answer of member m when released: success or failure
	Order   []int  `json:"order"`   // planned release order (a permutation of 0..n-1)
	Aware   []bool `json:"aware"`   // member m also returns (with a failure) as soon as its context is cancelled
	PCancel int    `json:"pcancel"` // -1: never; k: the caller's context is cancelled after k releases
	Sample  bool   `json:"sample,omitempty"`
}

func stratName(s int) string {
	switch group.ExecutionStrategy(s) {
	case group.ExecutionStrategyUnspecified:
		return "Unspecified"
	case group.ExecutionStrategyAll:
		return "All"
	case group.ExecutionStrategyMost:
		return "Most"
	case group.ExecutionStrategyAny:
		return "Any"
	case group.ExecutionStrategyOne:
		return "One"
	case group.ExecutionStrategyFast:
		return "Fast"
	case group.ExecutionStrategyRace:
		return "Race"
	}
	return "Unknown"
}

// Entry is the <strategy> slot of the violation key: the strategy name for group.Execute, the function name for
// the direct entry points, "<pkg>.Group.<strategy>" for the trait groups.
func (s *Spec) Entry() string {
	switch s.Target {
	case "exec":
		if s.Method == "Execute" {
			return stratName(s.Strat)
		}
		return s.Method
	default:
		return s.Target + ".Group." + stratName(s.Strat)
	}
}

func (s *Spec) NClass() string {
	switch {
	case s.N == 0:
		return "n0"
	case s.N == 1:
		return "n1"
	}
	return "n2+"
}

func (s *Spec) Key(clause string) string {
	return "C17/" + s.Entry() + "/" + clause + "/" + s.NClass()
}

func bits(b []bool, t, f byte) string {
	out := make([]byte, len(b))
	for i, v := range b {
		if v {
			out[i] = t
		} else {
			out[i] = f
		}
	}
	return string(out)
}

// Desc is the descriptor of the scenario (everything except the case number).
func (s *Spec) Desc() string {
	var sb strings.Builder
	fmt.Fprintf(&sb, "%s/%s/%s", s.Target, s.Method, stratName(s.Strat))
	if s.Method == "ExecuteUpTo" {
		fmt.Fprintf(&sb, "(%d)", s.Allowed)
	}
	fmt.Fprintf(&sb, " n=%d ok=%s order=%v aware=%s pc=%d", s.N, bits(s.Ok, '+', '-'), s.Order, bits(s.Aware, 'a', 'p'), s.PCancel)
	return sb.String()
}

// semantics of an entry point, as far as the contract evaluator is concerned
const (
	kThreshold = iota // All / Most / Any / UpTo(a): fails iff the failure count satisfies a predicate
	kOne
	kFast
	kRace
	kUnspecified // "implementation will choose a strategy": must behave as one of the above
)

type sem struct {
	kind int
	name string
	// fails tells, for a threshold strategy, whether f failures among n members make the call fail.
	// Written from the property statement, not from the implementation's error budget.
	fails func(f, n int) bool
}

var (
	semAll  = sem{kind: kThreshold, name: "All", fails: func(f, n int) bool { return f >= 1 }}           // some member fails
	semMost = sem{kind: kThreshold, name: "Most", fails: func(f, n int) bool { return 2*f > n }}         // more than half fail
	semAny  = sem{kind: kThreshold, name: "Any", fails: func(f, n int) bool { return n >= 1 && f == n }} // all fail
	semOne  = sem{kind: kOne, name: "One"}
	semFast = sem{kind: kFast, name: "Fast"}
	semRace = sem{kind: kRace, name: "Race"}
)

func semUpTo(a int) sem {
	return sem{kind: kThreshold, name: fmt.Sprintf("UpTo(%d)", a), fails: func(f, n int) bool { return f > a }} // more than a fail
}

func (s *Spec) Sem() sem {
	if s.Target == "exec" && s.Method != "Execute" {
		switch s.Method {
		case "ExecuteAll":
			return semAll
		case "ExecuteMost":
			return semMost
		case "ExecuteAny":
			return semAny
		case "ExecuteOne":
			return semOne
		case "ExecuteFast":
			return semFast
		case "ExecuteRace":
			return semRace
		case "ExecuteUpTo":
			return semUpTo(s.Allowed)
		}
	}
	switch group.ExecutionStrategy(s.Strat) {
	case group.ExecutionStrategyAll:
		return semAll
	case group.ExecutionStrategyMost:
		return semMost
	case group.ExecutionStrategyAny:
		return semAny
	case group.ExecutionStrategyOne:
		return semOne
	case group.ExecutionStrategyFast:
		return semFast
	case group.ExecutionStrategyRace:
		return semRace
	}
	return sem{kind: kUnspecified, name: "Unspecified"}
}

// Finding is one discrepancy between an observed execution and the contract.
type Finding struct {
	Clause string `json:"clause"`
	Detail string `json:"detail"`
}

// Outcome is what the child process reports for one scenario.
type Outcome struct {
	I            int            `json:"i"`
	Findings     []Finding      `json:"findings,omitempty"`
	Counts       map[string]int `json:"counts,omitempty"`
	Trace        string         `json:"trace,omitempty"`
	Result       string         `json:"result,omitempty"`
	Quiet        int            `json:"quiet"`
	Inconclusive string         `json:"inconclusive,omitempty"`
	Recycle      bool           `json:"recycle,omitempty"`
}
