package main

import (
	"context"
	"fmt"
	"sync"
	"time"

	"google.golang.org/protobuf/proto"
	"google.golang.org/protobuf/types/known/wrapperspb"

	"github.com/smart-core-os/sc-golang/internal/verif/vk"
	"github.com/smart-core-os/sc-golang/pkg/group"
)

// callerGone: the strategies' contracts are stated over the members' outcomes only. Here the CALLER's context is
// already done when the call starts (cancelled, or a deadline in the past) or is cancelled by member k while it runs,
// and every member ignores its context (a fallback that answers from local state): which members are invoked, the
// outcome and the index it is reported at must be what the outcome vector alone dictates. Members 1-4, every
// success/failure assignment, every strategy through Execute and the direct entry points.
func callerGone(r *vk.Run) {
	type strat struct {
		name string
		st   group.ExecutionStrategy
	}
	strategies := []strat{{"All", group.ExecutionStrategyAll}, {"Most", group.ExecutionStrategyMost}, {"Any", group.ExecutionStrategyAny}, {"One", group.ExecutionStrategyOne}, {"Fast", group.ExecutionStrategyFast}, {"Race", group.ExecutionStrategyRace}}
	idx := 0
	for n := 1; n <= 4; n++ {
		modes := []string{"cancelled-before", "deadline-passed"}
		for k := 0; k < n; k++ {
			modes = append(modes, fmt.Sprintf("cancelled-by-member-%d", k))
		}
		for bitsOK := 0; bitsOK < 1<<n; bitsOK++ {
			for _, mode := range modes {
				for _, st := range strategies {
					for _, direct := range []bool{false, true} {
						if direct && st.name != "One" {
							continue
						}
						idx++
						if !r.Mine(idx) {
							continue
						}
						callerGoneCase(r, n, bitsOK, mode, st.name, st.st, direct)
					}
				}
			}
		}
	}
	vk.Quiesce()
	r.Require("caller-gone-scenarios", 20)
}

func callerGoneCase(r *vk.Run, n, bitsOK int, mode, stName string, st group.ExecutionStrategy, direct bool) {
	ctx, cancel := context.WithCancel(context.Background())
	defer cancel()
	canceller := -1
	switch mode {
	case "cancelled-before":
		cancel()
	case "deadline-passed":
		var c2 context.CancelFunc
		ctx, c2 = context.WithDeadline(ctx, time.Unix(1, 0))
		defer c2()
	default:
		fmt.Sscanf(mode, "cancelled-by-member-%d", &canceller)
	}
	ok := make([]bool, n)
	errs := make([]error, n)
	msgs := make([]proto.Message, n)
	var mu sync.Mutex
	var tried []int
	members := make([]group.Member, n)
	nOK := 0
	for i := 0; i < n; i++ {
		i := i
		ok[i] = bitsOK&(1<<i) != 0
		if ok[i] {
			nOK++
		}
		errs[i] = fmt.Errorf("member %d failed", i)
		msgs[i] = wrapperspb.Int64(int64(100 + i))
		members[i] = func(context.Context) (proto.Message, error) {
			mu.Lock()
			tried = append(tried, i)
			mu.Unlock()
			if i == canceller {
				cancel()
			}
			if ok[i] {
				return msgs[i], nil
			}
			return nil, errs[i]
		}
	}
	entry := "Execute(" + stName + ")"
	if direct {
		entry = "Execute" + stName
	}
	desc := fmt.Sprintf("%s, %d members, outcomes %s, caller's context %s, members ignore their context", entry, n, bits(ok, 'S', 'F'), mode)
	replay := map[string]any{"entry": entry, "members": n, "ok": ok, "caller": mode}
	key := func(clause string) string { return fmt.Sprintf("C17/%s/caller-gone/%s", entry, clause) }
	var res []proto.Message
	var err error
	var oneIdx = -1
	p, what := vk.Recover(func() {
		if direct {
			var m proto.Message
			m, oneIdx, err = group.ExecuteOne(ctx, members)
			res = make([]proto.Message, n)
			if err == nil && oneIdx >= 0 && oneIdx < n {
				res[oneIdx] = m
			}
		} else {
			res, err = group.Execute(ctx, st, members)
		}
	})
	r.Eval(1)
	r.Count("caller-gone-scenarios", 1)
	r.Distinct(fmt.Sprintf("callergone|%s|%d|%d|%s", entry, n, bitsOK, mode))
	if p {
		r.Violation(key("panic"), desc+": panicked: "+what, replay)
		return
	}
	isMemberErr := func(e error) int {
		for i := range errs {
			if !ok[i] && e == errs[i] {
				return i
			}
		}
		return -1
	}
	firstOK := -1
	for i := range ok {
		if ok[i] {
			firstOK = i
			break
		}
	}
	mu.Lock()
	triedNow := append([]int{}, tried...)
	mu.Unlock()
	switch stName {
	case "One":
		want := n
		if firstOK >= 0 {
			want = firstOK + 1
		}
		seq := len(triedNow) == want
		for i := 0; seq && i < want; i++ {
			seq = triedNow[i] == i
		}
		if !seq {
			r.Violation(key("members-tried"), fmt.Sprintf("%s: members tried %v, One tries members in order until one succeeds: want 0..%d", desc, triedNow, want-1), replay)
			return
		}
		if firstOK >= 0 {
			if err != nil {
				r.Violation(key("error-despite-success"), fmt.Sprintf("%s: returned error %v although member %d succeeds", desc, err, firstOK), replay)
				return
			}
			for i := range res {
				wantMsg := proto.Message(nil)
				if i == firstOK {
					wantMsg = msgs[i]
				}
				if (wantMsg == nil && res[i] != nil) || (wantMsg != nil && !sameMsg(res[i], wantMsg)) {
					r.Violation(key("result-index"), fmt.Sprintf("%s: result at index %d is %s, want %s (first success is member %d)", desc, i, renderMsg(res[i]), renderMsg(wantMsg), firstOK), replay)
					return
				}
			}
		} else if err != errs[0] {
			r.Violation(key("error"), fmt.Sprintf("%s: every member fails, the first error observed is member 0's, got %v", desc, err), replay)
		}
	case "All", "Most", "Any":
		fails := n - nOK
		wantFail := map[string]bool{"All": fails > 0, "Most": fails*2 > n, "Any": fails == n}[stName]
		if len(triedNow) != n {
			r.Violation(key("members-tried"), fmt.Sprintf("%s: members invoked %v, want all %d", desc, triedNow, n), replay)
			return
		}
		if wantFail != (err != nil) {
			r.Violation(key("verdict"), fmt.Sprintf("%s: %d of %d members fail, error returned: %v", desc, fails, n, err), replay)
			return
		}
		if err != nil && isMemberErr(err) < 0 {
			r.Violation(key("error"), fmt.Sprintf("%s: the error returned (%v) is not the error of a failing member", desc, err), replay)
			return
		}
		if err == nil {
			for i := range ok {
				if ok[i] && (i >= len(res) || !sameMsg(res[i], msgs[i])) {
					r.Violation(key("result-index"), fmt.Sprintf("%s: result at index %d is %s, want member %d's own %s", desc, i, renderMsg(msgAt(res, i)), i, renderMsg(msgs[i])), replay)
					return
				}
			}
		}
	case "Fast":
		if (nOK == 0) != (err != nil) {
			r.Violation(key("verdict"), fmt.Sprintf("%s: %d members succeed, error returned: %v", desc, nOK, err), replay)
			return
		}
		if err != nil && isMemberErr(err) < 0 {
			r.Violation(key("error"), fmt.Sprintf("%s: the error returned (%v) is not the error of a failing member", desc, err), replay)
			return
		}
		if err == nil {
			found := 0
			for i := range res {
				if res[i] == nil {
					continue
				}
				found++
				if !ok[i] || !sameMsg(res[i], msgs[i]) {
					r.Violation(key("result-index"), fmt.Sprintf("%s: result at index %d is %s, which is not that member's successful response", desc, i, renderMsg(res[i])), replay)
					return
				}
			}
			if found != 1 {
				r.Violation(key("result-index"), fmt.Sprintf("%s: %d results reported, want exactly the first success", desc, found), replay)
			}
		}
	case "Race":
		if err != nil {
			if isMemberErr(err) < 0 {
				r.Violation(key("error"), fmt.Sprintf("%s: the error returned (%v) is not the error of a failing member", desc, err), replay)
			}
			return
		}
		found := 0
		for i := range res {
			if res[i] == nil {
				continue
			}
			found++
			if !ok[i] || !sameMsg(res[i], msgs[i]) {
				r.Violation(key("result-index"), fmt.Sprintf("%s: result at index %d is %s, which is not that member's response", desc, i, renderMsg(res[i])), replay)
				return
			}
		}
		if found != 1 {
			r.Violation(key("result-index"), fmt.Sprintf("%s: %d results reported for a successful Race, want 1", desc, found), replay)
		}
	}
}
