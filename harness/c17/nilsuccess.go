package main

import (
	"context"
	"fmt"

	"github.com/smart-core-os/sc-golang/internal/verif/vk"
	"github.com/smart-core-os/sc-golang/pkg/group"
	"google.golang.org/protobuf/proto"
)

// nilSuccess: a member that succeeds WITHOUT a message (nil message, nil error) has succeeded. Every success/failure
// assignment of 1-4 members, all successes message-less, caller's context live, through Execute(All|Most|Any|Fast) and
// ExecuteFast directly; only the verdict (and for ExecuteFast the index) is judged.
func nilSuccess(r *vk.Run) {
	type strat struct {
		name string
		st   group.ExecutionStrategy
	}
	strategies := []strat{{"All", group.ExecutionStrategyAll}, {"Most", group.ExecutionStrategyMost}, {"Any", group.ExecutionStrategyAny}, {"Fast", group.ExecutionStrategyFast}}
	idx := 0
	for n := 1; n <= 4; n++ {
		for bitsOK := 0; bitsOK < 1<<n; bitsOK++ {
			for _, st := range strategies {
				for _, direct := range []bool{false, true} {
					if direct && st.name != "Fast" {
						continue
					}
					idx++
					if !r.Mine(idx) {
						continue
					}
					nilSuccessCase(r, n, bitsOK, st.name, st.st, direct)
				}
			}
		}
	}
	vk.Quiesce()
	r.Require("nil-success-scenarios", 20)
}

func nilSuccessCase(r *vk.Run, n, bitsOK int, stName string, st group.ExecutionStrategy, direct bool) {
	ok := make([]bool, n)
	errs := make([]error, n)
	members := make([]group.Member, n)
	nOK := 0
	for i := 0; i < n; i++ {
		i := i
		ok[i] = bitsOK&(1<<i) != 0
		if ok[i] {
			nOK++
		}
		errs[i] = fmt.Errorf("member %d failed", i)
		members[i] = func(context.Context) (proto.Message, error) {
			if ok[i] {
				return nil, nil
			}
			return nil, errs[i]
		}
	}
	entry := "Execute(" + stName + ")"
	if direct {
		entry = "Execute" + stName
	}
	desc := fmt.Sprintf("%s, %d members, outcomes %s, every success without a message (nil, nil)", entry, n, bits(ok, 'S', 'F'))
	replay := map[string]any{"entry": entry, "members": n, "ok": ok, "success": "nil message"}
	key := func(clause string) string { return fmt.Sprintf("C17/%s/nil-success/%s", entry, clause) }
	var err error
	fastIdx := -1
	p, what := vk.Recover(func() {
		if direct {
			_, fastIdx, err = group.ExecuteFast(context.Background(), members)
		} else {
			_, err = group.Execute(context.Background(), st, members)
		}
	})
	r.Eval(1)
	r.Count("nil-success-scenarios", 1)
	r.Distinct(fmt.Sprintf("nilsuccess|%s|%d|%d", entry, n, bitsOK))
	if p {
		r.Violation(key("panic"), desc+": panicked: "+what, replay)
		return
	}
	fails := n - nOK
	wantFail := map[string]bool{"All": fails > 0, "Most": fails*2 > n, "Any": fails == n, "Fast": fails == n}[stName]
	if wantFail != (err != nil) {
		r.Violation(key("verdict"), fmt.Sprintf("%s: %d of %d members fail, error returned: %v", desc, fails, n, err), replay)
		return
	}
	if direct && err == nil && (fastIdx < 0 || fastIdx >= n || !ok[fastIdx]) {
		r.Violation(key("index"), fmt.Sprintf("%s: index returned %d is not a succeeding member", desc, fastIdx), replay)
	}
}
