// Monitor for C17: group execution honours each strategy's contract.
//
// The worker process started by the driver only enumerates scenarios and folds results; every scenario is
// executed against the real code in a child process of the same binary (childMain), because
//   - quiescence is process-global, so a process runs one scenario at a time,
//   - goroutines the library leaks can never be ended and would make every later goroutine dump slower, so a
//     child that has accumulated leaked goroutines is replaced,
//   - a panic on a goroutine the library starts (trait Group Pull runs group.Execute on its own goroutine) kills
//     the process; the parent turns the death of a child into a violation of the scenario it was running.
package main

import (
	"bufio"
	"bytes"
	"encoding/json"
	"fmt"
	"io"
	"os"
	"os/exec"
	"regexp"
	"strings"
	"sync"

	"github.com/smart-core-os/sc-golang/internal/verif/vk"
	"github.com/smart-core-os/sc-golang/pkg/group"
)

func main() {
	if os.Getenv("C17_CHILD") == "1" {
		childMain()
		return
	}
	vk.Main("C17", run)
}

var execStrategies = []int{
	int(group.ExecutionStrategyUnspecified), int(group.ExecutionStrategyAll), int(group.ExecutionStrategyMost),
	int(group.ExecutionStrategyAny), int(group.ExecutionStrategyOne), int(group.ExecutionStrategyFast),
	int(group.ExecutionStrategyRace), 99, // 99: a value outside the enumeration ("default" branch)
}

var directMethods = []string{"ExecuteAll", "ExecuteMost", "ExecuteAny", "ExecuteOne", "ExecuteFast", "ExecuteRace"}

func run(r *vk.Run) {
	maxN := r.Pick(4, 5)    // exhaustive member counts 0..maxN for every entry point
	maxUpTo := r.Pick(3, 4) // ExecuteUpTo(a), a = 0..n, for n up to this
	bigN := r.Pick(0, 6)    // thorough: n = 6 for Execute(All), Execute(Fast), Execute(Race)
	randomN := r.Pick(2000, 100000)
	r.Describe(fmt.Sprintf("exhaustive: every entry point of pkg/group (Execute x {Unspecified, All, Most, Any, One, Fast, Race, out-of-range}, ExecuteAll/Most/Any/One/Fast/Race; ExecuteUpTo(a) for a=0..n, n<=%d) "+
		"x member count 0..%d x every success/failure assignment x every completion order (members gated by channels released one at a time with a quiescence test in between; One only has its forced order) "+
		"x {no member watches its context, every member watches it}; onoffpb.Group and lightpb.Group Get/Update/Pull with fake member clients, 0..3 members, every strategy, every assignment and order; "+
		"random: %d scenarios with 1..8 members, mixed cancellation-aware members, random entry point, and in 1 of 8 the caller's context cancelled mid-way. "+
		"A case is distinct by (entry point, n, assignment, order, awareness, caller-cancel step); every case executes the real call and is compared with a contract evaluator written from the property statement.", maxUpTo, maxN, randomN),
		"completion order = order in which member functions return; the harness releases one gate per quiescent point so it is an input, except for members that return on their own after their context was cancelled (this happens only after the outcome is decided)",
		"a failing member answers (nil, unique error); a succeeding member answers (unique message, nil); the nil-success scenarios add members that succeed without a message (nil, nil), judged on the verdict only",
		"where a threshold strategy (Most/Any/UpTo) can no longer fail but members are still running, the statement is read as leaving cancellation open: both behaviours are accepted and counted",
		"verdict for an empty group under Any/One/Fast/Race is not fixed by the statement (only that it must not panic): both are accepted and counted",
		"Unspecified / out-of-range strategy: must satisfy the contract of at least one strategy",
		"hang and leak are decided from goroutine state at a quiescent point, never from elapsed time")

	// group Pull with members that deliver values (in this process, before the child pool exists)
	if r.Only == "" || strings.Contains(r.Only, "pull-with-values") {
		pullWithValues(r)
	}
	if r.Only == "" || strings.Contains(r.Only, "caller-gone") {
		callerGone(r)
		nilSuccess(r)
	}

	p := &pool{r: r}
	defer p.stop()
	i := 0
	emit := func(class string, sp Spec) {
		sp.I = i
		i++
		if !r.Mine(sp.I) {
			return
		}
		if !r.Selected("C17/" + sp.Entry() + "/") {
			return
		}
		if sp.N >= 2 && r.WantSample(class) {
			sp.Sample = true
		}
		p.run(class, &sp)
	}

	// ---- exhaustive: pkg/group ----
	exhaustive := 0
	for n := 0; n <= max(maxN, bigN); n++ {
		perms := permutations(n)
		for _, st := range execStrategies {
			if n > maxN && st != int(group.ExecutionStrategyAll) && st != int(group.ExecutionStrategyFast) && st != int(group.ExecutionStrategyRace) {
				continue // beyond maxN only one threshold strategy and the two early-return strategies
			}
			exhaustive += enumerate(n, perms, group.ExecutionStrategy(st) == group.ExecutionStrategyOne, func(ok []bool, order []int, aware []bool) {
				emit("exec", Spec{Target: "exec", Method: "Execute", Strat: st, N: n, Ok: ok, Order: order, Aware: aware, PCancel: -1})
			})
		}
		if n > maxN {
			continue
		}
		for _, meth := range directMethods {
			exhaustive += enumerate(n, perms, meth == "ExecuteOne", func(ok []bool, order []int, aware []bool) {
				emit("exec", Spec{Target: "exec", Method: meth, N: n, Ok: ok, Order: order, Aware: aware, PCancel: -1})
			})
		}
		if n <= maxUpTo {
			for a := 0; a <= n; a++ {
				exhaustive += enumerate(n, perms, false, func(ok []bool, order []int, aware []bool) {
					emit("exec", Spec{Target: "exec", Method: "ExecuteUpTo", Allowed: a, N: n, Ok: ok, Order: order, Aware: aware, PCancel: -1})
				})
			}
		}
	}

	// ---- exhaustive: trait groups ----
	for _, target := range []string{"onoffpb", "lightpb"} {
		for _, meth := range []string{"Get", "Update", "Pull"} {
			for _, st := range execStrategies[:7] {
				for n := 0; n <= 3; n++ {
					perms := permutations(n)
					one := group.ExecutionStrategy(st) == group.ExecutionStrategyOne
					exhaustive += enumerate(n, perms, one, func(ok []bool, order []int, aware []bool) {
						if meth == "Pull" {
							for _, v := range ok {
								if v {
									return // a Pull member can only end with an error
								}
							}
						}
						emit("trait-group", Spec{Target: target, Method: meth, Strat: st, N: n, Ok: ok, Order: order, Aware: aware, PCancel: -1})
					})
				}
			}
		}
	}
	r.Note("bounded space enumerated completely: %d scenarios over all workers (member counts 0..%d, trait groups 0..3)", exhaustive, maxN)

	// ---- random ----
	for k := 0; k < randomN; k++ {
		rng := r.CaseRand("random", k)
		emit("random", randomSpec(rng))
	}

	if r.Only == "" {
		r.Require("scenarios", r.Pick(10000, 400000))
		r.Require("scenarios/exec", r.Pick(8000, 300000))
		r.Require("scenarios/trait-group", 2000)
		r.Require("scenarios/random", randomN*9/10)
		r.Require("planned-order-realised", r.Pick(8000, 300000))
		r.Require("cancelled-after-decision", 1000)
		r.Require("live-context-while-open", 1000)
		r.Require("quiescent-points-after-early-return", 500)
		r.Require("caller-cancelled", r.Pick(100, 5000))
		r.Require("scenarios/n0", 30)
	}
}

// enumerate calls f for every success/failure assignment x completion order x awareness mode of n members and
// returns the number of combinations. With forcedOrder only the identity order is used.
func enumerate(n int, perms [][]int, forcedOrder bool, f func(ok []bool, order []int, aware []bool)) int {
	cnt := 0
	for mask := 0; mask < 1<<n; mask++ {
		for pi, perm := range perms {
			if forcedOrder && pi > 0 {
				break
			}
			for mode := 0; mode < 2; mode++ {
				if n == 0 && mode == 1 {
					continue
				}
				ok := make([]bool, n)
				aware := make([]bool, n)
				for m := 0; m < n; m++ {
					ok[m] = mask&(1<<m) != 0
					aware[m] = mode == 1
				}
				f(ok, append([]int(nil), perm...), aware)
				cnt++
			}
		}
	}
	return cnt
}

// permutations returns all permutations of 0..n-1 in lexicographic order (the identity first).
func permutations(n int) [][]int {
	var out [][]int
	cur := make([]int, 0, n)
	used := make([]bool, n)
	var rec func()
	rec = func() {
		if len(cur) == n {
			out = append(out, append([]int(nil), cur...))
			return
		}
		for v := 0; v < n; v++ {
			if !used[v] {
				used[v] = true
				cur = append(cur, v)
				rec()
				cur = cur[:len(cur)-1]
				used[v] = false
			}
		}
	}
	rec()
	return out
}

func randomSpec(rng *vk.Rand) Spec {
	n := rng.Range(1, 8)
	sp := Spec{N: n, PCancel: -1, Order: rng.Perm(n), Ok: make([]bool, n), Aware: make([]bool, n)}
	// success probability per scenario, so that all-fail / all-succeed / mixed vectors all occur for larger n
	pOk := []int{0, 1, 2, 4, 6, 7, 8}[rng.Intn(7)]
	for m := 0; m < n; m++ {
		sp.Ok[m] = rng.Chance(pOk, 8)
		sp.Aware[m] = rng.Bool()
	}
	if rng.Chance(1, 8) {
		sp.PCancel = rng.Range(0, n)
	}
	switch x := rng.Intn(10); {
	case x < 5:
		sp.Target, sp.Method = "exec", "Execute"
		sp.Strat = execStrategies[rng.Intn(len(execStrategies))]
	case x < 7:
		sp.Target, sp.Method = "exec", directMethods[rng.Intn(len(directMethods))]
	case x < 8:
		sp.Target, sp.Method = "exec", "ExecuteUpTo"
		sp.Allowed = rng.Range(0, n)
	default:
		sp.Target = rng.PickStr("onoffpb", "lightpb")
		sp.Method = rng.PickStr("Get", "Update", "Pull")
		sp.Strat = execStrategies[rng.Intn(7)]
		if sp.Method == "Pull" {
			for m := range sp.Ok {
				sp.Ok[m] = false
			}
		}
	}
	return sp
}

// ---- child process pool (one child at a time per worker) ----

type capBuf struct {
	mu sync.Mutex
	b  bytes.Buffer
}

func (c *capBuf) Write(p []byte) (int, error) {
	c.mu.Lock()
	defer c.mu.Unlock()
	if c.b.Len() < 1<<20 {
		c.b.Write(p)
	}
	return len(p), nil
}

func (c *capBuf) String() string { c.mu.Lock(); defer c.mu.Unlock(); return c.b.String() }

type pool struct {
	r    *vk.Run
	cmd  *exec.Cmd
	in   io.WriteCloser
	out  *bufio.Reader
	errb *capBuf

	started int
	served  int
}

func (p *pool) start() error {
	self, err := os.Executable()
	if err != nil {
		return err
	}
	cmd := exec.Command(self)
	cmd.Env = append(os.Environ(), "C17_CHILD=1", "GOTRACEBACK=all")
	// executors alternate between one and four Ps: with one P quiescence is reached by a single yield (cheap),
	// with four the members, the collector loop and the closer really run in parallel
	p.started++
	p.served = 0
	procs := "4"
	if p.started%2 == 1 {
		procs = "1"
	}
	if v := os.Getenv("C17_PROCS"); v != "" {
		procs = v
	}
	cmd.Env = append(cmd.Env, "GOMAXPROCS="+procs)
	p.errb = &capBuf{}
	cmd.Stderr = p.errb
	in, err := cmd.StdinPipe()
	if err != nil {
		return err
	}
	out, err := cmd.StdoutPipe()
	if err != nil {
		return err
	}
	if err := cmd.Start(); err != nil {
		return err
	}
	p.cmd, p.in, p.out = cmd, in, bufio.NewReaderSize(out, 1<<16)
	p.r.Count("child-processes", 1)
	return nil
}

func (p *pool) stop() {
	if p.cmd == nil {
		return
	}
	_ = p.in.Close()
	_ = p.cmd.Wait()
	p.cmd = nil
}

var panicLine = regexp.MustCompile(`(?m)^(panic: .*|fatal error: .*)$`)

func (p *pool) run(class string, sp *Spec) {
	r := p.r
	if p.cmd == nil {
		if err := p.start(); err != nil {
			r.Inconclusive("child-start", err.Error())
			return
		}
	}
	b, _ := json.Marshal(sp)
	b = append(b, '\n')
	_, werr := p.in.Write(b)
	var line []byte
	var rerr error
	if werr == nil {
		line, rerr = p.out.ReadBytes('\n')
	}
	var oc Outcome
	if werr != nil || rerr != nil || json.Unmarshal(line, &oc) != nil || oc.I != sp.I {
		// the child died while running this scenario
		_ = p.in.Close()
		_ = p.cmd.Wait()
		p.cmd = nil
		txt := p.errb.String()
		r.Eval(1)
		r.Count("scenarios", 1)
		r.Count("scenarios/"+class, 1)
		r.Count("child-deaths", 1)
		r.Distinct(sp.Desc())
		if loc := panicLine.FindStringIndex(txt); loc != nil {
			end := min(len(txt), loc[0]+3500)
			r.Violation(sp.Key("panic"), "scenario "+sp.Desc()+"\nthe process died while the scenario ran (a panic on a goroutine the library started cannot be recovered by the caller):\n"+txt[loc[0]:end], sp)
		} else {
			r.Inconclusive("child-died/"+sp.Entry(), "executor process ended without a panic trace while running "+sp.Desc()+": "+tail(txt, 1500))
		}
		return
	}
	r.Eval(1)
	r.Distinct(sp.Desc())
	r.Count("scenarios", 1)
	r.Count("scenarios/"+class, 1)
	if sp.N == 0 {
		r.Count("scenarios/n0", 1)
	}
	r.Count("quiescent-points", oc.Quiet)
	for k, v := range oc.Counts {
		r.Count(k, v)
	}
	if oc.Inconclusive != "" {
		r.Inconclusive("quiesce-watchdog/"+sp.Entry(), sp.Desc()+": "+oc.Inconclusive)
	}
	for _, f := range oc.Findings {
		r.Violation(sp.Key(f.Clause), "scenario "+sp.Desc()+"\n"+f.Detail+"\nobserved: "+oc.Trace+"\nreturned: "+oc.Result, sp)
	}
	if sp.Sample && len(oc.Findings) == 0 {
		r.Sample(class, map[string]any{"scenario": sp.Desc(), "observed": oc.Trace, "returned": oc.Result})
	}
	p.served++
	if oc.Recycle || p.served >= 250 {
		p.stop()
	}
}

func tail(s string, n int) string {
	if len(s) > n {
		return s[len(s)-n:]
	}
	return s
}
