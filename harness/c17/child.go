package main

import (
	"bufio"
	"context"
	"encoding/json"
	"fmt"
	"io"
	"log"
	"os"
	"strings"

	"github.com/smart-core-os/sc-golang/internal/verif/vk"
)

// recycleAt is the number of goroutines alive after a scenario beyond which the child asks to be replaced:
// goroutines leaked by the library can never be ended, and every quiescence test dumps all of them.
const recycleAt = 48

// childMain is the scenario executor: it reads one Spec per line on stdin, runs it against the real code on
// this process (one scenario at a time, because quiescence is process-global) and answers with one Outcome per
// line on stdout. The main goroutine is the only harness goroutine besides those of the scenario.
func childMain() {
	log.SetOutput(io.Discard)
	in := bufio.NewReaderSize(os.Stdin, 1<<16)
	out := bufio.NewWriter(os.Stdout)
	enc := json.NewEncoder(out)
	for {
		line, err := in.ReadBytes('\n')
		if len(line) > 0 {
			var sp Spec
			if jerr := json.Unmarshal(line, &sp); jerr != nil {
				fmt.Fprintln(os.Stderr, "child: bad spec:", jerr)
				os.Exit(4)
			}
			oc := runScenario(&sp)
			_ = enc.Encode(oc)
			_ = out.Flush()
			if oc.Recycle {
				os.Exit(0)
			}
		}
		if err != nil {
			os.Exit(0)
		}
	}
}

// runScenario drives one scenario: it starts the call under test on its own goroutine, then repeatedly waits for
// quiescence, records what is observable there (has the call returned, which members are running, whose
// context is cancelled) and releases the next member of the planned order. Completion order is therefore an
// input. The final quiescent point (nothing left to release) decides hang and leak from goroutine state.
func runScenario(sp *Spec) *Outcome {
	oc := &Outcome{I: sp.I, Counts: map[string]int{}}
	gs0, ok := vk.Quiesce()
	oc.Quiet++
	if !ok {
		oc.Inconclusive = "process not quiescent before the scenario: " + vk.DescribeGs(gs0)
		oc.Recycle = true
		return oc
	}
	base := vk.IDs(gs0)

	a := newArena(sp)
	ctx, cancel := context.WithCancel(context.Background())
	defer cancel()

	var (
		res      callRes
		panicked bool
		what     string
	)
	task := vk.Go(func() {
		panicked, what = vk.Recover(func() { res = invoke(sp, a, ctx) })
	})

	released := 0
	pcancelled := false
	var final []vk.G
	for {
		gs, ok := vk.Quiesce()
		oc.Quiet++
		if !ok {
			oc.Inconclusive = "quiescence watchdog fired during the scenario: " + vk.DescribeGs(gs)
			oc.Recycle = true
			return oc
		}
		final = gs
		a.quiet(task.Done())
		if sp.PCancel == released && !pcancelled {
			pcancelled = true
			a.add(ev{K: "pcancel"})
			cancel()
			oc.Counts["caller-cancelled"]++
			continue
		}
		m := a.next()
		if m < 0 {
			break
		}
		a.release(m)
		released++
	}

	o := &obs{sp: sp, returned: task.Done()}
	o.log, o.starts, o.retMsg, o.retErr = a.snapshot()
	if o.returned {
		o.res, o.panicked, o.what = res, panicked, what // task.done was closed after these were written
	}
	if o.returned {
		var leaked []vk.G
		for _, g := range final {
			if !base[g.ID] && g.Has("sc-golang/pkg/") {
				leaked = append(leaked, g)
			}
		}
		if len(leaked) > 0 {
			o.leaked = vk.DescribeGs(leaked)
			oc.Counts["leaked-goroutines"] += len(leaked)
		}
	}

	findings, counts := evaluate(o)
	oc.Findings = findings
	for k, v := range counts {
		oc.Counts[k] += v
	}

	// measured facts about what the scenario exercised
	var retOrder []int
	for _, e := range o.log {
		if e.K == "ret" {
			retOrder = append(retOrder, e.M)
		}
	}
	if sameOrderUntilCancel(o.log, sp.Order) {
		oc.Counts["planned-order-realised"]++
	}
	if len(retOrder) > 0 {
		oc.Counts["member-returns"] += len(retOrder)
	}
	if o.panicked {
		oc.Counts["panics-recovered"]++
	}
	if !o.returned {
		oc.Counts["hangs"]++
		// try to unwind what can be unwound, the process is replaced afterwards anyway
		cancel()
		vk.Quiesce()
		oc.Quiet++
		oc.Recycle = true
	}

	if len(oc.Findings) > 0 || sp.Sample {
		oc.Trace = trace(o.log)
		switch {
		case !o.returned:
			oc.Result = "<call did not return>"
		case o.panicked:
			oc.Result = "<panic> " + firstLine(o.what)
		default:
			oc.Result = o.res.String()
		}
	}
	if len(final) > recycleAt {
		oc.Recycle = true
	}
	return oc
}

// sameOrderUntilCancel reports whether the members that were released by the harness returned in exactly the
// order the scenario planned (members that returned on their own because of a cancellation are not part of it).
func sameOrderUntilCancel(log []ev, order []int) bool {
	var rel, ret []int
	for _, e := range log {
		switch {
		case e.K == "rel":
			rel = append(rel, e.M)
		case e.K == "ret" && !e.Cancelled:
			ret = append(ret, e.M)
		}
	}
	if len(rel) != len(ret) || len(rel) == 0 {
		return false
	}
	for i := range rel {
		if rel[i] != ret[i] {
			return false
		}
	}
	// rel is a subsequence of the planned order by construction
	return true
}

func firstLine(s string) string {
	if i := strings.IndexByte(s, '\n'); i >= 0 {
		return s[:i]
	}
	return s
}
