package main

import (
	"bufio"
	"context"
	"encoding/json"
	"fmt"
	"io"
	"log"
	"os"
	"runtime"
	"strings"
	"time"

	"github.com/smart-core-os/sc-golang/internal/verif/vk"
)

// recycleAt is the number of goroutines alive after a scenario beyond which the child asks to be replaced:
// goroutines leaked by the library can never be ended, and every quiescence test dumps all of them.
const recycleAt = 48

// childMain is the scenario executor: it reads one Spec per line on stdin, runs it against the real code on
// this process (one scenario at a time, because quiescence is process-global) and answers with one Outcome per
// line on stdout. The main goroutine is the only harness goroutine besides those of the scenario.
func childMain() {
	log.SetOutput(io.Discard)
	in := bufio.NewReaderSize(os.Stdin, 1<<16)
	out := bufio.NewWriter(os.Stdout)
	enc := json.NewEncoder(out)
	for {
		line, err := in.ReadBytes('\n')
		if len(line) > 0 {
			var sp Spec
			if jerr := json.Unmarshal(line, &sp); jerr != nil {
				fmt.Fprintln(os.Stderr, "child: bad spec:", jerr)
				os.Exit(4)
			}
			oc := runScenario(&sp)
			_ = enc.Encode(oc)
			_ = out.Flush()
			if oc.Recycle {
				os.Exit(0)
			}
		}
		if err != nil {
			os.Exit(0)
		}
	}
}

// runScenario drives one scenario: it starts the call under test on its own goroutine, then repeatedly waits for
// quiescence, records what is observable there (has the call returned, which members are running, whose
// context is cancelled) and releases the next member of the planned order. Completion order is therefore an
// input. The final quiescent point (nothing left to release) decides hang and leak from goroutine state.
func runScenario(sp *Spec) *Outcome {
	oc := &Outcome{I: sp.I, Counts: map[string]int{}}
	gs0, ok := quiesce(oc)
	oc.Quiet++
	if !ok {
		oc.Inconclusive = "process not quiescent before the scenario: " + vk.DescribeGs(gs0)
		oc.Recycle = true
		return oc
	}
	base := vk.IDs(gs0)

	a := newArena(sp)
	ctx, cancel := context.WithCancel(context.Background())
	defer cancel()

	var (
		res      callRes
		panicked bool
		what     string
	)
	task := vk.Go(func() {
		panicked, what = vk.Recover(func() { res = invoke(sp, a, ctx) })
	})

	released := 0
	hangChecks := 0
	pcancelled := false
	var final []vk.G
	for {
		gs, ok := quiesce(oc)
		oc.Quiet++
		if !ok {
			oc.Inconclusive = "quiescence watchdog fired during the scenario: " + vk.DescribeGs(gs)
			oc.Recycle = true
			return oc
		}
		final = gs
		a.quiet(task.Done())
		if sp.PCancel == released && !pcancelled {
			pcancelled = true
			a.add(ev{K: "pcancel"})
			cancel()
			oc.Counts["caller-cancelled"]++
			continue
		}
		m := a.next()
		if m < 0 {
			if !task.Done() && hangChecks < 3 {
				// nothing left to release and the call has not returned: a hang is a stable state, so it must be
				// observed again, unchanged, at further quiescent points before it is reported
				hangChecks++
				runtime.Gosched()
				time.Sleep(100 * time.Microsecond)
				continue
			}
			break
		}
		if hangChecks > 0 {
			oc.Counts["hang-suspicion-withdrawn"]++
			hangChecks = 0
		}
		a.release(m)
		released++
	}

	if hangChecks > 0 && task.Done() {
		oc.Counts["hang-suspicion-withdrawn"]++
	}
	o := &obs{sp: sp, returned: task.Done()}
	if !o.returned {
		o.hangDump = fullDump(final, base)
	}
	o.log, o.starts, o.retMsg, o.retErr = a.snapshot()
	if o.returned {
		o.res, o.panicked, o.what = res, panicked, what // task.done was closed after these were written
	}
	if o.returned {
		var leaked []vk.G
		for _, g := range final {
			if !base[g.ID] && g.Has("sc-golang/pkg/") {
				leaked = append(leaked, g)
			}
		}
		if len(leaked) > 0 {
			o.leaked = vk.DescribeGs(leaked)
			oc.Counts["leaked-goroutines"] += len(leaked)
		}
	}

	findings, counts := evaluate(o)
	oc.Findings = findings
	for k, v := range counts {
		oc.Counts[k] += v
	}

	// measured facts about what the scenario exercised
	var retOrder []int
	for _, e := range o.log {
		if e.K == "ret" {
			retOrder = append(retOrder, e.M)
		}
	}
	if sameOrderUntilCancel(o.log, sp.Order) {
		oc.Counts["planned-order-realised"]++
	}
	if len(retOrder) > 0 {
		oc.Counts["member-returns"] += len(retOrder)
	}
	if o.panicked {
		oc.Counts["panics-recovered"]++
	}
	if !o.returned {
		oc.Counts["hangs"]++
		// try to unwind what can be unwound, the process is replaced afterwards anyway
		cancel()
		quiesce(oc)
		oc.Quiet++
		oc.Recycle = true
	}

	if len(oc.Findings) > 0 || sp.Sample {
		oc.Trace = trace(o.log)
		switch {
		case !o.returned:
			oc.Result = "<call did not return>"
		case o.panicked:
			oc.Result = "<panic> " + firstLine(o.what)
		default:
			oc.Result = o.res.String()
		}
	}
	if len(final) > recycleAt {
		oc.Recycle = true
	}
	return oc
}

// sameOrderUntilCancel reports whether the members that were released by the harness returned in exactly the
// order the scenario planned (members that returned on their own because of a cancellation are not part of it).
func sameOrderUntilCancel(log []ev, order []int) bool {
	var rel, ret []int
	for _, e := range log {
		switch {
		case e.K == "rel":
			rel = append(rel, e.M)
		case e.K == "ret" && !e.Cancelled:
			ret = append(ret, e.M)
		}
	}
	if len(rel) != len(ret) || len(rel) == 0 {
		return false
	}
	for i := range rel {
		if rel[i] != ret[i] {
			return false
		}
	}
	// rel is a subsequence of the planned order by construction
	return true
}

func firstLine(s string) string {
	if i := strings.IndexByte(s, '\n'); i >= 0 {
		return s[:i]
	}
	return s
}

// fullDump renders the goroutines that are not in the baseline with all their frames.
func fullDump(gs []vk.G, base map[int]bool) string {
	var sb strings.Builder
	for _, g := range gs {
		if base[g.ID] {
			continue
		}
		fmt.Fprintf(&sb, "g%d [%s] created by %s:", g.ID, g.State, g.Created)
		for _, f := range g.Funcs {
			sb.WriteString(" " + f)
		}
		sb.WriteString("\n")
	}
	return sb.String()
}

// quiesce is vk.Quiesce plus one more requirement: a goroutine in state "semacquire" must be parked in a
// sync-package semaphore (sync.WaitGroup.Wait and friends, visible as sync.runtime_Semacquire* on top of its
// stack). The runtime also parks goroutines in "semacquire" on its own semaphores (gcsema, worldsema,
// work.startSema: a goroutine whose allocation starts a GC cycle waits there for the previous cycle's
// termination, which runs on a hidden system goroutine, or for the stop-the-world of the observer's own dump).
// Such a goroutine continues by itself, so the state is not quiescent even though every visible goroutine looks
// blocked. Runtime frames are elided from the dump, so the distinction is made on the innermost visible frame.
func quiesce(oc *Outcome) ([]vk.G, bool) {
	for {
		gs, ok := vk.Quiesce()
		if !ok {
			return gs, false
		}
		if !settled(gs) {
			oc.Counts["quiesce/runtime-semaphore-wait-rejected"]++
			runtime.Gosched()
			time.Sleep(50 * time.Microsecond) // lets the hidden runtime goroutine finish; never decides anything
			continue
		}
		// One more observation after yielding: the same goroutines must still be parked in the same states.
		// (A quiescent state cannot change by itself, so this costs one dump and can only make the oracle slower,
		// never wrong; it is counted so that the evidence shows whether vk.Quiesce was ever contradicted.)
		runtime.Gosched()
		again := vk.Goroutines()
		if settled(again) && sameStates(gs, again) {
			return again, true
		}
		oc.Counts["quiesce/contradicted-by-reobservation"]++
	}
}

func settled(gs []vk.G) bool {
	for _, g := range gs {
		if !g.Blocked() {
			return false
		}
		if g.State != "semacquire" {
			continue
		}
		if len(g.Funcs) > 0 && (strings.HasPrefix(g.Funcs[0], "sync.runtime_Semacquire") || strings.HasPrefix(g.Funcs[0], "internal/poll.runtime_Semacquire")) {
			continue
		}
		return false
	}
	return true
}

func sameStates(a, b []vk.G) bool {
	if len(a) != len(b) {
		return false
	}
	for i := range a {
		if a[i].ID != b[i].ID || a[i].State != b[i].State || len(a[i].Funcs) != len(b[i].Funcs) {
			return false
		}
	}
	return true
}
