package main

import (
	"context"
	"fmt"
	"strings"
	"sync"

	"google.golang.org/protobuf/proto"
)

// ev is one entry of the scenario's event log (appended under arena.mu, in real order).
type ev struct {
	K         string // start, ret, rel, quiet, pcancel, badname
	M         int
	Ok        bool  // ret: the member answered with a success
	Cancelled bool  // ret: the member returned because its context was cancelled
	Returned  bool  // quiet: the call under test has returned
	Gated     []int // quiet: members that were started and have not returned
	CtxDone   []int // quiet: those of Gated whose context is cancelled
}

// memberErr is the unique error value of one member.
type memberErr struct {
	m     int
	what  string
	cause error
}

func (e *memberErr) Error() string {
	if e.cause != nil {
		return fmt.Sprintf("member %d %s: %v", e.m, e.what, e.cause)
	}
	return fmt.Sprintf("member %d %s", e.m, e.what)
}
func (e *memberErr) Unwrap() error { return e.cause }

// arena holds the gates and the observations of one scenario. Everything the harness reads after a quiescent
// point is guarded by mu (quiescence is not a happens-before edge).
type arena struct {
	sp *Spec

	mu       sync.Mutex
	gates    []chan struct{}
	starts   []int
	returned []bool
	released []bool
	ctxs     []context.Context
	retMsg   []proto.Message
	retErr   []error
	log      []ev
}

func newArena(sp *Spec) *arena {
	a := &arena{sp: sp}
	n := sp.N
	a.gates = make([]chan struct{}, n)
	for i := range a.gates {
		a.gates[i] = make(chan struct{})
	}
	a.starts = make([]int, n)
	a.returned = make([]bool, n)
	a.released = make([]bool, n)
	a.ctxs = make([]context.Context, n)
	a.retMsg = make([]proto.Message, n)
	a.retErr = make([]error, n)
	return a
}

func (a *arena) add(e ev) {
	a.mu.Lock()
	a.log = append(a.log, e)
	a.mu.Unlock()
}

// begin records that member m was invoked with ctx.
func (a *arena) begin(m int, ctx context.Context) {
	a.mu.Lock()
	a.starts[m]++
	a.ctxs[m] = ctx
	a.returned[m] = false
	a.log = append(a.log, ev{K: "start", M: m})
	a.mu.Unlock()
}

// await blocks member m until the harness releases its gate or, for a cancellation-aware member, until its
// context is cancelled; it reports which of the two happened.
func (a *arena) await(m int, ctx context.Context) (cancelled bool) {
	if a.sp.Aware[m] {
		select {
		case <-a.gates[m]:
			return false
		case <-ctx.Done():
			return true
		}
	}
	<-a.gates[m]
	return false
}

// leave records what member m is about to return.
func (a *arena) leave(m int, ok, cancelled bool, msg proto.Message, err error) {
	a.mu.Lock()
	a.returned[m] = true
	a.retMsg[m] = msg
	a.retErr[m] = err
	a.log = append(a.log, ev{K: "ret", M: m, Ok: ok, Cancelled: cancelled})
	a.mu.Unlock()
}

// answer runs member m up to its answer: (true,false) success, (false,false) failure, (false,true) cancelled.
func (a *arena) answer(m int, ctx context.Context) (ok, cancelled bool) {
	a.begin(m, ctx)
	if a.await(m, ctx) {
		return false, true
	}
	return a.sp.Ok[m], false
}

func (a *arena) failErr(m int) error { return &memberErr{m: m, what: "failed"} }
func (a *arena) cancelErr(m int, ctx context.Context) error {
	return &memberErr{m: m, what: "saw its context cancelled", cause: ctx.Err()}
}

// quiet records a quiescent point.
func (a *arena) quiet(returned bool) {
	a.mu.Lock()
	defer a.mu.Unlock()
	e := ev{K: "quiet", Returned: returned}
	for m := 0; m < a.sp.N; m++ {
		if a.starts[m] > 0 && !a.returned[m] {
			e.Gated = append(e.Gated, m)
			if a.ctxs[m] != nil && a.ctxs[m].Err() != nil {
				e.CtxDone = append(e.CtxDone, m)
			}
		}
	}
	a.log = append(a.log, e)
}

// next returns the first member in the planned order that is started, still gated and not yet released, or -1.
func (a *arena) next() int {
	a.mu.Lock()
	defer a.mu.Unlock()
	for _, m := range a.sp.Order {
		if a.starts[m] > 0 && !a.returned[m] && !a.released[m] {
			return m
		}
	}
	return -1
}

func (a *arena) release(m int) {
	a.mu.Lock()
	a.released[m] = true
	a.log = append(a.log, ev{K: "rel", M: m})
	a.mu.Unlock()
	close(a.gates[m])
}

func (a *arena) snapshot() ([]ev, []int, []proto.Message, []error) {
	a.mu.Lock()
	defer a.mu.Unlock()
	return append([]ev(nil), a.log...), append([]int(nil), a.starts...), append([]proto.Message(nil), a.retMsg...), append([]error(nil), a.retErr...)
}

func trace(log []ev) string {
	var sb strings.Builder
	for _, e := range log {
		switch e.K {
		case "start":
			fmt.Fprintf(&sb, "start%d ", e.M)
		case "rel":
			fmt.Fprintf(&sb, "release%d ", e.M)
		case "ret":
			switch {
			case e.Cancelled:
				fmt.Fprintf(&sb, "ret%d(cancelled) ", e.M)
			case e.Ok:
				fmt.Fprintf(&sb, "ret%d(ok) ", e.M)
			default:
				fmt.Fprintf(&sb, "ret%d(fail) ", e.M)
			}
		case "pcancel":
			sb.WriteString("caller-cancels ")
		case "badname":
			sb.WriteString("call-with-foreign-name ")
		case "quiet":
			fmt.Fprintf(&sb, "| quiet{returned=%v gated=%v ctxDone=%v} | ", e.Returned, e.Gated, e.CtxDone)
		}
	}
	return sb.String()
}
