package main

import (
	"errors"
	"fmt"

	"google.golang.org/protobuf/proto"
)

// obs is everything observed in one scenario.
type obs struct {
	sp       *Spec
	log      []ev
	starts   []int
	retMsg   []proto.Message
	retErr   []error
	res      callRes
	returned bool // the call under test returned (or panicked) before the final quiescent point
	panicked bool
	what     string
	leaked   string
	hangDump string
}

type checker struct {
	o      *obs
	s      sem
	out    []Finding
	counts map[string]int
}

func (c *checker) fail(clause, format string, a ...any) {
	for _, f := range c.out {
		if f.Clause == clause {
			return // one finding per clause and scenario
		}
	}
	c.out = append(c.out, Finding{Clause: clause, Detail: fmt.Sprintf(format, a...)})
}

func sameErr(got, want error) bool {
	return got != nil && want != nil && (got == want || errors.Is(got, want))
}

func sameMsg(got, want proto.Message) bool {
	return got != nil && want != nil && proto.Equal(got, want)
}

// evaluate decides the scenario: the clauses that do not depend on the strategy (panic, hang, leak) plus the
// contract of the strategy. For the unspecified strategy ("implementation will choose") the observation must
// satisfy the contract of at least one strategy.
func evaluate(o *obs) ([]Finding, map[string]int) {
	counts := map[string]int{}
	var out []Finding
	if o.panicked {
		out = append(out, Finding{"panic", "the call panicked on the caller's goroutine: " + o.what})
	}
	if !o.returned {
		out = append(out, Finding{"hang", "every started member has returned and the process is quiescent, but the call has not returned; goroutines of the scenario:\n" + o.hangDump})
	}
	if o.leaked != "" {
		out = append(out, Finding{"leak", "goroutines with library frames at the quiescent point after every gate was released and the call returned:\n" + o.leaked})
	}
	s := o.sp.Sem()
	if s.kind != kUnspecified {
		c := &checker{o: o, s: s, counts: counts}
		c.run()
		return append(out, c.out...), counts
	}
	var first *checker
	for _, cand := range []sem{semAll, semMost, semAny, semOne, semFast, semRace} {
		c := &checker{o: o, s: cand, counts: map[string]int{}}
		c.run()
		if first == nil {
			first = c
		}
		if len(c.out) == 0 {
			counts["unspecified-behaves-as/"+cand.name]++
			for k, v := range c.counts {
				counts[k] += v
			}
			return out, counts
		}
	}
	for _, f := range first.out {
		f.Detail = "matches the contract of no strategy; against All: " + f.Detail
		out = append(out, f)
	}
	return out, counts
}

// decided reports, from what has been observed so far, whether the outcome is decided in a way that obliges the
// remaining members' contexts to be cancelled (req: a failure outcome, or the call has returned), or decided in
// a way for which the statement leaves cancellation open (opt: a threshold strategy that can no longer fail
// while members are still running).
func (c *checker) decided(succ, fail, rets int, callReturned bool) (req, opt bool) {
	n := c.o.sp.N
	switch c.s.kind {
	case kThreshold:
		req = c.s.fails(fail, n)
		opt = !c.s.fails(n-succ, n)
	case kFast:
		req = succ >= 1
	case kRace:
		req = rets >= 1
	}
	if callReturned {
		req = true
	}
	return
}

func (c *checker) run() {
	o, sp := c.o, c.o.sp
	n := sp.N
	var (
		succ, fail   int
		retOrder     []int
		okOf         = make([]bool, n)
		retd         = make([]bool, n)
		running      int
		parentCancel bool
		callReturned bool
		seenStart    = make([]bool, n)
		firstSucc    = -1
		firstFail    = -1
		// Members that return on their own because the caller cancelled its context do so concurrently: the
		// order in which the harness logged them is not the order in which the call under test observed them.
		// unordered marks those returns, retIval the interval between two quiescent points they fall into.
		interval  = 0
		retIval   = make([]int, n)
		unordered = make([]bool, n)
	)
	for _, e := range o.log {
		switch e.K {
		case "pcancel":
			parentCancel = true
		case "badname":
			c.fail("calls", "a member client was called with a name that is not a member of the group")
		case "start":
			if seenStart[e.M] {
				c.fail("calls", "member %d was invoked more than once", e.M)
			}
			seenStart[e.M] = true
			if c.s.kind == kOne {
				switch {
				case running > 0:
					c.fail("order", "member %d was started while another member was still running", e.M)
				case firstSucc >= 0:
					c.fail("order", "member %d was started after member %d had already succeeded", e.M, firstSucc)
				case e.M != len(retOrder):
					c.fail("order", "member %d was tried when member %d was next in order", e.M, len(retOrder))
				}
			}
			running++
		case "ret":
			req, opt := c.decided(succ, fail, len(retOrder), callReturned)
			if e.Cancelled && !parentCancel && !req && !opt {
				c.fail("cancel-early", "member %d saw its context cancelled while the outcome was still open (%d succeeded, %d failed of %d)", e.M, succ, fail, n)
			}
			running--
			retIval[e.M] = interval
			unordered[e.M] = e.Cancelled && parentCancel
			retOrder = append(retOrder, e.M)
			retd[e.M] = true
			okOf[e.M] = e.Ok
			if e.Ok {
				succ++
				if firstSucc < 0 {
					firstSucc = e.M
				}
			} else {
				fail++
				if firstFail < 0 {
					firstFail = e.M
				}
			}
		case "quiet":
			interval++
			callReturned = e.Returned
			req, opt := c.decided(succ, fail, len(retOrder), callReturned)
			done := map[int]bool{}
			for _, m := range e.CtxDone {
				done[m] = true
			}
			for _, m := range e.Gated {
				switch {
				case parentCancel && !req:
					// the caller cancelled its own context: members see it, nothing to judge before a decision
					if done[m] {
						c.counts["caller-cancel/visible-to-member"]++
					} else {
						c.counts["caller-cancel/not-visible-to-member"]++ // not fixed by the statement
					}
				case req && !done[m]:
					c.fail("cancel-late", "member %d is still running with a live context at the quiescent point after the outcome was decided (%d succeeded, %d failed of %d, call returned=%v)", m, succ, fail, n, callReturned)
				case req && done[m]:
					c.counts["cancelled-after-decision"]++
				case !req && !opt && !parentCancel && done[m]:
					c.fail("cancel-early", "member %d's context is cancelled at a quiescent point at which the outcome is still open (%d succeeded, %d failed of %d)", m, succ, fail, n)
				case !req && !opt && !done[m]:
					c.counts["live-context-while-open"]++
				case opt && !req && done[m]:
					c.counts["success-decided-early/remaining-cancelled"]++
				case opt && !req && !done[m]:
					c.counts["success-decided-early/remaining-not-cancelled"]++
				}
			}
			if callReturned && len(e.Gated) > 0 {
				c.counts["quiescent-points-after-early-return"]++
			}
		}
	}
	if o.panicked || !o.returned {
		return // nothing was returned that could be compared
	}

	// every member runs: exactly once for the parallel strategies, at most once and in order for One
	for m := 0; m < n; m++ {
		if c.s.kind != kOne && o.starts[m] != 1 {
			c.fail("calls", "member %d was invoked %d times, the strategy runs every member once", m, o.starts[m])
		}
	}
	if c.s.kind == kOne && firstSucc < 0 && len(retOrder) < n {
		if parentCancel {
			c.counts["one/stopped-after-caller-cancel"]++ // giving up once the caller cancelled is not excluded by the statement
		} else {
			c.fail("order", "no member succeeded but only %d of %d members were tried", len(retOrder), n)
		}
	}

	res := o.res
	gotErr := res.Err != nil

	// expected verdict and winner from the observed answers and their completion order
	var (
		wantErr  bool
		open     bool // the statement does not fix the verdict (empty group under Any/One/Fast/Race)
		wantFrom = -1 // member whose error must be returned
		winner   = -1 // member whose message is the single result (One, Fast, Race)
	)
	switch c.s.kind {
	case kThreshold:
		wantErr = c.s.fails(fail, n)
		wantFrom = firstFail
		if n == 0 && c.s.name == "Any" {
			open = true
		}
	case kOne, kFast:
		if n == 0 {
			open = true
		} else if firstSucc >= 0 {
			winner = firstSucc
		} else {
			wantErr = true
			wantFrom = firstFail
		}
	case kRace:
		if n == 0 || len(retOrder) == 0 {
			open = true
		} else if r := retOrder[0]; okOf[r] {
			winner = r
		} else {
			wantErr = true
			wantFrom = r
		}
	}
	if open {
		if gotErr {
			c.counts["empty-group/error"]++
		} else {
			c.counts["empty-group/no-error"]++
		}
	} else {
		switch {
		case wantErr && !gotErr:
			c.fail("verdict", "%s must fail here (%d of %d members failed, completion order %v) but the call returned no error", c.s.name, fail, n, retOrder)
		case !wantErr && gotErr:
			c.fail("verdict", "%s must succeed here (%d of %d members failed, completion order %v) but the call returned error %q", c.s.name, fail, n, retOrder, res.Err)
		case wantErr && gotErr:
			okFirst := false
			for _, m := range c.peers(wantFrom, retOrder, retIval, unordered, okOf) {
				if sameErr(res.Err, o.retErr[m]) {
					okFirst = true
				}
			}
			if !okFirst {
				c.fail("first-error", "returned error %q, the first error observed is that of member %d: %q (completion order %v)", res.Err, wantFrom, errAt(o.retErr, wantFrom), retOrder)
			}
		}
	}

	// results at the member's own index
	switch res.Shape {
	case "slice":
		if len(res.Slice) != n {
			c.fail("index", "%d results for %d members", len(res.Slice), n)
			break
		}
		for j, got := range res.Slice {
			if got == nil {
				continue
			}
			if !retd[j] || !sameMsg(got, o.retMsg[j]) {
				c.fail("index", "results[%d] = %s is not what member %d answered (%s); results=%s", j, renderMsg(got), j, renderMsg(msgAt(o.retMsg, j)), renderSlice(res.Slice))
			}
			if winner >= 0 && j != winner {
				c.fail("index", "results[%d] is set although the single result belongs to member %d; results=%s", j, winner, renderSlice(res.Slice))
			}
		}
		if !gotErr && !open {
			if c.s.kind == kThreshold {
				for j := 0; j < n; j++ {
					if retd[j] && okOf[j] && res.Slice[j] == nil {
						c.fail("index", "member %d succeeded but results[%d] is nil; results=%s", j, j, renderSlice(res.Slice))
					}
				}
			} else if winner >= 0 && res.Slice[winner] == nil {
				c.fail("index", "member %d is the result but results[%d] is nil; results=%s", winner, winner, renderSlice(res.Slice))
			}
		}
	case "single":
		if !gotErr && winner >= 0 {
			if res.Idx != winner || !sameMsg(res.Msg, o.retMsg[winner]) {
				c.fail("index", "returned (%s, index %d), the result is member %d's %s (completion order %v)", renderMsg(res.Msg), res.Idx, winner, renderMsg(o.retMsg[winner]), retOrder)
			}
		}
	case "opaque":
		if !gotErr && res.Msg == nil {
			c.fail("verdict", "the group returned neither a response nor an error")
		}
	}
}

// peers returns the members whose error may legitimately be "the first one observed" when the harness logged
// member first as the first failing (or, for Race, first returning) member: first itself, plus, if first returned
// on its own after the caller cancelled, every other failing member that did the same in the same interval
// between two quiescent points (their returns are concurrent).
func (c *checker) peers(first int, retOrder, retIval []int, unordered, okOf []bool) []int {
	if first < 0 {
		return nil
	}
	out := []int{first}
	if !unordered[first] {
		return out
	}
	for _, m := range retOrder {
		if m != first && unordered[m] && !okOf[m] && retIval[m] == retIval[first] {
			out = append(out, m)
			c.counts["first-error/concurrent-candidates"]++
		}
	}
	return out
}

func errAt(es []error, i int) string {
	if i < 0 || i >= len(es) || es[i] == nil {
		return "<none>"
	}
	return es[i].Error()
}

func msgAt(ms []proto.Message, i int) proto.Message {
	if i < 0 || i >= len(ms) {
		return nil
	}
	return ms[i]
}
