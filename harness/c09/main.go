// Monitor for C09: lossy delivery preserves the folded view; slow readers never block writers.
//
// The consumer of a subscription is driven by receive permits: after every write the process is brought to
// quiescence, then the consumer is granted 0 or 1 receives and the process is brought to quiescence again, so
// which sends are separated by a receive is an enumerated variable. Every write runs as a task; a write that
// has not returned at a quiescent point is a blocked writer (decided on goroutine state, not on time).
package main

import (
	"context"
	"fmt"
	"strings"
	"sync"
	"time"

	"github.com/smart-core-os/sc-api/go/types"
	"google.golang.org/protobuf/proto"

	"github.com/smart-core-os/sc-golang/internal/testproto"
	"github.com/smart-core-os/sc-golang/internal/verif/vk"
	"github.com/smart-core-os/sc-golang/pkg/resource"
)

func main() { vk.Main("C09", run) }

type tat = testproto.TestAllTypes

type consumer struct {
	cancel context.CancelFunc
	mu     sync.Mutex
	cond   *sync.Cond
	allow  int  // receives the consumer may still perform
	quit   bool // set by stop
	colEv  []*resource.CollectionChange
	valEv  []*resource.ValueChange
	closed bool
}

func newConsumer() *consumer {
	c := &consumer{}
	c.cond = sync.NewCond(&c.mu)
	return c
}

// grant allows n more receives.
func (c *consumer) grant(n int) {
	c.mu.Lock()
	c.allow += n
	c.cond.Broadcast()
	c.mu.Unlock()
}

// permit blocks until a receive is allowed; false when the consumer was stopped.
func (c *consumer) permit() bool {
	c.mu.Lock()
	defer c.mu.Unlock()
	for c.allow == 0 && !c.quit {
		c.cond.Wait()
	}
	if c.quit {
		return false
	}
	c.allow--
	return true
}

func (c *consumer) runCol(ch <-chan *resource.CollectionChange) {
	go func() {
		for c.permit() {
			e, ok := <-ch
			if !ok {
				break
			}
			c.mu.Lock()
			c.colEv = append(c.colEv, e)
			c.mu.Unlock()
		}
		c.mu.Lock()
		c.closed = true
		c.mu.Unlock()
	}()
}

func (c *consumer) runVal(ch <-chan *resource.ValueChange) {
	go func() {
		for c.permit() {
			e, ok := <-ch
			if !ok {
				break
			}
			c.mu.Lock()
			c.valEv = append(c.valEv, e)
			c.mu.Unlock()
		}
		c.mu.Lock()
		c.closed = true
		c.mu.Unlock()
	}()
}

func (c *consumer) stop() {
	c.cancel()
	c.mu.Lock()
	c.quit = true
	c.cond.Broadcast()
	c.mu.Unlock()
}

func (c *consumer) nCol() int { c.mu.Lock(); defer c.mu.Unlock(); return len(c.colEv) }
func (c *consumer) nVal() int { c.mu.Lock(); defer c.mu.Unlock(); return len(c.valEv) }

type step struct {
	Op     string `json:"op"` // add | update | remove | set
	ID     string `json:"id,omitempty"`
	Permit int    `json:"permit"`
}

func renderSteps(ss []step) string {
	var p []string
	for _, s := range ss {
		p = append(p, fmt.Sprintf("%s(%s)/%d", s.Op, s.ID, s.Permit))
	}
	return strings.Join(p, " ")
}

func renderCol(es []*resource.CollectionChange) string {
	var p []string
	for _, e := range es {
		p = append(p, vk.ChangeJSON(e))
	}
	return strings.Join(p, "\n    ")
}

type clk struct{}

func (clk) Now() time.Time { return time.Unix(1, 0) }

func run(r *vk.Run) {
	r.Describe("lossy (no backpressure) Collection.Pull / PullID / Value.Pull driven by receive permits: every valid sequence over {add,update,remove} x ids {a,b} (Value: set) of length <= 4 (thorough <= 6) from initial contents {empty,{a}} x every permit pattern (0/1 receive after each write), each step taken at a quiescent point; the received events are folded with per-id chain checks (ADD only for an id not held, UPDATE/REPLACE/REMOVE carry the held value as old value) and compared with List/Get after a final drain; every write must have returned at the quiescent point after it, also while the subscriber has not taken its seed yet, after a subscriber went away in the middle of its seed and after a subscription was opened with an already cancelled context; a backpressured subscriber next to an idle lossy one still gets every event exactly as written. Backpressure: nothing dropped, order kept, at most the pipeline depth of writes completes while the consumer is idle. Value send timeout: a Set whose event is not taken returns an error. Distinct = (resource, initial contents, op sequence, permit pattern).",
		"quiescence stands for 'the consumer has received everything it will get'; permits model arbitrarily slow consumers",
		"the five-second send timeout is real wall-clock time inside the library; the verdict is the returned error, the 120 s watchdog only yields inconclusive")
	lossyCollection(r)
	cancelDuringSeed(r)
	mixedSubscribers(r)
	mixedValueSubscribers(r)
	joinDuringWrite(r)
	manyIds(r)
	deleteWaitsForDelivery(r)
	pullIDEndedThenWrites(r)
	publishOrder(r)
	lateSubscriber(r)
	lossyValue(r)
	backpressure(r)
	randomPacing(r)
	sendTimeout(r)
	r.Require("lossy-collection-scenarios", 500)
	r.Require("lossy-value-scenarios", 20)
}

var seqN int

func mkVal(id string) *tat {
	seqN++
	return &tat{DefaultString: fmt.Sprintf("%s#%d", id, seqN), DefaultInt32: int32(seqN)}
}

// ---------------------------------------------------------------------------------------------------------

func lossyCollection(r *vk.Run) {
	maxLen := r.Pick(4, 6)
	idx := 0
	for _, kind := range []string{"pull", "pullid"} {
		for _, withInit := range []bool{false, true} {
			present := map[string]bool{"a": withInit}
			var rec func(seq []step, present map[string]bool)
			rec = func(seq []step, present map[string]bool) {
				if len(seq) > 0 {
					// all permit patterns for this op sequence
					for pat := 0; pat < 1<<len(seq); pat++ {
						idx++
						if !r.Mine(idx) {
							continue
						}
						ss := make([]step, len(seq))
						copy(ss, seq)
						for i := range ss {
							ss[i].Permit = (pat >> i) & 1
						}
						colScenario(r, kind, withInit, ss, false, false)
						if withInit && len(ss) <= 3 {
							// the same history while the subscriber has not even taken its seed yet
							colScenario(r, kind, withInit, ss, false, false, true)
						}
						if !withInit && len(ss) <= 3 {
							// the same history for an updates-only subscriber (no seed): it is lossy too unless backpressure is asked for
							colScenario(r, kind, withInit, ss, false, true)
						}
					}
				}
				if len(seq) == maxLen {
					return
				}
				for _, id := range []string{"a", "b"} {
					if kind == "pullid" && len(seq) >= 4 && id == "b" {
						continue // keep the PullID space smaller: b only matters as noise early on
					}
					if present[id] {
						for _, op := range []string{"update", "remove"} {
							np := map[string]bool{"a": present["a"], "b": present["b"]}
							np[id] = op != "remove"
							rec(append(append([]step{}, seq...), step{Op: op, ID: id}), np)
						}
					} else {
						np := map[string]bool{"a": present["a"], "b": present["b"]}
						np[id] = true
						rec(append(append([]step{}, seq...), step{Op: "add", ID: id}), np)
					}
				}
			}
			rec(nil, present)
		}
	}
	r.Count("lossy-collection-space", idx)
	if r.Shards <= 1 || true {
		r.Exhaustive(true)
	}
}

func colScenario(r *vk.Run, kind string, withInit bool, steps []step, bp bool, updatesOnly bool, seedPending ...bool) {
	var opts []resource.Option
	opts = append(opts, resource.WithClock(clk{}))
	var initA *tat
	if withInit {
		initA = mkVal("a")
		opts = append(opts, resource.WithInitialRecord("a", initA))
	}
	if (len(steps)+b2i(withInit)+b2i(bp))%3 == 2 {
		// a resource-level comparer (every written value is distinct, nothing is suppressed) changes none of this
		opts = append(opts, resource.WithNoDuplicates())
		r.Count("collection-scenarios-with-equivalence", 1)
	}
	col := resource.NewCollection(opts...)
	ctx, cancel := context.WithCancel(context.Background())
	c := newConsumer()
	c.cancel = cancel
	mode := "lossy"
	if bp {
		mode = "bp"
	}
	if updatesOnly {
		mode += "+updatesOnly"
	}
	pending := len(seedPending) > 0 && seedPending[0] && withInit
	if pending {
		mode += "+seed-not-taken"
	}
	desc := fmt.Sprintf("%s/%s init=%v %s", kind, mode, withInit, renderSteps(steps))
	replay := map[string]any{"kind": kind, "init": withInit, "steps": steps, "bp": bp, "updatesOnly": updatesOnly}
	ro := []resource.ReadOption{resource.WithUpdatesOnly(updatesOnly)}
	// how the mode is asked for varies with the history (spread over all lengths): given twice, given once, not at all
	hv := len(steps)
	for i, st := range steps {
		hv += (i + 1) * (len(st.Op) + len(st.ID))
	}
	if withInit {
		hv++
	}
	switch {
	case hv%3 == 0:
		// the option given twice: like every option of this package the later one decides
		ro = append(ro, resource.WithBackpressure(!bp), resource.WithBackpressure(bp))
		r.Count("subscribers-with-backpressure-option-overridden", 1)
	case bp || hv%3 == 1:
		ro = append(ro, resource.WithBackpressure(bp))
	default: // no backpressure option at all, the documented default is "off"
		r.Count("subscribers-without-backpressure-option", 1)
	}
	if kind == "pull" {
		c.runCol(col.Pull(ctx, ro...))
	} else {
		c.runVal(col.PullID(ctx, "a", ro...))
	}
	defer c.stop()
	if withInit && !pending {
		c.grant(1) // take the seed
	}
	if _, ok := r.MustQuiesce("c09-open"); !ok {
		return
	}
	removedA := false
	for i, s := range steps {
		s := s
		t := vk.Go(func() {
			switch s.Op {
			case "add":
				col.Add(s.ID, mkValLocked(s.ID))
			case "update":
				col.Update(s.ID, mkValLocked(s.ID))
			case "remove":
				col.Delete(s.ID)
			}
		})
		if s.Op == "remove" && s.ID == "a" {
			removedA = true
		}
		if _, ok := r.MustQuiesce("c09-write"); !ok {
			return
		}
		r.Count("writes", 1)
		if !t.Done() {
			r.Violation("C09/writer-blocked/"+kind+"/"+mode, fmt.Sprintf("write #%d of [%s] has not returned at the quiescent point after it although the subscription is lossy\n%s", i, desc, vk.DescribeGs(vk.LibraryGoroutines(vk.Goroutines(), nil))), replay)
			c.grant(100)
			taskSettles(t) // after a reported violation the writer may never return: do not wait for it
			return
		}
		if s.Permit > 0 {
			c.grant(s.Permit)
			if _, ok := r.MustQuiesce("c09-permit"); !ok {
				return
			}
		}
	}
	// final drain
	c.grant(100)
	if _, ok := r.MustQuiesce("c09-drain"); !ok {
		return
	}
	r.Eval(1)
	r.Count("lossy-collection-scenarios", 1)
	r.Distinct(desc)
	if kind == "pull" {
		c.mu.Lock()
		evs := append([]*resource.CollectionChange{}, c.colEv...)
		c.mu.Unlock()
		view := vk.NewView(true)
		for _, e := range evs {
			view.Apply(e)
		}
		r.Count("events-received", len(evs))
		if len(evs) < len(steps)+b2i(withInit) {
			r.Count("scenarios-with-merged-or-dropped-events", 1)
		}
		for _, p := range view.Problems {
			cls := "other"
			switch {
			case strings.HasPrefix(p, "ADD for id") && strings.Contains(p, "already holds"):
				cls = "ADD-for-held-id"
			case strings.Contains(p, "carries an old value"):
				cls = "ADD-with-old-value"
			case strings.Contains(p, "does not hold"):
				cls = strings.Fields(p)[0] + "-for-unknown-id"
			case strings.Contains(p, "old value"):
				cls = strings.Fields(p)[0] + "-old-mismatch"
			}
			r.Violation("C09/chain/"+cls, fmt.Sprintf("[%s]: %s\nreceived:\n    %s", desc, p, renderCol(evs)), replay)
		}
		list := col.List()
		if !vk.SameList(view.Sorted(), list) {
			r.Violation("C09/fold/collection", fmt.Sprintf("[%s]: folded view %s, List %s\nreceived:\n    %s", desc, vk.ListJSON(view.Sorted()), vk.ListJSON(list), renderCol(evs)), replay)
		}
		for _, e := range evs {
			if e.ChangeType == types.ChangeType_REPLACE {
				r.Count("REPLACE-events-seen", 1)
			}
		}
		if r.WantSample("lossy-pull") && len(evs) < len(steps) {
			r.Sample("lossy-pull", map[string]any{"scenario": desc, "received": strings.Split(renderCol(evs), "\n    ")})
		}
	} else {
		c.mu.Lock()
		evs := append([]*resource.ValueChange{}, c.valEv...)
		closed := c.closed
		c.mu.Unlock()
		cur, present := col.Get("a")
		switch {
		case removedA && !closed && present && !bp:
			// lossy: the REMOVE was merged with a later ADD into a REPLACE before the reader got to it; the reader sees a
			// replaced item, which the merge rules allow; then the last value must be current
			r.Count("pullid-remove-merged-into-replace", 1)
			if len(evs) > 0 && !vk.SameMessage(evs[len(evs)-1].Value, cur) {
				r.Violation("C09/last-value/pullid", fmt.Sprintf("[%s]: last received %s, Get says %s", desc, vk.JSON(evs[len(evs)-1].Value), vk.JSON(cur)), replay)
			}
		case removedA && !closed:
			r.Violation("C09/pullid-not-ended/"+mode, fmt.Sprintf("[%s]: item a was removed but the PullID channel is still open at the final quiescent point", desc), replay)
		case !removedA && closed:
			r.Violation("C09/pullid-ended-early/"+mode, fmt.Sprintf("[%s]: PullID channel closed although a was never removed", desc), replay)
		case !removedA && present:
			var last proto.Message
			if len(evs) > 0 {
				last = evs[len(evs)-1].Value
			}
			if len(evs) == 0 && (withInit || touchesA(steps)) {
				r.Violation("C09/last-value/pullid", fmt.Sprintf("[%s]: nothing received although a has a value", desc), replay)
			} else if len(evs) > 0 && !vk.SameMessage(last, cur) {
				r.Violation("C09/last-value/pullid", fmt.Sprintf("[%s]: last received %s, Get says %s", desc, vk.JSON(last), vk.JSON(cur)), replay)
			}
		}
	}
}

// cancelDuringSeed: a subscriber that is still being offered its initial items goes away; writers must not wait for
// it, with or without backpressure.
func cancelDuringSeed(r *vk.Run) {
	idx := 0
	for _, kind := range []string{"pull", "pullid"} {
		for _, bp := range []bool{false, true} {
			for _, items := range []int{1, 3} {
				for _, taken := range []int{-1, 0, 1} { // -1: the context is cancelled before the subscribing call
					idx++
					if !r.Mine(idx) || taken >= items && kind == "pull" {
						continue
					}
					opts := []resource.Option{resource.WithClock(clk{})}
					for _, id := range []string{"a", "b", "c"}[:items] {
						opts = append(opts, resource.WithInitialRecord(id, mkVal(id)))
					}
					col := resource.NewCollection(opts...)
					ctx, cancel := context.WithCancel(context.Background())
					c := newConsumer()
					c.cancel = cancel
					if taken < 0 {
						cancel()
					}
					if kind == "pull" {
						c.runCol(col.Pull(ctx, resource.WithBackpressure(bp)))
					} else {
						c.runVal(col.PullID(ctx, "a", resource.WithBackpressure(bp)))
					}
					if taken > 0 {
						c.grant(taken)
					}
					mode := map[bool]string{false: "lossy", true: "bp"}[bp]
					desc := fmt.Sprintf("%s/%s %d initial items, %d taken, then cancelled", kind, mode, items, taken)
					if _, ok := r.MustQuiesce("c09-cancel-open"); !ok {
						c.stop()
						return
					}
					cancel()
					if _, ok := r.MustQuiesce("c09-cancel"); !ok {
						c.stop()
						return
					}
					for i := 0; i < 2; i++ {
						t := vk.Go(func() { col.Update("a", mkValLocked("a"), resource.WithCreateIfAbsent()) })
						if _, ok := r.MustQuiesce("c09-cancel-write"); !ok {
							c.stop()
							return
						}
						r.Count("writes", 1)
						if !t.Done() {
							r.Violation("C09/writer-blocked/"+kind+"/"+mode+"/cancelled-during-seed", fmt.Sprintf("[%s]: write #%d has not returned at the quiescent point after it although the only subscriber was cancelled\n%s", desc, i, vk.DescribeGs(vk.LibraryGoroutines(vk.Goroutines(), nil))), map[string]any{"kind": kind, "bp": bp, "items": items, "taken": taken})
							c.grant(100)
							if !taskSettles(t) {
								c.stop()
								return // the writer stays blocked: the rest of this phase would only wait for it
							}
							break
						}
					}
					r.Eval(1)
					r.Count("cancel-during-seed-scenarios", 1)
					r.Distinct(desc)
					c.stop()
				}
			}
		}
	}
}

// mixedSubscribers: a backpressured subscriber that keeps receiving and a lossy subscriber that does not receive at
// all listen to the same collection. What the lossy side does with the changes it is holding back (merging,
// cancelling ADD against REMOVE) must not show in what the backpressured subscriber is given: nothing dropped,
// every event exactly as written (kind, old value, new value), in write order. The lossy subscriber is then drained
// and its fold compared with List.
func mixedSubscribers(r *vk.Run) {
	n := r.Pick(300, 20000)
	for i := 0; i < n; i++ {
		if !r.Mine(i) {
			continue
		}
		rng := r.CaseRand("c09-mixed", i)
		col := resource.NewCollection(resource.WithClock(clk{}))
		ctx, cancel := context.WithCancel(context.Background())
		live, idle := newConsumer(), newConsumer()
		live.cancel, idle.cancel = cancel, cancel
		live.runCol(col.Pull(ctx, resource.WithBackpressure(true)))
		idle.runCol(col.Pull(ctx, resource.WithBackpressure(false)))
		live.grant(1 << 20)
		if _, ok := r.MustQuiesce("c09-mixed-open"); !ok {
			live.stop()
			idle.stop()
			return
		}
		present := map[string]*tat{}
		type wrote struct {
			typ      types.ChangeType
			id       string
			old, new *tat
		}
		var log []wrote
		var steps []string
		k := rng.Range(4, 9)
		blocked := false
		for j := 0; j < k && !blocked; j++ {
			id := []string{"a", "b"}[rng.Intn(2)]
			cur := present[id]
			var w wrote
			var do func()
			switch {
			case cur == nil:
				v := mkValLocked(id)
				w = wrote{types.ChangeType_ADD, id, nil, v}
				do = func() { col.Add(id, v) }
				present[id] = v
				steps = append(steps, "add("+id+")")
			case rng.Chance(1, 2):
				v := mkValLocked(id)
				w = wrote{types.ChangeType_UPDATE, id, cur, v}
				do = func() { col.Update(id, v) }
				present[id] = v
				steps = append(steps, "update("+id+")")
			default:
				w = wrote{types.ChangeType_REMOVE, id, cur, nil}
				do = func() { col.Delete(id) }
				delete(present, id)
				steps = append(steps, "remove("+id+")")
			}
			log = append(log, w)
			t := vk.Go(do)
			if _, ok := r.MustQuiesce("c09-mixed-write"); !ok {
				live.stop()
				idle.stop()
				return
			}
			r.Count("writes", 1)
			if !t.Done() {
				r.Violation("C09/writer-blocked/pull/mixed-subscribers", fmt.Sprintf("write #%d of [%s] has not returned at the quiescent point after it: the only idle subscriber is lossy\n%s", j, strings.Join(steps, " "), vk.DescribeGs(vk.LibraryGoroutines(vk.Goroutines(), nil))), map[string]any{"case": i})
				idle.grant(1 << 20)
				if !taskSettles(t) {
					return // the writer stays blocked: the rest of this phase would only wait for it
				}
				blocked = true
			}
		}
		desc := strings.Join(steps, " ")
		r.Eval(1)
		r.Count("mixed-subscriber-scenarios", 1)
		r.Distinct("mixed|" + desc)
		if !blocked {
			live.mu.Lock()
			got := append([]*resource.CollectionChange{}, live.colEv...)
			live.mu.Unlock()
			bad := ""
			if len(got) != len(log) {
				bad = fmt.Sprintf("received %d events for %d writes", len(got), len(log))
			}
			for j := 0; bad == "" && j < len(log); j++ {
				e, w := got[j], log[j]
				oldOK := (w.old == nil && (e.OldValue == nil || !e.OldValue.ProtoReflect().IsValid())) || (w.old != nil && vk.SameMessage(e.OldValue, w.old))
				newOK := (w.new == nil && (e.NewValue == nil || !e.NewValue.ProtoReflect().IsValid())) || (w.new != nil && vk.SameMessage(e.NewValue, w.new))
				if e.ChangeType != w.typ || e.Id != w.id || !oldOK || !newOK {
					bad = fmt.Sprintf("event #%d is {%s %q old=%s new=%s}, the write was {%s %q old=%s new=%s}", j, e.ChangeType, e.Id, vk.JSON(e.OldValue), vk.JSON(e.NewValue), w.typ, w.id, vk.JSON(w.old), vk.JSON(w.new))
				}
			}
			if bad != "" {
				r.Violation("C09/dropped-with-backpressure/pull/mixed-subscribers", fmt.Sprintf("[%s] with an idle lossy subscriber next to it, the backpressured subscriber: %s\nreceived:\n    %s", desc, bad, renderCol(got)), map[string]any{"case": i, "steps": steps})
			}
			idle.grant(1 << 20)
			if _, ok := r.MustQuiesce("c09-mixed-drain"); ok {
				idle.mu.Lock()
				evs := append([]*resource.CollectionChange{}, idle.colEv...)
				idle.mu.Unlock()
				view := vk.NewView(true)
				for _, e := range evs {
					view.Apply(e)
				}
				if list := col.List(); !vk.SameList(view.Sorted(), list) {
					r.Violation("C09/fold/collection/mixed-subscribers", fmt.Sprintf("[%s]: the drained lossy subscriber folds to %s, List %s\nreceived:\n    %s", desc, vk.ListJSON(view.Sorted()), vk.ListJSON(list), renderCol(evs)), map[string]any{"case": i, "steps": steps})
				}
			}
		}
		live.stop()
		idle.stop()
	}
	r.Require("mixed-subscriber-scenarios", 50)
}

// mixedValueSubscribers: one Value, a subscriber with a read mask next to subscribers without one (a backpressured one
// that keeps receiving, a lossy one that is idle until the end). What a neighbour asked to see is its own business:
// the backpressured subscriber gets every written value exactly as written, the drained lossy one ends on Get's value.
func mixedValueSubscribers(r *vk.Run) {
	n := r.Pick(120, 6000)
	for i := 0; i < n; i++ {
		if !r.Mine(i) {
			continue
		}
		rng := r.CaseRand("c09-mixedval", i)
		v := resource.NewValue(resource.WithClock(clk{}), resource.WithInitialValue(mkValLocked("")))
		ctx, cancel := context.WithCancel(context.Background())
		live, idle, masked := newConsumer(), newConsumer(), newConsumer()
		live.cancel, idle.cancel, masked.cancel = cancel, cancel, cancel
		maskedBP, maskedUO := rng.Bool(), rng.Bool()
		open := []func(){
			func() { live.runVal(v.Pull(ctx, resource.WithBackpressure(true), resource.WithUpdatesOnly(true))) },
			func() { idle.runVal(v.Pull(ctx, resource.WithBackpressure(false), resource.WithUpdatesOnly(true))) },
			func() {
				masked.runVal(v.Pull(ctx, resource.WithBackpressure(maskedBP), resource.WithUpdatesOnly(maskedUO), resource.WithReadPaths(&tat{}, "default_int32")))
			},
		}
		for _, k := range rng.Perm(len(open)) {
			open[k]()
		}
		live.grant(1 << 20)
		masked.grant(1 << 20)
		stopAll := func() { live.stop(); idle.stop(); masked.stop() }
		if _, ok := r.MustQuiesce("c09-mixedval-open"); !ok {
			stopAll()
			return
		}
		k := rng.Range(2, 6)
		var written []*tat
		blocked := false
		for j := 0; j < k && !blocked; j++ {
			w := mkValLocked("")
			written = append(written, w)
			t := vk.Go(func() { v.Set(w) })
			if _, ok := r.MustQuiesce("c09-mixedval-write"); !ok {
				stopAll()
				return
			}
			if !t.Done() {
				r.Violation("C09/writer-blocked/value/mixed-subscribers", fmt.Sprintf("Set #%d has not returned at the quiescent point after it: the only idle subscriber is lossy\n%s", j, vk.DescribeGs(vk.LibraryGoroutines(vk.Goroutines(), nil))), map[string]any{"case": i})
				idle.grant(1 << 20)
				if !taskSettles(t) {
					return // the writer stays blocked: the rest of this phase would only wait for it
				}
				blocked = true
			}
		}
		r.Eval(1)
		r.Count("mixed-value-subscriber-scenarios", 1)
		r.Distinct(fmt.Sprintf("mixedval|%d|%v", k, maskedBP))
		if !blocked {
			live.mu.Lock()
			got := append([]*resource.ValueChange{}, live.valEv...)
			live.mu.Unlock()
			bad := ""
			if len(got) != len(written) {
				bad = fmt.Sprintf("received %d values for %d writes", len(got), len(written))
			}
			for j := 0; bad == "" && j < len(written); j++ {
				if !vk.SameMessage(got[j].Value, written[j]) {
					bad = fmt.Sprintf("value #%d is %s, written was %s", j, vk.JSON(got[j].Value), vk.JSON(written[j]))
				}
			}
			if bad != "" {
				r.Violation("C09/dropped-with-backpressure/value/mixed-subscribers", fmt.Sprintf("%d writes with a read-masked subscriber (backpressure %v) and an idle lossy one next to it, the unmasked backpressured subscriber: %s", k, maskedBP, bad), map[string]any{"case": i})
			}
			idle.grant(1 << 20)
			if _, ok := r.MustQuiesce("c09-mixedval-drain"); ok {
				idle.mu.Lock()
				evs := append([]*resource.ValueChange{}, idle.valEv...)
				idle.mu.Unlock()
				cur := v.Get()
				if len(evs) == 0 || !vk.SameMessage(evs[len(evs)-1].Value, cur) {
					last := "nothing"
					if len(evs) > 0 {
						last = vk.JSON(evs[len(evs)-1].Value)
					}
					r.Violation("C09/last-value/value/mixed-subscribers", fmt.Sprintf("%d writes with a read-masked subscriber (backpressure %v) next to it: the drained lossy subscriber (no mask) ends on %s, Get returns %s", k, maskedBP, last, vk.JSON(cur)), map[string]any{"case": i})
				}
			}
		}
		stopAll()
	}
	r.Require("mixed-value-subscriber-scenarios", 20)
}

// joinDuringWrite: a subscriber is held between taking its snapshot and registering for events while one write is
// made and nothing follows it. Seed or event, the subscriber "eventually receives the most recent value": at the
// quiescent point its last received value / its folded view is what Get / List return.
func joinDuringWrite(r *vk.Run) {
	sched := vk.NewSched()
	defer sched.Close()
	idx := 0
	for _, kind := range []string{"value", "pull", "pullid"} {
		for _, bp := range []bool{false, true} {
			idx++
			if !r.Mine(idx) {
				continue
			}
			point := "col.sub.afterSnapshot"
			if kind == "value" {
				point = "value.sub.afterSnapshot"
			}
			v := resource.NewValue(resource.WithClock(clk{}), resource.WithInitialValue(mkValLocked("")))
			col := resource.NewCollection(resource.WithClock(clk{}), resource.WithInitialRecord("a", mkValLocked("a")))
			ctx, cancel := context.WithCancel(context.Background())
			c := newConsumer()
			c.cancel = cancel
			c.grant(1 << 20)
			park := sched.ParkAt(point, nil)
			tj := vk.Go(func() {
				switch kind {
				case "value":
					c.runVal(v.Pull(ctx, resource.WithBackpressure(bp)))
				case "pull":
					c.runCol(col.Pull(ctx, resource.WithBackpressure(bp)))
				default:
					c.runVal(col.PullID(ctx, "a", resource.WithBackpressure(bp)))
				}
			})
			vk.Quiesce()
			reached := park.Arrived()
			next := mkValLocked("a")
			tw := vk.Go(func() {
				if kind == "value" {
					v.Set(next)
				} else {
					col.Update("a", next)
				}
			})
			vk.Quiesce()
			park.Release()
			gs, ok := r.MustQuiesce("c09-join-during-write")
			if !ok {
				c.stop()
				return
			}
			r.Eval(1)
			r.Count("join-during-write-scenarios", 1)
			if reached {
				r.Distinct(fmt.Sprintf("joinwrite|%s|%v", kind, bp))
			}
			mode := map[bool]string{true: "bp", false: "lossy"}[bp]
			replay := map[string]any{"kind": kind, "bp": bp}
			if !tj.Done() || !tw.Done() {
				r.Violation("C09/join-during-write/stuck/"+kind+"/"+mode, fmt.Sprintf("the subscriber or the writer has not returned at the quiescent point\n%s", vk.DescribeGs(vk.LibraryGoroutines(gs, nil))), replay)
				c.stop()
				return
			}
			c.mu.Lock()
			var last proto.Message
			if kind == "pull" {
				if n := len(c.colEv); n > 0 {
					last = c.colEv[n-1].NewValue
				}
			} else if n := len(c.valEv); n > 0 {
				last = c.valEv[n-1].Value
			}
			c.mu.Unlock()
			if last == nil || !vk.SameMessage(last, next) {
				r.Violation("C09/last-value/"+kind+"/join-during-write/"+mode, fmt.Sprintf("a %s subscriber (%s) was between its snapshot and its registration while %s was written, nothing was written afterwards: its last received value is %s, Get returns %s", kind, mode, vk.JSON(next), vk.JSON(last), vk.JSON(next)), replay)
			}
			c.stop()
		}
	}
	r.Require("join-during-write-scenarios", 2)
}

// manyIds: a lossy subscriber that is not receiving while a great many DIFFERENT ids change: "however slowly a
// subscriber receives, writes complete without waiting for it" has no bound on how much is pending. Afterwards the
// drained stream folds to the listing.
func manyIds(r *vk.Run) {
	for i, n := range []int{600, 1500, 4000} {
		if !r.Mine(i) {
			continue
		}
		col := resource.NewCollection(resource.WithClock(clk{}))
		ctx, cancel := context.WithCancel(context.Background())
		c := newConsumer()
		c.cancel = cancel
		c.runCol(col.Pull(ctx))
		if _, ok := r.MustQuiesce("c09-manyids-open"); !ok {
			c.stop()
			return
		}
		t := vk.Go(func() {
			for k := 0; k < n; k++ {
				col.Add(fmt.Sprintf("id%05d", k), mkValLocked("m"))
			}
		})
		gs, ok := r.MustQuiesce("c09-manyids-write")
		if !ok {
			c.stop()
			return
		}
		r.Eval(1)
		r.Count("many-ids-scenarios", 1)
		r.Distinct(fmt.Sprintf("manyids|%d", n))
		if !t.Done() {
			r.Violation("C09/writer-blocked/pull/lossy/many-ids", fmt.Sprintf("an idle lossy subscriber and %d Adds of different ids: the writer has not returned at the quiescent point (%d items stored)\n%s", n, len(col.List()), vk.DescribeGs(vk.LibraryGoroutines(gs, nil))), map[string]any{"ids": n})
			c.grant(1 << 20)
			if !taskSettles(t) {
				return
			}
			c.stop()
			continue
		}
		c.grant(1 << 20)
		if _, ok := r.MustQuiesce("c09-manyids-drain"); ok {
			c.mu.Lock()
			evs := append([]*resource.CollectionChange{}, c.colEv...)
			c.mu.Unlock()
			view := vk.NewView(true)
			for _, e := range evs {
				view.Apply(e)
			}
			if list := col.List(); !vk.SameList(view.Sorted(), list) {
				r.Violation("C09/fold/collection/many-ids", fmt.Sprintf("%d Adds of different ids while the lossy subscriber was idle: the drained stream folds to %d items, List has %d", n, len(view.Sorted()), len(list)), map[string]any{"ids": n})
			}
		}
		c.stop()
	}
}

// pullIDEndedThenWrites: a backpressured PullID whose item is removed ends; whatever it was built on must end with it:
// the writes that follow (to another item) return, and a backpressured Pull next to it gets every one of them.
func pullIDEndedThenWrites(r *vk.Run) {
	for i, bp := range []bool{true, false} {
		if !r.Mine(i) {
			continue
		}
		col := resource.NewCollection(resource.WithClock(clk{}), resource.WithInitialRecord("a", mkValLocked("a")), resource.WithInitialRecord("b", mkValLocked("b")))
		ctx, cancel := context.WithCancel(context.Background())
		single, all := newConsumer(), newConsumer()
		single.cancel, all.cancel = cancel, cancel
		single.runVal(col.PullID(ctx, "a", resource.WithBackpressure(bp)))
		all.runCol(col.Pull(ctx, resource.WithBackpressure(true), resource.WithUpdatesOnly(true)))
		single.grant(1 << 20)
		all.grant(1 << 20)
		stopAll := func() { single.stop(); all.stop() }
		if _, ok := r.MustQuiesce("c09-pullid-ended-open"); !ok {
			stopAll()
			return
		}
		t := vk.Go(func() {
			col.Update("a", mkValLocked("a"))
			col.Delete("a")
			for k := 0; k < 5; k++ {
				col.Update("b", mkValLocked("b"))
			}
		})
		gs, ok := r.MustQuiesce("c09-pullid-ended-write")
		if !ok {
			stopAll()
			return
		}
		r.Eval(1)
		r.Count("pullid-ended-then-writes-scenarios", 1)
		r.Distinct(fmt.Sprintf("pullidended|%v", bp))
		mode := map[bool]string{true: "bp", false: "lossy"}[bp]
		if !t.Done() {
			r.Violation("C09/writer-blocked/pullid/"+mode+"/after-it-ended", fmt.Sprintf("PullID(a) (%s, consumer receiving) ended when a was deleted; of the five updates of b that follow the writer is still in one at the quiescent point\n%s", mode, vk.DescribeGs(vk.LibraryGoroutines(gs, nil))), map[string]any{"bp": bp})
			stopAll()
			return // the stuck goroutines stay
		}
		if n := all.nCol(); n != 7 {
			r.Violation("C09/dropped-with-backpressure/pull/next-to-an-ended-pullid", fmt.Sprintf("a backpressured updates-only Pull next to a PullID(a) (%s) that ended by removal received %d events for 7 writes", mode, n), map[string]any{"bp": bp})
		}
		stopAll()
	}
}

// deleteWaitsForDelivery: with backpressure "writers wait for delivery", whatever the kind of write. A backpressured
// collection subscriber takes its seed and then stops receiving; two updates fill the hand-over stages; the Delete
// that follows has not returned at the quiescent point, returns once the subscriber receives again, and the
// subscriber gets all three events.
func deleteWaitsForDelivery(r *vk.Run) {
	for i, kind := range []string{"pull", "pullid"} {
		if !r.Mine(i) {
			continue
		}
		col := resource.NewCollection(resource.WithClock(clk{}), resource.WithInitialRecord("a", mkValLocked("a")))
		ctx, cancel := context.WithCancel(context.Background())
		c := newConsumer()
		c.cancel = cancel
		if kind == "pull" {
			c.runCol(col.Pull(ctx, resource.WithBackpressure(true)))
		} else {
			c.runVal(col.PullID(ctx, "a", resource.WithBackpressure(true)))
		}
		c.grant(1) // the seed
		if _, ok := r.MustQuiesce("c09-delete-waits-open"); !ok {
			c.stop()
			return
		}
		// updates until one of them has to wait for the idle subscriber (the hand-over stages are full)
		var ups []*vk.Task
		updatesWaiting := false
		for k := 0; k < 8 && !updatesWaiting; k++ {
			t := vk.Go(func() { col.Update("a", mkValLocked("a")) })
			ups = append(ups, t)
			r.MustQuiesce("c09-delete-waits-updates")
			updatesWaiting = !t.Done()
		}
		del := vk.Go(func() { col.Delete("a") })
		if _, ok := r.MustQuiesce("c09-delete-waits-delete"); !ok {
			c.stop()
			return
		}
		r.Eval(1)
		r.Count("delete-waits-for-delivery-scenarios", 1)
		r.Distinct("deletewaits|" + kind)
		if updatesWaiting && del.Done() {
			r.Violation("C09/bp-writers-do-not-wait/"+kind+"/delete", fmt.Sprintf("a backpressured %s subscriber stopped receiving after its seed; update #%d is waiting for it; the Delete issued after it has returned although neither was delivered", kind, len(ups)), map[string]any{"kind": kind})
		}
		upd := vk.Go(func() {
			for _, t := range ups {
				t.Wait()
			}
		})
		c.grant(1 << 20)
		if _, ok := r.MustQuiesce("c09-delete-waits-drain"); ok {
			if !upd.Done() || !del.Done() {
				r.Violation("C09/writer-blocked/"+kind+"/bp/delete-after-updates", "the subscriber receives again but the writers have not returned at the quiescent point", map[string]any{"kind": kind})
				c.stop()
				return
			}
			n := c.nCol()
			want := 1 + len(ups) + 1 // seed + updates + remove
			if kind == "pullid" {
				n, want = c.nVal(), 1+len(ups) // the removal closes the stream
			}
			if n != want {
				r.Violation("C09/dropped-with-backpressure/"+kind+"/delete-after-updates", fmt.Sprintf("the backpressured %s subscriber received %d events, want %d (seed, %d updates%s)", kind, n, want, len(ups), map[bool]string{true: ", remove", false: ""}[kind == "pull"]), map[string]any{"kind": kind})
			}
		}
		c.stop()
	}
}

// publishOrder: writers queue behind a delivery that a backpressured, momentarily idle subscriber is holding up;
// meanwhile a client opens a (seeded) subscription and writes right away, so that the parties waiting for their turn
// to publish did not start waiting in the order of their turns. Once the idle subscriber receives again everybody
// must get through: all writes return and every subscriber that keeps receiving ends up with the listing.
func publishOrder(r *vk.Run) {
	n := r.Pick(40, 2000)
	for i := 0; i < n; i++ {
		if !r.Mine(i) {
			continue
		}
		rng := r.CaseRand("c09-puborder", i)
		col := resource.NewCollection(resource.WithClock(clk{}))
		ctx, cancel := context.WithCancel(context.Background())
		slow := newConsumer()
		slow.cancel = cancel
		slow.runCol(col.Pull(ctx, resource.WithBackpressure(true)))
		if _, ok := r.MustQuiesce("c09-po-open"); !ok {
			slow.stop()
			return
		}
		var tasks []*vk.Task
		nw := rng.Range(2, 4)
		for k := 0; k < nw; k++ {
			id := fmt.Sprintf("w%d", k)
			tasks = append(tasks, vk.Go(func() { col.Add(id, mkValLocked(id)) }))
			vk.Quiesce()
		}
		// a client subscribes (with seed: it takes a place in the publish order) and writes at once
		late := make([]*consumer, 0, 2)
		nl := rng.Range(1, 2)
		for k := 0; k < nl; k++ {
			c := newConsumer()
			c.cancel = func() {}
			c.grant(1 << 20)
			id := fmt.Sprintf("z%d", k)
			bp := rng.Bool()
			tasks = append(tasks, vk.Go(func() {
				c.runCol(col.Pull(ctx, resource.WithBackpressure(bp)))
				col.Add(id, mkValLocked(id))
			}))
			late = append(late, c)
		}
		vk.Quiesce()
		slow.grant(1 << 20)
		if _, ok := r.MustQuiesce("c09-po-drain"); !ok {
			slow.stop()
			return
		}
		r.Eval(1)
		r.Count("publish-order-scenarios", 1)
		r.Distinct(fmt.Sprintf("puborder|%d|%d", nw, nl))
		stuck := 0
		for _, t := range tasks {
			if !t.Done() {
				stuck++
			}
		}
		if stuck > 0 {
			r.Violation("C09/writer-blocked/pull/publish-order", fmt.Sprintf("case %d: %d of %d writers (%d of them writing right after opening a subscription) have not returned at the quiescent point after the slow backpressured subscriber resumed receiving\n%s", i, stuck, len(tasks), nl, vk.DescribeGs(vk.LibraryGoroutines(vk.Goroutines(), nil))), map[string]any{"case": i, "writers": nw, "late": nl})
		} else {
			list := col.List()
			for k, c := range append([]*consumer{slow}, late...) {
				c.mu.Lock()
				evs := append([]*resource.CollectionChange{}, c.colEv...)
				c.mu.Unlock()
				view := vk.NewView(true)
				for _, e := range evs {
					view.Apply(e)
				}
				if !vk.SameList(view.Sorted(), list) {
					r.Violation("C09/fold/collection/publish-order", fmt.Sprintf("case %d: subscriber %d folds to %s, List %s\nreceived:\n    %s", i, k, vk.ListJSON(view.Sorted()), vk.ListJSON(list), renderCol(evs)), map[string]any{"case": i})
				}
			}
		}
		slow.stop()
		for _, c := range late {
			c.mu.Lock()
			c.quit = true
			c.cond.Broadcast()
			c.mu.Unlock()
		}
		if stuck > 0 {
			return // leaked writers would disturb every later quiescence check of this worker
		}
	}
	r.Require("publish-order-scenarios", 10)
}

// lateSubscriber: a lossy subscriber attaches while a write is held up by an idle backpressured subscriber and
// while an earlier subscriber has gone away (cancelled, not yet collected by the bus). Once the slow subscriber
// drains, the next write must reach the late subscriber: "the subscriber eventually receives the most recent value".
func lateSubscriber(r *vk.Run) {
	idx := 0
	for _, kind := range []string{"value", "collection-updates-only"} {
		for _, goneBP := range []bool{true, false} {
			for rep := 0; rep < 2; rep++ {
				idx++
				if !r.Mine(idx) {
					continue
				}
				val := resource.NewValue(resource.WithClock(clk{}), resource.WithInitialValue(mkValLocked("")))
				col := resource.NewCollection(resource.WithClock(clk{}), resource.WithInitialRecord("a", mkValLocked("a")))
				ctx, cancel := context.WithCancel(context.Background())
				goneCtx, goneCancel := context.WithCancel(ctx)
				slow, late := newConsumer(), newConsumer()
				slow.cancel, late.cancel = cancel, func() {}
				// registration order matters: the slow subscriber first, the one that will go away after it, so that a
				// delivery held up by the slow one has not yet looked at the other
				if kind == "value" {
					slow.runVal(val.Pull(ctx, resource.WithBackpressure(true), resource.WithUpdatesOnly(true)))
					vk.Quiesce()
					_ = val.Pull(goneCtx, resource.WithBackpressure(goneBP), resource.WithUpdatesOnly(true))
				} else {
					slow.runCol(col.Pull(ctx, resource.WithBackpressure(true), resource.WithUpdatesOnly(true)))
					vk.Quiesce()
					_ = col.Pull(goneCtx, resource.WithBackpressure(goneBP), resource.WithUpdatesOnly(true))
				}
				vk.Quiesce()
				write := func(tag string) *vk.Task {
					return vk.Go(func() {
						if kind == "value" {
							val.Set(mkValLocked(tag))
						} else {
							col.Update("a", mkValLocked(tag))
						}
					})
				}
				// writes pile up behind the idle backpressured subscriber; one of them is in the middle of its Send
				var ws []*vk.Task
				for k := 0; k < 3; k++ {
					ws = append(ws, write(fmt.Sprintf("w%d", k)))
					vk.Quiesce()
				}
				// now the other subscriber goes away, while a delivery is parked at the slow one
				goneCancel()
				vk.Quiesce()
				if kind == "value" {
					late.runVal(val.Pull(ctx, resource.WithUpdatesOnly(true)))
				} else {
					late.runCol(col.Pull(ctx, resource.WithUpdatesOnly(true)))
				}
				late.grant(1 << 20)
				vk.Quiesce()
				slow.grant(1 << 20)
				if _, ok := r.MustQuiesce("c09-late-drain"); !ok {
					slow.stop()
					return
				}
				final := write("final")
				if _, ok := r.MustQuiesce("c09-late-final"); !ok {
					slow.stop()
					return
				}
				r.Eval(1)
				r.Count("late-subscriber-scenarios", 1)
				r.Distinct(fmt.Sprintf("late|%s|%v", kind, goneBP))
				stuck := !final.Done()
				for _, w := range ws {
					stuck = stuck || !w.Done()
				}
				var lastTag string
				if kind == "value" {
					late.mu.Lock()
					if n := len(late.valEv); n > 0 {
						lastTag = late.valEv[n-1].Value.(*tat).DefaultString
					}
					late.mu.Unlock()
				} else {
					late.mu.Lock()
					if n := len(late.colEv); n > 0 {
						lastTag = late.colEv[n-1].NewValue.(*tat).DefaultString
					}
					late.mu.Unlock()
				}
				var cur string
				if kind == "value" {
					cur = val.Get().(*tat).DefaultString
				} else {
					m, _ := col.Get("a")
					cur = m.(*tat).DefaultString
				}
				switch {
				case stuck:
					r.Violation("C09/writer-blocked/"+kind+"/late-subscriber", fmt.Sprintf("writes have not returned at the quiescent point although every live subscriber receives\n%s", vk.DescribeGs(vk.LibraryGoroutines(vk.Goroutines(), nil))), map[string]any{"kind": kind, "goneBP": goneBP})
				case lastTag != cur:
					r.Violation("C09/last-value/"+kind+"/late-subscriber", fmt.Sprintf("a subscriber that attached while a write was being delivered (a cancelled subscriber was still registered) last received %q; the stored value is %q after a further write that every other subscriber got", lastTag, cur), map[string]any{"kind": kind, "goneBP": goneBP})
				}
				slow.stop()
				late.mu.Lock()
				late.quit = true
				late.cond.Broadcast()
				late.mu.Unlock()
				if stuck {
					return
				}
			}
		}
	}
	r.Require("late-subscriber-scenarios", 2)
}

// taskSettles is used after a violation "the writer has not returned" was reported and the consumer was told to
// receive everything: it reports whether the writer has returned at the next quiescent point. It never blocks on
// the task itself (under some breakages the writer never returns).
func taskSettles(t *vk.Task) bool {
	vk.Quiesce()
	return t.Done()
}

func touchesA(steps []step) bool {
	for _, s := range steps {
		if s.ID == "a" {
			return true
		}
	}
	return false
}

var valMu sync.Mutex

func mkValLocked(id string) *tat {
	valMu.Lock()
	defer valMu.Unlock()
	return mkVal(id)
}

func b2i(b bool) int {
	if b {
		return 1
	}
	return 0
}

// ---------------------------------------------------------------------------------------------------------

func lossyValue(r *vk.Run) {
	maxLen := r.Pick(6, 10)
	idx := 0
	for _, withInit := range []bool{false, true} {
		for n := 1; n <= maxLen; n++ {
			for pat := 0; pat < 1<<n; pat++ {
				idx++
				if !r.Mine(idx) {
					continue
				}
				valueScenario(r, withInit, n, pat)
			}
		}
	}
}

func valueScenario(r *vk.Run, withInit bool, n, pat int) {
	opts := []resource.Option{resource.WithClock(clk{})}
	if withInit {
		opts = append(opts, resource.WithInitialValue(mkValLocked("")))
	}
	// a resource-level comparer does not change what "without backpressure" means (every written value is distinct
	// here, so nothing is suppressed either)
	eqv := [...]string{"none", "no-duplicates", "comparer"}[(n+pat+b2i(withInit))%3]
	switch eqv {
	case "no-duplicates":
		opts = append(opts, resource.WithNoDuplicates())
	case "comparer":
		opts = append(opts, resource.WithEquivalence(resource.ComparerFunc(func(x, y proto.Message) bool {
			a, _ := x.(*tat)
			b, _ := y.(*tat)
			return a != nil && b != nil && a.DefaultInt32 == b.DefaultInt32
		})))
	}
	v := resource.NewValue(opts...)
	ctx, cancel := context.WithCancel(context.Background())
	c := newConsumer()
	c.cancel = cancel
	c.runVal(v.Pull(ctx))
	defer c.stop()
	desc := fmt.Sprintf("value/lossy init=%v n=%d permits=%b equivalence=%s", withInit, n, pat, eqv)
	replay := map[string]any{"init": withInit, "n": n, "pattern": pat, "equivalence": eqv}
	if withInit {
		c.grant(1)
	}
	if _, ok := r.MustQuiesce("c09-vopen"); !ok {
		return
	}
	for i := 0; i < n; i++ {
		t := vk.Go(func() { v.Set(mkValLocked("")) })
		if _, ok := r.MustQuiesce("c09-vwrite"); !ok {
			return
		}
		if !t.Done() {
			r.Violation("C09/writer-blocked/value/lossy", fmt.Sprintf("[%s]: Set #%d has not returned at the quiescent point after it\n%s", desc, i, vk.DescribeGs(vk.LibraryGoroutines(vk.Goroutines(), nil))), replay)
			c.grant(100)
			taskSettles(t) // after a reported violation the writer may never return: do not wait for it
			return
		}
		if (pat>>i)&1 == 1 {
			c.grant(1)
			if _, ok := r.MustQuiesce("c09-vpermit"); !ok {
				return
			}
		}
	}
	c.grant(100)
	if _, ok := r.MustQuiesce("c09-vdrain"); !ok {
		return
	}
	r.Eval(1)
	r.Count("lossy-value-scenarios", 1)
	r.Distinct(desc)
	c.mu.Lock()
	evs := append([]*resource.ValueChange{}, c.valEv...)
	c.mu.Unlock()
	r.Count("value-events-received", len(evs))
	if len(evs) < n {
		r.Count("value-scenarios-with-dropped-events", 1)
	}
	cur := v.Get()
	if len(evs) == 0 {
		r.Violation("C09/last-value/value", fmt.Sprintf("[%s]: nothing received", desc), replay)
		return
	}
	if !vk.SameMessage(evs[len(evs)-1].Value, cur) {
		r.Violation("C09/last-value/value", fmt.Sprintf("[%s]: last received %s, Get says %s", desc, vk.JSON(evs[len(evs)-1].Value), vk.JSON(cur)), replay)
	}
	// received values must be in write order (tags increase)
	prev := int32(-1)
	for _, e := range evs {
		t := e.Value.(*tat).DefaultInt32
		if t <= prev {
			r.Violation("C09/order/value", fmt.Sprintf("[%s]: values delivered out of write order", desc), replay)
		}
		prev = t
	}
}

// ---------------------------------------------------------------------------------------------------------

// backpressure: nothing is dropped, order is kept, writers wait (beyond the pipeline depth) for an idle consumer.
func backpressure(r *vk.Run) {
	n := r.Pick(60, 600)
	for i := 0; i < n; i++ {
		if !r.Mine(i) {
			continue
		}
		rng := r.CaseRand("c09-bp", i)
		kind := []string{"value", "pull", "pullid"}[rng.Intn(3)]
		writes := rng.Range(3, 8)
		bpScenario(r, kind, writes, rng)
	}
}

func bpScenario(r *vk.Run, kind string, writes int, rng *vk.Rand) {
	ctx, cancel := context.WithCancel(context.Background())
	c := newConsumer()
	c.cancel = cancel
	defer c.stop()
	var v *resource.Value
	var col *resource.Collection
	switch kind {
	case "value":
		v = resource.NewValue(resource.WithClock(clk{}))
		c.runVal(v.Pull(ctx, resource.WithBackpressure(true)))
	case "pull":
		col = resource.NewCollection(resource.WithClock(clk{}))
		c.runCol(col.Pull(ctx, resource.WithBackpressure(true)))
	case "pullid":
		col = resource.NewCollection(resource.WithClock(clk{}))
		c.runVal(col.PullID(ctx, "a", resource.WithBackpressure(true)))
	}
	replay := map[string]any{"kind": kind, "writes": writes}
	if _, ok := r.MustQuiesce("c09-bp-open"); !ok {
		return
	}
	var tags []int32
	var tasks []*vk.Task
	write := func() *vk.Task {
		val := mkValLocked("a")
		tags = append(tags, val.DefaultInt32)
		return vk.Go(func() {
			switch kind {
			case "value":
				v.Set(val)
			default:
				col.Update("a", val, resource.WithCreateIfAbsent())
			}
		})
	}
	// phase 1: the consumer is idle; writers start one after the other (each waits for the previous to either
	// finish or block) and only a bounded number may complete
	completed := 0
	for i := 0; i < writes; i++ {
		t := write()
		tasks = append(tasks, t)
		if _, ok := r.MustQuiesce("c09-bp-write"); !ok {
			return
		}
		if t.Done() {
			completed++
		} else {
			break // the next writer would queue behind this one
		}
	}
	depth := map[string]int{"value": 1, "pull": 1, "pullid": 2}[kind]
	r.Count("bp-writes-completed-with-idle-consumer", completed)
	if completed == writes || completed > depth+1 {
		r.Violation("C09/bp-writers-do-not-wait/"+kind, fmt.Sprintf("%d writes completed while the backpressured consumer received nothing (pipeline depth %d)", completed, depth), replay)
	}
	// phase 2: let the consumer receive everything, then issue the remaining writes with the consumer live
	c.grant(1000)
	for _, t := range tasks {
		t.Wait()
	}
	for i := len(tasks); i < writes; i++ {
		write().Wait()
	}
	if _, ok := r.MustQuiesce("c09-bp-drain"); !ok {
		return
	}
	r.Eval(1)
	r.Count("bp-scenarios", 1)
	r.Distinct(fmt.Sprintf("bp:%s:%d:%d", kind, writes, completed))
	var got []int32
	c.mu.Lock()
	for _, e := range c.colEv {
		got = append(got, e.NewValue.(*tat).DefaultInt32)
	}
	for _, e := range c.valEv {
		got = append(got, e.Value.(*tat).DefaultInt32)
	}
	c.mu.Unlock()
	if len(got) != len(tags) {
		r.Violation("C09/dropped-with-backpressure/"+kind, fmt.Sprintf("%d writes, %d events received: %v vs %v", len(tags), len(got), tags, got), replay)
		return
	}
	for i := range got {
		if got[i] != tags[i] {
			r.Violation("C09/bp-order/"+kind, fmt.Sprintf("events %v do not follow the write order %v", got, tags), replay)
			return
		}
	}
}

// ---------------------------------------------------------------------------------------------------------

// randomPacing: lossy subscribers with a consumer that yields randomly, one writer; fold must converge.
func randomPacing(r *vk.Run) {
	n := r.Pick(2000, 50000)
	for i := 0; i < n; i++ {
		if !r.Mine(i) {
			continue
		}
		rng := r.CaseRand("c09-pace", i)
		col := resource.NewCollection(resource.WithClock(clk{}))
		ctx, cancel := context.WithCancel(context.Background())
		c := newConsumer()
		c.cancel = cancel
		c.runCol(col.Pull(ctx))
		present := map[string]bool{}
		ids := []string{"a", "b", "c"}
		nw := rng.Range(5, 30)
		for k := 0; k < nw; k++ {
			id := ids[rng.Intn(3)]
			switch {
			case !present[id]:
				col.Add(id, mkValLocked(id))
				present[id] = true
			case rng.Chance(1, 3):
				col.Delete(id)
				present[id] = false
			default:
				col.Update(id, mkValLocked(id))
			}
			if rng.Chance(1, 3) {
				c.grant(rng.Range(1, 3))
			}
			if rng.Chance(1, 4) {
				vk.Quiesce()
			}
		}
		c.grant(1000)
		if _, ok := r.MustQuiesce("c09-pace-drain"); !ok {
			c.stop()
			return
		}
		r.Eval(1)
		r.Count("random-pacing-runs", 1)
		c.mu.Lock()
		evs := append([]*resource.CollectionChange{}, c.colEv...)
		c.mu.Unlock()
		view := vk.NewView(true)
		for _, e := range evs {
			view.Apply(e)
		}
		r.Distinct(fmt.Sprintf("pace:%d:%d", nw, len(evs)))
		for _, p := range view.Problems {
			r.Violation("C09/chain/random-pacing", fmt.Sprintf("case %d: %s\nreceived:\n    %s", i, p, renderCol(evs)), map[string]any{"case": i})
		}
		if !vk.SameList(view.Sorted(), col.List()) {
			r.Violation("C09/fold/collection/random-pacing", fmt.Sprintf("case %d: folded view %s, List %s\nreceived:\n    %s", i, vk.ListJSON(view.Sorted()), vk.ListJSON(col.List()), renderCol(evs)), map[string]any{"case": i})
		}
		c.stop()
	}
}

// ---------------------------------------------------------------------------------------------------------

// sendTimeout: a backpressured Value subscriber that never receives; the Set whose event cannot be delivered must
// return an error (after the library's five-second timeout) instead of hanging.
func sendTimeout(r *vk.Run) {
	trials := r.Pick(2, 6)
	var wg sync.WaitGroup
	for i := 0; i < trials; i++ {
		if !r.Mine(i) {
			continue
		}
		wg.Add(1)
		go func(i int) {
			defer wg.Done()
			v := resource.NewValue(resource.WithClock(clk{}), resource.WithInitialValue(&tat{DefaultString: "init"}))
			ctx, cancel := context.WithCancel(context.Background())
			defer cancel()
			_ = v.Pull(ctx, resource.WithBackpressure(true), resource.WithUpdatesOnly(i%2 == 0)) // nobody ever receives
			var errs []error
			done := make(chan struct{})
			go func() {
				defer close(done)
				for k := 0; k < 3; k++ {
					_, err := v.Set(&tat{DefaultString: fmt.Sprintf("t%d-%d", i, k)})
					errs = append(errs, err)
				}
			}()
			select {
			case <-done:
			case <-time.After(120 * time.Second):
				r.Inconclusive("send-timeout-watchdog", "three undeliverable Sets did not return within 120 s")
				return
			}
			r.Eval(1)
			r.Count("send-timeout-trials", 1)
			nerr := 0
			for _, e := range errs {
				if e != nil {
					nerr++
				}
			}
			r.Distinct(fmt.Sprintf("timeout:%d:%d", i, nerr))
			// the forwarding goroutine buffers at most one event (two when the seed is pending): at least one of the
			// three Sets could not deliver its event and must have reported it
			if nerr == 0 {
				r.Violation("C09/send-timeout/no-error", "three Sets with a subscriber that never receives all reported success", map[string]any{"trial": i})
			}
		}(i)
	}
	// slow but live: a backpressured subscriber that receives steadily (one event every 1.5 s) while five writers are
	// in flight. No single send waits anywhere near five seconds, so every Set must succeed and every value must arrive:
	// "with backpressure nothing is dropped while the subscriber keeps receiving".
	if r.Mine(0) {
		wg.Add(1)
		go func() {
			defer wg.Done()
			slowButLive(r)
		}()
	}
	// a Collection has no send timeout: a backpressured subscriber that pauses for longer than the Value timeout and
	// then carries on still receives every change (the statement grants the timeout, with an error, to Value only)
	if r.Mine(1) {
		wg.Add(1)
		go func() {
			defer wg.Done()
			collectionLongPause(r)
		}()
	}
	wg.Wait()
}

func collectionLongPause(r *vk.Run) {
	for _, kind := range []string{"add-update-remove", "adds"} {
		col := resource.NewCollection(resource.WithClock(clk{}))
		ctx, cancel := context.WithCancel(context.Background())
		c := newConsumer()
		c.cancel = cancel
		c.runCol(col.Pull(ctx, resource.WithBackpressure(true)))
		done := make(chan struct{})
		var errs []error
		go func() {
			defer close(done)
			if kind == "adds" {
				for k := 0; k < 3; k++ {
					_, err := col.Add(fmt.Sprintf("p%d", k), mkValLocked("p"))
					errs = append(errs, err)
				}
				return
			}
			_, e1 := col.Add("p", mkValLocked("p"))
			_, e2 := col.Update("p", mkValLocked("p"))
			_, e3 := col.Delete("p")
			errs = append(errs, e1, e2, e3)
		}()
		time.Sleep(6500 * time.Millisecond) // the subscriber pauses (real time: the library's timeouts are real time)
		c.grant(1 << 20)
		select {
		case <-done:
		case <-time.After(120 * time.Second):
			r.Inconclusive("collection-long-pause-watchdog", "three writes with a subscriber that resumed receiving did not return within 120 s")
			c.stop()
			return
		}
		// the events still in flight reach the consumer promptly; wait (bounded) for three, then look
		for w := 0; w < 6000 && c.nCol() < 3; w++ { // up to a minute: only a run that is about to report waits that long
			time.Sleep(10 * time.Millisecond)
		}
		r.Eval(1)
		r.Count("collection-long-pause-trials", 1)
		r.Distinct("long-pause:" + kind)
		c.mu.Lock()
		evs := append([]*resource.CollectionChange{}, c.colEv...)
		c.mu.Unlock()
		nerr := 0
		for _, e := range errs {
			if e != nil {
				nerr++
			}
		}
		if len(evs) != 3 || nerr != 0 {
			r.Violation("C09/dropped-with-backpressure/pull/long-pause", fmt.Sprintf("[%s] a backpressured collection subscriber paused for 6.5 s and then kept receiving: it got %d of 3 changes (%d writes reported an error)\nreceived:\n    %s", kind, len(evs), nerr, renderCol(evs)), map[string]any{"kind": kind})
		}
		c.stop()
	}
}

func slowButLive(r *vk.Run) {
	v := resource.NewValue(resource.WithClock(clk{}), resource.WithInitialValue(&tat{DefaultString: "init"}))
	ctx, cancel := context.WithCancel(context.Background())
	defer cancel()
	ch := v.Pull(ctx, resource.WithBackpressure(true), resource.WithUpdatesOnly(true))
	const writers = 5
	var mu sync.Mutex
	var got []string
	var recvAt []time.Time
	start := time.Now()
	recvDone := make(chan struct{})
	go func() {
		defer close(recvDone)
		for len(got) < writers {
			time.Sleep(1500 * time.Millisecond)
			select {
			case e, ok := <-ch:
				if !ok {
					return
				}
				mu.Lock()
				got = append(got, e.Value.(*tat).DefaultString)
				recvAt = append(recvAt, time.Now())
				mu.Unlock()
			case <-time.After(20 * time.Second):
				return
			}
		}
	}()
	errs := make([]error, writers)
	var wg sync.WaitGroup
	for w := 0; w < writers; w++ {
		w := w
		wg.Add(1)
		go func() {
			defer wg.Done()
			time.Sleep(time.Duration(w) * 40 * time.Millisecond) // stagger: simultaneous commits abort each other
			for try := 0; try < 50; try++ {
				_, err := v.Set(&tat{DefaultString: fmt.Sprintf("slow%d", w)})
				if err != nil && strings.Contains(err.Error(), "concurrent update") {
					time.Sleep(5 * time.Millisecond)
					continue
				}
				errs[w] = err
				return
			}
		}()
	}
	wg.Wait()
	select {
	case <-recvDone:
	case <-time.After(60 * time.Second):
	}
	mu.Lock()
	defer mu.Unlock()
	// the trial only counts if the harness itself was not starved: no gap between receives above 3.5 s
	prev := start
	for _, t := range recvAt {
		if t.Sub(prev) > 3500*time.Millisecond {
			r.Count("slow-but-live-trials-skipped(harness starved)", 1)
			return
		}
		prev = t
	}
	r.Eval(1)
	r.Count("slow-but-live-trials", 1)
	r.Distinct(fmt.Sprintf("slow-live:%d", len(got)))
	for w, e := range errs {
		if e != nil {
			r.Violation("C09/dropped-with-backpressure/value/slow-but-live", fmt.Sprintf("writer %d of %d got %q although the subscriber received one event every 1.5 s (received %v)", w, writers, e, got), map[string]any{"writers": writers})
			return
		}
	}
	if len(got) != writers {
		r.Violation("C09/dropped-with-backpressure/value/slow-but-live", fmt.Sprintf("%d writers succeeded but the steadily receiving subscriber got %v", writers, got), map[string]any{"writers": writers})
	}
}
