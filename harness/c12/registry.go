package main

import (
	"errors"
	"fmt"
	"strings"
	"sync"

	"google.golang.org/grpc/codes"
	"google.golang.org/grpc/status"

	"github.com/smart-core-os/sc-golang/internal/verif/vk"
	"github.com/smart-core-os/sc-golang/pkg/router"
)

// regTarget is a registry under test: the plain router.NewRouter or one of the generated routers.
type regTarget struct {
	class       string // "raw" or "generated"
	id          string
	e           *entry
	newRouter   func(opts ...router.Option) router.Router
	newClient   func(label string) any
	withFactory func(f func(string) (any, error)) router.Option
}

type rawClient struct{ label string }

func rawTarget() *regTarget {
	return &regTarget{
		class: "raw", id: "router.NewRouter",
		newRouter:   router.NewRouter,
		newClient:   func(label string) any { return &rawClient{label} },
		withFactory: func(f func(string) (any, error)) router.Option { return router.WithFactory(f) },
	}
}

func genTarget(e *entry) *regTarget {
	log := &connLog{}
	return &regTarget{
		class: "generated", id: e.ID(), e: e,
		newRouter:   func(opts ...router.Option) router.Router { return e.New(opts...) },
		newClient:   func(label string) any { return e.Client(&fakeConn{label: label, log: log}) },
		withFactory: e.WithFactory,
	}
}

var regNames = []string{"a", "b", "", "F1", "F2", "B1", "FB", "A"}

// wantChange is one expected entry of the change log; optional entries may be absent (the statement does not say
// whether re-adding the identical client is a transition).
type wantChange struct {
	c        router.Change
	kind     string
	optional bool
}

func changeKind(c router.Change) string {
	switch {
	case c.Auto:
		return "auto"
	case c.New == nil:
		return "remove"
	case c.Old == nil:
		return "add"
	default:
		return "replace"
	}
}

// regRig drives a registry and its map model side by side.
type regRig struct {
	r  *vk.Run
	t  *regTarget
	rt router.Router

	hasFactory, hasFallback bool
	failStyle               int

	mu       sync.Mutex // the callbacks may run on other goroutines in the concurrent scenarios
	changes  []router.Change
	facCalls map[string]int
	facMade  map[string][]any
	fbMade   map[string]any
	fbCalls  map[string]int
	labels   map[any]string

	model map[string]any
	want  []wantChange
	hist  []string
	n     int
}

func newRegRig(r *vk.Run, t *regTarget, hasFactory, hasFallback bool, failStyle int, onChange bool) *regRig {
	g := &regRig{r: r, t: t, hasFactory: hasFactory, hasFallback: hasFallback, failStyle: failStyle,
		facCalls: map[string]int{}, facMade: map[string][]any{}, fbMade: map[string]any{}, fbCalls: map[string]int{},
		labels: map[any]string{}, model: map[string]any{}}
	var opts []router.Option
	if hasFactory {
		opts = append(opts, t.withFactory(func(n string) (any, error) {
			g.mu.Lock()
			defer g.mu.Unlock()
			g.facCalls[n]++
			if !inFactoryDomain(n) {
				if g.failStyle == 0 {
					return nil, nil
				}
				return nil, status.Error(codes.Unavailable, "no such device")
			}
			c := g.clientLocked("factory:" + n)
			g.facMade[n] = append(g.facMade[n], c)
			return c, nil
		}))
	}
	if hasFallback {
		opts = append(opts, router.WithFallback(func(n string) (any, error) {
			g.mu.Lock()
			defer g.mu.Unlock()
			g.fbCalls[n]++
			if !inFallbackDomain(n) {
				if g.failStyle == 0 {
					return nil, errors.New("no such device")
				}
				return nil, nil
			}
			c := g.fbMade[n]
			if c == nil {
				c = g.clientLocked("fallback:" + n)
				g.fbMade[n] = c
			}
			return c, nil
		}))
	}
	if onChange {
		opts = append(opts, router.WithOnChange(func(c router.Change) {
			g.mu.Lock()
			g.changes = append(g.changes, c)
			g.mu.Unlock()
		}))
	}
	g.rt = t.newRouter(opts...)
	return g
}

func (g *regRig) clientLocked(label string) any {
	g.n++
	l := fmt.Sprintf("%s#%d", label, g.n)
	c := g.t.newClient(l)
	g.labels[c] = l
	return c
}

func (g *regRig) client(label string) any {
	g.mu.Lock()
	defer g.mu.Unlock()
	return g.clientLocked(label)
}

func (g *regRig) label(c any) string {
	if c == nil {
		return "<nil>"
	}
	g.mu.Lock()
	defer g.mu.Unlock()
	if l, ok := g.labels[c]; ok {
		return l
	}
	return fmt.Sprintf("<unknown %T>", c)
}

func (g *regRig) key(op, clause string) string {
	return "C12/registry/" + op + "/" + clause + "/" + g.t.class
}

func (g *regRig) fail(op, clause, what string) {
	g.r.Violation(g.key(op, clause), fmt.Sprintf("%s\ntarget %s factory=%v fallback=%v\nhistory: %s", what, g.t.id, g.hasFactory, g.hasFallback, strings.Join(g.hist, "; ")),
		map[string]any{"target": g.t.id, "history": g.hist})
}

func (g *regRig) note(s string) {
	if len(g.hist) < 200 {
		g.hist = append(g.hist, s)
	}
}

// step performs one random registry operation and compares its result with the map model.
func (g *regRig) step(rng *vk.Rand) {
	n := regNames[rng.Intn(len(regNames))]
	typed := g.t.e != nil && rng.Bool()
	switch op := rng.Intn(10); {
	case op < 3: // add
		var c any
		prev := g.model[n]
		if prev != nil && rng.Chance(1, 8) {
			c = prev // re-add the identical client
		} else {
			c = g.client("added:" + n)
		}
		var got any
		opName := "add"
		if typed {
			opName = "add-typed"
			got = g.t.e.AddTyped(g.rt.(routerAPI), n, c)
		} else {
			got = g.rt.Add(n, c)
		}
		g.note(fmt.Sprintf("%s(%q,%s)=%s", opName, n, g.label(c), g.label(got)))
		g.r.Count("registry-op-"+opName, 1)
		if got != prev {
			g.fail(opName, "return", fmt.Sprintf("Add(%q) returned %s, the previous client was %s", n, g.label(got), g.label(prev)))
		}
		g.model[n] = c
		g.want = append(g.want, wantChange{c: router.Change{Name: n, Old: prev, New: c}, kind: changeKind(router.Change{Old: prev, New: c}), optional: prev == c})
		g.checkState(opName)
	case op < 5: // remove
		prev := g.model[n]
		var got any
		opName := "remove"
		if typed {
			opName = "remove-typed"
			got = g.t.e.RemoveTyped(g.rt.(routerAPI), n)
		} else {
			got = g.rt.Remove(n)
		}
		g.note(fmt.Sprintf("%s(%q)=%s", opName, n, g.label(got)))
		g.r.Count("registry-op-"+opName, 1)
		if prev == nil {
			g.r.Count("registry-remove-absent", 1)
		}
		if got != prev {
			g.fail(opName, "return", fmt.Sprintf("Remove(%q) returned %s, the registered client was %s", n, g.label(got), g.label(prev)))
		}
		if prev != nil {
			delete(g.model, n)
			g.want = append(g.want, wantChange{c: router.Change{Name: n, Old: prev}, kind: "remove"})
		}
		g.checkState(opName)
	case op < 6: // has
		got := g.rt.Has(n)
		g.r.Count("registry-op-has", 1)
		g.note(fmt.Sprintf("has(%q)=%v", n, got))
		if got != (g.model[n] != nil) {
			g.fail("has", "return", fmt.Sprintf("Has(%q) = %v, model says %v", n, got, g.model[n] != nil))
		}
	default: // get
		g.get(n, typed)
	}
	g.r.Eval(1)
}

func (g *regRig) get(n string, typed bool) {
	opName := "get"
	g.mu.Lock()
	facBefore, madeBefore := g.facCalls[n], len(g.facMade[n])
	g.mu.Unlock()
	var got any
	var err error
	if typed {
		opName = "get-typed"
		got, err = g.t.e.GetTyped(g.rt.(routerAPI), n)
	} else {
		got, err = g.rt.Get(n)
	}
	g.mu.Lock()
	facNow := g.facCalls[n]
	made := g.facMade[n][madeBefore:]
	fb := g.fbMade[n]
	g.mu.Unlock()
	g.note(fmt.Sprintf("%s(%q)=%s,%s", opName, n, g.label(got), errString(err)))
	g.r.Count("registry-op-"+opName, 1)
	prev := g.model[n]
	fbServes := g.hasFallback && inFallbackDomain(n)
	facServes := g.hasFactory && inFactoryDomain(n)
	switch {
	case prev != nil:
		g.r.Count("registry-get-registered", 1)
		if got != prev || err != nil {
			g.fail(opName, "return", fmt.Sprintf("Get(%q) = %s, %s; registered client is %s", n, g.label(got), errString(err), g.label(prev)))
		}
		if facNow != facBefore {
			g.fail(opName, "factory-calls", fmt.Sprintf("Get(%q) of a registered name called the factory", n))
		}
	case fbServes && fb != nil && got == fb && err == nil:
		g.r.Count("registry-get-fallback", 1)
		if len(made) > 0 {
			g.fail(opName, "factory-calls", fmt.Sprintf("Get(%q) answered by the fallback also created a factory client", n))
		}
	case facServes:
		g.r.Count("registry-get-factory-first", 1)
		if fbServes {
			g.r.Count("registry-get-factory-chosen-over-fallback", 1)
		}
		if len(made) != 1 {
			g.fail(opName, "factory-calls", fmt.Sprintf("first Get(%q) called the factory %d times (sequential use)", n, len(made)))
		}
		if err != nil || len(made) == 0 || got != made[len(made)-1] {
			g.fail(opName, "return", fmt.Sprintf("first Get(%q) = %s, %s; the factory made %d clients", n, g.label(got), errString(err), len(made)))
		}
		if got != nil && err == nil {
			g.model[n] = got
			g.want = append(g.want, wantChange{c: router.Change{Name: n, New: got, Auto: true}, kind: "auto"})
		}
	case fbServes:
		g.fail(opName, "return", fmt.Sprintf("Get(%q) = %s, %s; the fallback serves this name with %s", n, g.label(got), errString(err), g.label(fb)))
	default:
		g.r.Count("registry-get-unknown", 1)
		if err == nil || status.Code(err) != codes.NotFound {
			g.fail(opName, "notfound", fmt.Sprintf("Get(%q) of an unknown name returned %s, %s", n, g.label(got), errString(err)))
		}
		if got != nil {
			g.fail(opName, "return", fmt.Sprintf("Get(%q) of an unknown name returned client %s", n, g.label(got)))
		}
	}
	g.checkState(opName)
}

// checkState compares Has for every name with the model (Has has no side effects).
func (g *regRig) checkState(op string) {
	for _, n := range regNames {
		if got, want := g.rt.Has(n), g.model[n] != nil; got != want {
			g.fail(op, "state", fmt.Sprintf("after the last step Has(%q) = %v, model says %v", n, got, want))
			if want {
				delete(g.model, n)
			}
			return
		}
	}
}

// finish checks that Has and Get agree for every name and that the change log is exactly the transition list.
func (g *regRig) finish(onChange bool) {
	for _, n := range regNames {
		if c := g.model[n]; c != nil {
			got, err := g.rt.Get(n)
			if got != c || err != nil || !g.rt.Has(n) {
				g.fail("get", "has-get-agree", fmt.Sprintf("Has(%q)=%v but Get = %s, %s; model has %s", n, g.rt.Has(n), g.label(got), errString(err), g.label(c)))
			}
		}
	}
	if !onChange {
		return
	}
	g.mu.Lock()
	got := append([]router.Change(nil), g.changes...)
	g.mu.Unlock()
	g.r.Count("registry-changes-observed", len(got))
	i, j := 0, 0
	for i < len(g.want) && j < len(got) {
		w := g.want[i]
		if got[j] == w.c {
			i++
			j++
			continue
		}
		if w.optional {
			i++
			continue
		}
		if got[j].Name == w.c.Name && changeKind(got[j]) == w.kind {
			g.fail("onchange", "fields:"+w.kind, fmt.Sprintf("change %d is {%q old=%s new=%s auto=%v}, expected {%q old=%s new=%s auto=%v}", j,
				got[j].Name, g.label(got[j].Old), g.label(got[j].New), got[j].Auto, w.c.Name, g.label(w.c.Old), g.label(w.c.New), w.c.Auto))
		} else {
			g.fail("onchange", "missing:"+w.kind, fmt.Sprintf("change %d is {%q old=%s new=%s auto=%v}, expected {%q old=%s new=%s auto=%v}", j,
				got[j].Name, g.label(got[j].Old), g.label(got[j].New), got[j].Auto, w.c.Name, g.label(w.c.Old), g.label(w.c.New), w.c.Auto))
		}
		return
	}
	for ; i < len(g.want); i++ {
		if !g.want[i].optional {
			g.fail("onchange", "missing:"+g.want[i].kind, fmt.Sprintf("the change log ends after %d entries; expected another {%q old=%s new=%s auto=%v}", len(got),
				g.want[i].c.Name, g.label(g.want[i].c.Old), g.label(g.want[i].c.New), g.want[i].c.Auto))
			return
		}
	}
	if j < len(got) {
		g.fail("onchange", "unexpected:"+changeKind(got[j]), fmt.Sprintf("change %d {%q old=%s new=%s auto=%v} corresponds to no transition", j,
			got[j].Name, g.label(got[j].Old), g.label(got[j].New), got[j].Auto))
	}
}

// registryHistory runs one random history of steps operations.
func registryHistory(r *vk.Run, t *regTarget, rng *vk.Rand, steps int) {
	hasFactory, hasFallback := rng.Chance(2, 3), rng.Chance(1, 3)
	onChange := rng.Chance(9, 10)
	g := newRegRig(r, t, hasFactory, hasFallback, rng.Intn(2), onChange)
	var panicked bool
	var what string
	panicked, what = vk.Recover(func() {
		for i := 0; i < steps; i++ {
			g.step(rng)
		}
		g.finish(onChange)
	})
	if panicked {
		g.fail("history", "panic", what)
	}
	r.Count("registry-histories", 1)
	r.Count("registry-steps", steps)
	r.Distinct(fmt.Sprintf("reg:%s/f%v/b%v/c%v/%s", t.id, hasFactory, hasFallback, onChange, strings.Join(g.hist, ";")))
	if r.WantSample("registry-history-" + t.class) {
		h := g.hist
		if len(h) > 25 {
			h = h[:25]
		}
		r.Sample("registry-history-"+t.class, map[string]any{"target": t.id, "factory": hasFactory, "fallback": hasFallback, "first-steps": h, "changes": len(g.changes)})
	}
}
