package main

import (
	"fmt"
	"runtime"
	"sync"

	"github.com/smart-core-os/sc-golang/internal/verif/vk"
	"github.com/smart-core-os/sc-golang/pkg/router"
)

// concurrentRegistry: several goroutines Add and Remove the same few names at once. Every Add installs a fresh,
// unique client, so whatever the interleaving, the change callbacks must report transitions of a map:
//   - no callback with neither an old nor a new client,
//   - a given client appears as New exactly once (its Add) and as Old at most once (it can be replaced or removed once),
//   - Remove returns each client at most once in total, and only clients that were added,
//   - when everything has returned, for each name: clients added - clients reported gone = what Has/Get still hold.
//
// Callbacks run outside the router's lock, so their order is not asserted.
func concurrentRegistry(r *vk.Run) {
	n := r.Pick(1500, 100000)
	for i := 0; i < n; i++ {
		if !r.Mine(i) {
			continue
		}
		rng := r.CaseRand("c12-conc", i)
		type client struct{ id int }
		var mu sync.Mutex
		var changes []router.Change
		rt := router.NewRouter(router.WithOnChange(func(c router.Change) {
			mu.Lock()
			changes = append(changes, c)
			mu.Unlock()
		}))
		names := []string{"n1", "n2"}
		var nextID int
		var added []*client
		var removedRet []any
		g := rng.Range(2, 6)
		var wg sync.WaitGroup
		start := make(chan struct{})
		for w := 0; w < g; w++ {
			wr := rng.Fork()
			wg.Add(1)
			go func() {
				defer wg.Done()
				<-start
				for k := 0; k < 6; k++ {
					name := names[wr.Intn(len(names))]
					if wr.Chance(1, 3) {
						mu.Lock()
						nextID++
						c := &client{nextID}
						added = append(added, c)
						mu.Unlock()
						rt.Add(name, c)
					} else {
						old := rt.Remove(name)
						if old != nil {
							mu.Lock()
							removedRet = append(removedRet, old)
							mu.Unlock()
						}
					}
					if wr.Chance(1, 3) {
						runtime.Gosched()
					}
				}
			}()
		}
		// a few clients are present before the race starts, so that concurrent Removes have something to fight over
		for _, name := range names {
			nextID++
			c := &client{nextID}
			added = append(added, c)
			rt.Add(name, c)
		}
		close(start)
		wg.Wait()
		r.Eval(1)
		r.Count("concurrent-registry-runs", 1)
		r.Distinct(fmt.Sprintf("conc:%d:%d", g, len(changes)))
		replay := map[string]any{"case": i}
		asNew, asOld := map[any]int{}, map[any]int{}
		for _, c := range changes {
			if c.Old == nil && c.New == nil {
				r.Violation("C12/registry/concurrent/onchange/empty-transition", fmt.Sprintf("case %d: a change callback reported name %q with neither an old nor a new client (%d goroutines adding/removing concurrently)", i, c.Name, g), replay)
			}
			if c.New != nil {
				asNew[c.New]++
			}
			if c.Old != nil {
				asOld[c.Old]++
			}
			if c.Auto {
				r.Violation("C12/registry/concurrent/onchange/auto-without-factory", fmt.Sprintf("case %d: Auto change on a router without factory", i), replay)
			}
		}
		for _, c := range added {
			if asNew[c] != 1 {
				r.Violation("C12/registry/concurrent/onchange/add-count", fmt.Sprintf("case %d: client #%d was added once but reported as New %d times", i, c.id, asNew[c]), replay)
			}
			if asOld[c] > 1 {
				r.Violation("C12/registry/concurrent/onchange/gone-twice", fmt.Sprintf("case %d: client #%d was reported as replaced/removed %d times", i, c.id, asOld[c]), replay)
			}
		}
		seen := map[any]bool{}
		for _, o := range removedRet {
			if seen[o] {
				r.Violation("C12/registry/concurrent/remove/returned-twice", fmt.Sprintf("case %d: Remove returned the same client twice", i), replay)
			}
			seen[o] = true
		}
		// conservation: clients never reported gone are exactly the ones still registered
		left := 0
		for _, c := range added {
			if asOld[c] == 0 {
				left++
			}
		}
		held := 0
		for _, name := range names {
			if rt.Has(name) {
				held++
				c, err := rt.Get(name)
				if err != nil || asOld[c] != 0 {
					r.Violation("C12/registry/concurrent/state", fmt.Sprintf("case %d: name %q holds a client that was reported gone (err=%v)", i, name, err), replay)
				}
			}
		}
		if left != held {
			r.Violation("C12/registry/concurrent/conservation", fmt.Sprintf("case %d: %d clients were never reported replaced/removed but %d names hold a client", i, left, held), replay)
		}
	}
	r.Require("concurrent-registry-runs", 100)
}

// reentrantCallbacks: a change callback that itself uses the router (Has, Get, Add of another name, Remove of
// another name) must not block: callbacks are documented to run with no router lock held. Every transition kind is
// produced once per re-entrant call: Add of a new name, Add replacing a client, Remove, and the first Get that
// commits a factory client. A call that has not returned at the quiescent point after it is stuck behind its own
// callback.
func reentrantCallbacks(r *vk.Run) {
	type client struct{ id string }
	inner := []string{"has", "get", "add-other", "remove-other"}
	outer := []string{"add-new", "add-replace", "remove", "first-get"}
	idx := 0
	for _, in := range inner {
		for _, out := range outer {
			idx++
			if !r.Mine(idx) {
				continue
			}
			var rt router.Router
			calls := 0
			rt = router.NewRouter(
				router.WithFactory(func(name string) (any, error) { return &client{"factory:" + name}, nil }),
				router.WithOnChange(func(c router.Change) {
					if c.Name == "other" {
						return // the transition caused by the callback itself
					}
					calls++
					switch in {
					case "has":
						rt.Has(c.Name)
					case "get":
						_, _ = rt.Get(c.Name)
					case "add-other":
						rt.Add("other", &client{"other"})
					case "remove-other":
						rt.Remove("other")
					}
				}))
			t := vk.Go(func() {
				switch out {
				case "add-new":
					rt.Add("x", &client{"x1"})
				case "add-replace":
					rt.Add("x", &client{"x1"})
					rt.Add("x", &client{"x2"})
				case "remove":
					rt.Add("x", &client{"x1"})
					rt.Remove("x")
				case "first-get":
					_, _ = rt.Get("made")
				}
			})
			vk.Quiesce()
			r.Eval(1)
			r.Count("reentrant-callback-scenarios", 1)
			r.Distinct("reentrant|" + in + "|" + out)
			if !t.Done() {
				r.Violation("C12/registry/callback-under-lock/"+out+"/"+in, fmt.Sprintf("%s with a change callback that calls %s on the same router has not returned at the quiescent point after it (%d callbacks had started): the callback runs while the router still holds its lock\n%s", out, in, calls, vk.DescribeGs(vk.LibraryGoroutines(vk.Goroutines(), nil))), map[string]any{"outer": out, "inner": in})
				return // the stuck goroutine stays; later quiescence checks of this worker would be disturbed
			}
		}
	}
}
