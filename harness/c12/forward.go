package main

import (
	"context"
	"errors"
	"fmt"
	"io"
	"sort"
	"strings"

	"google.golang.org/grpc"
	"google.golang.org/grpc/codes"
	"google.golang.org/grpc/metadata"
	"google.golang.org/grpc/status"
	"google.golang.org/protobuf/proto"
	"google.golang.org/protobuf/reflect/protoreflect"
	"google.golang.org/protobuf/types/known/wrapperspb"

	"github.com/smart-core-os/sc-golang/internal/verif/vk"
	"github.com/smart-core-os/sc-golang/pkg/middleware/name"
	"github.com/smart-core-os/sc-golang/pkg/router"
)

// namePool are the device names used by the forwarding scenarios. Names containing "F" are served by the factory
// (when one is configured), names containing "B" by the fallback; near misses of registered names are included so
// that a router matching names loosely is caught.
var namePool = []string{"", "a", "b", "dev/1", "Dev/1", "dev/1 ", "dev", "dev/1/x", "é", "a/b/c", "F1", "F2", "xFy", "B1", "B2", "FB",
	"building/floor-3/room 12/light-0000000000000000000000000000000000000000000000000000000000000001"}

// The providers know the names with an F (factory) resp. a B (fallback) in them, and both know the empty name (a
// server without the default-name interceptor routes requests that name nothing to whoever serves "").
func inFactoryDomain(n string) bool  { return n == "" || strings.Contains(n, "F") }
func inFallbackDomain(n string) bool { return n == "" || strings.Contains(n, "B") }

// world is one router under test with its fake clients and the model of its registry.
type world struct {
	e   *entry
	rt  routerAPI
	log *connLog

	hasFactory, hasFallback bool
	reg                     map[string]*fakeConn // model: name -> connection of the registered client
	clientOf                map[*fakeConn]any
	facCalls                map[string]int
	facMade                 map[string][]*fakeConn
	fbConn                  map[string]*fakeConn
	fbCalls                 map[string]int
	all                     []*fakeConn
	changes                 []router.Change
	hist                    []string
	nconn                   int
}

func newWorld(e *entry, hasFactory, hasFallback bool, rng *vk.Rand) *world {
	w := &world{e: e, log: &connLog{}, hasFactory: hasFactory, hasFallback: hasFallback,
		reg: map[string]*fakeConn{}, clientOf: map[*fakeConn]any{}, facCalls: map[string]int{}, facMade: map[string][]*fakeConn{},
		fbConn: map[string]*fakeConn{}, fbCalls: map[string]int{}}
	var opts []router.Option
	failStyle := rng.Intn(2)
	if hasFactory {
		opts = append(opts, e.WithFactory(func(n string) (any, error) {
			w.facCalls[n]++
			if !inFactoryDomain(n) {
				if failStyle == 0 {
					return nil, nil
				}
				return nil, status.Error(codes.Unavailable, "factory does not know "+n)
			}
			c := w.conn("factory:" + n)
			w.facMade[n] = append(w.facMade[n], c)
			return w.clientOf[c], nil
		}))
	}
	if hasFallback {
		opts = append(opts, router.WithFallback(func(n string) (any, error) {
			w.fbCalls[n]++
			if !inFallbackDomain(n) {
				if failStyle == 0 {
					return nil, errors.New("fallback does not know " + n)
				}
				return nil, nil
			}
			c := w.fbConn[n]
			if c == nil {
				c = w.conn("fallback:" + n)
				w.fbConn[n] = c
			}
			return w.clientOf[c], nil
		}))
	}
	opts = append(opts, router.WithOnChange(func(c router.Change) { w.changes = append(w.changes, c) }))
	w.rt = e.New(opts...)
	return w
}

func (w *world) conn(label string) *fakeConn {
	w.nconn++
	c := &fakeConn{label: fmt.Sprintf("%s#%d", label, w.nconn), log: w.log}
	w.clientOf[c] = w.e.Client(c)
	w.all = append(w.all, c)
	return c
}

func (w *world) add(n string, typed bool) {
	c := w.conn("added:" + n)
	if typed {
		w.e.AddTyped(w.rt, n, w.clientOf[c])
	} else {
		w.rt.Add(n, w.clientOf[c])
	}
	w.reg[n] = c
	w.hist = append(w.hist, fmt.Sprintf("Add(%q)->%s", n, c.label))
}

func (w *world) remove(n string, typed bool) {
	if typed {
		w.e.RemoveTyped(w.rt, n)
	} else {
		w.rt.Remove(n)
	}
	delete(w.reg, n)
	w.hist = append(w.hist, fmt.Sprintf("Remove(%q)", n))
}

// ---- scripts ----

var mdKeys = []string{"x-a", "x-b", "trace-id", "data-bin", "x-a"}

func genMD(rng *vk.Rand) metadata.MD {
	switch rng.Intn(5) {
	case 0:
		return nil
	case 1:
		return metadata.MD{}
	}
	md := metadata.MD{}
	for i, n := 0, rng.Range(1, 3); i < n; i++ {
		k := mdKeys[rng.Intn(len(mdKeys))]
		for j, m := 0, rng.Range(1, 2); j < m; j++ {
			md[k] = append(md[k], rng.PickStr("1", "two", "", "v v", "\x00\x01"))
		}
	}
	return md
}

var plainErrs = []error{errors.New("plain failure"), context.Canceled, context.DeadlineExceeded, io.ErrUnexpectedEOF}

func genErr(rng *vk.Rand) (error, string) {
	if rng.Chance(1, 6) {
		i := rng.Intn(len(plainErrs))
		return plainErrs[i], "plain"
	}
	code := codes.Code(rng.Range(1, 16))
	msg := rng.PickStr("", "boom", "not found", "EOF", "naïve ☃", "a: b: c")
	st := status.New(code, msg)
	if rng.Chance(1, 3) {
		if d, err := st.WithDetails(&wrapperspb.StringValue{Value: rng.PickStr("d1", "d2")}, &wrapperspb.Int32Value{Value: int32(rng.Intn(5))}); err == nil {
			return d.Err(), "status+details"
		}
	}
	return st.Err(), "status"
}

var genOpts = vk.GenOpts{Density: 50, MaxDepth: 2, MaxList: 3, Special: false, Unknown: true}

func genScript(rng *vk.Rand, m *method) *script {
	s := &script{callerSendFailAt: -1}
	if !m.Streaming {
		if rng.Chance(1, 3) {
			var c string
			s.err, c = genErr(rng)
			s.class = "unary/error-" + c
		} else {
			s.resp = vk.GenMessage(rng, m.Out.New().Interface(), genOpts)
			s.class = "unary/ok"
			if proto.Size(s.resp) == 0 {
				s.class = "unary/ok-empty"
			}
		}
		return s
	}
	s.header, s.trailer = genMD(rng), genMD(rng)
	k := rng.Intn(5)
	if rng.Chance(1, 8) {
		k = rng.Range(5, 12)
	}
	for i := 0; i < k; i++ {
		s.msgs = append(s.msgs, vk.GenMessage(rng, m.Out.New().Interface(), genOpts))
	}
	kc := "k0"
	switch {
	case k == 1:
		kc = "k1"
	case k > 1:
		kc = "k2+"
	}
	switch p := rng.Intn(20); {
	case p == 0:
		s.newStreamErr, _ = genErr(rng)
		s.class = "stream/err@NewStream"
	case p == 1:
		s.sendErr, _ = genErr(rng)
		s.class = "stream/err@SendMsg"
	case p == 2:
		s.closeSendErr, _ = genErr(rng)
		s.class = "stream/err@CloseSend"
	case p == 3:
		s.headerErr, _ = genErr(rng)
		s.class = "stream/err@Header"
	case p < 10:
		var c string
		s.endErr, c = genErr(rng)
		s.class = "stream/" + kc + "/end-" + c
	case p < 12:
		s.callerSendErr, _ = genErr(rng)
		if k == 0 {
			s.msgs = append(s.msgs, vk.GenMessage(rng, m.Out.New().Interface(), genOpts))
			k = 1
		}
		s.callerSendFailAt = rng.Intn(k)
		s.class = "stream/caller-send-fails"
	case p == 12:
		s.callerHeaderErr, _ = genErr(rng)
		s.class = "stream/caller-header-fails"
	default:
		s.class = "stream/" + kc + "/end-EOF"
	}
	return s
}

func setName(m proto.Message, n string) {
	fd := m.ProtoReflect().Descriptor().Fields().ByName("name")
	if n == "" {
		m.ProtoReflect().Clear(fd)
		return
	}
	m.ProtoReflect().Set(fd, protoreflect.ValueOfString(n))
}

// ---- one request through the router ----

type outcome struct {
	resp     proto.Message
	err      error
	ss       *fakeServerStream
	reqPtr   proto.Message
	panicked string
}

// drive sends req to the router the way a grpc.Server would: through the handler of the ServiceDesc the router
// registered, optionally behind the default-name interceptor.
func drive(impl any, m *method, ctx context.Context, req proto.Message, s *script, defName *string) outcome {
	var o outcome
	p, what := vk.Recover(func() {
		if !m.Streaming {
			var icpt grpc.UnaryServerInterceptor
			if defName != nil {
				icpt = name.IfAbsentUnaryInterceptor(*defName)
			}
			dec := func(v any) error {
				pm := v.(proto.Message)
				proto.Merge(pm, req)
				o.reqPtr = pm
				return nil
			}
			resp, err := m.Unary.Handler(impl, ctx, dec, icpt)
			o.err = err
			if pm, ok := resp.(proto.Message); ok && pm != nil && pm.ProtoReflect().IsValid() {
				o.resp = pm
			}
			return
		}
		ss := &fakeServerStream{ctx: ctx, req: req, s: s}
		o.ss = ss
		if defName != nil {
			icpt := name.IfAbsentStreamInterceptor(*defName)
			o.err = icpt(impl, ss, &grpc.StreamServerInfo{FullMethod: m.Full, IsServerStream: true}, m.Stream.Handler)
		} else {
			o.err = m.Stream.Handler(impl, ss)
		}
		o.reqPtr = ss.reqPtr
	})
	if p {
		o.panicked = what
	}
	return o
}

type ctxKey struct{}

// forwardCase runs one scenario: a fresh router of e with a random registration history, then 1-3 requests of method m.
func forwardCase(r *vk.Run, e *entry, m *method, rng *vk.Rand) {
	base := "C12/forward/" + e.ID() + "." + m.Name
	hasFactory, hasFallback := rng.Chance(1, 2), rng.Chance(1, 3)
	w := newWorld(e, hasFactory, hasFallback, rng)
	impl := any(w.rt)

	// registration history
	nAdd := rng.Range(1, 4)
	var added []string
	for i := 0; i < nAdd; i++ {
		n := namePool[rng.Intn(len(namePool))]
		w.add(n, rng.Bool())
		added = append(added, n)
	}
	if rng.Chance(1, 4) {
		w.add(added[rng.Intn(len(added))], rng.Bool()) // replace: only the newest client may be used
	}
	if rng.Chance(1, 4) {
		w.remove(added[rng.Intn(len(added))], rng.Bool())
	}
	var defName *string
	if rng.Chance(1, 4) {
		d := namePool[1+rng.Intn(len(namePool)-1)]
		defName = &d
	}

	nReq := rng.Range(1, 3)
	var prevName string
	for q := 0; q < nReq; q++ {
		// choose the name: mostly something resolvable, otherwise anything from the pool
		var n string
		switch c := rng.Intn(10); {
		case q > 0 && c < 3:
			n = prevName // same name again: the same client (factory: created once)
		case c < 6 && len(w.reg) > 0:
			keys := sortedKeys(w.reg)
			n = keys[rng.Intn(len(keys))]
		case c < 7 && hasFactory:
			n = rng.PickStr("F1", "F2", "xFy", "FB")
		case c < 8 && hasFallback:
			n = rng.PickStr("B1", "B2", "FB")
		case c < 9 && defName != nil:
			n = ""
		default:
			n = namePool[rng.Intn(len(namePool))]
		}
		prevName = n
		req := vk.GenMessage(rng, m.In.New().Interface(), genOpts)
		setName(req, n)
		sent := proto.Clone(req)
		eff := n
		if n == "" && defName != nil {
			eff = *defName
		}
		want := proto.Clone(req)
		setName(want, eff)
		s := genScript(rng, m)
		if q > 0 && rng.Chance(1, 3) {
			// between requests the registration may change
			if rng.Bool() {
				w.add(eff, rng.Bool())
			} else {
				w.remove(eff, rng.Bool())
			}
		}

		// model: who must get the call
		var targets []string // labels prefixes acceptable
		mode := "unknown"
		if c := w.reg[eff]; c != nil {
			targets = []string{c.label}
			mode = strings.SplitN(c.label, ":", 2)[0]
			if mode == "factory" {
				mode = "factory-remembered"
			}
		} else {
			if hasFallback && inFallbackDomain(eff) {
				targets = append(targets, "fallback:"+eff+"#")
				mode = "fallback"
			}
			if hasFactory && inFactoryDomain(eff) {
				targets = append(targets, "factory:"+eff+"#")
				if mode == "fallback" {
					mode = "fallback-or-factory"
				} else {
					mode = "factory-first"
				}
			}
		}
		facBefore := w.facCalls[eff]
		w.log.reset(s)
		ctx := context.WithValue(context.Background(), ctxKey{}, q)
		o := drive(impl, m, ctx, req, s, defName)
		calls := w.log.snapshot()
		w.log.reset(nil)
		r.Eval(1)
		r.Count("forward-requests", 1)
		r.Count("forward-mode-"+mode, 1)
		r.Count("forward-script-"+s.class, 1)
		if m.Streaming && len(s.header) > 0 {
			r.Count("forward-stream-scripts-with-header", 1)
		}
		if m.Streaming && len(s.trailer) > 0 {
			r.Count("forward-stream-scripts-with-trailer", 1)
		}
		if defName != nil && n == "" {
			r.Count("forward-via-default-name", 1)
		}
		nameClass := "plain"
		switch {
		case n == "":
			nameClass = "empty"
		case len(n) > 40:
			nameClass = "long"
		case strings.ContainsAny(n, " /é"):
			nameClass = "special"
		}
		r.Distinct(fmt.Sprintf("fwd:%s.%s/%s/%s/%s/%s/h%v/t%v/n%d", e.ID(), m.Name, mode, s.class, nameClass, populated(sent), len(s.header) > 0, len(s.trailer) > 0, len(s.msgs)))
		detail := func(what string) string {
			var cs []string
			for _, c := range calls {
				cs = append(cs, fmt.Sprintf("%s %s req=%s trace=%v", c.conn.label, c.method, vk.JSON(c.req), c.trace))
			}
			return fmt.Sprintf("%s\nrouter %s method %s, factory=%v fallback=%v default-name=%v\nhistory: %v\nrequest: %s (name %q, effective %q), script %s\nexpected target: %v (%s)\ncalls seen: %v\nreturned error: %s",
				what, e.ID(), m.Full, hasFactory, hasFallback, deref(defName), w.hist, vk.JSON(sent), n, eff, s.class, targets, mode, cs, errString(o.err))
		}
		replay := map[string]any{"router": e.ID(), "method": m.Name, "mode": mode, "script": s.class, "name": n, "history": w.hist}
		if r.WantSample("forward-" + mode) {
			r.Sample("forward-"+mode, map[string]any{"router": e.ID(), "method": m.Full, "name": n, "effective": eff, "script": s.class, "request": vk.JSON(sent),
				"calls": len(calls), "returned": errString(o.err)})
		}
		if o.panicked != "" {
			r.Violation(base+"/panic", detail("panic: "+o.panicked), replay)
			return
		}

		if len(targets) == 0 {
			// a name with no client: NotFound and no client touched
			if len(calls) > 0 {
				r.Violation(base+"/unknown-name-touched", detail("a request for a name with no client reached a client"), replay)
			}
			if status.Code(o.err) != codes.NotFound || o.err == nil {
				r.Violation(base+"/unknown-name-status", detail("a request for a name with no client did not yield NotFound"), replay)
			}
			if o.resp != nil || (o.ss != nil && (len(o.ss.msgs) > 0)) {
				r.Violation(base+"/unknown-name-response", detail("a request for a name with no client produced a response"), replay)
			}
			r.Count("forward-notfound-checked", 1)
			continue
		}
		if len(calls) == 0 {
			r.Violation(base+"/not-forwarded", detail("no client received the request"), replay)
			continue
		}
		okTarget := func(c *fakeConn) bool {
			for _, t := range targets {
				if c.label == t || (strings.HasSuffix(t, "#") && strings.HasPrefix(c.label, t)) {
					return true
				}
			}
			return false
		}
		bad := false
		for _, c := range calls {
			if !okTarget(c.conn) {
				r.Violation(base+"/wrong-client", detail("client "+c.conn.label+" received the request"), replay)
				bad = true
			}
		}
		if len(calls) > 1 {
			r.Violation(base+"/duplicated", detail(fmt.Sprintf("%d calls reached clients for one request", len(calls))), replay)
			bad = true
		}
		if bad {
			continue
		}
		call := calls[0]
		// the registry model learns what the factory committed
		if strings.HasPrefix(call.conn.label, "factory:") && w.reg[eff] == nil {
			w.reg[eff] = call.conn
			if got := w.facCalls[eff] - facBefore; got != 1 {
				r.Violation(base+"/factory-calls", detail(fmt.Sprintf("factory called %d times for one sequential first Get", got)), replay)
			}
			r.Count("forward-factory-created", 1)
		} else if w.facCalls[eff] != facBefore && w.reg[eff] != nil && inFactoryDomain(eff) {
			r.Violation(base+"/factory-calls", detail("factory called again for a name that already has a client"), replay)
		}
		if call.method != m.Full {
			r.Violation(base+"/wrong-method", detail("client was called with method "+call.method), replay)
		}
		if call.stream != m.Streaming {
			r.Violation(base+"/wrong-shape", detail("unary/stream shape changed"), replay)
		}
		if m.Streaming && s.newStreamErr != nil {
			// the connection refused the stream: there was nothing to send the request on
			if call.sendMsgs != 0 {
				r.Violation(base+"/request-count", detail(fmt.Sprintf("client was sent %d request messages on a stream that was never opened", call.sendMsgs)), replay)
			}
		} else {
			if call.req == nil || !proto.Equal(call.req, want) {
				r.Violation(base+"/request-altered", detail("client saw request "+vk.JSON(call.req)+", want "+vk.JSON(want)), replay)
			}
			if call.sendMsgs != 1 {
				r.Violation(base+"/request-count", detail(fmt.Sprintf("client was sent %d request messages", call.sendMsgs)), replay)
			}
		}
		if o.reqPtr != nil && !proto.Equal(o.reqPtr, want) {
			r.Violation(base+"/caller-request-mutated", detail("the caller's request is "+vk.JSON(o.reqPtr)+" after the call"), replay)
		}
		if call.ctx != nil && call.ctx.Value(ctxKey{}) != q {
			r.Count("forward-context-values-not-propagated", 1)
		}

		if !m.Streaming {
			if s.err != nil {
				if !sameStatus(o.err, s.err) {
					r.Violation(base+"/status", detail("client answered "+errString(s.err)), replay)
				}
			} else {
				if o.err != nil {
					r.Violation(base+"/status", detail("client answered OK"), replay)
				} else if o.resp == nil || !proto.Equal(o.resp, s.resp) || string(o.resp.ProtoReflect().GetUnknown()) != string(s.resp.ProtoReflect().GetUnknown()) {
					r.Violation(base+"/response", detail("client answered "+vk.JSON(s.resp)+", caller got "+vk.JSON(o.resp)), replay)
				}
			}
			r.Count("forward-unary-checked", 1)
			continue
		}

		ss := o.ss
		switch {
		case s.newStreamErr != nil || s.sendErr != nil || s.closeSendErr != nil || s.headerErr != nil:
			wantErr := firstErr(s.newStreamErr, s.sendErr, s.closeSendErr, s.headerErr)
			if !sameStatus(o.err, wantErr) {
				r.Violation(base+"/status", detail("client failed early with "+errString(wantErr)), replay)
			}
			if len(ss.msgs) > 0 {
				r.Violation(base+"/messages", detail("messages delivered although the client never produced any"), replay)
			}
			if sameMD(ss.trailer, s.trailer) && len(s.trailer) > 0 {
				r.Count("forward-early-error-trailer-forwarded", 1)
			}
			r.Count("forward-stream-early-error-checked", 1)
		case s.callerHeaderErr != nil || s.callerSendFailAt >= 0:
			// the caller went away: only what reached it before is judged
			n := len(ss.msgs)
			if n > len(s.msgs) {
				r.Violation(base+"/messages", detail("more messages than scripted"), replay)
			} else {
				for i := 0; i < n; i++ {
					if !proto.Equal(ss.msgs[i], s.msgs[i]) {
						r.Violation(base+"/messages", detail(fmt.Sprintf("message %d differs", i)), replay)
						break
					}
				}
			}
			if o.err != nil {
				r.Count("forward-caller-error-returned", 1)
				if sameStatus(o.err, firstErr(s.callerHeaderErr, s.callerSendErr)) {
					r.Count("forward-caller-error-returned-unaltered", 1)
				}
			}
			if call.ctx != nil && call.ctx.Err() != nil {
				r.Count("forward-caller-error-cancelled-child", 1)
			}
			r.Count("forward-stream-caller-failure-checked", 1)
		default:
			gotHeader := ss.header
			if !ss.headerSent {
				gotHeader = ss.pending // what a real stream would flush when the handler returns
				r.Count("forward-header-left-to-implicit-flush", 1)
			}
			if !sameMD(gotHeader, s.header) {
				r.Violation(base+"/header", detail("client header "+mdString(s.header)+", caller got "+mdString(gotHeader)+fmt.Sprintf(" (sent=%v)", ss.headerSent)), replay)
			}
			if ss.lateHeader > 0 {
				r.Violation(base+"/header", detail("header written after it was sent"), replay)
			}
			if len(ss.msgs) != len(s.msgs) {
				r.Violation(base+"/messages", detail(fmt.Sprintf("client sent %d messages, caller got %d", len(s.msgs), len(ss.msgs))), replay)
			} else {
				for i := range s.msgs {
					if !proto.Equal(ss.msgs[i], s.msgs[i]) || string(ss.msgs[i].ProtoReflect().GetUnknown()) != string(s.msgs[i].ProtoReflect().GetUnknown()) {
						r.Violation(base+"/messages", detail(fmt.Sprintf("message %d: client sent %s, caller got %s", i, vk.JSON(s.msgs[i]), vk.JSON(ss.msgs[i]))), replay)
						break
					}
				}
			}
			if !sameStatus(o.err, s.endErr) {
				r.Violation(base+"/status", detail("client ended the stream with "+errString(s.endErr)), replay)
			}
			if !sameMD(ss.trailer, s.trailer) {
				r.Violation(base+"/trailer", detail("client trailer "+mdString(s.trailer)+", caller got "+mdString(ss.trailer)), replay)
			}
			r.Count("forward-stream-checked", 1)
			r.Count("forward-stream-messages", len(s.msgs))
		}
	}
	// the change log of the scenario is exactly the transitions the model saw
	checkForwardChanges(r, e, w)
}

// populated names the set fields of m (top level) and whether it carries unknown fields: the shape of a request.
func populated(m proto.Message) string {
	var fs []string
	m.ProtoReflect().Range(func(fd protoreflect.FieldDescriptor, _ protoreflect.Value) bool {
		fs = append(fs, string(fd.Name()))
		return true
	})
	sort.Strings(fs)
	if len(m.ProtoReflect().GetUnknown()) > 0 {
		fs = append(fs, "+unknown")
	}
	return strings.Join(fs, ",")
}

func firstErr(es ...error) error {
	for _, e := range es {
		if e != nil {
			return e
		}
	}
	return nil
}

func deref(s *string) string {
	if s == nil {
		return "<none>"
	}
	return fmt.Sprintf("%q", *s)
}

func sortedKeys(m map[string]*fakeConn) []string {
	out := make([]string, 0, len(m))
	for k := range m {
		out = append(out, k)
	}
	sort.Strings(out)
	return out
}

// checkForwardChanges replays the change log of a forwarding scenario: it must form a chain (each Old is what the
// previous change of that name left) that ends in the model's registry, with Auto exactly on factory-created clients.
func checkForwardChanges(r *vk.Run, e *entry, w *world) {
	cur := map[string]any{}
	for i, c := range w.changes {
		if c.Old != cur[c.Name] {
			r.Violation("C12/registry/onchange/chain/forward-scenario", fmt.Sprintf("router "+e.ID()+": change %d of %q has Old=%v but the previous changes left %v; history %v", i, c.Name, connOf(w, c.Old), connOf(w, cur[c.Name]), w.hist), nil)
			return
		}
		if c.New == nil {
			delete(cur, c.Name)
		} else {
			cur[c.Name] = c.New
		}
		isFactory := false
		if fc := connOfClient(w, c.New); fc != nil && strings.HasPrefix(fc.label, "factory:") {
			isFactory = true
		}
		if c.Auto != isFactory {
			r.Violation("C12/registry/onchange/auto-flag/forward-scenario", fmt.Sprintf("router "+e.ID()+": change %d of %q has Auto=%v for client %v", i, c.Name, c.Auto, connOf(w, c.New)), nil)
		}
	}
	r.Count("forward-change-logs-checked", 1)
	if len(cur) != len(w.reg) {
		r.Violation("C12/registry/onchange/final/forward-scenario", fmt.Sprintf("router "+e.ID()+": change log ends with %d names, model has %d; history %v", len(cur), len(w.reg), w.hist), nil)
		return
	}
	for n, c := range w.reg {
		if cur[n] != w.clientOf[c] {
			r.Violation("C12/registry/onchange/final/forward-scenario", fmt.Sprintf("router "+e.ID()+": change log ends with %v under %q, model has %s; history %v", connOf(w, cur[n]), n, c.label, w.hist), nil)
			return
		}
	}
}

func connOfClient(w *world, client any) *fakeConn {
	if client == nil {
		return nil
	}
	for c, cl := range w.clientOf {
		if cl == client {
			return c
		}
	}
	return nil
}

func connOf(w *world, client any) string {
	if client == nil {
		return "<nil>"
	}
	if c := connOfClient(w, client); c != nil {
		return c.label
	}
	return fmt.Sprintf("<unknown %T>", client)
}
