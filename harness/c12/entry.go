package main

import (
	"fmt"
	"sort"

	"google.golang.org/grpc"
	"google.golang.org/protobuf/reflect/protoreflect"
	"google.golang.org/protobuf/reflect/protoregistry"

	"github.com/smart-core-os/sc-golang/pkg/router"
)

// routerAPI is what every generated router offers without knowing its client type.
type routerAPI interface {
	router.Router
	Register(grpc.ServiceRegistrar)
}

// wrapperAPI is what every generated wrapper offers without knowing its client type.
type wrapperAPI interface {
	Unwrap() any
	UnwrapService() (grpc.ClientConnInterface, grpc.ServiceDesc)
}

// entry is one row of the static table: a generated router, its typed helpers and its wrapper, made uniform by
// closures (see mk).
type entry struct {
	Pkg, Router, Wrapper string

	New         func(opts ...router.Option) routerAPI
	Client      func(cc grpc.ClientConnInterface) any
	WithFactory func(f func(name string) (any, error)) router.Option
	AddTyped    func(r routerAPI, name string, c any) any
	RemoveTyped func(r routerAPI, name string) any
	GetTyped    func(r routerAPI, name string) (any, error)
	// Wrap wraps server (which must implement the service's server interface; ok=false otherwise).
	Wrap func(server any) (w wrapperAPI, client any, ok bool)

	// filled by prepare
	Desc    *grpc.ServiceDesc
	Service protoreflect.ServiceDescriptor
	Methods []method
}

// method is one RPC of a router, addressed through the grpc.ServiceDesc the router registers itself with.
type method struct {
	Name      string
	Full      string // "/pkg.Service/Method"
	Streaming bool
	Unary     *grpc.MethodDesc
	Stream    *grpc.StreamDesc
	Desc      protoreflect.MethodDescriptor
	In, Out   protoreflect.MessageType
}

func (e *entry) ID() string { return e.Pkg + "." + e.Router }

func mk[R routerAPI, C any, S any, W wrapperAPI](pkg, rname, wname string,
	newR func(...router.Option) R,
	newC func(grpc.ClientConnInterface) C,
	withF func(func(string) (C, error)) router.Option,
	add func(R, string, C) C, remove func(R, string) C, get func(R, string) (C, error),
	wrap func(S) W) *entry {
	return &entry{
		Pkg: pkg, Router: rname, Wrapper: wname,
		New:    func(opts ...router.Option) routerAPI { return newR(opts...) },
		Client: func(cc grpc.ClientConnInterface) any { return newC(cc) },
		WithFactory: func(f func(string) (any, error)) router.Option {
			return withF(func(name string) (C, error) {
				v, err := f(name)
				if v == nil {
					var zero C
					return zero, err
				}
				return v.(C), err
			})
		},
		AddTyped: func(r routerAPI, name string, c any) any { return any(add(r.(R), name, c.(C))) },
		RemoveTyped: func(r routerAPI, name string) any {
			return any(remove(r.(R), name))
		},
		GetTyped: func(r routerAPI, name string) (any, error) {
			c, err := get(r.(R), name)
			return any(c), err
		},
		Wrap: func(server any) (wrapperAPI, any, bool) {
			s, ok := server.(S)
			if !ok {
				return nil, nil, false
			}
			w := wrap(s)
			_, isClient := any(w).(C)
			if !isClient {
				return w, nil, true
			}
			return w, any(w), true
		},
	}
}

// captureRegistrar records what a router registers itself as.
type captureRegistrar struct {
	desc *grpc.ServiceDesc
	impl any
	n    int
}

func (c *captureRegistrar) RegisterService(desc *grpc.ServiceDesc, impl any) {
	c.desc, c.impl = desc, impl
	c.n++
}

// prepare resolves the service descriptor and the methods of e from what the router registers. It returns a
// description of what is wrong, or "".
func (e *entry) prepare() string {
	rt := e.New()
	reg := &captureRegistrar{}
	rt.Register(reg)
	if reg.n != 1 || reg.desc == nil {
		return fmt.Sprintf("Register called RegisterService %d times", reg.n)
	}
	if reg.impl != any(rt) {
		return "Register registered something other than the router itself"
	}
	e.Desc = reg.desc
	d, err := protoregistry.GlobalFiles.FindDescriptorByName(protoreflect.FullName(reg.desc.ServiceName))
	if err != nil {
		return "service " + reg.desc.ServiceName + " not in the linked-in descriptors: " + err.Error()
	}
	sd, ok := d.(protoreflect.ServiceDescriptor)
	if !ok {
		return reg.desc.ServiceName + " is not a service"
	}
	e.Service = sd
	e.Methods = nil
	seen := map[string]bool{}
	addM := func(name string, u *grpc.MethodDesc, s *grpc.StreamDesc) string {
		md := sd.Methods().ByName(protoreflect.Name(name))
		if md == nil {
			return "method " + name + " of the grpc.ServiceDesc is not in the proto descriptor"
		}
		in, err := protoregistry.GlobalTypes.FindMessageByName(md.Input().FullName())
		if err != nil {
			return err.Error()
		}
		out, err := protoregistry.GlobalTypes.FindMessageByName(md.Output().FullName())
		if err != nil {
			return err.Error()
		}
		seen[name] = true
		e.Methods = append(e.Methods, method{
			Name: name, Full: "/" + reg.desc.ServiceName + "/" + name, Streaming: s != nil, Unary: u, Stream: s,
			Desc: md, In: in, Out: out,
		})
		return ""
	}
	for i := range reg.desc.Methods {
		if why := addM(reg.desc.Methods[i].MethodName, &reg.desc.Methods[i], nil); why != "" {
			return why
		}
	}
	for i := range reg.desc.Streams {
		if why := addM(reg.desc.Streams[i].StreamName, nil, &reg.desc.Streams[i]); why != "" {
			return why
		}
	}
	for i := 0; i < sd.Methods().Len(); i++ {
		if n := string(sd.Methods().Get(i).Name()); !seen[n] {
			return "method " + n + " of the proto descriptor is not in the grpc.ServiceDesc"
		}
	}
	sort.SliceStable(e.Methods, func(i, j int) bool { return e.Methods[i].Desc.Index() < e.Methods[j].Desc.Index() })
	return ""
}
