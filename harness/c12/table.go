// The static table of every generated router (and its wrapper) the monitor can construct. discover.go compares it
// with the *_router.pb.go / *_wrap.pb.go files found in the source tree at run time, so a router or wrapper added to
// the tree without a row here is reported (C12/unrouted-or-uncovered/...) instead of being silently skipped.
package main

import (
	"github.com/smart-core-os/sc-api/go/traits"
	"github.com/smart-core-os/sc-golang/pkg/trait/accesspb"
	"github.com/smart-core-os/sc-golang/pkg/trait/airqualitysensorpb"
	"github.com/smart-core-os/sc-golang/pkg/trait/airtemperaturepb"
	"github.com/smart-core-os/sc-golang/pkg/trait/bookingpb"
	"github.com/smart-core-os/sc-golang/pkg/trait/brightnesssensorpb"
	"github.com/smart-core-os/sc-golang/pkg/trait/channelpb"
	"github.com/smart-core-os/sc-golang/pkg/trait/colorpb"
	"github.com/smart-core-os/sc-golang/pkg/trait/countpb"
	"github.com/smart-core-os/sc-golang/pkg/trait/electricpb"
	"github.com/smart-core-os/sc-golang/pkg/trait/emergencypb"
	"github.com/smart-core-os/sc-golang/pkg/trait/energystoragepb"
	"github.com/smart-core-os/sc-golang/pkg/trait/enterleavesensorpb"
	"github.com/smart-core-os/sc-golang/pkg/trait/extendretractpb"
	"github.com/smart-core-os/sc-golang/pkg/trait/fanspeedpb"
	"github.com/smart-core-os/sc-golang/pkg/trait/hailpb"
	"github.com/smart-core-os/sc-golang/pkg/trait/inputselectpb"
	"github.com/smart-core-os/sc-golang/pkg/trait/lightpb"
	"github.com/smart-core-os/sc-golang/pkg/trait/lockunlockpb"
	"github.com/smart-core-os/sc-golang/pkg/trait/metadatapb"
	"github.com/smart-core-os/sc-golang/pkg/trait/meterpb"
	"github.com/smart-core-os/sc-golang/pkg/trait/microphonepb"
	"github.com/smart-core-os/sc-golang/pkg/trait/modepb"
	"github.com/smart-core-os/sc-golang/pkg/trait/motionsensorpb"
	"github.com/smart-core-os/sc-golang/pkg/trait/occupancysensorpb"
	"github.com/smart-core-os/sc-golang/pkg/trait/onoffpb"
	"github.com/smart-core-os/sc-golang/pkg/trait/openclosepb"
	"github.com/smart-core-os/sc-golang/pkg/trait/parentpb"
	"github.com/smart-core-os/sc-golang/pkg/trait/presspb"
	"github.com/smart-core-os/sc-golang/pkg/trait/ptzpb"
	"github.com/smart-core-os/sc-golang/pkg/trait/publicationpb"
	"github.com/smart-core-os/sc-golang/pkg/trait/speakerpb"
	"github.com/smart-core-os/sc-golang/pkg/trait/temperaturepb"
	"github.com/smart-core-os/sc-golang/pkg/trait/vendingpb"
	"github.com/smart-core-os/sc-golang/pkg/trait/wastepb"
)

var table = []*entry{
	mk("accesspb", "ApiRouter", "ApiWrapper", accesspb.NewApiRouter, traits.NewAccessApiClient, accesspb.WithAccessApiClientFactory,
		(*accesspb.ApiRouter).AddAccessApiClient, (*accesspb.ApiRouter).RemoveAccessApiClient, (*accesspb.ApiRouter).GetAccessApiClient, accesspb.WrapApi),
	mk("airqualitysensorpb", "ApiRouter", "ApiWrapper", airqualitysensorpb.NewApiRouter, traits.NewAirQualitySensorApiClient, airqualitysensorpb.WithAirQualitySensorApiClientFactory,
		(*airqualitysensorpb.ApiRouter).AddAirQualitySensorApiClient, (*airqualitysensorpb.ApiRouter).RemoveAirQualitySensorApiClient, (*airqualitysensorpb.ApiRouter).GetAirQualitySensorApiClient, airqualitysensorpb.WrapApi),
	mk("airqualitysensorpb", "InfoRouter", "InfoWrapper", airqualitysensorpb.NewInfoRouter, traits.NewAirQualitySensorInfoClient, airqualitysensorpb.WithAirQualitySensorInfoClientFactory,
		(*airqualitysensorpb.InfoRouter).AddAirQualitySensorInfoClient, (*airqualitysensorpb.InfoRouter).RemoveAirQualitySensorInfoClient, (*airqualitysensorpb.InfoRouter).GetAirQualitySensorInfoClient, airqualitysensorpb.WrapInfo),
	mk("airtemperaturepb", "ApiRouter", "ApiWrapper", airtemperaturepb.NewApiRouter, traits.NewAirTemperatureApiClient, airtemperaturepb.WithAirTemperatureApiClientFactory,
		(*airtemperaturepb.ApiRouter).AddAirTemperatureApiClient, (*airtemperaturepb.ApiRouter).RemoveAirTemperatureApiClient, (*airtemperaturepb.ApiRouter).GetAirTemperatureApiClient, airtemperaturepb.WrapApi),
	mk("airtemperaturepb", "InfoRouter", "InfoWrapper", airtemperaturepb.NewInfoRouter, traits.NewAirTemperatureInfoClient, airtemperaturepb.WithAirTemperatureInfoClientFactory,
		(*airtemperaturepb.InfoRouter).AddAirTemperatureInfoClient, (*airtemperaturepb.InfoRouter).RemoveAirTemperatureInfoClient, (*airtemperaturepb.InfoRouter).GetAirTemperatureInfoClient, airtemperaturepb.WrapInfo),
	mk("bookingpb", "ApiRouter", "ApiWrapper", bookingpb.NewApiRouter, traits.NewBookingApiClient, bookingpb.WithBookingApiClientFactory,
		(*bookingpb.ApiRouter).AddBookingApiClient, (*bookingpb.ApiRouter).RemoveBookingApiClient, (*bookingpb.ApiRouter).GetBookingApiClient, bookingpb.WrapApi),
	mk("bookingpb", "InfoRouter", "InfoWrapper", bookingpb.NewInfoRouter, traits.NewBookingInfoClient, bookingpb.WithBookingInfoClientFactory,
		(*bookingpb.InfoRouter).AddBookingInfoClient, (*bookingpb.InfoRouter).RemoveBookingInfoClient, (*bookingpb.InfoRouter).GetBookingInfoClient, bookingpb.WrapInfo),
	mk("brightnesssensorpb", "ApiRouter", "ApiWrapper", brightnesssensorpb.NewApiRouter, traits.NewBrightnessSensorApiClient, brightnesssensorpb.WithBrightnessSensorApiClientFactory,
		(*brightnesssensorpb.ApiRouter).AddBrightnessSensorApiClient, (*brightnesssensorpb.ApiRouter).RemoveBrightnessSensorApiClient, (*brightnesssensorpb.ApiRouter).GetBrightnessSensorApiClient, brightnesssensorpb.WrapApi),
	mk("brightnesssensorpb", "InfoRouter", "InfoWrapper", brightnesssensorpb.NewInfoRouter, traits.NewBrightnessSensorInfoClient, brightnesssensorpb.WithBrightnessSensorInfoClientFactory,
		(*brightnesssensorpb.InfoRouter).AddBrightnessSensorInfoClient, (*brightnesssensorpb.InfoRouter).RemoveBrightnessSensorInfoClient, (*brightnesssensorpb.InfoRouter).GetBrightnessSensorInfoClient, brightnesssensorpb.WrapInfo),
	mk("channelpb", "ApiRouter", "ApiWrapper", channelpb.NewApiRouter, traits.NewChannelApiClient, channelpb.WithChannelApiClientFactory,
		(*channelpb.ApiRouter).AddChannelApiClient, (*channelpb.ApiRouter).RemoveChannelApiClient, (*channelpb.ApiRouter).GetChannelApiClient, channelpb.WrapApi),
	mk("channelpb", "InfoRouter", "InfoWrapper", channelpb.NewInfoRouter, traits.NewChannelInfoClient, channelpb.WithChannelInfoClientFactory,
		(*channelpb.InfoRouter).AddChannelInfoClient, (*channelpb.InfoRouter).RemoveChannelInfoClient, (*channelpb.InfoRouter).GetChannelInfoClient, channelpb.WrapInfo),
	mk("colorpb", "ApiRouter", "ApiWrapper", colorpb.NewApiRouter, traits.NewColorApiClient, colorpb.WithColorApiClientFactory,
		(*colorpb.ApiRouter).AddColorApiClient, (*colorpb.ApiRouter).RemoveColorApiClient, (*colorpb.ApiRouter).GetColorApiClient, colorpb.WrapApi),
	mk("colorpb", "InfoRouter", "InfoWrapper", colorpb.NewInfoRouter, traits.NewColorInfoClient, colorpb.WithColorInfoClientFactory,
		(*colorpb.InfoRouter).AddColorInfoClient, (*colorpb.InfoRouter).RemoveColorInfoClient, (*colorpb.InfoRouter).GetColorInfoClient, colorpb.WrapInfo),
	mk("countpb", "ApiRouter", "ApiWrapper", countpb.NewApiRouter, traits.NewCountApiClient, countpb.WithCountApiClientFactory,
		(*countpb.ApiRouter).AddCountApiClient, (*countpb.ApiRouter).RemoveCountApiClient, (*countpb.ApiRouter).GetCountApiClient, countpb.WrapApi),
	mk("countpb", "InfoRouter", "InfoWrapper", countpb.NewInfoRouter, traits.NewCountInfoClient, countpb.WithCountInfoClientFactory,
		(*countpb.InfoRouter).AddCountInfoClient, (*countpb.InfoRouter).RemoveCountInfoClient, (*countpb.InfoRouter).GetCountInfoClient, countpb.WrapInfo),
	mk("electricpb", "ApiRouter", "ApiWrapper", electricpb.NewApiRouter, traits.NewElectricApiClient, electricpb.WithElectricApiClientFactory,
		(*electricpb.ApiRouter).AddElectricApiClient, (*electricpb.ApiRouter).RemoveElectricApiClient, (*electricpb.ApiRouter).GetElectricApiClient, electricpb.WrapApi),
	mk("electricpb", "InfoRouter", "InfoWrapper", electricpb.NewInfoRouter, traits.NewElectricInfoClient, electricpb.WithElectricInfoClientFactory,
		(*electricpb.InfoRouter).AddElectricInfoClient, (*electricpb.InfoRouter).RemoveElectricInfoClient, (*electricpb.InfoRouter).GetElectricInfoClient, electricpb.WrapInfo),
	mk("electricpb", "MemorySettingsApiRouter", "MemorySettingsApiWrapper", electricpb.NewMemorySettingsApiRouter, electricpb.NewMemorySettingsApiClient, electricpb.WithMemorySettingsApiClientFactory,
		(*electricpb.MemorySettingsApiRouter).AddMemorySettingsApiClient, (*electricpb.MemorySettingsApiRouter).RemoveMemorySettingsApiClient, (*electricpb.MemorySettingsApiRouter).GetMemorySettingsApiClient, electricpb.WrapMemorySettingsApi),
	mk("emergencypb", "ApiRouter", "ApiWrapper", emergencypb.NewApiRouter, traits.NewEmergencyApiClient, emergencypb.WithEmergencyApiClientFactory,
		(*emergencypb.ApiRouter).AddEmergencyApiClient, (*emergencypb.ApiRouter).RemoveEmergencyApiClient, (*emergencypb.ApiRouter).GetEmergencyApiClient, emergencypb.WrapApi),
	mk("emergencypb", "InfoRouter", "InfoWrapper", emergencypb.NewInfoRouter, traits.NewEmergencyInfoClient, emergencypb.WithEmergencyInfoClientFactory,
		(*emergencypb.InfoRouter).AddEmergencyInfoClient, (*emergencypb.InfoRouter).RemoveEmergencyInfoClient, (*emergencypb.InfoRouter).GetEmergencyInfoClient, emergencypb.WrapInfo),
	mk("energystoragepb", "ApiRouter", "ApiWrapper", energystoragepb.NewApiRouter, traits.NewEnergyStorageApiClient, energystoragepb.WithEnergyStorageApiClientFactory,
		(*energystoragepb.ApiRouter).AddEnergyStorageApiClient, (*energystoragepb.ApiRouter).RemoveEnergyStorageApiClient, (*energystoragepb.ApiRouter).GetEnergyStorageApiClient, energystoragepb.WrapApi),
	mk("energystoragepb", "InfoRouter", "InfoWrapper", energystoragepb.NewInfoRouter, traits.NewEnergyStorageInfoClient, energystoragepb.WithEnergyStorageInfoClientFactory,
		(*energystoragepb.InfoRouter).AddEnergyStorageInfoClient, (*energystoragepb.InfoRouter).RemoveEnergyStorageInfoClient, (*energystoragepb.InfoRouter).GetEnergyStorageInfoClient, energystoragepb.WrapInfo),
	mk("enterleavesensorpb", "ApiRouter", "ApiWrapper", enterleavesensorpb.NewApiRouter, traits.NewEnterLeaveSensorApiClient, enterleavesensorpb.WithEnterLeaveSensorApiClientFactory,
		(*enterleavesensorpb.ApiRouter).AddEnterLeaveSensorApiClient, (*enterleavesensorpb.ApiRouter).RemoveEnterLeaveSensorApiClient, (*enterleavesensorpb.ApiRouter).GetEnterLeaveSensorApiClient, enterleavesensorpb.WrapApi),
	mk("enterleavesensorpb", "InfoRouter", "InfoWrapper", enterleavesensorpb.NewInfoRouter, traits.NewEnterLeaveSensorInfoClient, enterleavesensorpb.WithEnterLeaveSensorInfoClientFactory,
		(*enterleavesensorpb.InfoRouter).AddEnterLeaveSensorInfoClient, (*enterleavesensorpb.InfoRouter).RemoveEnterLeaveSensorInfoClient, (*enterleavesensorpb.InfoRouter).GetEnterLeaveSensorInfoClient, enterleavesensorpb.WrapInfo),
	mk("extendretractpb", "ApiRouter", "ApiWrapper", extendretractpb.NewApiRouter, traits.NewExtendRetractApiClient, extendretractpb.WithExtendRetractApiClientFactory,
		(*extendretractpb.ApiRouter).AddExtendRetractApiClient, (*extendretractpb.ApiRouter).RemoveExtendRetractApiClient, (*extendretractpb.ApiRouter).GetExtendRetractApiClient, extendretractpb.WrapApi),
	mk("extendretractpb", "InfoRouter", "InfoWrapper", extendretractpb.NewInfoRouter, traits.NewExtendRetractInfoClient, extendretractpb.WithExtendRetractInfoClientFactory,
		(*extendretractpb.InfoRouter).AddExtendRetractInfoClient, (*extendretractpb.InfoRouter).RemoveExtendRetractInfoClient, (*extendretractpb.InfoRouter).GetExtendRetractInfoClient, extendretractpb.WrapInfo),
	mk("fanspeedpb", "ApiRouter", "ApiWrapper", fanspeedpb.NewApiRouter, traits.NewFanSpeedApiClient, fanspeedpb.WithFanSpeedApiClientFactory,
		(*fanspeedpb.ApiRouter).AddFanSpeedApiClient, (*fanspeedpb.ApiRouter).RemoveFanSpeedApiClient, (*fanspeedpb.ApiRouter).GetFanSpeedApiClient, fanspeedpb.WrapApi),
	mk("fanspeedpb", "InfoRouter", "InfoWrapper", fanspeedpb.NewInfoRouter, traits.NewFanSpeedInfoClient, fanspeedpb.WithFanSpeedInfoClientFactory,
		(*fanspeedpb.InfoRouter).AddFanSpeedInfoClient, (*fanspeedpb.InfoRouter).RemoveFanSpeedInfoClient, (*fanspeedpb.InfoRouter).GetFanSpeedInfoClient, fanspeedpb.WrapInfo),
	mk("hailpb", "ApiRouter", "ApiWrapper", hailpb.NewApiRouter, traits.NewHailApiClient, hailpb.WithHailApiClientFactory,
		(*hailpb.ApiRouter).AddHailApiClient, (*hailpb.ApiRouter).RemoveHailApiClient, (*hailpb.ApiRouter).GetHailApiClient, hailpb.WrapApi),
	mk("hailpb", "InfoRouter", "InfoWrapper", hailpb.NewInfoRouter, traits.NewHailInfoClient, hailpb.WithHailInfoClientFactory,
		(*hailpb.InfoRouter).AddHailInfoClient, (*hailpb.InfoRouter).RemoveHailInfoClient, (*hailpb.InfoRouter).GetHailInfoClient, hailpb.WrapInfo),
	mk("inputselectpb", "ApiRouter", "ApiWrapper", inputselectpb.NewApiRouter, traits.NewInputSelectApiClient, inputselectpb.WithInputSelectApiClientFactory,
		(*inputselectpb.ApiRouter).AddInputSelectApiClient, (*inputselectpb.ApiRouter).RemoveInputSelectApiClient, (*inputselectpb.ApiRouter).GetInputSelectApiClient, inputselectpb.WrapApi),
	mk("inputselectpb", "InfoRouter", "InfoWrapper", inputselectpb.NewInfoRouter, traits.NewInputSelectInfoClient, inputselectpb.WithInputSelectInfoClientFactory,
		(*inputselectpb.InfoRouter).AddInputSelectInfoClient, (*inputselectpb.InfoRouter).RemoveInputSelectInfoClient, (*inputselectpb.InfoRouter).GetInputSelectInfoClient, inputselectpb.WrapInfo),
	mk("lightpb", "ApiRouter", "ApiWrapper", lightpb.NewApiRouter, traits.NewLightApiClient, lightpb.WithLightApiClientFactory,
		(*lightpb.ApiRouter).AddLightApiClient, (*lightpb.ApiRouter).RemoveLightApiClient, (*lightpb.ApiRouter).GetLightApiClient, lightpb.WrapApi),
	mk("lightpb", "InfoRouter", "InfoWrapper", lightpb.NewInfoRouter, traits.NewLightInfoClient, lightpb.WithLightInfoClientFactory,
		(*lightpb.InfoRouter).AddLightInfoClient, (*lightpb.InfoRouter).RemoveLightInfoClient, (*lightpb.InfoRouter).GetLightInfoClient, lightpb.WrapInfo),
	mk("lockunlockpb", "ApiRouter", "ApiWrapper", lockunlockpb.NewApiRouter, traits.NewLockUnlockApiClient, lockunlockpb.WithLockUnlockApiClientFactory,
		(*lockunlockpb.ApiRouter).AddLockUnlockApiClient, (*lockunlockpb.ApiRouter).RemoveLockUnlockApiClient, (*lockunlockpb.ApiRouter).GetLockUnlockApiClient, lockunlockpb.WrapApi),
	mk("lockunlockpb", "InfoRouter", "InfoWrapper", lockunlockpb.NewInfoRouter, traits.NewLockUnlockInfoClient, lockunlockpb.WithLockUnlockInfoClientFactory,
		(*lockunlockpb.InfoRouter).AddLockUnlockInfoClient, (*lockunlockpb.InfoRouter).RemoveLockUnlockInfoClient, (*lockunlockpb.InfoRouter).GetLockUnlockInfoClient, lockunlockpb.WrapInfo),
	mk("metadatapb", "ApiRouter", "ApiWrapper", metadatapb.NewApiRouter, traits.NewMetadataApiClient, metadatapb.WithMetadataApiClientFactory,
		(*metadatapb.ApiRouter).AddMetadataApiClient, (*metadatapb.ApiRouter).RemoveMetadataApiClient, (*metadatapb.ApiRouter).GetMetadataApiClient, metadatapb.WrapApi),
	mk("metadatapb", "InfoRouter", "InfoWrapper", metadatapb.NewInfoRouter, traits.NewMetadataInfoClient, metadatapb.WithMetadataInfoClientFactory,
		(*metadatapb.InfoRouter).AddMetadataInfoClient, (*metadatapb.InfoRouter).RemoveMetadataInfoClient, (*metadatapb.InfoRouter).GetMetadataInfoClient, metadatapb.WrapInfo),
	mk("meterpb", "ApiRouter", "ApiWrapper", meterpb.NewApiRouter, traits.NewMeterApiClient, meterpb.WithMeterApiClientFactory,
		(*meterpb.ApiRouter).AddMeterApiClient, (*meterpb.ApiRouter).RemoveMeterApiClient, (*meterpb.ApiRouter).GetMeterApiClient, meterpb.WrapApi),
	mk("meterpb", "InfoRouter", "InfoWrapper", meterpb.NewInfoRouter, traits.NewMeterInfoClient, meterpb.WithMeterInfoClientFactory,
		(*meterpb.InfoRouter).AddMeterInfoClient, (*meterpb.InfoRouter).RemoveMeterInfoClient, (*meterpb.InfoRouter).GetMeterInfoClient, meterpb.WrapInfo),
	mk("microphonepb", "ApiRouter", "ApiWrapper", microphonepb.NewApiRouter, traits.NewMicrophoneApiClient, microphonepb.WithMicrophoneApiClientFactory,
		(*microphonepb.ApiRouter).AddMicrophoneApiClient, (*microphonepb.ApiRouter).RemoveMicrophoneApiClient, (*microphonepb.ApiRouter).GetMicrophoneApiClient, microphonepb.WrapApi),
	mk("microphonepb", "InfoRouter", "InfoWrapper", microphonepb.NewInfoRouter, traits.NewMicrophoneInfoClient, microphonepb.WithMicrophoneInfoClientFactory,
		(*microphonepb.InfoRouter).AddMicrophoneInfoClient, (*microphonepb.InfoRouter).RemoveMicrophoneInfoClient, (*microphonepb.InfoRouter).GetMicrophoneInfoClient, microphonepb.WrapInfo),
	mk("modepb", "ApiRouter", "ApiWrapper", modepb.NewApiRouter, traits.NewModeApiClient, modepb.WithModeApiClientFactory,
		(*modepb.ApiRouter).AddModeApiClient, (*modepb.ApiRouter).RemoveModeApiClient, (*modepb.ApiRouter).GetModeApiClient, modepb.WrapApi),
	mk("modepb", "InfoRouter", "InfoWrapper", modepb.NewInfoRouter, traits.NewModeInfoClient, modepb.WithModeInfoClientFactory,
		(*modepb.InfoRouter).AddModeInfoClient, (*modepb.InfoRouter).RemoveModeInfoClient, (*modepb.InfoRouter).GetModeInfoClient, modepb.WrapInfo),
	mk("motionsensorpb", "ApiRouter", "ApiWrapper", motionsensorpb.NewApiRouter, traits.NewMotionSensorApiClient, motionsensorpb.WithMotionSensorApiClientFactory,
		(*motionsensorpb.ApiRouter).AddMotionSensorApiClient, (*motionsensorpb.ApiRouter).RemoveMotionSensorApiClient, (*motionsensorpb.ApiRouter).GetMotionSensorApiClient, motionsensorpb.WrapApi),
	mk("motionsensorpb", "SensorInfoRouter", "SensorInfoWrapper", motionsensorpb.NewSensorInfoRouter, traits.NewMotionSensorSensorInfoClient, motionsensorpb.WithMotionSensorSensorInfoClientFactory,
		(*motionsensorpb.SensorInfoRouter).AddMotionSensorSensorInfoClient, (*motionsensorpb.SensorInfoRouter).RemoveMotionSensorSensorInfoClient, (*motionsensorpb.SensorInfoRouter).GetMotionSensorSensorInfoClient, motionsensorpb.WrapSensorInfo),
	mk("occupancysensorpb", "ApiRouter", "ApiWrapper", occupancysensorpb.NewApiRouter, traits.NewOccupancySensorApiClient, occupancysensorpb.WithOccupancySensorApiClientFactory,
		(*occupancysensorpb.ApiRouter).AddOccupancySensorApiClient, (*occupancysensorpb.ApiRouter).RemoveOccupancySensorApiClient, (*occupancysensorpb.ApiRouter).GetOccupancySensorApiClient, occupancysensorpb.WrapApi),
	mk("occupancysensorpb", "InfoRouter", "InfoWrapper", occupancysensorpb.NewInfoRouter, traits.NewOccupancySensorInfoClient, occupancysensorpb.WithOccupancySensorInfoClientFactory,
		(*occupancysensorpb.InfoRouter).AddOccupancySensorInfoClient, (*occupancysensorpb.InfoRouter).RemoveOccupancySensorInfoClient, (*occupancysensorpb.InfoRouter).GetOccupancySensorInfoClient, occupancysensorpb.WrapInfo),
	mk("onoffpb", "ApiRouter", "ApiWrapper", onoffpb.NewApiRouter, traits.NewOnOffApiClient, onoffpb.WithOnOffApiClientFactory,
		(*onoffpb.ApiRouter).AddOnOffApiClient, (*onoffpb.ApiRouter).RemoveOnOffApiClient, (*onoffpb.ApiRouter).GetOnOffApiClient, onoffpb.WrapApi),
	mk("onoffpb", "InfoRouter", "InfoWrapper", onoffpb.NewInfoRouter, traits.NewOnOffInfoClient, onoffpb.WithOnOffInfoClientFactory,
		(*onoffpb.InfoRouter).AddOnOffInfoClient, (*onoffpb.InfoRouter).RemoveOnOffInfoClient, (*onoffpb.InfoRouter).GetOnOffInfoClient, onoffpb.WrapInfo),
	mk("openclosepb", "ApiRouter", "ApiWrapper", openclosepb.NewApiRouter, traits.NewOpenCloseApiClient, openclosepb.WithOpenCloseApiClientFactory,
		(*openclosepb.ApiRouter).AddOpenCloseApiClient, (*openclosepb.ApiRouter).RemoveOpenCloseApiClient, (*openclosepb.ApiRouter).GetOpenCloseApiClient, openclosepb.WrapApi),
	mk("openclosepb", "InfoRouter", "InfoWrapper", openclosepb.NewInfoRouter, traits.NewOpenCloseInfoClient, openclosepb.WithOpenCloseInfoClientFactory,
		(*openclosepb.InfoRouter).AddOpenCloseInfoClient, (*openclosepb.InfoRouter).RemoveOpenCloseInfoClient, (*openclosepb.InfoRouter).GetOpenCloseInfoClient, openclosepb.WrapInfo),
	mk("parentpb", "ApiRouter", "ApiWrapper", parentpb.NewApiRouter, traits.NewParentApiClient, parentpb.WithParentApiClientFactory,
		(*parentpb.ApiRouter).AddParentApiClient, (*parentpb.ApiRouter).RemoveParentApiClient, (*parentpb.ApiRouter).GetParentApiClient, parentpb.WrapApi),
	mk("parentpb", "InfoRouter", "InfoWrapper", parentpb.NewInfoRouter, traits.NewParentInfoClient, parentpb.WithParentInfoClientFactory,
		(*parentpb.InfoRouter).AddParentInfoClient, (*parentpb.InfoRouter).RemoveParentInfoClient, (*parentpb.InfoRouter).GetParentInfoClient, parentpb.WrapInfo),
	mk("presspb", "ApiRouter", "ApiWrapper", presspb.NewApiRouter, traits.NewPressApiClient, presspb.WithPressApiClientFactory,
		(*presspb.ApiRouter).AddPressApiClient, (*presspb.ApiRouter).RemovePressApiClient, (*presspb.ApiRouter).GetPressApiClient, presspb.WrapApi),
	mk("ptzpb", "ApiRouter", "ApiWrapper", ptzpb.NewApiRouter, traits.NewPtzApiClient, ptzpb.WithPtzApiClientFactory,
		(*ptzpb.ApiRouter).AddPtzApiClient, (*ptzpb.ApiRouter).RemovePtzApiClient, (*ptzpb.ApiRouter).GetPtzApiClient, ptzpb.WrapApi),
	mk("ptzpb", "InfoRouter", "InfoWrapper", ptzpb.NewInfoRouter, traits.NewPtzInfoClient, ptzpb.WithPtzInfoClientFactory,
		(*ptzpb.InfoRouter).AddPtzInfoClient, (*ptzpb.InfoRouter).RemovePtzInfoClient, (*ptzpb.InfoRouter).GetPtzInfoClient, ptzpb.WrapInfo),
	mk("publicationpb", "ApiRouter", "ApiWrapper", publicationpb.NewApiRouter, traits.NewPublicationApiClient, publicationpb.WithPublicationApiClientFactory,
		(*publicationpb.ApiRouter).AddPublicationApiClient, (*publicationpb.ApiRouter).RemovePublicationApiClient, (*publicationpb.ApiRouter).GetPublicationApiClient, publicationpb.WrapApi),
	mk("speakerpb", "ApiRouter", "ApiWrapper", speakerpb.NewApiRouter, traits.NewSpeakerApiClient, speakerpb.WithSpeakerApiClientFactory,
		(*speakerpb.ApiRouter).AddSpeakerApiClient, (*speakerpb.ApiRouter).RemoveSpeakerApiClient, (*speakerpb.ApiRouter).GetSpeakerApiClient, speakerpb.WrapApi),
	mk("speakerpb", "InfoRouter", "InfoWrapper", speakerpb.NewInfoRouter, traits.NewSpeakerInfoClient, speakerpb.WithSpeakerInfoClientFactory,
		(*speakerpb.InfoRouter).AddSpeakerInfoClient, (*speakerpb.InfoRouter).RemoveSpeakerInfoClient, (*speakerpb.InfoRouter).GetSpeakerInfoClient, speakerpb.WrapInfo),
	mk("temperaturepb", "ApiRouter", "ApiWrapper", temperaturepb.NewApiRouter, traits.NewTemperatureApiClient, temperaturepb.WithTemperatureApiClientFactory,
		(*temperaturepb.ApiRouter).AddTemperatureApiClient, (*temperaturepb.ApiRouter).RemoveTemperatureApiClient, (*temperaturepb.ApiRouter).GetTemperatureApiClient, temperaturepb.WrapApi),
	mk("vendingpb", "ApiRouter", "ApiWrapper", vendingpb.NewApiRouter, traits.NewVendingApiClient, vendingpb.WithVendingApiClientFactory,
		(*vendingpb.ApiRouter).AddVendingApiClient, (*vendingpb.ApiRouter).RemoveVendingApiClient, (*vendingpb.ApiRouter).GetVendingApiClient, vendingpb.WrapApi),
	mk("vendingpb", "InfoRouter", "InfoWrapper", vendingpb.NewInfoRouter, traits.NewVendingInfoClient, vendingpb.WithVendingInfoClientFactory,
		(*vendingpb.InfoRouter).AddVendingInfoClient, (*vendingpb.InfoRouter).RemoveVendingInfoClient, (*vendingpb.InfoRouter).GetVendingInfoClient, vendingpb.WrapInfo),
	mk("wastepb", "ApiRouter", "ApiWrapper", wastepb.NewApiRouter, traits.NewWasteApiClient, wastepb.WithWasteApiClientFactory,
		(*wastepb.ApiRouter).AddWasteApiClient, (*wastepb.ApiRouter).RemoveWasteApiClient, (*wastepb.ApiRouter).GetWasteApiClient, wastepb.WrapApi),
	mk("wastepb", "InfoRouter", "InfoWrapper", wastepb.NewInfoRouter, traits.NewWasteInfoClient, wastepb.WithWasteInfoClientFactory,
		(*wastepb.InfoRouter).AddWasteInfoClient, (*wastepb.InfoRouter).RemoveWasteInfoClient, (*wastepb.InfoRouter).GetWasteInfoClient, wastepb.WrapInfo),
}
