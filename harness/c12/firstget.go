package main

import (
	"fmt"
	"sync"

	"github.com/smart-core-os/sc-golang/internal/verif/vk"
	"github.com/smart-core-os/sc-golang/pkg/router"
)

const (
	ptAfterMiss    = "router.get.afterMiss"
	ptBeforeInsert = "router.get.beforeInsert"
)

// waitArrived waits until the goroutine is parked or the task finished without reaching the hook. It decides on
// goroutine states (quiescence), not on elapsed time.
func waitArrived(p *vk.Park, t *vk.Task) bool {
	for {
		if p.Arrived() {
			return true
		}
		if t.Done() {
			return p.Arrived()
		}
		vk.Quiesce()
	}
}

type getResult struct {
	c   any
	err error
}

// guardedGet is Get with a panic turned into an error result (the goroutine is the harness's own).
func guardedGet(rt router.Router, n string) (res getResult) {
	if p, what := vk.Recover(func() { res.c, res.err = rt.Get(n) }); p {
		res = getResult{nil, fmt.Errorf("panic in Get: %s", what)}
	}
	return res
}

// interferer is what runs while the victim Get is parked inside a window.
type interferer struct {
	name string
	// run performs the interfering operations on g and returns the client the victim's Get must return and what the
	// registry must hold afterwards (nil = whatever the victim's own factory client is, i.e. the victim commits).
	run func(g *regRig, n string) (mustReturn any)
}

func interferers() []interferer {
	return []interferer{
		{"none", func(g *regRig, n string) any { return nil }},
		{"get", func(g *regRig, n string) any {
			c, err := g.rt.Get(n)
			g.note(fmt.Sprintf("interferer get(%q)=%s,%s", n, g.label(c), errString(err)))
			return c
		}},
		{"add", func(g *regRig, n string) any {
			c := g.client("added:" + n)
			old := g.rt.Add(n, c)
			g.note(fmt.Sprintf("interferer add(%q,%s)=%s", n, g.label(c), g.label(old)))
			return c
		}},
		{"add+remove", func(g *regRig, n string) any {
			c := g.client("added:" + n)
			g.rt.Add(n, c)
			old := g.rt.Remove(n)
			g.note(fmt.Sprintf("interferer add(%q,%s); remove=%s", n, g.label(c), g.label(old)))
			return nil
		}},
		{"get+remove", func(g *regRig, n string) any {
			c, _ := g.rt.Get(n)
			old := g.rt.Remove(n)
			g.note(fmt.Sprintf("interferer get(%q)=%s; remove=%s", n, g.label(c), g.label(old)))
			return nil
		}},
		{"remove-absent", func(g *regRig, n string) any {
			old := g.rt.Remove(n)
			g.note(fmt.Sprintf("interferer remove(%q)=%s", n, g.label(old)))
			return nil
		}},
		{"get+add", func(g *regRig, n string) any {
			g.rt.Get(n)
			c := g.client("added:" + n)
			old := g.rt.Add(n, c)
			g.note(fmt.Sprintf("interferer get; add(%q,%s)=%s", n, g.label(c), g.label(old)))
			return c
		}},
		{"add-other-name", func(g *regRig, n string) any {
			c := g.client("added:other")
			g.rt.Add(n+"/other", c)
			g.note("interferer add(other)")
			return nil
		}},
	}
}

// judgeChain replays the change log on an empty registry: every change must start from what the previous ones left
// (so a second announcement of a first Get, or an announcement that overwrites a concurrent Add, breaks the chain),
// Auto must be set exactly on factory-made clients, and the result must be what the registry now holds.
func (g *regRig) judgeChain(key string, names []string, replay any) {
	g.mu.Lock()
	changes := append([]router.Change(nil), g.changes...)
	isFactory := map[any]bool{}
	for _, cs := range g.facMade {
		for _, c := range cs {
			isFactory[c] = true
		}
	}
	g.mu.Unlock()
	cur := map[string]any{}
	autos := map[string]int{}
	for i, c := range changes {
		if c.Old != cur[c.Name] {
			g.r.Violation(key+"/change-chain", fmt.Sprintf("change %d {%q old=%s new=%s auto=%v} does not continue from %s\nhistory: %v", i, c.Name, g.label(c.Old), g.label(c.New), c.Auto, g.label(cur[c.Name]), g.hist), replay)
			return
		}
		if c.New == nil {
			delete(cur, c.Name)
		} else {
			cur[c.Name] = c.New
		}
		if c.Auto {
			autos[c.Name]++
		}
		if c.Auto != (c.New != nil && isFactory[c.New]) {
			g.r.Violation(key+"/auto-flag", fmt.Sprintf("change %d {%q old=%s new=%s auto=%v}\nhistory: %v", i, c.Name, g.label(c.Old), g.label(c.New), c.Auto, g.hist), replay)
		}
	}
	for _, n := range names {
		has := g.rt.Has(n)
		if has != (cur[n] != nil) {
			g.r.Violation(key+"/final-state", fmt.Sprintf("Has(%q)=%v but the change log leaves %s\nhistory: %v", n, has, g.label(cur[n]), g.hist), replay)
			continue
		}
		if has {
			c, err := g.rt.Get(n)
			if c != cur[n] || err != nil {
				g.r.Violation(key+"/final-state", fmt.Sprintf("Get(%q)=%s,%s but the change log leaves %s\nhistory: %v", n, g.label(c), errString(err), g.label(cur[n]), g.hist), replay)
			}
		}
	}
}

// forcedFirstGets parks a first Get inside each window of router.Get and runs every interferer meanwhile.
func forcedFirstGets(r *vk.Run, targets []*regTarget, idx *int) {
	sched := vk.NewSched()
	defer sched.Close()
	for _, t := range targets {
		for _, win := range []string{ptAfterMiss, ptBeforeInsert} {
			for _, in := range interferers() {
				for _, second := range []string{"", ptAfterMiss, ptBeforeInsert} {
					*idx++
					if !r.Mine(*idx) {
						continue
					}
					forcedScenario(r, sched, t, win, in, second)
				}
			}
		}
	}
}

func forcedScenario(r *vk.Run, sched *vk.Sched, t *regTarget, win string, in interferer, second string) {
	pair := win[len("router.get."):] + "/" + in.name
	if second != "" {
		pair = win[len("router.get."):] + "+get@" + second[len("router.get."):] + "/" + in.name
	}
	key := "C12/first-get/" + pair
	if !r.Selected(key) {
		return
	}
	const n = "F1"
	g := newRegRig(r, t, true, false, 0, true)
	replay := map[string]any{"target": t.id, "window": win, "interferer": in.name, "second-get-parked-at": second}
	match := func(_, val any) bool { return val == n }

	var res1, res2 getResult
	p1 := sched.ParkAt(win, match)
	t1 := vk.Go(func() { res1 = guardedGet(g.rt, n) })
	if !waitArrived(p1, t1) {
		p1.Release()
		t1.Wait()
		r.Violation(key+"/window-not-reached", "a first Get with a factory did not pass "+win, replay)
		return
	}
	g.note("get#1 parked at " + win)
	var p2 *vk.Park
	var t2 *vk.Task
	if second != "" {
		p2 = sched.ParkAt(second, match)
		t2 = vk.Go(func() { res2 = guardedGet(g.rt, n) })
		if !waitArrived(p2, t2) {
			p2.Release()
			t2.Wait()
			p1.Release()
			t1.Wait()
			r.Violation(key+"/window-not-reached", "a second first Get did not pass "+second, replay)
			return
		}
		g.note("get#2 parked at " + second)
	}
	var mustReturn any
	if p, what := vk.Recover(func() { mustReturn = in.run(g, n) }); p {
		r.Violation(key+"/panic", "the interfering operations panicked: "+what, replay)
	}
	// release order: the later arrival first, so that it commits inside the earlier one's window
	if p2 != nil {
		p2.Release()
		t2.Wait()
		g.note(fmt.Sprintf("get#2 released -> %s,%s", g.label(res2.c), errString(res2.err)))
	}
	p1.Release()
	t1.Wait()
	g.note(fmt.Sprintf("get#1 released -> %s,%s", g.label(res1.c), errString(res1.err)))

	r.Eval(1)
	r.Count("first-get-forced-scenarios", 1)
	r.Count("first-get-window-"+win, 1)
	r.Distinct("first-get:" + t.id + ":" + pair)
	if r.WantSample("first-get-forced") {
		r.Sample("first-get-forced", map[string]any{"target": t.id, "scenario": pair, "history": g.hist, "factory-calls": g.facCalls[n], "changes": len(g.changes)})
	}

	results := []getResult{res1}
	if second != "" {
		results = append(results, res2)
	}
	for i, res := range results {
		if res.err != nil || res.c == nil {
			r.Violation(key+"/get-failed", fmt.Sprintf("get#%d returned %s, %s although the factory serves %q\nhistory: %v", i+1, g.label(res.c), errString(res.err), n, g.hist), replay)
		}
	}
	// what is registered once everything has returned
	final, ferr := g.rt.Get(n)
	if ferr != nil {
		final = nil
	}
	// the Get that returned last must have returned the registered client, unless the interferer removed it again
	if mustReturn != nil {
		// an Add or a complete Get happened while the victims were parked before their insert: every victim has to
		// find that client instead of committing its own
		for i, res := range results {
			if res.c != mustReturn {
				r.Violation(key+"/returned-uncommitted", fmt.Sprintf("get#%d returned %s but %s was registered while it was parked\nhistory: %v", i+1, g.label(res.c), g.label(mustReturn), g.hist), replay)
			}
		}
		if final != mustReturn {
			r.Violation(key+"/overwrote", fmt.Sprintf("registry holds %s but %s was registered while the Get was parked\nhistory: %v", g.label(final), g.label(mustReturn), g.hist), replay)
		}
	} else if res1.c != final && res1.err == nil {
		r.Violation(key+"/returned-uncommitted", fmt.Sprintf("the last Get to return got %s but the registry holds %s\nhistory: %v", g.label(res1.c), g.label(final), g.hist), replay)
	}
	if second != "" && in.name == "none" && res1.c != res2.c {
		r.Violation(key+"/two-clients", fmt.Sprintf("concurrent first Gets returned different clients %s and %s\nhistory: %v", g.label(res1.c), g.label(res2.c), g.hist), replay)
	}
	g.judgeChain(key, []string{n, n + "/other"}, replay)
	g.mu.Lock()
	nf := g.facCalls[n]
	g.mu.Unlock()
	r.Count("first-get-factory-calls", nf)
}

// stressFirstGets lets k goroutines Get the same fresh factory names at once with pseudo-random yields at the hook
// points; everyone must get the single committed client and exactly one Auto change is announced per name.
func stressFirstGets(r *vk.Run, t *regTarget, rng *vk.Rand, seed uint64) {
	sched := vk.NewSched()
	defer sched.Close()
	sched.Stress(seed | 1)
	g := newRegRig(r, t, true, rng.Bool(), rng.Intn(2), true)
	names := []string{"F1", "F2", "xFy"}
	k := rng.Range(2, 6)
	withAdd := rng.Chance(1, 3)
	key := "C12/first-get/stress"
	type namedResult struct {
		n string
		getResult
	}
	res := make([][]namedResult, k)
	var wg sync.WaitGroup
	start := make(chan struct{})
	for i := 0; i < k; i++ {
		wg.Add(1)
		i := i
		order := rng.Perm(len(names))
		go func() {
			defer wg.Done()
			<-start
			for _, ni := range order {
				res[i] = append(res[i], namedResult{names[ni], guardedGet(g.rt, names[ni])})
			}
		}()
	}
	if withAdd {
		wg.Add(1)
		c := g.client("added:F2")
		go func() {
			defer wg.Done()
			<-start
			vk.Recover(func() { g.rt.Add("F2", c) })
		}()
	}
	close(start)
	wg.Wait()
	r.Eval(1)
	r.Count("first-get-stress-scenarios", 1)
	r.Count("first-get-stress-gets", k*len(names))
	r.Distinct(fmt.Sprintf("first-get-stress:%s:%d:%v:%d", t.id, k, withAdd, seed))
	replay := map[string]any{"target": t.id, "goroutines": k, "seed": seed, "with-add": withAdd}
	g.mu.Lock()
	changes := append([]router.Change(nil), g.changes...)
	nfac := 0
	for _, n := range names {
		nfac += g.facCalls[n]
	}
	g.mu.Unlock()
	r.Count("first-get-stress-factory-calls", nfac)
	if nfac > len(names) {
		r.Count("first-get-stress-scenarios-with-racing-factories", 1)
	}
	committed := map[string]map[any]bool{}
	autos := map[string]int{}
	for _, c := range changes {
		if c.New != nil {
			if committed[c.Name] == nil {
				committed[c.Name] = map[any]bool{}
			}
			committed[c.Name][c.New] = true
		}
		if c.Auto {
			autos[c.Name]++
		}
	}
	byName := map[string]map[any]bool{}
	for gi := range res {
		for _, gr := range res[gi] {
			if gr.err != nil || gr.c == nil {
				r.Violation(key+"/get-failed", fmt.Sprintf("a concurrent first Get(%q) returned %s, %s", gr.n, g.label(gr.c), errString(gr.err)), replay)
				continue
			}
			if byName[gr.n] == nil {
				byName[gr.n] = map[any]bool{}
			}
			byName[gr.n][gr.c] = true
		}
	}
	for _, n := range names {
		for c := range byName[n] {
			if !committed[n][c] {
				r.Violation(key+"/returned-uncommitted", fmt.Sprintf("a concurrent Get(%q) returned %s which was never registered (%d changes)", n, g.label(c), len(changes)), replay)
			}
		}
		limit := 1
		if withAdd && n == "F2" {
			limit = 2 // the factory client may have been replaced by the Add
		}
		if len(byName[n]) > limit {
			r.Violation(key+"/two-clients", fmt.Sprintf("concurrent first Gets of %q returned %d different clients", n, len(byName[n])), replay)
		}
		if autos[n] > 1 {
			r.Violation(key+"/two-auto-changes", fmt.Sprintf("%d Auto changes announced for %q", autos[n], n), replay)
		}
	}
	g.judgeBalance(key, names, replay)
}

// judgeBalance is the order-free form of judgeChain for concurrent scenarios, where callbacks run outside the lock and
// may be logged in another order than the commits: per name the changes must be linkable into one chain from "absent"
// to what the registry holds now (every client is the New of at most one change and the Old of at most one).
func (g *regRig) judgeBalance(key string, names []string, replay any) {
	g.mu.Lock()
	changes := append([]router.Change(nil), g.changes...)
	g.mu.Unlock()
	for _, n := range names {
		in, out := map[any]int{}, map[any]int{}
		for _, c := range changes {
			if c.Name != n {
				continue
			}
			out[c.Old]++
			in[c.New]++
		}
		var final any
		if g.rt.Has(n) {
			final, _ = g.rt.Get(n)
		}
		vals := map[any]bool{nil: true, final: true}
		for v := range in {
			vals[v] = true
		}
		for v := range out {
			vals[v] = true
		}
		for v := range vals {
			want := 0 // out - in
			if v == nil {
				want++
			}
			if v == final {
				want--
			}
			if out[v]-in[v] != want {
				g.r.Violation(key+"/change-chain", fmt.Sprintf("the changes of %q cannot be ordered into one chain from absent to %s: client %s is Old of %d and New of %d changes", n, g.label(final), g.label(v), out[v], in[v]), replay)
				break
			}
			if v != nil && (in[v] > 1 || out[v] > 1) {
				g.r.Violation(key+"/change-chain", fmt.Sprintf("client %s of %q is announced %d times as New and %d times as Old", g.label(v), n, in[v], out[v]), replay)
				break
			}
		}
	}
}
