// Monitor for C12: routers deliver each request to the client registered under its name.
//
// Parts (each splits its cases round-robin over the worker processes):
//
//	discover   source tree + linked-in descriptors vs the static table (table.go)
//	regen      the scratch tree's protoc-gen-router / protoc-gen-wrapper re-run on the linked-in descriptors
//	forward    every method of every router: scripted fake clients per name, capturing caller stream
//	wrapper    identity facts of every generated wrapper and a unary round trip router -> wrapper -> router
//	registry   Add/Remove/Has/Get histories against a map model, with the exact change log
//	first-get  a first Get parked inside router.Get's windows while other operations run; stress with yields
//	default    the default-name interceptors on every request type and every other linked-in message type
package main

import (
	"github.com/smart-core-os/sc-golang/internal/verif/vk"
)

func main() { vk.Main("C12", run) }

func run(r *vk.Run) {
	r.Describe("forward: for each of the generated routers in the static table (checked at run time against the *_router.pb.go / *_wrap.pb.go files of the source tree and the services of the linked-in sc-api/repo descriptors) and each method of the grpc.ServiceDesc it registers, "+
		"N random scenarios: a fresh router (factory serving names containing 'F' with probability 1/2, fallback serving names containing 'B' 1/3, default-name interceptor 1/4), 1-4 Adds from a pool of 17 names (empty, near misses, unicode, long), optional replace / remove, then 1-3 requests "+
		"(random request message incl. unknown fields; unary script = random response or status error with optional details / plain error; stream script = header, 0-12 messages, trailer, end by EOF or error, or an error at NewStream/SendMsg/CloseSend/Header, or the caller's SendHeader/Send failing) driven through the registered handler; "+
		"oracle: exactly one call, on the fake connection the registry model names (added / newest after replace / created once by the factory / fallback), with the full method name and a proto.Equal request; caller gets the scripted messages in order, status (code, message, details), header and trailer; no-client names give NotFound and zero calls; the change log replays to the model. "+
		"registry: random histories of Add/Remove/Has/Get (typed and untyped helpers) on router.NewRouter and on generated routers against a map model, Has of every name after every step, exact change-log comparison. "+
		"first-get: a Get parked at router.get.afterMiss / beforeInsert (optionally a second Get parked inside the first one's window) x 8 interferers (none, get, add, add+remove, get+remove, remove, get+add, other name) on the plain router and generated routers; plus seeded-yield stress of 2-6 goroutines. "+
		"default-name: unary and stream interceptor on every request type and every other linked-in message type with name absent / set / present-but-empty. "+
		"regen: protoc-gen-router and protoc-gen-wrapper of the tree are built and run on a CodeGeneratorRequest made from the linked-in descriptors; output compared declaration by declaration (go/printer form incl. comments) with the checked-in files, imports as a set. "+
		"A case is distinct by router.method, resolution mode, script class, name class, set of populated request fields, header/trailer presence and message count (forward), by its operation history (registry), by target x window pair (first-get), by file (regen).",
		"requests are driven through the handler functions of the grpc.ServiceDesc the router registers (as grpc.Server and pkg/wrap do), not over a socket",
		"clients are the generated sc-api clients over a recording grpc.ClientConnInterface; a client never returns both a response and an error",
		"unary response headers/trailers are outside the statement (the router passes no call options) and are not judged; for streams whose client fails before or at Header(), and when the caller's stream fails, only status / delivered prefix are judged",
		"a name served by both fallback and factory may be answered by either; re-adding the identical client may or may not be announced",
		"nil clients and clients of the wrong type are outside the registry's domain",
		"regeneration uses descriptors linked into the binary (sc-api go module version of go.mod), without source info; the templates use no comments from the proto files")

	prepared := true
	for _, e := range table {
		if why := e.prepare(); why != "" {
			r.Violation("C12/forward/"+e.ID()+"/register", why, nil)
			prepared = false
		}
	}
	if !prepared {
		return
	}
	idx := 0
	next := func() bool { idx++; return r.Mine(idx) }

	// ---- discovery and regeneration ----
	if next() && (r.Selected("C12/unrouted") || r.Selected("C12/registry-of-routers")) {
		discover(r)
	}
	if next() && r.Selected("C12/regen/") {
		regen(r, "router")
	}
	if next() && r.Selected("C12/regen/") {
		regen(r, "wrapper")
	}

	// ---- registry under concurrent Add/Remove ----
	if r.Selected("C12/registry/concurrent") {
		concurrentRegistry(r)
		reentrantCallbacks(r)
	}

	// ---- forwarding ----
	perMethod := r.Pick(300, 20000)
	nMethods := 0
	for _, e := range table {
		for mi := range e.Methods {
			m := &e.Methods[mi]
			nMethods++
			for c := 0; c < perMethod; c++ {
				if !next() {
					continue
				}
				if !r.Selected("C12/forward/" + e.ID() + "." + m.Name) {
					continue
				}
				forwardCase(r, e, m, r.CaseRand("forward/"+e.ID()+"."+m.Name, c))
			}
			r.Count("forward-methods-x-shards", 1)
		}
	}

	// ---- wrappers ----
	for i, e := range table {
		for c := 0; c < r.Pick(2, 20); c++ {
			if next() && r.Selected("C12/wrapper/"+e.Pkg+"."+e.Wrapper) {
				// the wrapped connection runs handlers on its own goroutines: a panic there would kill the worker
				if !r.Guard("C12/wrapper/"+e.Pkg+"."+e.Wrapper+"/crash", e.ID()) {
					continue
				}
				wrapperCase(r, e, r.CaseRand("wrapper", i*1000+c))
				r.Unguard()
			}
		}
	}

	// ---- registry histories ----
	nHist := r.Pick(4000, 400000)
	steps := 40
	raw := rawTarget()
	for i := 0; i < nHist; i++ {
		if !next() || !r.Selected("C12/registry/") {
			continue
		}
		rng := r.CaseRand("registry", i)
		t := raw
		if i%2 == 1 {
			t = genTarget(table[rng.Intn(len(table))])
		}
		registryHistory(r, t, rng, steps)
	}

	// ---- forced and stressed first Gets ----
	targets := []*regTarget{raw}
	trng := r.Rand("first-get-targets")
	for i, n := 0, r.Pick(3, len(table)); i < n; i++ {
		if n == len(table) {
			targets = append(targets, genTarget(table[i]))
		} else {
			targets = append(targets, genTarget(table[trng.Intn(len(table))]))
		}
	}
	forcedFirstGets(r, targets, &idx)
	nStress := r.Pick(6000, 1000000)
	for i := 0; i < nStress; i++ {
		if !next() || !r.Selected("C12/first-get/stress") {
			continue
		}
		rng := r.CaseRand("first-get-stress", i)
		t := raw
		if i%4 == 3 {
			t = genTarget(table[rng.Intn(len(table))])
		}
		stressFirstGets(r, t, rng, rng.Uint64())
	}

	// ---- default-name interceptor ----
	reqs, others := defaultNameTypes()
	r.Count("default-name-request-types-x-shards", len(reqs))
	per := r.Pick(20, 600)
	for _, mt := range reqs {
		for c := 0; c < per; c++ {
			if next() && r.Selected("C12/default-name/") {
				defaultNameCase(r, mt, r.CaseRand("defname/"+string(mt.Descriptor().FullName()), c), true)
			}
		}
	}
	if r.Selected("C12/default-name/") {
		defaultNameOverlappingStreams(r)
	}
	perOther := r.Pick(2, 20)
	for _, mt := range others {
		for c := 0; c < perOther; c++ {
			if next() && r.Selected("C12/default-name/") {
				defaultNameCase(r, mt, r.CaseRand("defname/"+string(mt.Descriptor().FullName()), c), false)
			}
		}
	}

	// ---- what a run must have seen to count ----
	r.Note("table: %d routers, %d methods", len(table), nMethods)
	if r.Only != "" {
		return // a replay runs one class of cases; the minimums below describe a full run
	}
	r.Require("discovered-router-files", 60)
	r.Require("discovered-wrapper-files", 60)
	r.Require("regen-router-files-compared", 60)
	r.Require("regen-wrapper-files-compared", 60)
	r.Require("forward-requests", nMethods*perMethod)
	r.Require("forward-unary-checked", nMethods*perMethod/4)
	r.Require("forward-stream-checked", nMethods*perMethod/20)
	r.Require("forward-notfound-checked", nMethods*perMethod/20)
	r.Require("forward-factory-created", nMethods)
	r.Require("forward-mode-fallback", nMethods/2)
	r.Require("registry-steps", nHist*steps)
	r.Require("registry-get-factory-first", nHist)
	r.Require("first-get-forced-scenarios", len(targets)*2*8*3)
	r.Require("first-get-stress-scenarios", nStress)
	r.Require("default-name-unary-string-name-empty", len(reqs))
	r.Require("default-name-stream-string-name-set", len(reqs))
}
