package main

import (
	"go/ast"
	"go/parser"
	"go/token"
	"os"
	"path/filepath"
	"sort"
	"strings"

	"github.com/smart-core-os/sc-golang/internal/verif/vk"
)

// found is one generated router or wrapper seen in the source tree.
type found struct {
	file string
	pkg  string
	name string // "ApiRouter" / "ApiWrapper"
}

// scanTree lists the routers (New<X>Router constructors in *_router.pb.go) and wrappers (Wrap<X> constructors in
// *_wrap.pb.go) of the source tree with go/parser.
func scanTree(root string) (routers, wrappers []found, err error) {
	werr := filepath.WalkDir(root, func(p string, d os.DirEntry, e error) error {
		if e != nil {
			return e
		}
		if d.IsDir() {
			if rel, _ := filepath.Rel(root, p); rel == filepath.Join("internal", "verif") || d.Name() == ".git" {
				return filepath.SkipDir
			}
			return nil
		}
		isR, isW := strings.HasSuffix(p, "_router.pb.go"), strings.HasSuffix(p, "_wrap.pb.go")
		if !isR && !isW {
			return nil
		}
		fset := token.NewFileSet()
		f, e := parser.ParseFile(fset, p, nil, parser.SkipObjectResolution)
		if e != nil {
			return e
		}
		rel, _ := filepath.Rel(root, p)
		n := 0
		for _, dcl := range f.Decls {
			fd, ok := dcl.(*ast.FuncDecl)
			if !ok || fd.Recv != nil {
				continue
			}
			name := fd.Name.Name
			switch {
			case isR && strings.HasPrefix(name, "New") && strings.HasSuffix(name, "Router"):
				routers = append(routers, found{file: filepath.ToSlash(rel), pkg: f.Name.Name, name: strings.TrimPrefix(name, "New")})
				n++
			case isW && strings.HasPrefix(name, "Wrap"):
				wrappers = append(wrappers, found{file: filepath.ToSlash(rel), pkg: f.Name.Name, name: strings.TrimPrefix(name, "Wrap") + "Wrapper"})
				n++
			}
		}
		if n == 0 {
			// a generated file without a constructor: still something the table cannot cover
			kind := "Router"
			if isW {
				kind = "Wrapper"
			}
			ff := found{file: filepath.ToSlash(rel), pkg: f.Name.Name, name: "<no constructor in " + filepath.Base(p) + ">" + kind}
			if isR {
				routers = append(routers, ff)
			} else {
				wrappers = append(wrappers, ff)
			}
		}
		return nil
	})
	return routers, wrappers, werr
}

// discover compares the routers / wrappers found in the tree and the services of the linked-in trait descriptors
// with the static table.
func discover(r *vk.Run) {
	root := srcRoot()
	routers, wrappers, err := scanTree(root)
	if err != nil || len(routers) == 0 {
		why := "no *_router.pb.go under " + root
		if err != nil {
			why = err.Error()
		}
		r.Inconclusive("discovery/source-tree", why)
		return
	}
	tabR, tabW, tabS := map[string]*entry{}, map[string]*entry{}, map[string]*entry{}
	for _, e := range table {
		tabR[e.Pkg+"."+e.Router] = e
		tabW[e.Pkg+"."+e.Wrapper] = e
		if e.Desc != nil {
			if prev := tabS[e.Desc.ServiceName]; prev != nil {
				r.Violation("C12/registry-of-routers/duplicate-service/"+e.Desc.ServiceName, prev.ID()+" and "+e.ID()+" both register "+e.Desc.ServiceName, nil)
			}
			tabS[e.Desc.ServiceName] = e
		}
	}
	seenR, seenW := map[string]bool{}, map[string]bool{}
	for _, f := range routers {
		k := f.pkg + "." + f.name
		seenR[k] = true
		r.Eval(1)
		r.Count("discovered-router-files", 1)
		if tabR[k] == nil {
			r.Violation("C12/unrouted-or-uncovered/"+k, "router "+k+" in "+f.file+" has no row in the monitor's table, so none of its methods is exercised", f.file)
		} else {
			r.Distinct("discovered:" + k)
		}
	}
	for _, f := range wrappers {
		k := f.pkg + "." + f.name
		seenW[k] = true
		r.Eval(1)
		r.Count("discovered-wrapper-files", 1)
		if tabW[k] == nil {
			r.Violation("C12/unrouted-or-uncovered/"+k, "wrapper "+k+" in "+f.file+" has no row in the monitor's table", f.file)
		} else {
			r.Distinct("discovered:" + k)
		}
	}
	// table rows whose file vanished cannot compile, but a renamed constructor in another file would: report both ways
	var gone []string
	for k := range tabR {
		if !seenR[k] {
			gone = append(gone, k)
		}
	}
	for k := range tabW {
		if !seenW[k] {
			gone = append(gone, k)
		}
	}
	sort.Strings(gone)
	for _, k := range gone {
		r.Violation("C12/unrouted-or-uncovered/"+k+"/not-in-generated-file", k+" is compiled into the monitor but is not declared by any *_router.pb.go / *_wrap.pb.go of the tree", nil)
	}

	// every trait service of the linked-in descriptors has a router (and, through the same row, a wrapper)
	for _, fd := range traitServiceFiles() {
		for i := 0; i < fd.Services().Len(); i++ {
			sd := fd.Services().Get(i)
			r.Eval(1)
			r.Count("trait-services-in-descriptors", 1)
			e := tabS[string(sd.FullName())]
			if e == nil {
				r.Violation("C12/unrouted/"+string(sd.FullName()), "service "+string(sd.FullName())+" ("+fd.Path()+") has no generated router/wrapper in the table", nil)
				continue
			}
			r.Distinct("service:" + string(sd.FullName()))
			for j := 0; j < sd.Methods().Len(); j++ {
				md := sd.Methods().Get(j)
				r.Count("trait-methods-in-descriptors", 1)
				if md.IsStreamingClient() {
					r.Count("client-streaming-methods", 1)
					r.Violation("C12/unrouted/"+string(sd.FullName())+"/client-streaming/"+string(md.Name()), "the router template has no client-streaming form", nil)
				}
			}
		}
	}
}
