package main

import (
	"bytes"
	"fmt"
	"go/ast"
	"go/parser"
	"go/printer"
	"go/token"
	"os"
	"os/exec"
	"path/filepath"
	"sort"
	"strconv"
	"strings"

	"google.golang.org/protobuf/proto"
	"google.golang.org/protobuf/reflect/protodesc"
	"google.golang.org/protobuf/reflect/protoreflect"
	"google.golang.org/protobuf/reflect/protoregistry"
	"google.golang.org/protobuf/types/descriptorpb"
	"google.golang.org/protobuf/types/pluginpb"

	"github.com/smart-core-os/sc-golang/internal/verif/vk"
)

const (
	scAPITraitsGoPath = "github.com/smart-core-os/sc-api/go/traits"
	repoTraitGoPrefix = "github.com/smart-core-os/sc-golang/pkg/trait/"
)

func srcRoot() string {
	if s := os.Getenv("VERIF_SRC"); s != "" {
		return s
	}
	return "./src"
}

// goPackageOf returns the Go import path declared by a proto file ("" if none).
func goPackageOf(fd protoreflect.FileDescriptor) string {
	opts, _ := fd.Options().(*descriptorpb.FileOptions)
	p := opts.GetGoPackage()
	if i := strings.IndexByte(p, ';'); i >= 0 {
		p = p[:i]
	}
	return p
}

// traitServiceFiles lists the linked-in proto files that define trait services: every file of the sc-api traits
// package and every file of the repository's own pkg/trait tree that declares at least one service.
func traitServiceFiles() []protoreflect.FileDescriptor {
	var out []protoreflect.FileDescriptor
	protoregistry.GlobalFiles.RangeFiles(func(fd protoreflect.FileDescriptor) bool {
		if fd.Services().Len() == 0 {
			return true
		}
		gp := goPackageOf(fd)
		if gp == scAPITraitsGoPath || strings.HasPrefix(gp, repoTraitGoPrefix) {
			out = append(out, fd)
		}
		return true
	})
	sort.Slice(out, func(i, j int) bool { return out[i].Path() < out[j].Path() })
	return out
}

// codeGenRequest assembles what protoc would hand to a plugin for the given files, from the descriptors linked into
// this binary: every file of the import closure, dependencies first.
func codeGenRequest(files []protoreflect.FileDescriptor) *pluginpb.CodeGeneratorRequest {
	req := &pluginpb.CodeGeneratorRequest{}
	done := map[string]bool{}
	var visit func(fd protoreflect.FileDescriptor)
	visit = func(fd protoreflect.FileDescriptor) {
		if done[fd.Path()] {
			return
		}
		done[fd.Path()] = true
		imps := fd.Imports()
		for i := 0; i < imps.Len(); i++ {
			visit(imps.Get(i).FileDescriptor)
		}
		req.ProtoFile = append(req.ProtoFile, protodesc.ToFileDescriptorProto(fd))
	}
	for _, fd := range files {
		visit(fd)
		req.FileToGenerate = append(req.FileToGenerate, fd.Path())
	}
	return req
}

// runPlugin builds cmd/protoc-gen-<which> of the scratch tree and runs it on req.
func runPlugin(which string, req *pluginpb.CodeGeneratorRequest) (*pluginpb.CodeGeneratorResponse, string) {
	src, err := filepath.Abs(srcRoot())
	if err != nil {
		return nil, err.Error()
	}
	tmp, err := os.MkdirTemp("", "c12-plugin-")
	if err != nil {
		return nil, err.Error()
	}
	defer os.RemoveAll(tmp)
	bin := filepath.Join(tmp, "protoc-gen-"+which)
	build := exec.Command("go", "build", "-trimpath", "-o", bin, "./cmd/protoc-gen-"+which)
	build.Dir = src
	build.Env = append(os.Environ(), "GOFLAGS=-mod=mod", "GOPROXY=off", "GOSUMDB=off", "GOTOOLCHAIN=local")
	if out, err := build.CombinedOutput(); err != nil {
		return nil, "go build ./cmd/protoc-gen-" + which + ": " + err.Error() + "\n" + string(out)
	}
	in, err := proto.Marshal(req)
	if err != nil {
		return nil, err.Error()
	}
	run := exec.Command(bin)
	run.Stdin = bytes.NewReader(in)
	var stdout, stderr bytes.Buffer
	run.Stdout, run.Stderr = &stdout, &stderr
	if err := run.Run(); err != nil {
		return nil, "running protoc-gen-" + which + ": " + err.Error() + "\n" + stderr.String()
	}
	resp := &pluginpb.CodeGeneratorResponse{}
	if err := proto.Unmarshal(stdout.Bytes(), resp); err != nil {
		return nil, "decoding the plugin response: " + err.Error()
	}
	return resp, ""
}

// genFile is the normal form of one generated Go file: what matters for "is this what the generator produces".
type genFile struct {
	path    string // as named by the generator / relative to the source root
	pkg     string
	typ     string // the Router / Wrapper struct declared by the file
	header  string // first comment line
	imports map[string]bool
	decls   map[string]declForm
	order   []string
	raw     string
}

type declForm struct {
	full   string // go/printer form including comments
	code   string // go/printer form without comments
	isFunc bool
}

func normalise(path string, src []byte, suffix string) (*genFile, error) {
	fset := token.NewFileSet()
	f, err := parser.ParseFile(fset, path, src, parser.ParseComments)
	if err != nil {
		return nil, err
	}
	g := &genFile{path: path, pkg: f.Name.Name, imports: map[string]bool{}, decls: map[string]declForm{}, raw: string(src)}
	if len(f.Comments) > 0 && f.Comments[0].Pos() < f.Package {
		g.header = strings.TrimSpace(f.Comments[0].Text())
	}
	for _, im := range f.Imports {
		p, _ := strconv.Unquote(im.Path.Value)
		g.imports[p] = true
	}
	render := func(n ast.Node, comments bool) string {
		var sb strings.Builder
		cfg := printer.Config{Mode: printer.UseSpaces | printer.TabIndent, Tabwidth: 8}
		var err error
		if comments {
			err = cfg.Fprint(&sb, fset, &printer.CommentedNode{Node: n, Comments: f.Comments})
		} else {
			err = cfg.Fprint(&sb, fset, n)
		}
		if err != nil {
			return "<unprintable: " + err.Error() + ">"
		}
		return sb.String()
	}
	add := func(name string, d ast.Decl, isFunc bool) {
		for g.decls[name].full != "" {
			name += "'"
		}
		full := render(d, true)
		// the comment-free form: drop doc comments, print the bare node
		var code string
		switch x := d.(type) {
		case *ast.FuncDecl:
			cp := *x
			cp.Doc = nil
			code = render(&cp, false)
		case *ast.GenDecl:
			cp := *x
			cp.Doc = nil
			code = render(&cp, false)
		}
		g.decls[name] = declForm{full: full, code: code, isFunc: isFunc}
		g.order = append(g.order, name)
	}
	for _, d := range f.Decls {
		switch x := d.(type) {
		case *ast.FuncDecl:
			add(x.Name.Name, x, true)
		case *ast.GenDecl:
			if x.Tok == token.IMPORT {
				continue
			}
			var names []string
			for _, sp := range x.Specs {
				switch s := sp.(type) {
				case *ast.TypeSpec:
					names = append(names, "type "+s.Name.Name)
					if _, ok := s.Type.(*ast.StructType); ok && strings.HasSuffix(s.Name.Name, suffix) && g.typ == "" {
						g.typ = s.Name.Name
					}
				case *ast.ValueSpec:
					for _, n := range s.Names {
						names = append(names, strings.ToLower(x.Tok.String())+" "+n.Name)
					}
				}
			}
			add(strings.Join(names, ","), x, false)
		}
	}
	if g.typ == "" {
		return g, fmt.Errorf("no struct type named *%s in %s", suffix, path)
	}
	return g, nil
}

// regen re-runs one generator ("router" or "wrapper") on the linked-in trait descriptors and compares its output
// with the checked-in files of the scratch tree.
func regen(r *vk.Run, which string) {
	suffix, fileSuffix := "Router", "_router.pb.go"
	if which == "wrapper" {
		suffix, fileSuffix = "Wrapper", "_wrap.pb.go"
	}
	files := traitServiceFiles()
	nServices := 0
	for _, fd := range files {
		nServices += fd.Services().Len()
	}
	r.Count("regen-proto-files-with-services", len(files))
	resp, why := runPlugin(which, codeGenRequest(files))
	if why != "" {
		r.Inconclusive("regen/"+which+"/cannot-run-generator", why)
		return
	}
	if resp.Error != nil {
		r.Violation("C12/regen/"+which+"/generator-error", "protoc-gen-"+which+" reports: "+resp.GetError(), nil)
		return
	}
	r.Count("regen-"+which+"-files-generated", len(resp.File))
	if len(resp.File) != nServices {
		r.Violation("C12/regen/"+which+"/file-count", fmt.Sprintf("protoc-gen-%s produced %d files for %d services", which, len(resp.File), nServices), nil)
	}

	// the checked-in files
	type key struct{ pkg, typ string }
	have := map[key]*genFile{}
	root := srcRoot()
	var paths []string
	_ = filepath.WalkDir(root, func(p string, d os.DirEntry, err error) error {
		if err != nil {
			return nil
		}
		if d.IsDir() {
			if rel, _ := filepath.Rel(root, p); rel == filepath.Join("internal", "verif") || d.Name() == ".git" {
				return filepath.SkipDir
			}
			return nil
		}
		if strings.HasSuffix(p, fileSuffix) {
			paths = append(paths, p)
		}
		return nil
	})
	sort.Strings(paths)
	for _, p := range paths {
		b, err := os.ReadFile(p)
		if err != nil {
			r.Inconclusive("regen/"+which+"/unreadable", p+": "+err.Error())
			continue
		}
		rel, _ := filepath.Rel(root, p)
		g, err := normalise(filepath.ToSlash(rel), b, suffix)
		if err != nil {
			r.Violation("C12/regen/"+filepath.Base(filepath.Dir(rel))+"/"+filepath.Base(rel)+"/unparsable", err.Error(), rel)
			continue
		}
		k := key{filepath.ToSlash(filepath.Dir(rel)), g.typ}
		if old, dup := have[k]; dup {
			r.Violation("C12/regen/"+g.pkg+"/"+g.typ+"/duplicate-file", old.path+" and "+g.path+" both declare "+g.typ, nil)
			continue
		}
		have[k] = g
	}
	r.Count("regen-"+which+"-files-checked-in", len(have))

	matched := map[key]bool{}
	for _, gf := range resp.File {
		if gf.GetInsertionPoint() != "" {
			r.Violation("C12/regen/"+which+"/insertion-point", gf.GetName(), nil)
			continue
		}
		g, err := normalise(gf.GetName(), []byte(gf.GetContent()), suffix)
		if err != nil {
			r.Violation("C12/regen/"+which+"/generated-unparsable", gf.GetName()+": "+err.Error(), nil)
			continue
		}
		k := key{filepath.ToSlash(filepath.Dir(gf.GetName())), g.typ}
		base := "C12/regen/" + g.pkg + "/" + g.typ
		r.Eval(1)
		r.Count("regen-"+which+"-files-compared", 1)
		h, ok := have[k]
		if !ok {
			r.Violation(base+"/missing-file", "the generator produces "+gf.GetName()+" (type "+g.typ+") but no checked-in file in "+k.pkg+" declares that type", gf.GetName())
			continue
		}
		matched[k] = true
		r.Distinct("regen:" + which + ":" + g.path)
		if h.raw == g.raw {
			r.Count("regen-"+which+"-byte-identical", 1)
		}
		if h.path != g.path {
			r.Note("regen: %s is generated as %s (file name differs, content compared by type)", h.path, g.path)
			r.Count("regen-file-renamed", 1)
		}
		if h.pkg != g.pkg {
			r.Violation(base+"/package-differs", fmt.Sprintf("checked-in package %s, generated %s", h.pkg, g.pkg), g.path)
		}
		if h.header != g.header {
			r.Violation(base+"/header-differs", fmt.Sprintf("checked-in %q, generated %q", h.header, g.header), g.path)
		}
		if imp := diffSets(h.imports, g.imports); imp != "" {
			r.Note("regen: import set of %s differs from the generated file: %s", h.path, imp)
			r.Count("regen-import-set-differs", 1)
		} else if h.raw != g.raw && sameDecls(h, g) {
			r.Count("regen-import-block-regrouped-only", 1)
			if r.WantSample("regen-regrouped") {
				r.Sample("regen-regrouped", map[string]any{"file": h.path, "generated-as": g.path, "difference": "import block layout only"})
			}
		}
		for _, name := range g.order {
			gd := g.decls[name]
			hd, ok := h.decls[name]
			r.Count("regen-decls-compared", 1)
			switch {
			case !ok && gd.isFunc:
				r.Violation(base+"/missing-method/"+name, "checked-in "+h.path+" lacks what the generator produces:\n"+gd.full, g.path)
			case !ok:
				r.Violation(base+"/missing-decl/"+name, "checked-in "+h.path+" lacks what the generator produces:\n"+gd.full, g.path)
			case hd.full == gd.full:
			case hd.code == gd.code:
				r.Violation(base+"/comment-differs/"+name, "checked-in:\n"+hd.full+"\ngenerated:\n"+gd.full, g.path)
			default:
				r.Violation(base+"/body-differs/"+name, "checked-in:\n"+hd.full+"\ngenerated:\n"+gd.full, g.path)
			}
		}
		for _, name := range h.order {
			if _, ok := g.decls[name]; !ok {
				r.Violation(base+"/extra/"+name, "checked-in "+h.path+" declares what the generator does not produce:\n"+h.decls[name].full, g.path)
			}
		}
		if r.WantSample("regen-" + which) {
			r.Sample("regen-"+which, map[string]any{"generated": g.path, "checked-in": h.path, "decls": g.order, "byte-identical": h.raw == g.raw})
		}
	}
	for k, h := range have {
		if !matched[k] {
			r.Violation("C12/regen/"+h.pkg+"/"+h.typ+"/orphan-file", h.path+" is checked in but the generator produces no "+h.typ+" for "+k.pkg+" from the current descriptors", h.path)
		}
	}
}

func sameDecls(a, b *genFile) bool {
	if len(a.decls) != len(b.decls) {
		return false
	}
	for n, d := range a.decls {
		if b.decls[n].full != d.full {
			return false
		}
	}
	return a.pkg == b.pkg && a.header == b.header
}

func diffSets(have, want map[string]bool) string {
	var out []string
	for p := range want {
		if !have[p] {
			out = append(out, "-"+p)
		}
	}
	for p := range have {
		if !want[p] {
			out = append(out, "+"+p)
		}
	}
	sort.Strings(out)
	return strings.Join(out, " ")
}
