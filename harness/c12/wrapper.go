package main

import (
	"context"
	"fmt"

	"google.golang.org/grpc/codes"
	"google.golang.org/grpc/status"
	"google.golang.org/protobuf/proto"

	"github.com/smart-core-os/sc-golang/internal/verif/vk"
)

// wrapperCase checks the generated wrapper of e as far as C12 is concerned: it wraps the service's server type (the
// router is one), presents the matching client type, hands back what it wrapped and describes the right service; a
// unary request sent through router -> wrapper -> router still reaches the client registered under its name.
// (What the wrapped connection does with streams, headers and cancellation is C13's subject.)
func wrapperCase(r *vk.Run, e *entry, rng *vk.Rand) {
	base := "C12/wrapper/" + e.Pkg + "." + e.Wrapper
	inner := newWorld(e, false, false, rng)
	r.Eval(1)
	r.Count("wrapper-cases", 1)
	var w wrapperAPI
	var client any
	var ok bool
	if p, what := vk.Recover(func() { w, client, ok = e.Wrap(inner.rt) }); p {
		r.Violation(base+"/panic", what, nil)
		return
	}
	if !ok {
		r.Violation(base+"/server-type", "the router of "+e.ID()+" is not accepted by the wrapper constructor", nil)
		return
	}
	if client == nil {
		r.Violation(base+"/client-type", "the wrapper does not implement the service's client interface", nil)
		return
	}
	if w.Unwrap() != any(inner.rt) {
		r.Violation(base+"/unwrap", "Unwrap does not return the wrapped server", nil)
	}
	conn, desc := w.UnwrapService()
	if conn == nil || desc.ServiceName != e.Desc.ServiceName {
		r.Violation(base+"/service-desc", fmt.Sprintf("UnwrapService returns conn=%v service %q, router registers %q", conn != nil, desc.ServiceName, e.Desc.ServiceName), nil)
	}
	outer := e.New()
	if !outer.HoldsType(client) {
		r.Violation(base+"/client-type", "the router does not accept the wrapper as a client", nil)
		return
	}
	r.Distinct("wrapper:" + e.ID())
	// route one unary request per unary method through outer -> wrapper -> inner -> fake
	const n = "dev/1"
	outer.Add(n, client)
	inner.add(n, true)
	inner.add("other", false)
	target := inner.reg[n]
	for i := range e.Methods {
		m := &e.Methods[i]
		if m.Streaming {
			continue
		}
		req := vk.GenMessage(rng, m.In.New().Interface(), genOpts)
		setName(req, n)
		s := &script{callerSendFailAt: -1, class: "unary/ok", resp: vk.GenMessage(rng, m.Out.New().Interface(), genOpts)}
		if rng.Chance(1, 3) {
			s.resp, s.err = nil, status.Error(codes.Code(rng.Range(1, 16)), "scripted")
		}
		// the inner router alone must forward this method, otherwise the round trip says nothing about the wrapper
		// (that defect is reported by the forward part under its own key)
		inner.log.reset(s)
		drive(inner.rt, m, context.Background(), req, s, nil)
		if direct := inner.log.snapshot(); len(direct) != 1 || direct[0].conn != target {
			inner.log.reset(nil)
			r.Count("wrapper-route-skipped-router-does-not-forward", 1)
			continue
		}
		inner.log.reset(s)
		o := drive(outer, m, context.Background(), req, s, nil)
		calls := inner.log.snapshot()
		inner.log.reset(nil)
		r.Eval(1)
		r.Count("wrapper-unary-requests", 1)
		key := base + "/route/" + m.Name
		switch {
		case o.panicked != "":
			r.Violation(key, "panic: "+o.panicked, nil)
		case len(calls) != 1 || calls[0].conn != target || calls[0].method != m.Full || !proto.Equal(calls[0].req, req):
			r.Violation(key, fmt.Sprintf("request %s for %q: %d calls reached the inner router's clients (want exactly one on %s); returned %s", vk.JSON(req), n, len(calls), target.label, errString(o.err)), nil)
		case s.err != nil && status.Code(o.err) != status.Code(s.err):
			r.Violation(key, "scripted "+errString(s.err)+", got "+errString(o.err), nil)
		case s.err == nil && (o.err != nil || !proto.Equal(o.resp, s.resp)):
			r.Violation(key, "scripted response "+vk.JSON(s.resp)+", got "+vk.JSON(o.resp)+" "+errString(o.err), nil)
		}
	}
}
