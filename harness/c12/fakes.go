package main

import (
	"context"
	"errors"
	"fmt"
	"io"
	"sort"
	"strings"
	"sync"

	"google.golang.org/grpc"
	"google.golang.org/grpc/codes"
	"google.golang.org/grpc/metadata"
	"google.golang.org/grpc/status"
	"google.golang.org/protobuf/proto"
)

// script is what the fake connection answers to the next call, and how the caller's stream behaves.
type script struct {
	class string // discrete description used in distinct descriptors and samples

	// unary
	resp proto.Message
	err  error

	// server streaming (child side)
	newStreamErr, sendErr, closeSendErr, headerErr error
	header, trailer                                metadata.MD
	msgs                                           []proto.Message
	endErr                                         error // nil = io.EOF after the last message

	// server streaming (caller side)
	callerHeaderErr  error
	callerSendFailAt int // index of the Send that fails; -1 = never
	callerSendErr    error
}

// callRec is one call observed by a fake connection.
type callRec struct {
	conn     *fakeConn
	method   string
	stream   bool
	req      proto.Message // clone of the request as the connection saw it (nil when none was sent)
	ctx      context.Context
	sendMsgs int
	trace    []string
}

// connLog collects the calls of all fake connections of one scenario.
type connLog struct {
	mu     sync.Mutex
	calls  []*callRec
	script *script
}

func (l *connLog) reset(s *script) {
	l.mu.Lock()
	l.calls = nil
	l.script = s
	l.mu.Unlock()
}

func (l *connLog) snapshot() []*callRec {
	l.mu.Lock()
	defer l.mu.Unlock()
	return append([]*callRec(nil), l.calls...)
}

// fakeConn is a recording grpc.ClientConnInterface. label says how the client built on it reached the router.
type fakeConn struct {
	label string
	log   *connLog
}

func (c *fakeConn) String() string { return c.label }

var errNoScript = status.Error(codes.Internal, "c12 harness: call without a script")

func (c *fakeConn) Invoke(ctx context.Context, method string, args any, reply any, _ ...grpc.CallOption) error {
	rec := &callRec{conn: c, method: method, ctx: ctx, sendMsgs: 1, trace: []string{"Invoke"}}
	if m, ok := args.(proto.Message); ok {
		rec.req = proto.Clone(m)
	}
	c.log.mu.Lock()
	c.log.calls = append(c.log.calls, rec)
	s := c.log.script
	c.log.mu.Unlock()
	if s == nil {
		return errNoScript
	}
	if s.err != nil {
		return s.err
	}
	if s.resp != nil {
		proto.Merge(reply.(proto.Message), s.resp)
	}
	return nil
}

func (c *fakeConn) NewStream(ctx context.Context, _ *grpc.StreamDesc, method string, _ ...grpc.CallOption) (grpc.ClientStream, error) {
	rec := &callRec{conn: c, method: method, stream: true, ctx: ctx, trace: []string{"NewStream"}}
	c.log.mu.Lock()
	c.log.calls = append(c.log.calls, rec)
	s := c.log.script
	c.log.mu.Unlock()
	if s == nil {
		return nil, errNoScript
	}
	if s.newStreamErr != nil {
		return nil, s.newStreamErr
	}
	return &fakeClientStream{rec: rec, log: c.log, s: s, ctx: ctx}, nil
}

type fakeClientStream struct {
	rec  *callRec
	log  *connLog
	s    *script
	ctx  context.Context
	next int
	done bool
}

func (f *fakeClientStream) tr(what string) {
	f.log.mu.Lock()
	f.rec.trace = append(f.rec.trace, what)
	f.log.mu.Unlock()
}

func (f *fakeClientStream) Header() (metadata.MD, error) {
	f.tr("Header")
	if f.s.headerErr != nil {
		return nil, f.s.headerErr
	}
	return f.s.header.Copy(), nil
}

func (f *fakeClientStream) Trailer() metadata.MD {
	f.tr("Trailer")
	if !f.done {
		// gRPC only defines Trailer after the stream has ended
		return nil
	}
	return f.s.trailer.Copy()
}

func (f *fakeClientStream) CloseSend() error {
	f.tr("CloseSend")
	return f.s.closeSendErr
}

func (f *fakeClientStream) Context() context.Context { return f.ctx }

func (f *fakeClientStream) SendMsg(m any) error {
	f.log.mu.Lock()
	f.rec.trace = append(f.rec.trace, "SendMsg")
	f.rec.sendMsgs++
	if pm, ok := m.(proto.Message); ok && f.rec.req == nil {
		f.rec.req = proto.Clone(pm)
	}
	f.log.mu.Unlock()
	return f.s.sendErr
}

func (f *fakeClientStream) RecvMsg(m any) error {
	f.tr("RecvMsg")
	if f.next < len(f.s.msgs) {
		proto.Merge(m.(proto.Message), f.s.msgs[f.next])
		f.next++
		return nil
	}
	f.done = true
	if f.s.endErr != nil {
		return f.s.endErr
	}
	return io.EOF
}

// fakeServerStream is the caller's side of a server-streaming call: it feeds the request and captures everything
// the router sends back, with the header semantics of a real gRPC server stream (SetHeader accumulates, the header
// goes out with SendHeader or the first message, and cannot change afterwards).
type fakeServerStream struct {
	ctx context.Context
	req proto.Message
	s   *script

	mu         sync.Mutex
	reqPtr     proto.Message // the message the handler decoded the request into
	recvs      int
	pending    metadata.MD
	headerSent bool
	header     metadata.MD
	trailer    metadata.MD
	msgs       []proto.Message
	sends      int
	broken     error
	lateHeader int
}

var errHeaderAlreadySent = status.Error(codes.Internal, "transport: the stream is done or WriteHeader was already called")

func (f *fakeServerStream) SetHeader(md metadata.MD) error {
	f.mu.Lock()
	defer f.mu.Unlock()
	if f.headerSent {
		f.lateHeader++
		return errHeaderAlreadySent
	}
	f.pending = metadata.Join(f.pending, md)
	return nil
}

func (f *fakeServerStream) SendHeader(md metadata.MD) error {
	f.mu.Lock()
	defer f.mu.Unlock()
	if f.headerSent {
		f.lateHeader++
		return errHeaderAlreadySent
	}
	if f.s != nil && f.s.callerHeaderErr != nil {
		f.broken = f.s.callerHeaderErr
		return f.s.callerHeaderErr
	}
	f.pending = metadata.Join(f.pending, md)
	f.headerSent, f.header = true, f.pending
	return nil
}

func (f *fakeServerStream) SetTrailer(md metadata.MD) {
	f.mu.Lock()
	f.trailer = metadata.Join(f.trailer, md)
	f.mu.Unlock()
}

func (f *fakeServerStream) Context() context.Context { return f.ctx }

func (f *fakeServerStream) SendMsg(m any) error {
	f.mu.Lock()
	defer f.mu.Unlock()
	if f.broken != nil {
		return f.broken
	}
	idx := f.sends
	f.sends++
	if f.s != nil && f.s.callerSendFailAt == idx {
		f.broken = f.s.callerSendErr
		return f.broken
	}
	if !f.headerSent {
		f.headerSent, f.header = true, f.pending
	}
	pm, ok := m.(proto.Message)
	if !ok {
		return status.Error(codes.Internal, "not a proto message")
	}
	f.msgs = append(f.msgs, proto.Clone(pm))
	return nil
}

func (f *fakeServerStream) RecvMsg(m any) error {
	f.mu.Lock()
	defer f.mu.Unlock()
	f.recvs++
	if f.recvs > 1 {
		return io.EOF
	}
	pm := m.(proto.Message)
	proto.Merge(pm, f.req)
	f.reqPtr = pm
	return nil
}

// ---- comparison helpers ----

// sameStatus reports whether two errors carry the same status (code, message, details); nil only equals nil.
func sameStatus(a, b error) bool {
	if a == nil || b == nil {
		return a == nil && b == nil
	}
	if errors.Is(a, b) && errors.Is(b, a) {
		return true
	}
	return proto.Equal(status.Convert(a).Proto(), status.Convert(b).Proto())
}

func errString(e error) string {
	if e == nil {
		return "<nil>"
	}
	st := status.Convert(e)
	return fmt.Sprintf("%v %q details=%d (%T)", st.Code(), st.Message(), len(st.Proto().GetDetails()), e)
}

// sameMD compares metadata as a map from key to value list (nil and empty are the same).
func sameMD(a, b metadata.MD) bool {
	if len(a) != len(b) {
		return false
	}
	for k, va := range a {
		vb, ok := b[k]
		if !ok || len(va) != len(vb) {
			return false
		}
		for i := range va {
			if va[i] != vb[i] {
				return false
			}
		}
	}
	return true
}

func mdString(m metadata.MD) string {
	if len(m) == 0 {
		return "{}"
	}
	keys := make([]string, 0, len(m))
	for k := range m {
		keys = append(keys, k)
	}
	sort.Strings(keys)
	var sb strings.Builder
	sb.WriteString("{")
	for i, k := range keys {
		if i > 0 {
			sb.WriteString(", ")
		}
		fmt.Fprintf(&sb, "%s=%q", k, m[k])
	}
	sb.WriteString("}")
	return sb.String()
}
