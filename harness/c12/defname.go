package main

import (
	"context"
	"errors"
	"fmt"
	"io"
	"sort"

	"github.com/smart-core-os/sc-api/go/traits"
	"google.golang.org/grpc"
	"google.golang.org/protobuf/proto"
	"google.golang.org/protobuf/reflect/protoreflect"
	"google.golang.org/protobuf/reflect/protoregistry"

	"github.com/smart-core-os/sc-golang/internal/verif/vk"
	"github.com/smart-core-os/sc-golang/pkg/middleware/name"
)

// nameFieldClass says what kind of "name" field a message type has.
func nameFieldClass(md protoreflect.MessageDescriptor) string {
	fd := md.Fields().ByName("name")
	switch {
	case fd == nil:
		return "no-name-field"
	case fd.IsList() || fd.IsMap():
		return "repeated-name"
	case fd.Kind() != protoreflect.StringKind:
		return "non-string-name"
	case fd.HasPresence():
		return "optional-string-name"
	default:
		return "string-name"
	}
}

// defaultNameTypes lists the message types the interceptor is exercised with: every request type of every routed
// method, plus every other linked-in message type (most have no name field, a few have odd ones).
func defaultNameTypes() (reqs, others []protoreflect.MessageType) {
	seen := map[protoreflect.FullName]bool{}
	for _, e := range table {
		for _, m := range e.Methods {
			if !seen[m.In.Descriptor().FullName()] {
				seen[m.In.Descriptor().FullName()] = true
				reqs = append(reqs, m.In)
			}
		}
	}
	protoregistry.GlobalTypes.RangeMessages(func(mt protoreflect.MessageType) bool {
		if !seen[mt.Descriptor().FullName()] && !mt.Descriptor().IsMapEntry() {
			seen[mt.Descriptor().FullName()] = true
			others = append(others, mt)
		}
		return true
	})
	sort.Slice(reqs, func(i, j int) bool { return reqs[i].Descriptor().FullName() < reqs[j].Descriptor().FullName() })
	sort.Slice(others, func(i, j int) bool { return others[i].Descriptor().FullName() < others[j].Descriptor().FullName() })
	return
}

var errHandler = errors.New("handler error")

// defaultNameCase passes one message of type mt through the unary and the stream interceptor.
func defaultNameCase(r *vk.Run, mt protoreflect.MessageType, rng *vk.Rand, isRequest bool) {
	class := nameFieldClass(mt.Descriptor())
	full := string(mt.Descriptor().FullName())
	def := rng.PickStr("dflt", "default/device", "é", "", "x")
	msg := vk.GenMessage(rng, mt.New().Interface(), genOpts)
	fd := mt.Descriptor().Fields().ByName("name")
	judged := class == "string-name" || class == "optional-string-name" || class == "no-name-field"
	nameIs := "n/a"
	if class == "string-name" || class == "optional-string-name" {
		switch rng.Intn(3) {
		case 0:
			msg.ProtoReflect().Clear(fd)
			nameIs = "empty"
		case 1:
			msg.ProtoReflect().Set(fd, protoreflect.ValueOfString(rng.PickStr("a", "dev/1", " ", "dflt", "É")))
			nameIs = "set"
		default:
			if class == "optional-string-name" {
				msg.ProtoReflect().Set(fd, protoreflect.ValueOfString("")) // present but empty
				nameIs = "present-empty"
			} else {
				msg.ProtoReflect().Clear(fd)
				nameIs = "empty"
			}
		}
	}
	want := proto.Clone(msg)
	if nameIs == "empty" || nameIs == "present-empty" {
		if def != "" || nameIs == "empty" {
			// filling an absent name with "" leaves the message equal to itself either way (proto3 implicit presence);
			// for explicit presence both "absent" and "present but empty" are empty names and both forms are accepted below
			want.ProtoReflect().Set(fd, protoreflect.ValueOfString(def))
			if def == "" && !fd.HasPresence() {
				want.ProtoReflect().Clear(fd)
			}
		}
	}
	acceptable := func(got proto.Message) bool {
		if proto.Equal(got, want) {
			return true
		}
		if fd != nil && def == "" && (nameIs == "empty" || nameIs == "present-empty") {
			// default "" : presence of the (still empty) name is not fixed by the statement
			a, b := proto.Clone(got), proto.Clone(want)
			a.ProtoReflect().Clear(fd)
			b.ProtoReflect().Clear(fd)
			return proto.Equal(a, b)
		}
		return false
	}
	for _, shape := range []string{"unary", "stream"} {
		base := "C12/default-name/" + shape
		in := proto.Clone(msg)
		var seen proto.Message
		var calls int
		var retResp any
		var retErr error
		wantResp, wantErr := any(nil), error(nil)
		if rng.Bool() {
			wantErr = errHandler
		} else {
			wantResp = &struct{ x int }{7}
		}
		ctx := context.WithValue(context.Background(), ctxKey{}, full)
		ctxOK := true
		panicked, what := vk.Recover(func() {
			if shape == "unary" {
				icpt := name.IfAbsentUnaryInterceptor(def)
				retResp, retErr = icpt(ctx, in, &grpc.UnaryServerInfo{FullMethod: "/x/Y"}, func(c context.Context, req any) (any, error) {
					calls++
					ctxOK = c.Value(ctxKey{}) == full
					if pm, ok := req.(proto.Message); ok {
						seen = proto.Clone(pm)
					}
					return wantResp, wantErr
				})
				return
			}
			icpt := name.IfAbsentStreamInterceptor(def)
			ss := &fakeServerStream{ctx: ctx, req: in}
			srvTok := &struct{ y int }{1}
			retErr = icpt(srvTok, ss, &grpc.StreamServerInfo{FullMethod: "/x/Y", IsServerStream: true}, func(srv any, stream grpc.ServerStream) error {
				calls++
				ctxOK = stream.Context().Value(ctxKey{}) == full && srv == any(srvTok)
				dst := mt.New().Interface()
				if err := stream.RecvMsg(dst); err != nil {
					return err
				}
				seen = proto.Clone(dst)
				// a second receive ends the stream: the error must come through and the message stay untouched
				dst2 := mt.New().Interface()
				if err := stream.RecvMsg(dst2); err != io.EOF || proto.Size(dst2) != 0 {
					return fmt.Errorf("second RecvMsg: err=%v size=%d", err, proto.Size(dst2))
				}
				return wantErr
			})
			retResp = wantResp
		})
		r.Eval(1)
		r.Count("default-name-"+shape+"-"+class+"-"+nameIs, 1)
		kind := "other"
		if isRequest {
			kind = "request"
		}
		r.Distinct(fmt.Sprintf("defname:%s:%s:%s:%q:%s", shape, full, nameIs, def, vk.JSON(msg)))
		detail := fmt.Sprintf("%s interceptor with default %q on %s (%s, name %s, %s type): input %s, handler saw %s", shape, def, full, class, nameIs, kind, vk.JSON(msg), vk.JSON(seen))
		if !judged {
			r.Count("default-name-out-of-domain-"+class, 1)
			if panicked {
				r.Count("default-name-out-of-domain-panics", 1)
				r.Note("default-name interceptor panics on %s (%s): %.200s", full, class, what)
			}
			continue
		}
		if panicked {
			r.Violation(base+"/panic/"+class, detail+"\n"+what, full)
			continue
		}
		if calls != 1 {
			r.Violation(base+"/handler-calls/"+class, fmt.Sprintf("%s\nhandler called %d times", detail, calls), full)
			continue
		}
		if retErr != wantErr || (shape == "unary" && retResp != wantResp) || !ctxOK {
			r.Violation(base+"/result-altered/"+class, fmt.Sprintf("%s\nhandler returned (%v, %v), interceptor returned (%v, %v), context/srv passed through: %v", detail, wantResp, wantErr, retResp, retErr, ctxOK), full)
		}
		if seen == nil {
			r.Violation(base+"/no-request/"+class, detail, full)
			continue
		}
		if !acceptable(seen) {
			clause := "other-fields-changed"
			switch {
			case class == "no-name-field":
				clause = "message-without-name-changed"
			case (nameIs == "empty" || nameIs == "present-empty") && seen.ProtoReflect().Get(fd).String() != def:
				clause = "empty-not-filled"
			case nameIs == "set" && seen.ProtoReflect().Get(fd).String() != msg.ProtoReflect().Get(fd).String():
				clause = "non-empty-altered"
			}
			r.Violation(base+"/"+clause+"/"+class, detail+"\nexpected "+vk.JSON(want), full)
		}
	}
}

// defaultNameOverlappingStreams: one interceptor instance serves several streams that are open at the same time.
// Each handler must keep talking to its own caller: the request it receives (name filled in only when empty), what
// it sends, its context. The handlers are stepped in lock-step (A receives, B receives, A sends, B sends, ...), so
// nothing depends on timing.
func defaultNameOverlappingStreams(r *vk.Run) {
	type side struct {
		ss     *fakeServerStream
		name   string
		seen   string
		ctxOK  bool
		step   chan struct{}
		done   chan error
		sent   []string
		ctxKey any
	}
	n := r.Pick(20, 400)
	for i := 0; i < n; i++ {
		if !r.Mine(i) {
			continue
		}
		rng := r.CaseRand("defname-overlap", i)
		icpt := name.IfAbsentStreamInterceptor("the-default")
		k := rng.Range(2, 3)
		sides := make([]*side, k)
		for j := range sides {
			s := &side{step: make(chan struct{}), done: make(chan error, 1)}
			if rng.Bool() {
				s.name = fmt.Sprintf("caller-%d", j)
			}
			type key struct{ j int }
			s.ctxKey = key{j}
			ctx := context.WithValue(context.Background(), s.ctxKey, j)
			s.ss = &fakeServerStream{ctx: ctx, req: &traits.PullOnOffRequest{Name: s.name, UpdatesOnly: j%2 == 0}}
			sides[j] = s
			j := j
			go func() {
				s.done <- icpt(nil, s.ss, &grpc.StreamServerInfo{FullMethod: "/x/Pull", IsServerStream: true}, func(_ any, stream grpc.ServerStream) error {
					<-s.step
					req := &traits.PullOnOffRequest{}
					if err := stream.RecvMsg(req); err != nil {
						return err
					}
					s.seen = req.Name
					s.ctxOK = stream.Context().Value(s.ctxKey) == j
					for m := 0; m < 2; m++ {
						<-s.step
						tag := fmt.Sprintf("from-%d-%d", j, m)
						if err := stream.SendMsg(&traits.PullOnOffResponse{Changes: []*traits.PullOnOffResponse_Change{{Name: tag}}}); err != nil {
							return err
						}
						s.sent = append(s.sent, tag)
					}
					<-s.step
					return nil
				})
			}()
		}
		// lock-step: every handler receives, then every handler sends, twice, then all return
		finished := make([]bool, k)
		for phase := 0; phase < 4; phase++ {
			for j, s := range sides {
				if finished[j] {
					continue
				}
				select {
				case s.step <- struct{}{}:
				case <-s.done: // the handler gave up early (an error it should not have seen)
					finished[j] = true
				}
				vk.Quiesce()
			}
		}
		for j, s := range sides {
			if !finished[j] {
				<-s.done
			}
		}
		r.Eval(1)
		r.Count("default-name-overlapping-stream-scenarios", 1)
		r.Distinct(fmt.Sprintf("defname-overlap|%d|%v", k, sides[0].name != ""))
		for j, s := range sides {
			want := s.name
			if want == "" {
				want = "the-default"
			}
			var got []string
			s.ss.mu.Lock()
			for _, m := range s.ss.msgs {
				if pm, ok := m.(*traits.PullOnOffResponse); ok && len(pm.Changes) > 0 {
					got = append(got, pm.Changes[0].Name)
				}
			}
			s.ss.mu.Unlock()
			switch {
			case s.seen != want:
				r.Violation("C12/default-name/stream/overlapping-streams/request", fmt.Sprintf("case %d: %d streams open at once behind one interceptor; handler %d received name %q, its caller sent %q (default \"the-default\")", i, k, j, s.seen, s.name), map[string]any{"case": i})
			case !s.ctxOK:
				r.Violation("C12/default-name/stream/overlapping-streams/context", fmt.Sprintf("case %d: handler %d saw another call's context", i, j), map[string]any{"case": i})
			case fmt.Sprint(got) != fmt.Sprint(s.sent) || len(got) != 2:
				r.Violation("C12/default-name/stream/overlapping-streams/responses", fmt.Sprintf("case %d: %d streams open at once behind one interceptor; handler %d sent %v, its caller received %v", i, k, j, s.sent, got), map[string]any{"case": i})
			}
		}
	}
	r.Require("default-name-overlapping-stream-scenarios", 5)
}
