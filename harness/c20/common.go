package main

import (
	"fmt"
	"sort"
	"strings"
	"sync"
	"time"

	"github.com/smart-core-os/sc-golang/internal/verif/vk"
)

// fakeClock is the model clock of the meter and publication scenarios. It only moves when the scenario says so.
type fakeClock struct {
	mu sync.Mutex
	t  time.Time
}

func newFakeClock(sec int64) *fakeClock { return &fakeClock{t: time.Unix(sec, 0).UTC()} }

func (c *fakeClock) Now() time.Time {
	c.mu.Lock()
	defer c.mu.Unlock()
	return c.t
}

func (c *fakeClock) Advance(rng *vk.Rand) {
	c.mu.Lock()
	c.t = c.t.Add(time.Duration(rng.Range(1, 5000))*time.Second + time.Duration(rng.Intn(1000))*time.Millisecond)
	if rng.Chance(1, 3) { // whole seconds are ordinary clock readings too (nanos == 0 is the proto3 zero value)
		c.t = c.t.Truncate(time.Second)
	}
	c.mu.Unlock()
}

// tc is the context of one generated case (one model instance and its operation sequence).
type tc struct {
	r      *vk.Run
	model  string // key segment
	stream string
	idx    int
	config string
	ops    []string
	dead   bool // the model can no longer be trusted (panic or specification lost track); the case ends
}

func newCase(r *vk.Run, model, stream string, idx int) *tc {
	return &tc{r: r, model: model, stream: stream, idx: idx}
}

// log records the next operation (before it is executed).
func (t *tc) log(format string, a ...any) {
	t.ops = append(t.ops, fmt.Sprintf(format, a...))
}

func (t *tc) lastOp() string {
	if len(t.ops) == 0 {
		return "<construct>"
	}
	return t.ops[len(t.ops)-1]
}

func (t *tc) replay() any {
	ops := t.ops
	first := 0
	if len(ops) > 60 {
		first = len(ops) - 60
		ops = ops[first:]
	}
	return map[string]any{
		"model": t.model, "stream": t.stream, "case": t.idx, "seed": t.r.Seed,
		"config": t.config, "ops_from": first, "ops": ops,
	}
}

// viol reports a violation under C20/<model>/<rule>/<operation>.
func (t *tc) viol(rule, operation, format string, a ...any) {
	key := "C20/" + t.model + "/" + rule + "/" + operation
	detail := fmt.Sprintf(format, a...) + " | op: " + t.lastOp() + " | config: " + t.config
	t.r.Violation(key, detail, t.replay())
}

// try runs f; a panic is a violation C20/<model>/panic/<operation> and ends the case.
func (t *tc) try(operation string, f func()) bool {
	panicked, what := vk.Recover(f)
	if panicked {
		t.viol("panic", operation, "panic on a well-formed request: %s", what)
		t.dead = true
		return false
	}
	return true
}

func sortedKeys[V any](m map[string]V) []string {
	ks := make([]string, 0, len(m))
	for k := range m {
		ks = append(ks, k)
	}
	sort.Strings(ks)
	return ks
}

func setString(m map[string]bool) string { return "{" + strings.Join(sortedKeys(m), ",") + "}" }

func errStr(err error) string {
	if err == nil {
		return "<nil>"
	}
	return err.Error()
}
