package main

// Meter model. Specification (doc comments of meterpb.NewModel ("make sure start and end time are recorded"),
// RecordReading ("records a new usage value, updating end time to now"), Reset ("resets the meter to zero, updating
// both start and end times to now") and the sc-api comments of MeterReading: usage is "a total recorded between the
// start and end times"), with the model clock replaced by a fake clock:
//
//	NewModel(clock, [initial reading r0])  usage = r0.usage, start = r0.start ?? now, end = r0.end ?? now
//	RecordReading(v)                       usage = v, end = now, start unchanged
//	Reset()                                usage = 0, start = end = now
//	GetMeterReading / MeterApi.GetMeterReading return the current reading

import (
	"context"
	"fmt"
	"time"

	"github.com/smart-core-os/sc-api/go/traits"
	"google.golang.org/protobuf/types/known/timestamppb"

	"github.com/smart-core-os/sc-golang/internal/verif/vk"
	"github.com/smart-core-os/sc-golang/pkg/resource"
	"github.com/smart-core-os/sc-golang/pkg/trait/meterpb"
)

func runMeter(r *vk.Run) {
	n := r.Pick(3000, 300000)
	for i := 0; i < n; i++ {
		if !r.Mine(i) {
			continue
		}
		meterCase(r, i)
	}
}

type refMeter struct {
	usage      float32
	start, end time.Time
}

func (m refMeter) String() string {
	return fmt.Sprintf("{usage %v start %d end %d}", m.usage, m.start.UnixMilli(), m.end.UnixMilli())
}

func tsString(ts *timestamppb.Timestamp) string {
	if ts == nil {
		return "<absent>"
	}
	return fmt.Sprint(ts.AsTime().UnixMilli())
}

// sameTime compares a timestamp with the specification's time; the zero time stands for "absent" (only reachable
// after a reported difference made the specification adopt an absent time).
func sameTime(ts *timestamppb.Timestamp, want time.Time) bool {
	if ts == nil {
		return want.IsZero()
	}
	return !want.IsZero() && ts.AsTime().Equal(want)
}

func meterDiff(got *traits.MeterReading, want refMeter) (rule, detail string) {
	switch {
	case got == nil:
		return "read", "no reading returned"
	case !sameTime(got.StartTime, want.start):
		return "start-time", fmt.Sprintf("start_time %s, want %d", tsString(got.StartTime), want.start.UnixMilli())
	case !sameTime(got.EndTime, want.end):
		return "end-time", fmt.Sprintf("end_time %s, want %d", tsString(got.EndTime), want.end.UnixMilli())
	case got.Usage != want.usage:
		return "usage", fmt.Sprintf("usage %v, want %v", got.Usage, want.usage)
	}
	return "", ""
}

func meterCase(r *vk.Run, idx int) {
	rng := r.CaseRand("meter", idx)
	t := newCase(r, "meter", "meter", idx)
	clk := newFakeClock(int64(rng.Range(1_000_000, 2_000_000)))
	opts := []resource.Option{resource.WithClock(clk)}
	ref := refMeter{start: clk.Now(), end: clk.Now()}
	ctor := "NewModel"
	if rng.Chance(1, 3) {
		init := &traits.MeterReading{Usage: float32(rng.Range(0, 400)) / 4}
		ref.usage = init.Usage
		ctor = "NewModel:WithInitialValue"
		if rng.Bool() {
			ref.start = clk.Now().Add(-time.Duration(rng.Range(1, 100000)) * time.Second)
			init.StartTime = timestamppb.New(ref.start)
		}
		if rng.Bool() {
			ref.end = clk.Now().Add(-time.Duration(rng.Range(0, 1000)) * time.Millisecond)
			init.EndTime = timestamppb.New(ref.end)
		}
		t.config = fmt.Sprintf("WithClock(%d) WithInitialValue(usage %v start %s end %s)", clk.Now().UnixMilli(), init.Usage, tsString(init.StartTime), tsString(init.EndTime))
		opts = append(opts, resource.WithInitialValue(init))
		r.Count("meter/configs-with-initial-reading", 1)
	} else {
		t.config = fmt.Sprintf("WithClock(%d)", clk.Now().UnixMilli())
	}
	var m *meterpb.Model
	if !t.try(ctor, func() { m = meterpb.NewModel(opts...) }) {
		return
	}
	srv := meterpb.NewModelServer(m)
	read := func(viaRPC bool) *traits.MeterReading {
		var e *traits.MeterReading
		var err error
		op := "GetMeterReading"
		if viaRPC {
			op = "Server.GetMeterReading"
		}
		if !t.try(op, func() {
			if viaRPC {
				e, err = srv.GetMeterReading(context.Background(), &traits.GetMeterReadingRequest{Name: "dev"})
			} else {
				e, err = m.GetMeterReading()
			}
		}) {
			return nil
		}
		if err != nil || e == nil {
			t.viol("read", op, "returned %v, %v", e, err)
			return nil
		}
		return e
	}
	adopt := func(got *traits.MeterReading) {
		ref.usage = got.Usage
		ref.start, ref.end = time.Time{}, time.Time{}
		if got.StartTime != nil {
			ref.start = got.StartTime.AsTime()
		}
		if got.EndTime != nil {
			ref.end = got.EndTime.AsTime()
		}
	}
	got := read(false)
	if got == nil {
		return
	}
	r.Eval(1)
	if ctor != "NewModel" && got.EndTime != nil && got.EndTime.AsTime().Equal(clk.Now()) && !ref.end.Equal(clk.Now()) {
		// "make sure start and end time are recorded": whether a configured end time is kept or refreshed to the
		// construction time is left open; both are accepted
		r.Count("meter/open-domain:configured-end-time-refreshed", 1)
		ref.end = clk.Now()
	}
	if rule, detail := meterDiff(got, ref); rule != "" {
		if ctor == "NewModel" {
			t.viol(rule, ctor, "after construction: %s (reading %s)", detail, vk.JSON(got))
		} else {
			t.viol("config-ignored", ctor, "after construction: %s: %s (reading %s)", rule, detail, vk.JSON(got))
		}
		adopt(got)
	}

	steps := rng.Range(15, 45)
	for s := 0; s < steps && !t.dead; s++ {
		clk.Advance(rng)
		pre := ref
		var op string
		var res *traits.MeterReading
		var err error
		switch k := rng.Intn(10); {
		case k < 7:
			v := float32(rng.Range(0, 100000)) / 16
			op = "RecordReading"
			t.log("RecordReading(%v) at %d (state %v)", v, clk.Now().UnixMilli(), pre)
			ref.usage, ref.end = v, clk.Now()
			if !t.try(op, func() { res, err = m.RecordReading(v) }) {
				return
			}
		default:
			op = "Reset"
			t.log("Reset() at %d (state %v)", clk.Now().UnixMilli(), pre)
			ref.usage, ref.start, ref.end = 0, clk.Now(), clk.Now()
			if !t.try(op, func() { res, err = m.Reset() }) {
				return
			}
		}
		r.Eval(1)
		r.Count("meter/ops", 1)
		r.Distinct(fmt.Sprintf("meter|%s|%v|%d", op, pre, clk.Now().UnixMilli()))
		if r.WantSample("meter-" + op) {
			r.Sample("meter-"+op, map[string]any{"before": pre.String(), "op": t.lastOp(), "returned": vk.JSON(res), "error": errStr(err)})
		}
		if err != nil {
			t.viol("unexpected-error", op, "error %v", err)
		}
		stored := read(rng.Chance(1, 3))
		if stored == nil {
			return
		}
		if rule, detail := meterDiff(stored, ref); rule != "" {
			t.viol(rule, op, "%s; before %v, now %d, reading %s", detail, pre, clk.Now().UnixMilli(), vk.JSON(stored))
			adopt(stored)
		} else if err == nil {
			if rule, detail := meterDiff(res, ref); rule != "" {
				t.viol("returned-value", op, "returned reading: %s: %s", rule, detail)
			}
		}
	}
}
