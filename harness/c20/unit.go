package main

// Unit conversion (vendingpb/unitpb). Specification, from the doc comment of Convert and the sc-api comments of
// Consumable.Unit: units belong to a category (METER: length; LITER, CUBIC_METER, CUP: volume; KILOGRAM: mass;
// NO_UNIT / UNIT_UNSPECIFIED / unknown numbers: no category). Convert(v, a, a) = v. Within a category
// Convert(v, a, b) = v * size(a) / size(b) (exact rational arithmetic, compared within a few float64 roundings) and
// converting back gives v again. Across categories, or from/to a unit without category, an error is returned.

import (
	"fmt"
	"math"
	"math/big"

	"github.com/smart-core-os/sc-api/go/traits"

	"github.com/smart-core-os/sc-golang/internal/verif/vk"
	"github.com/smart-core-os/sc-golang/pkg/trait/vendingpb/unitpb"
)

type unit = traits.Consumable_Unit

var allUnits = []unit{
	traits.Consumable_UNIT_UNSPECIFIED, traits.Consumable_NO_UNIT, traits.Consumable_METER, traits.Consumable_LITER,
	traits.Consumable_CUBIC_METER, traits.Consumable_CUP, traits.Consumable_KILOGRAM,
}

var unitCategory = map[unit]string{
	traits.Consumable_METER:       "length",
	traits.Consumable_LITER:       "volume",
	traits.Consumable_CUBIC_METER: "volume",
	traits.Consumable_CUP:         "volume",
	traits.Consumable_KILOGRAM:    "mass",
}

func rat(s string) *big.Rat {
	x, ok := new(big.Rat).SetString(s)
	if !ok {
		panic("bad rational " + s)
	}
	return x
}

// standard cup definitions, in liters
var cupCandidates = []struct {
	name string
	size *big.Rat
}{
	{"US customary", rat("0.2365882365")},
	{"US legal", rat("0.24")},
	{"metric", rat("0.25")},
	{"imperial", rat("0.284130625")},
	{"Japanese", rat("0.2")},
}

// cupSize is the cup the implementation was observed to use (nil until determined, or if none matches).
var cupSize *big.Rat
var cupKnown bool

// unitSize returns the size of one unit in the base unit of its category.
func unitSize(u unit) *big.Rat {
	switch u {
	case traits.Consumable_METER, traits.Consumable_LITER, traits.Consumable_KILOGRAM:
		return big.NewRat(1, 1)
	case traits.Consumable_CUBIC_METER:
		return big.NewRat(1000, 1)
	case traits.Consumable_CUP:
		return cupSize
	}
	return nil
}

// refFactor returns f with Convert(v,a,b) = v*f, or ok=false when the conversion is impossible.
// known=false means the specification cannot say (cup size undetermined).
func refFactor(from, to unit) (f *big.Rat, ok, known bool) {
	if from == to {
		return big.NewRat(1, 1), true, true
	}
	cf, cok := unitCategory[from]
	ct, tok := unitCategory[to]
	if !cok || !tok || cf != ct {
		return nil, false, true
	}
	a, b := unitSize(from), unitSize(to)
	if a == nil || b == nil {
		return nil, true, false
	}
	return new(big.Rat).Quo(a, b), true, true
}

func ratOf(v float64) *big.Rat { return new(big.Rat).SetFloat64(v) }

// closeRat reports |got-want| <= rel*scale (+abs).
func closeRat(got float64, want *big.Rat, rel float64, scale float64, abs float64) bool {
	if math.IsNaN(got) || math.IsInf(got, 0) {
		return false
	}
	d := new(big.Rat).Sub(ratOf(got), want)
	d.Abs(d)
	tol := ratOf(rel*scale + abs)
	return d.Cmp(tol) <= 0
}

func ratFloat(x *big.Rat) float64 { f, _ := x.Float64(); return f }

func determineCup(r *vk.Run) {
	if cupKnown {
		return
	}
	cupKnown = true
	var got float64
	var err error
	if p, what := vk.Recover(func() { got, err = unitpb.Convert(1, traits.Consumable_CUP, traits.Consumable_LITER) }); p {
		r.Violation("C20/unit/panic/Convert", "Convert(1, CUP, LITER) panicked: "+what, nil)
		return
	}
	if err != nil {
		r.Violation("C20/unit/same-category-error/Convert", fmt.Sprintf("Convert(1, CUP, LITER) returned error %v; both are volumes", err), nil)
		return
	}
	for _, c := range cupCandidates {
		if closeRat(got, c.size, 1e-12, ratFloat(c.size), 0) {
			cupSize = c.size
			r.Note("unit: one CUP = %s l (%s cup)", c.size.FloatString(10), c.name)
			return
		}
	}
	r.Violation("C20/unit/cup-size/Convert", fmt.Sprintf("Convert(1, CUP, LITER) = %v is none of the standard cup sizes", got), nil)
}

var unitValueGrid = []float64{0, 1, -1, 2, 0.5, 0.25, 3.75, 10, 100, 1000, 0.001, 1e-9, 12345.678, 1e12, -7.5, 1.0 / 3, 5e-324, 1e300}

func runUnits(r *vk.Run) {
	determineCup(r) // every worker needs it (vending uses the same table)

	// bounded-exhaustive: every ordered pair of units (plus one number outside the enum) x the value grid
	units := append(append([]unit{}, allUnits...), unit(42))
	idx := 0
	for _, a := range units {
		for _, b := range units {
			if _, ok, _ := refFactor(a, b); !ok && r.Mine(idx) {
				r.Count("unit/cross-category-pairs", 1)
			}
			for _, v := range unitValueGrid {
				idx++
				if !r.Mine(idx) {
					continue
				}
				checkConvert(r, v, a, b, "grid")
			}
		}
	}
	// random values
	n := r.Pick(6000, 1200000)
	for i := 0; i < n; i++ {
		if !r.Mine(i) {
			continue
		}
		rng := r.CaseRand("unit", i)
		a, b := units[rng.Intn(len(units))], units[rng.Intn(len(units))]
		var v float64
		switch rng.Intn(4) {
		case 0:
			v = float64(rng.Range(0, 100000)) / 8
		case 1:
			v = rng.Float64() * math.Pow(10, float64(rng.Range(-12, 12)))
		case 2:
			v = -rng.Float64() * 1000
		default:
			v = float64(float32(rng.Float64() * 5000)) // float32-representable, as Convert32 callers have
		}
		checkConvert(r, v, a, b, "random")
	}
}

func unitClass(a, b unit) string {
	if a == b {
		return "same-unit"
	}
	if _, ok, _ := refFactor(a, b); ok {
		return "same-category"
	}
	return "cross-category"
}

func checkConvert(r *vk.Run, v float64, a, b unit, how string) {
	desc := fmt.Sprintf("Convert(%v, %v, %v)", v, a, b)
	replay := map[string]any{"v": v, "from": a.String(), "to": b.String()}
	var got float64
	var err error
	if p, what := vk.Recover(func() { got, err = unitpb.Convert(v, a, b) }); p {
		r.Violation("C20/unit/panic/Convert:"+unitClass(a, b), desc+" panicked: "+what, replay)
		return
	}
	f, ok, known := refFactor(a, b)
	r.Eval(1)
	r.Count("unit/conversions", 1)
	r.Distinct("unit|" + desc)
	if r.WantSample("unit-"+unitClass(a, b)) && how == "random" {
		r.Sample("unit-"+unitClass(a, b), map[string]any{"call": desc, "result": got, "error": errStr(err)})
	}
	if !ok {
		if err == nil {
			r.Violation("C20/unit/cross-category-no-error/Convert", fmt.Sprintf("%s = %v without an error; the units are not in one category", desc, got), replay)
		}
		return
	}
	if err != nil {
		r.Violation("C20/unit/same-category-error/Convert:"+unitClass(a, b), fmt.Sprintf("%s returned error %v", desc, err), replay)
		return
	}
	if !known {
		r.Count("unit/cup-size-unknown-skipped", 1)
		return
	}
	want := new(big.Rat).Mul(ratOf(v), f)
	wantF := ratFloat(want)
	if math.IsInf(wantF, 0) || (wantF != 0 && math.Abs(wantF) < 1e-300) || (wantF == 0 && v != 0) {
		r.Count("unit/out-of-float64-range", 1)
		return
	}
	// v*size(a) and /size(b): two roundings plus the representation error of the two sizes
	if !closeRat(got, want, 8*0x1p-53, math.Abs(wantF), 0) {
		r.Violation("C20/unit/value/Convert:"+unitClass(a, b), fmt.Sprintf("%s = %v, exact arithmetic gives %s", desc, got, want.FloatString(20)), replay)
		return
	}
	// round trip
	var back float64
	if p, what := vk.Recover(func() { back, err = unitpb.Convert(got, b, a) }); p {
		r.Violation("C20/unit/panic/Convert:"+unitClass(a, b), fmt.Sprintf("Convert(%v, %v, %v) panicked: %s", got, b, a, what), replay)
		return
	}
	r.Eval(1)
	if err != nil {
		r.Violation("C20/unit/round-trip/Convert:"+unitClass(a, b), fmt.Sprintf("%s = %v but converting back returned error %v", desc, got, err), replay)
		return
	}
	if !closeRat(back, ratOf(v), 16*0x1p-53, math.Abs(v), 0) {
		r.Violation("C20/unit/round-trip/Convert:"+unitClass(a, b), fmt.Sprintf("%s = %v, converting back gives %v", desc, got, back), replay)
	}
	// Convert32 is Convert on float32
	v32 := float32(v)
	if float64(v32) == v {
		var got32 float32
		if p, what := vk.Recover(func() { got32, err = unitpb.Convert32(v32, a, b) }); p {
			r.Violation("C20/unit/panic/Convert32:"+unitClass(a, b), desc+" (32) panicked: "+what, replay)
			return
		}
		r.Eval(1)
		if err != nil {
			r.Violation("C20/unit/same-category-error/Convert32:"+unitClass(a, b), fmt.Sprintf("Convert32 %s returned error %v", desc, err), replay)
		} else if math.Abs(wantF) < 3e38 && !closeRat(float64(got32), want, 0x1p-23, math.Abs(wantF), 1e-44) {
			r.Violation("C20/unit/value/Convert32:"+unitClass(a, b), fmt.Sprintf("Convert32 %s = %v, exact arithmetic gives %s", desc, got32, want.FloatString(20)), replay)
		}
	}
}
