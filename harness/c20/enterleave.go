package main

// Enter/leave sensor model. Specification (doc comment of enterleavesensorpb.Model.CreateEnterLeaveEvent, ResetTotals,
// WithInitialEnterLeaveEvent):
//
//	state: enter, leave (absent counts as 0), last event
//	CreateEnterLeaveEvent(e) (no interceptor option):
//	   enter' = e.enter_total            if e.enter_total is present and != enter   ("set to the passed values")
//	          = enter + 1                else if e.direction == ENTER
//	          = enter                    otherwise;           leave' likewise with LEAVE
//	   the event (with these totals) becomes the current state returned by GetEnterLeaveEvent
//	ResetTotals / ResetEnterLeaveTotals: enter' = leave' = 0
//	NewModel(): both totals 0;  NewModel(WithInitialEnterLeaveEvent(e)): totals of e

import (
	"context"
	"fmt"

	"github.com/smart-core-os/sc-api/go/traits"
	"google.golang.org/protobuf/proto"

	"github.com/smart-core-os/sc-golang/internal/verif/vk"
	"github.com/smart-core-os/sc-golang/pkg/resource"
	"github.com/smart-core-os/sc-golang/pkg/trait/enterleavesensorpb"
)

func runEnterLeave(r *vk.Run) {
	n := r.Pick(3000, 300000)
	for i := 0; i < n; i++ {
		if !r.Mine(i) {
			continue
		}
		enterLeaveCase(r, i)
	}
}

func optTotal(p *int32) string {
	if p == nil {
		return "-"
	}
	return fmt.Sprint(*p)
}

func enterLeaveCase(r *vk.Run, idx int) {
	rng := r.CaseRand("enterleave", idx)
	t := newCase(r, "enterleave", "enterleave", idx)

	var enter, leave int32
	var opts []resource.Option
	if rng.Chance(1, 2) {
		init := &traits.EnterLeaveEvent{}
		if rng.Bool() {
			enter = int32(rng.Range(0, 50))
			init.EnterTotal = proto.Int32(enter)
		}
		if rng.Bool() {
			leave = int32(rng.Range(0, 50))
			init.LeaveTotal = proto.Int32(leave)
		}
		t.config = fmt.Sprintf("WithInitialEnterLeaveEvent(enter=%s leave=%s)", optTotal(init.EnterTotal), optTotal(init.LeaveTotal))
		opts = append(opts, enterleavesensorpb.WithInitialEnterLeaveEvent(init))
	} else {
		t.config = "NewModel()"
	}
	var m *enterleavesensorpb.Model
	if !t.try("NewModel", func() { m = enterleavesensorpb.NewModel(opts...) }) {
		return
	}
	srv := enterleavesensorpb.NewModelServer(m)
	read := func(viaRPC bool) *traits.EnterLeaveEvent {
		var e *traits.EnterLeaveEvent
		var err error
		op := "GetEnterLeaveEvent"
		if viaRPC {
			op = "Server.GetEnterLeaveEvent"
		}
		if !t.try(op, func() {
			if viaRPC {
				e, err = srv.GetEnterLeaveEvent(context.Background(), &traits.GetEnterLeaveEventRequest{Name: "dev"})
			} else {
				e, err = m.GetEnterLeaveEvent()
			}
		}) {
			return nil
		}
		if err != nil || e == nil {
			t.viol("read", op, "returned %v, %v", e, err)
			return nil
		}
		return e
	}
	e := read(false)
	if e == nil {
		return
	}
	r.Eval(1)
	if e.GetEnterTotal() != enter || e.GetLeaveTotal() != leave {
		t.viol("config-ignored", "WithInitialEnterLeaveEvent", "initial totals enter=%d leave=%d, configured enter=%d leave=%d", e.GetEnterTotal(), e.GetLeaveTotal(), enter, leave)
		return
	}

	dirs := []traits.EnterLeaveEvent_Direction{traits.EnterLeaveEvent_DIRECTION_UNSPECIFIED, traits.EnterLeaveEvent_ENTER, traits.EnterLeaveEvent_LEAVE, traits.EnterLeaveEvent_ENTER, traits.EnterLeaveEvent_LEAVE}
	steps := rng.Range(15, 50)
	for s := 0; s < steps && !t.dead; s++ {
		if rng.Chance(1, 12) {
			viaRPC := rng.Bool()
			op := "ResetTotals"
			if viaRPC {
				op = "Server.ResetEnterLeaveTotals"
			}
			t.log("%s (enter=%d leave=%d)", op, enter, leave)
			var err error
			if !t.try(op, func() {
				if viaRPC {
					_, err = srv.ResetEnterLeaveTotals(context.Background(), &traits.ResetEnterLeaveTotalsRequest{Name: "dev"})
				} else {
					err = m.ResetTotals()
				}
			}) {
				return
			}
			r.Eval(1)
			r.Count("enterleave/resets", 1)
			r.Distinct(fmt.Sprintf("enterleave|reset|%d|%d", enter, leave))
			after := read(rng.Bool())
			if after == nil {
				return
			}
			if err != nil || after.GetEnterTotal() != 0 || after.GetLeaveTotal() != 0 {
				t.viol("reset", op, "after reset enter=%d leave=%d err=%v (before enter=%d leave=%d)", after.GetEnterTotal(), after.GetLeaveTotal(), err, enter, leave)
			}
			enter, leave = after.GetEnterTotal(), after.GetLeaveTotal()
			continue
		}
		ev := &traits.EnterLeaveEvent{Direction: dirs[rng.Intn(len(dirs))]}
		if rng.Chance(1, 3) {
			ev.Occupant = &traits.EnterLeaveEvent_Occupant{Name: fmt.Sprintf("person-%d", rng.Intn(5))}
		}
		supply := func(cur int32) (*int32, string) {
			switch rng.Intn(6) {
			case 0:
				return proto.Int32(cur), "equal"
			case 1:
				v := int32(rng.Range(0, 60))
				if v == cur {
					return proto.Int32(v), "equal"
				}
				return proto.Int32(v), "supplied"
			}
			return nil, "absent"
		}
		var eClass, lClass string
		ev.EnterTotal, eClass = supply(enter)
		ev.LeaveTotal, lClass = supply(leave)
		wantTotal := func(cur int32, val *int32, inc bool) int32 {
			if val != nil && *val != cur {
				return *val
			}
			if inc {
				return cur + 1
			}
			return cur
		}
		wantE := wantTotal(enter, ev.EnterTotal, ev.Direction == traits.EnterLeaveEvent_ENTER)
		wantL := wantTotal(leave, ev.LeaveTotal, ev.Direction == traits.EnterLeaveEvent_LEAVE)
		t.log("CreateEnterLeaveEvent(%v enter_total=%s leave_total=%s) (enter=%d leave=%d)", ev.Direction, optTotal(ev.EnterTotal), optTotal(ev.LeaveTotal), enter, leave)
		dir, occ := ev.Direction, ev.GetOccupant().GetName()
		var err error
		if !t.try("CreateEnterLeaveEvent", func() { err = m.CreateEnterLeaveEvent(ev) }) {
			return
		}
		r.Eval(1)
		r.Count("enterleave/events", 1)
		r.Distinct(fmt.Sprintf("enterleave|event|%d|%d|%v|%s|%s", enter, leave, dir, optTotal(ev.EnterTotal)+eClass, optTotal(ev.LeaveTotal)+lClass))
		after := read(rng.Chance(1, 3))
		if after == nil {
			return
		}
		if r.WantSample("enterleave-" + dir.String()) {
			r.Sample("enterleave-"+dir.String(), map[string]any{"before": fmt.Sprintf("enter=%d leave=%d", enter, leave), "event": t.lastOp(), "after": fmt.Sprintf("enter=%d leave=%d", after.GetEnterTotal(), after.GetLeaveTotal())})
		}
		if err != nil {
			t.viol("unexpected-error", "CreateEnterLeaveEvent", "error %v", err)
		} else {
			if after.GetEnterTotal() != wantE {
				t.viol("enter-total", "CreateEnterLeaveEvent:"+dir.String()+"-"+eClass, "enter total %d, want %d (was %d)", after.GetEnterTotal(), wantE, enter)
			}
			if after.GetLeaveTotal() != wantL {
				t.viol("leave-total", "CreateEnterLeaveEvent:"+dir.String()+"-"+lClass, "leave total %d, want %d (was %d)", after.GetLeaveTotal(), wantL, leave)
			}
			if after.Direction != dir || after.GetOccupant().GetName() != occ {
				t.viol("current-event", "CreateEnterLeaveEvent", "current state is %s, the last event had direction %v occupant %q", vk.JSON(after), dir, occ)
			}
		}
		enter, leave = after.GetEnterTotal(), after.GetLeaveTotal()
	}
}
