package main

// Publication model. Specification (sc-api comments of Publication, Publication.Audience, UpdatePublicationRequest,
// DeletePublicationRequest, AcknowledgePublicationRequest; doc comments of publicationpb write options), with the
// model clock replaced by a fake clock:
//
//	content(p) = (id, body, media_type, audience.name)
//	version    "an opaque string used to distinguish between versions of the same publication": a function of the
//	           content - equal content gives the equal version, different content of one id a different version
//	           (contents whose properties concatenate to the same bytes are only counted, see sharedVersion),
//	           never empty after the server minted it
//	CreatePublication / UpdatePublication (PublicationApi): content as requested (update mask respected), version
//	           minted, publish_time = now and the receipt reset (not ACCEPTED/REJECTED, no time, no reason) whenever
//	           the content changed; request.version, when present, must equal the stored version, otherwise the
//	           request fails and nothing changes; unknown id fails; creating a known id fails
//	DeletePublication: version check as above; unknown id fails unless allow_missing
//	AcknowledgePublication (publication with an audience):
//	           id and version required; version must equal the stored version; otherwise error, no change
//	           not yet acknowledged: receipt = request.receipt, or ACCEPTED "if not present"; reason as given;
//	                                 receipt_time = now; nothing else changes
//	           already ACCEPTED/REJECTED: error, unless allow_acknowledged: then "will not result in an error
//	                                 response status and the publication will not change"
//	NewModel(WithInitialPublication(p...)): exactly those publications

import (
	"bytes"
	"context"
	"fmt"
	"strings"
	"time"

	"github.com/smart-core-os/sc-api/go/traits"
	"google.golang.org/protobuf/types/known/fieldmaskpb"
	"google.golang.org/protobuf/types/known/timestamppb"

	"github.com/smart-core-os/sc-golang/internal/verif/vk"
	"github.com/smart-core-os/sc-golang/pkg/resource"
	"github.com/smart-core-os/sc-golang/pkg/trait/publicationpb"
)

type receipt = traits.Publication_Audience_Receipt

type refPub struct {
	body        []byte
	media       string
	hasAud      bool
	audName     string
	receipt     receipt
	reason      string
	receiptTime time.Time // zero: absent
	version     string
	publish     time.Time // zero: absent
	minted      bool      // version was minted by the server (initial records carry whatever the configuration said)
}

func recClass(r receipt) string {
	switch r {
	case traits.Publication_Audience_ACCEPTED:
		return "accepted"
	case traits.Publication_Audience_REJECTED:
		return "rejected"
	}
	return "none"
}

func (p *refPub) acked() bool { return recClass(p.receipt) != "none" }

func (p *refPub) contentKey(id string) string {
	return fmt.Sprintf("%q|%q|%q|%q", id, p.body, p.media, p.audName)
}

func (p *refPub) String() string {
	aud := "-"
	if p.hasAud {
		aud = fmt.Sprintf("{%q %s %q t=%d}", p.audName, recClass(p.receipt), p.reason, p.receiptTime.UnixMilli())
	}
	return fmt.Sprintf("{body %q media %q aud %s ver %.8s pub %d}", p.body, p.media, aud, p.version, p.publish.UnixMilli())
}

func (p *refPub) clone() *refPub { c := *p; c.body = append([]byte(nil), p.body...); return &c }

func refPubOf(m *traits.Publication) *refPub {
	p := &refPub{body: append([]byte(nil), m.Body...), media: m.MediaType, version: m.Version}
	if m.PublishTime != nil {
		p.publish = m.PublishTime.AsTime()
	}
	if m.Audience != nil {
		p.hasAud = true
		p.audName = m.Audience.Name
		p.receipt = m.Audience.Receipt
		p.reason = m.Audience.ReceiptRejectedReason
		if m.Audience.ReceiptTime != nil {
			p.receiptTime = m.Audience.ReceiptTime.AsTime()
		}
	}
	return p
}

// samePub compares a stored publication with the specification's record; returns the differing aspect.
func samePub(got *traits.Publication, want *refPub) string {
	g := refPubOf(got)
	switch {
	case !bytes.Equal(g.body, want.body):
		return "body"
	case g.media != want.media:
		return "media_type"
	case g.hasAud != want.hasAud && (want.audName != "" || g.audName != "" || want.acked() || g.acked()):
		return "audience"
	case g.audName != want.audName:
		return "audience.name"
	case recClass(g.receipt) != recClass(want.receipt):
		return "audience.receipt"
	case g.reason != want.reason:
		return "audience.receipt_rejected_reason"
	case !g.receiptTime.Equal(want.receiptTime):
		return "audience.receipt_time"
	case g.version != want.version:
		return "version"
	case !g.publish.Equal(want.publish):
		return "publish_time"
	}
	return ""
}

type pubRef map[string]*refPub

func (p pubRef) String() string {
	var sb strings.Builder
	for _, id := range sortedKeys(p) {
		fmt.Fprintf(&sb, "%s=%v ", id, p[id])
	}
	return strings.TrimSpace(sb.String())
}

// version oracle, per process: content -> version and (id, version) -> content
var (
	verByContent = map[string]string{}
	contentByVer = map[string][3]string{} // body, media_type, audience name
)

func (p *refPub) parts() [3]string { return [3]string{string(p.body), p.media, p.audName} }

// contentDiffClass names the content properties in which two contents differ.
func contentDiffClass(a, b [3]string) string {
	var d []string
	for i, n := range []string{"body", "media_type", "audience"} {
		if a[i] != b[i] {
			d = append(d, n)
		}
	}
	return strings.Join(d, "+")
}

func checkVersion(t *tc, op, id string, p *refPub) {
	key := p.contentKey(id)
	if p.version == "" {
		t.viol("version-empty", op, "no version after %s of %s", op, key)
		return
	}
	if prev, ok := verByContent[key]; ok && prev != p.version {
		t.viol("version-unstable", op, "content %s had version %s earlier and has %s now", key, prev, p.version)
	}
	verByContent[key] = p.version
	vkey := id + "\x00" + p.version
	if other, ok := contentByVer[vkey]; ok && other != p.parts() {
		sharedVersion(t, op, id, p.version, other, p.parts())
		return
	}
	contentByVer[vkey] = p.parts()
}

// sharedVersion judges two different contents of one publication that carry the same version. A version that
// ignores a content property (the contents differ and so do their concatenations) is a violation. Contents whose
// properties concatenate to the same byte string (body "ab" + media_type "" vs body "a" + media_type "b") share a
// version only under a hash without field separators; the C20 statement does not fix the hash format, so that case
// is counted as an observation.
func sharedVersion(t *tc, op, id, version string, a, b [3]string) {
	if a[0]+a[1]+a[2] == b[0]+b[1]+b[2] {
		t.r.Count("publication/open-domain:version-shared-by-contents-with-equal-concatenation", 1)
		return
	}
	t.viol("version-not-distinguishing", op+":"+contentDiffClass(a, b), "publication %q: different contents share version %s: (body, media_type, audience) %q and %q", id, version, a, b)
}

var (
	pubIDs    = []string{"p1", "p2", "p3", "cfg"}
	pubBodies = [][]byte{nil, []byte("a"), []byte("ab"), []byte("b"), []byte("{\"k\":1}"), []byte("hello world"), {0, 1, 2}}
	pubMedia  = []string{"", "b", "text/plain", "application/json"}
	pubAud    = []string{"dev1", "dev2", "n"}
)

func runPublication(r *vk.Run) {
	n := r.Pick(4000, 450000)
	for i := 0; i < n; i++ {
		if !r.Mine(i) {
			continue
		}
		publicationCase(r, i)
	}
}

func pubMsg(id string, p *refPub) *traits.Publication {
	m := &traits.Publication{Id: id, Body: append([]byte(nil), p.body...), MediaType: p.media, Version: p.version}
	if !p.publish.IsZero() {
		m.PublishTime = timestamppb.New(p.publish)
	}
	if p.hasAud {
		m.Audience = &traits.Publication_Audience{Name: p.audName, Receipt: p.receipt, ReceiptRejectedReason: p.reason}
		if !p.receiptTime.IsZero() {
			m.Audience.ReceiptTime = timestamppb.New(p.receiptTime)
		}
	}
	return m
}

func publicationCase(r *vk.Run, idx int) {
	rng := r.CaseRand("publication", idx)
	t := newCase(r, "publication", "publication", idx)
	clk := newFakeClock(int64(rng.Range(1_000_000, 2_000_000)))
	ref := pubRef{}
	// generated ids come from the case's PRNG so that a case is a function of (seed, case number) only
	opts := []resource.Option{resource.WithClock(clk), resource.WithRNG(rng.Fork())}
	var initial []*traits.Publication
	for _, id := range pubIDs[:rng.Intn(3)] {
		p := &refPub{body: pubBodies[rng.Intn(len(pubBodies))], media: pubMedia[rng.Intn(len(pubMedia))], version: "v0-" + id,
			publish: clk.Now().Add(-time.Hour)}
		if rng.Chance(2, 3) {
			p.hasAud, p.audName = true, pubAud[rng.Intn(len(pubAud))]
			if rng.Chance(1, 3) {
				p.receipt = traits.Publication_Audience_ACCEPTED
				p.receiptTime = clk.Now().Add(-time.Minute)
			}
		}
		ref[id] = p
		initial = append(initial, pubMsg(id, p))
	}
	if len(initial) > 0 {
		opts = append(opts, publicationpb.WithInitialPublication(initial...))
	}
	t.config = fmt.Sprintf("WithClock(%d) WithInitialPublication(%v)", clk.Now().UnixMilli(), ref)
	var m *publicationpb.Model
	if !t.try("NewModel", func() { m = publicationpb.NewModel(opts...) }) {
		return
	}
	srv := publicationpb.NewModelServer(m)
	ctx := context.Background()
	r.Eval(1)
	if rule, detail := pubCompareAll(t, m, srv, ref, false); rule != "" {
		if !t.dead {
			t.viol("config-ignored", "WithInitialPublication", "%s: %s", rule, detail)
		}
		return
	}

	genAudience := func() *traits.Publication_Audience {
		if rng.Chance(1, 4) {
			return nil
		}
		a := &traits.Publication_Audience{Name: pubAud[rng.Intn(len(pubAud))]}
		if rng.Chance(1, 4) { // a client trying to pre-set output-only receipt fields
			a.Receipt = traits.Publication_Audience_ACCEPTED
			a.ReceiptTime = timestamppb.New(clk.Now())
		}
		return a
	}
	pickVersion := func(cur string) (string, string) {
		switch rng.Intn(4) {
		case 0:
			return "", "no-version"
		case 1:
			return "stale-" + cur, "stale-version"
		}
		return cur, "current-version"
	}
	checkFresh := func(op, id string, stored *refPub, contentChanged bool) {
		// after a content-changing write
		if !contentChanged {
			r.Count("publication/open-domain:write-without-content-change", 1)
			return
		}
		if !stored.publish.Equal(clk.Now()) {
			t.viol("publish-time", op, "publish_time %d after a content change at %d", stored.publish.UnixMilli(), clk.Now().UnixMilli())
		}
		if stored.acked() || !stored.receiptTime.IsZero() || stored.reason != "" {
			t.viol("receipt-not-reset", op, "receipt state after a content change: %s %q t=%d", recClass(stored.receipt), stored.reason, stored.receiptTime.UnixMilli())
		}
	}
	fetch := func(id string) *refPub {
		var got *traits.Publication
		var ok bool
		if !t.try("GetPublication", func() { got, ok = m.GetPublication(id) }) {
			return nil
		}
		if !ok || got == nil {
			return nil
		}
		return refPubOf(got)
	}

	steps := rng.Range(15, 45)
	for s := 0; s < steps && !t.dead; s++ {
		clk.Advance(rng)
		id := pubIDs[rng.Intn(len(pubIDs))]
		cur, known := ref[id]
		pre := ref.String()
		var op string
		switch k := rng.Intn(100); {
		case k < 20: // create
			op = "CreatePublication"
			want := &refPub{body: pubBodies[rng.Intn(len(pubBodies))], media: pubMedia[rng.Intn(len(pubMedia))]}
			aud := genAudience()
			if aud != nil {
				want.hasAud, want.audName = true, aud.Name
			}
			reqID := id
			if rng.Chance(1, 6) {
				reqID = ""
			}
			pub := &traits.Publication{Id: reqID, Body: append([]byte(nil), want.body...), MediaType: want.media, Audience: aud}
			if rng.Chance(1, 4) {
				pub.Version = "client-made-up"
			}
			t.log("rpc CreatePublication(id=%q body=%q media=%q aud=%v)", reqID, want.body, want.media, aud)
			var got *traits.Publication
			var err error
			if !t.try(op, func() {
				got, err = srv.CreatePublication(ctx, &traits.CreatePublicationRequest{Name: "dev", Publication: pub})
			}) {
				return
			}
			r.Eval(1)
			r.Count("publication/ops", 1)
			r.Distinct(fmt.Sprintf("publication|create|%v|%s|%s", known && reqID != "", reqID, want.contentKey(reqID)))
			if reqID != "" && known {
				if err == nil {
					t.viol("duplicate-id-accepted", op, "creating known id %q succeeded", reqID)
					pubResync(t, m, ref)
				}
				break
			}
			if err != nil || got == nil || got.Id == "" || (reqID != "" && got.Id != reqID) {
				t.viol("unexpected-error", op, "create returned %s, %v", vk.JSON(got), err)
				pubResync(t, m, ref)
				break
			}
			if _, clash := ref[got.Id]; clash {
				t.viol("generated-id-not-unique", op, "generated id %q is already in use", got.Id)
				pubResync(t, m, ref)
				break
			}
			stored := fetch(got.Id)
			if stored == nil {
				if !t.dead {
					t.viol("not-stored", op, "created publication %q cannot be read back", got.Id)
				}
				break
			}
			want.version, want.publish = stored.version, stored.publish
			want.receipt, want.reason, want.receiptTime = stored.receipt, stored.reason, stored.receiptTime
			if d := samePub(got, stored); d != "" {
				t.viol("returned-value", op, "response differs from the stored publication in %s", d)
			}
			if d := samePub(pubMsg(got.Id, stored), want); d != "" {
				t.viol("content", op, "stored %s differs from the request in %s", stored, d)
			}
			stored.minted = true
			checkVersion(t, op, got.Id, stored)
			checkFresh(op, got.Id, stored, true)
			ref[got.Id] = stored
		case k < 50: // update
			op = "UpdatePublication"
			if !known && rng.Chance(3, 4) && len(ref) > 0 {
				id = sortedKeys(ref)[rng.Intn(len(ref))]
				cur, known = ref[id], true
			}
			var paths []string
			switch rng.Intn(5) {
			case 0:
				paths = []string{"body"}
			case 1:
				paths = []string{"media_type"}
			case 2:
				paths = []string{"body", "media_type"}
			case 3:
				paths = []string{"audience.name"}
			}
			pub := &traits.Publication{Id: id, Body: pubBodies[rng.Intn(len(pubBodies))], MediaType: pubMedia[rng.Intn(len(pubMedia))], Audience: genAudience()}
			if paths != nil && paths[0] == "audience.name" && pub.Audience == nil {
				pub.Audience = &traits.Publication_Audience{Name: pubAud[rng.Intn(len(pubAud))]}
			}
			curVersion := ""
			if known {
				curVersion = cur.version
			}
			reqVersion, vClass := pickVersion(curVersion)
			op += ":" + vClass
			t.log("rpc UpdatePublication(id=%q body=%q media=%q aud=%v paths=%v version=%q)", id, pub.Body, pub.MediaType, pub.Audience, paths, reqVersion)
			rq := &traits.UpdatePublicationRequest{Name: "dev", Publication: pub, Version: reqVersion}
			if paths != nil {
				rq.UpdateMask = &fieldmaskpb.FieldMask{Paths: paths}
			}
			var got *traits.Publication
			var err error
			if !t.try(op, func() { got, err = srv.UpdatePublication(ctx, rq) }) {
				return
			}
			r.Eval(1)
			r.Count("publication/ops", 1)
			r.Distinct(fmt.Sprintf("publication|update|%v|%v|%s|%v|%s", known, cur, vClass, paths, (&refPub{body: pub.Body, media: pub.MediaType, audName: pub.GetAudience().GetName()}).contentKey(id)))
			if !known {
				if err == nil {
					t.viol("unknown-id-accepted", op, "updating unknown id %q succeeded", id)
					pubResync(t, m, ref)
				}
				break
			}
			if vClass == "stale-version" {
				if err == nil {
					t.viol("precondition-ignored", op, "request.version %q != stored %q but the update succeeded", reqVersion, cur.version)
					pubResync(t, m, ref)
				}
				break // unchanged: checked by pubCompareAll below
			}
			if err != nil || got == nil {
				t.viol("unexpected-error", op, "update returned %s, %v", vk.JSON(got), err)
				pubResync(t, m, ref)
				break
			}
			want := cur.clone()
			has := func(p string) bool {
				for _, x := range paths {
					if x == p {
						return true
					}
				}
				return paths == nil
			}
			if has("body") {
				want.body = append([]byte(nil), pub.Body...)
			}
			if has("media_type") {
				want.media = pub.MediaType
			}
			if paths == nil {
				want.hasAud, want.audName = pub.Audience != nil, pub.GetAudience().GetName()
			} else if has("audience.name") {
				want.hasAud, want.audName = true, pub.Audience.Name
			}
			stored := fetch(id)
			if stored == nil {
				if !t.dead {
					t.viol("not-stored", op, "updated publication %q cannot be read back", id)
					pubResync(t, m, ref)
				}
				break
			}
			changed := want.contentKey(id) != cur.contentKey(id)
			want.version, want.publish = stored.version, stored.publish
			want.receipt, want.reason, want.receiptTime = stored.receipt, stored.reason, stored.receiptTime
			if d := samePub(got, stored); d != "" {
				t.viol("returned-value", op, "response differs from the stored publication in %s", d)
			}
			if d := samePub(pubMsg(id, stored), want); d != "" {
				t.viol("content", op, "stored %s differs from what the request (paths %v) asks for in %s; before: %v", stored, paths, d, cur)
			} else {
				stored.minted = true
				checkVersion(t, "UpdatePublication", id, stored)
				checkFresh(op, id, stored, changed)
				if changed && cur.minted && stored.version == cur.version {
					// also caught by checkVersion when both contents were seen; kept for first-time contents
					sharedVersion(t, "UpdatePublication", id, stored.version, cur.parts(), stored.parts())
				}
			}
			ref[id] = stored
		case k < 85: // acknowledge
			op = "AcknowledgePublication"
			if !known && rng.Chance(4, 5) && len(ref) > 0 {
				id = sortedKeys(ref)[rng.Intn(len(ref))]
				cur, known = ref[id], true
			}
			curVersion := "v"
			if known {
				curVersion = cur.version
			}
			reqVersion, vClass := pickVersion(curVersion)
			if vClass == "current-version" && reqVersion == "" {
				vClass = "no-version"
			}
			rq := &traits.AcknowledgePublicationRequest{Name: "dev", Id: id, Version: reqVersion, AllowAcknowledged: rng.Chance(1, 2)}
			rClass := "receipt-unspecified"
			switch rng.Intn(3) {
			case 0:
				rq.Receipt, rClass = traits.Publication_Audience_ACCEPTED, "accepted"
			case 1:
				rq.Receipt, rClass = traits.Publication_Audience_REJECTED, "rejected"
				rq.ReceiptRejectedReason = []string{"", "checksum", "too large"}[rng.Intn(3)]
			}
			t.log("rpc AcknowledgePublication(id=%q version=%q(%s) receipt=%v reason=%q allow_acknowledged=%v)", id, reqVersion, vClass, rq.Receipt, rq.ReceiptRejectedReason, rq.AllowAcknowledged)
			var got *traits.Publication
			var err error
			if !t.try(op, func() { got, err = srv.AcknowledgePublication(ctx, rq) }) {
				return
			}
			r.Eval(1)
			r.Count("publication/ops", 1)
			r.Count("publication/acknowledges", 1)
			r.Distinct(fmt.Sprintf("publication|ack|%v|%v|%s|%s|%q|%v", known, cur, vClass, rClass, rq.ReceiptRejectedReason, rq.AllowAcknowledged))
			if r.WantSample("publication-ack-" + vClass) {
				r.Sample("publication-ack-"+vClass, map[string]any{"before": fmt.Sprint(cur), "request": t.lastOp(), "response": vk.JSON(got), "error": errStr(err)})
			}
			switch {
			case !known:
				if err == nil {
					t.viol("unknown-id-accepted", op, "acknowledging unknown id %q succeeded", id)
					pubResync(t, m, ref)
				}
			case vClass != "current-version":
				if err == nil {
					t.viol("ack-version-check", op+":"+vClass, "acknowledged with version %q, stored version is %q", reqVersion, cur.version)
					pubResync(t, m, ref)
				}
			case !cur.hasAud:
				r.Count("publication/open-domain:acknowledge-without-audience", 1)
				pubResync(t, m, ref)
			case cur.acked():
				r.Count("publication/acknowledge-again", 1)
				if !rq.AllowAcknowledged {
					if err == nil {
						t.viol("ack-already-acknowledged-accepted", op, "publication was already %s but a second acknowledge (%s) succeeded", recClass(cur.receipt), rClass)
						pubResync(t, m, ref)
					}
					break
				}
				if err != nil {
					t.viol("ack-allow-acknowledged", op, "allow_acknowledged=true on an already %s publication returned error %v (sc-api: will not result in an error)", recClass(cur.receipt), err)
					break
				}
				if got == nil || samePub(got, cur) != "" {
					t.viol("ack-allow-acknowledged", op, "allow_acknowledged=true returned %s, the unchanged publication is %v", vk.JSON(got), cur)
				}
			default: // first acknowledgement
				r.Count("publication/acknowledge-first", 1)
				if err != nil || got == nil {
					t.viol("unexpected-error", op, "first acknowledge of %v returned %s, %v", cur, vk.JSON(got), err)
					pubResync(t, m, ref)
					break
				}
				want := cur.clone()
				want.receipt = rq.Receipt
				if rq.Receipt == traits.Publication_Audience_RECEIPT_UNSPECIFIED {
					want.receipt = traits.Publication_Audience_ACCEPTED // "ACCEPTED is used if not present"
				}
				want.reason = rq.ReceiptRejectedReason
				want.receiptTime = clk.Now()
				stored := fetch(id)
				if stored == nil {
					if !t.dead {
						t.viol("not-stored", op, "acknowledged publication %q cannot be read back", id)
						pubResync(t, m, ref)
					}
					break
				}
				if d := samePub(got, stored); d != "" {
					t.viol("returned-value", op, "response differs from the stored publication in %s", d)
				}
				if d := samePub(pubMsg(id, stored), want); d != "" {
					switch {
					case d == "audience.receipt" && rClass == "receipt-unspecified":
						t.viol("ack-default-receipt", op, "receipt not given: sc-api says ACCEPTED is used, stored receipt is %v", stored.receipt)
					case d == "audience.receipt" || d == "audience.receipt_rejected_reason":
						t.viol("ack-receipt", op+":"+rClass, "stored %s, want %s (%s)", stored, want, d)
					case d == "audience.receipt_time":
						t.viol("ack-receipt-time", op, "receipt_time %d, the clock says %d", stored.receiptTime.UnixMilli(), clk.Now().UnixMilli())
					default:
						t.viol("ack-changed-publication", op, "acknowledging changed %s: stored %s, before %s", d, stored, cur)
					}
				}
				stored.minted = cur.minted
				ref[id] = stored
			}
		case k < 93: // delete
			op = "DeletePublication"
			curVersion := "v"
			if known {
				curVersion = cur.version
			}
			reqVersion, vClass := pickVersion(curVersion)
			allow := rng.Bool()
			t.log("rpc DeletePublication(id=%q version=%q(%s) allow_missing=%v)", id, reqVersion, vClass, allow)
			var err error
			if !t.try(op, func() {
				_, err = srv.DeletePublication(ctx, &traits.DeletePublicationRequest{Name: "dev", Id: id, Version: reqVersion, AllowMissing: allow})
			}) {
				return
			}
			r.Eval(1)
			r.Count("publication/ops", 1)
			r.Distinct(fmt.Sprintf("publication|delete|%v|%s|%v", known, vClass, allow))
			switch {
			case !known && allow && err != nil:
				t.viol("allow-missing", op, "allow_missing=true on unknown id returned %v", err)
			case !known && !allow && err == nil:
				t.viol("unknown-id-accepted", op, "deleting unknown id %q succeeded without allow_missing", id)
			case known && vClass == "stale-version":
				if err == nil {
					t.viol("precondition-ignored", op, "request.version %q != stored %q but the delete succeeded", reqVersion, cur.version)
					pubResync(t, m, ref)
				}
			case known:
				if err != nil {
					t.viol("unexpected-error", op, "delete of known id with %s returned %v", vClass, err)
					pubResync(t, m, ref)
				} else {
					delete(ref, id)
				}
			}
		default: // read through the API
			op = "Server.GetPublication"
			t.log("rpc GetPublication(%q)", id)
			var got *traits.Publication
			var err error
			if !t.try(op, func() { got, err = srv.GetPublication(ctx, &traits.GetPublicationRequest{Name: "dev", Id: id}) }) {
				return
			}
			r.Eval(1)
			r.Count("publication/ops", 1)
			if known != (err == nil) {
				t.viol("read", op, "known=%v but error=%v", known, err)
			} else if known {
				if d := samePub(got, cur); d != "" {
					t.viol("read", op, "GetPublication differs from the specification in %s: %s vs %v", d, vk.JSON(got), cur)
				}
			}
		}
		if t.dead {
			return
		}
		if rule, detail := pubCompareAll(t, m, srv, ref, rng.Chance(1, 5)); rule != "" && !t.dead {
			t.viol(rule, op, "publications after the call: %s (before: %s)", detail, pre)
			pubResync(t, m, ref)
		}
	}
}

func pubCompareAll(t *tc, m *publicationpb.Model, srv *publicationpb.ModelServer, ref pubRef, viaRPC bool) (rule, detail string) {
	var list []*traits.Publication
	if viaRPC {
		var resp *traits.ListPublicationsResponse
		var err error
		if !t.try("Server.ListPublications", func() {
			resp, err = srv.ListPublications(context.Background(), &traits.ListPublicationsRequest{Name: "dev"})
		}) {
			return "panic", "ListPublications panicked"
		}
		if err != nil {
			return "read", fmt.Sprintf("ListPublications: %v", err)
		}
		list = resp.Publications
	} else if !t.try("ListPublications", func() { list = m.ListPublications() }) {
		return "panic", "ListPublications panicked"
	}
	seen := map[string]bool{}
	for _, p := range list {
		want, ok := ref[p.GetId()]
		if !ok || seen[p.GetId()] {
			return "publication-set", fmt.Sprintf("unexpected or repeated publication %q (want %v)", p.GetId(), sortedKeys(ref))
		}
		seen[p.GetId()] = true
		if d := samePub(p, want); d != "" {
			return "changed-unexpectedly", fmt.Sprintf("publication %q differs in %s: stored %v, specification %v", p.GetId(), d, refPubOf(p), want)
		}
	}
	for id := range ref {
		if !seen[id] {
			return "publication-set", fmt.Sprintf("publication %q missing from the list", id)
		}
	}
	return "", ""
}

func pubResync(t *tc, m *publicationpb.Model, ref pubRef) {
	var list []*traits.Publication
	if !t.try("ListPublications", func() { list = m.ListPublications() }) {
		return
	}
	old := map[string]*refPub{}
	for k, v := range ref {
		old[k] = v
		delete(ref, k)
	}
	for _, p := range list {
		np := refPubOf(p)
		if o, ok := old[p.GetId()]; ok {
			np.minted = o.minted
		}
		ref[p.GetId()] = np
	}
}
