package main

// Fan speed model. Specification (doc comments of fanspeedpb.Model.UpdateFanSpeed / DeriveValues / WithPresets and
// the sc-api comments of FanSpeed and UpdateFanSpeedRequest):
//
// After every successful update the stored (preset, preset_index, percentage) is a consistent triple for the
// configured preset list P:
//
//	I1  preset != ""  =>  preset == P[i].Name for some i, preset_index == i, percentage == P[i].Percentage
//	I2  preset == ""  =>  preset_index is not the index of a preset (the code's own convention is -1)
//
// "preset_index is the index in FanSpeedSupport.presets of the currently selected preset", so an index inside the
// list together with an empty preset name (or another preset's percentage) contradicts itself.
// Requests that name exactly one of the three (through an update mask, or a non-empty preset) must take effect:
// the named field has the requested value afterwards. With relative=true the requested value is added to the
// current one. A preset name outside the configured list is rejected and changes nothing.
// Requests without update mask that leave preset empty are ambiguous (proto3 cannot tell "unset" from "cleared");
// for those only I1/I2 are asserted.

import (
	"context"
	"fmt"

	"github.com/smart-core-os/sc-api/go/traits"
	"google.golang.org/protobuf/proto"
	"google.golang.org/protobuf/types/known/fieldmaskpb"

	"github.com/smart-core-os/sc-golang/internal/verif/vk"
	"github.com/smart-core-os/sc-golang/pkg/resource"
	"github.com/smart-core-os/sc-golang/pkg/trait/fanspeedpb"
)

var fanPresetNames = []string{"off", "eco", "low", "med", "high", "turbo", "full", "night"}

func runFanSpeed(r *vk.Run) {
	n := r.Pick(4000, 450000)
	for i := 0; i < n; i++ {
		if !r.Mine(i) {
			continue
		}
		fanCase(r, i)
	}
}

func fanTriple(f *traits.FanSpeed) string {
	return fmt.Sprintf("(%q,%d,%v)", f.GetPreset(), f.GetPresetIndex(), f.GetPercentage())
}

// fanInvariant checks I1/I2 and returns the broken rule.
func fanInvariant(f *traits.FanSpeed, presets []fanspeedpb.Preset) (rule, detail string) {
	if f.Preset != "" {
		at := -1
		for i, p := range presets {
			if p.Name == f.Preset {
				at = i
				break
			}
		}
		switch {
		case at < 0:
			return "unknown-preset-stored", fmt.Sprintf("preset %q is not in the configured list", f.Preset)
		case int(f.PresetIndex) != at:
			return "preset-index-mismatch", fmt.Sprintf("preset %q is at index %d but preset_index = %d", f.Preset, at, f.PresetIndex)
		case f.Percentage != presets[at].Percentage:
			return "preset-percentage-mismatch", fmt.Sprintf("preset %q means %v%% but percentage = %v", f.Preset, presets[at].Percentage, f.Percentage)
		}
		return "", ""
	}
	if f.PresetIndex >= 0 && int(f.PresetIndex) < len(presets) {
		return "unnamed-preset-with-index", fmt.Sprintf("preset is empty but preset_index = %d selects %q (%v%%) while percentage = %v",
			f.PresetIndex, presets[f.PresetIndex].Name, presets[f.PresetIndex].Percentage, f.Percentage)
	}
	return "", ""
}

func fanCase(r *vk.Run, idx int) {
	rng := r.CaseRand("fanspeed", idx)
	t := newCase(r, "fanspeed", "fanspeed", idx)

	// configuration
	presets := fanspeedpb.DefaultPresets
	var opts []resource.Option
	custom := rng.Chance(2, 3)
	var cur *traits.FanSpeed // specification's copy of the stored value
	if custom {
		k := rng.Range(1, 6)
		presets = nil
		names := rng.Perm(len(fanPresetNames))[:k]
		pct := float32(0)
		if rng.Bool() {
			pct = float32(rng.Range(1, 10))
		}
		for j := 0; j < k; j++ {
			presets = append(presets, fanspeedpb.Preset{Name: fanPresetNames[names[j]], Percentage: pct})
			pct += float32(rng.Range(1, 30)) / 2
			if pct > 100 {
				pct = 100 - float32(k-j)/4 // keep ascending and distinct inside [0,100]
			}
		}
		// make sure percentages are strictly ascending
		for j := 1; j < len(presets); j++ {
			if presets[j].Percentage <= presets[j-1].Percentage {
				presets[j].Percentage = presets[j-1].Percentage + 0.25
			}
		}
		if k > 1 && rng.Chance(1, 3) {
			// nothing asks for the list to be ordered by percentage (distinct percentages, any order)
			perm := rng.Perm(k)
			shuffled := make([]fanspeedpb.Preset, k)
			for j := range perm {
				shuffled[j] = presets[perm[j]]
			}
			presets = shuffled
			r.Count("fanspeed/configs-with-presets-not-ascending", 1)
		}
		at := rng.Intn(k)
		cur = &traits.FanSpeed{Preset: presets[at].Name, PresetIndex: int32(at), Percentage: presets[at].Percentage, Direction: traits.FanSpeed_FORWARD}
		opts = append(opts, fanspeedpb.WithPresets(presets...), fanspeedpb.WithInitialFanSpeed(proto.Clone(cur).(*traits.FanSpeed)))
		if rng.Bool() {
			opts[0], opts[1] = opts[1], opts[0]
		}
		r.Count("fanspeed/custom-preset-configs", 1)
	} else {
		cur = &traits.FanSpeed{Preset: "off", PresetIndex: 0, Percentage: 0, Direction: traits.FanSpeed_FORWARD}
	}
	t.config = fmt.Sprintf("presets=%v initial=%s custom=%v", presets, fanTriple(cur), custom)
	var m *fanspeedpb.Model
	if !t.try("NewModel", func() { m = fanspeedpb.NewModel(opts...) }) {
		return
	}
	srv := fanspeedpb.NewModelServer(m)
	var got *traits.FanSpeed
	if !t.try("FanSpeed", func() { got = m.FanSpeed() }) {
		return
	}
	r.Eval(1)
	if got.Preset != cur.Preset || got.PresetIndex != cur.PresetIndex || got.Percentage != cur.Percentage {
		t.viol("config-ignored", "WithInitialFanSpeed", "FanSpeed() = %s, configured %s", fanTriple(got), fanTriple(cur))
		return
	}
	presetIdx := func(name string) int {
		for i, p := range presets {
			if p.Name == name {
				return i
			}
		}
		return -1
	}

	steps := rng.Range(15, 45)
	for s := 0; s < steps && !t.dead; s++ {
		viaRPC := rng.Bool()
		relative := viaRPC && rng.Chance(1, 3)
		masked := rng.Chance(3, 5)
		req := &traits.FanSpeed{}
		var paths []string
		field := rng.Intn(3) // 0 preset, 1 index, 2 percentage
		if relative && field == 0 {
			field = 1 + rng.Intn(2) // "preset cannot be directly set relatively"
		}
		wantErr := false
		var expect func(after *traits.FanSpeed) (rule, detail string) // nil: only invariants
		openDomain := ""
		switch field {
		case 0:
			paths = []string{"preset"}
			if rng.Chance(1, 8) { // a name outside the configured list
				req.Preset = "no-such-preset"
				for _, n := range fanPresetNames {
					if presetIdx(n) < 0 && rng.Bool() {
						req.Preset = n
						break
					}
				}
				wantErr = true
			} else {
				req.Preset = presets[rng.Intn(len(presets))].Name
				want := req.Preset
				expect = func(after *traits.FanSpeed) (string, string) {
					if after.Preset != want {
						return "requested-not-applied", fmt.Sprintf("preset %q requested, preset is %q", want, after.Preset)
					}
					return "", ""
				}
			}
		case 1:
			paths = []string{"preset_index"}
			if relative {
				delta := int32(rng.Range(-3, 3))
				req.PresetIndex = delta
				target := cur.PresetIndex + delta
				switch {
				case cur.Preset == "":
					openDomain = "relative-index-without-active-preset"
				case target < 0 || int(target) >= len(presets):
					openDomain = "relative-index-out-of-range"
				case masked:
					expect = func(after *traits.FanSpeed) (string, string) {
						if after.PresetIndex != target {
							return "relative-not-added", fmt.Sprintf("preset_index %d %+d should be %d, is %d", cur.PresetIndex, delta, target, after.PresetIndex)
						}
						return "", ""
					}
				case !masked:
					// without a mask the (zero) relative percentage is part of the request too: still index+delta
					expect = func(after *traits.FanSpeed) (string, string) {
						if after.PresetIndex != target {
							return "relative-not-added", fmt.Sprintf("preset_index %d %+d should be %d, is %d", cur.PresetIndex, delta, target, after.PresetIndex)
						}
						return "", ""
					}
				}
			} else {
				k := int32(rng.Range(-1, len(presets)))
				req.PresetIndex = k
				switch {
				case k < 0 || int(k) >= len(presets):
					openDomain = "index-out-of-range"
				case masked:
					expect = func(after *traits.FanSpeed) (string, string) {
						if after.PresetIndex != k {
							return "requested-not-applied", fmt.Sprintf("preset_index %d requested, is %d", k, after.PresetIndex)
						}
						return "", ""
					}
				}
			}
		default:
			paths = []string{"percentage"}
			if relative {
				delta := float32(rng.Range(-40, 40)) / 2
				req.Percentage = delta
				target := cur.Percentage + delta
				switch {
				case target < 0 || target > 100:
					openDomain = "relative-percentage-out-of-range"
				case masked || cur.Preset == "":
					expect = func(after *traits.FanSpeed) (string, string) {
						if after.Percentage != target {
							return "relative-not-added", fmt.Sprintf("percentage %v %+v should be %v, is %v", cur.Percentage, delta, target, after.Percentage)
						}
						return "", ""
					}
				}
			} else {
				x := float32(rng.Range(0, 200)) / 2
				if rng.Chance(1, 3) {
					x = presets[rng.Intn(len(presets))].Percentage
				}
				req.Percentage = x
				if masked {
					expect = func(after *traits.FanSpeed) (string, string) {
						if after.Percentage != x {
							return "requested-not-applied", fmt.Sprintf("percentage %v requested, is %v", x, after.Percentage)
						}
						return "", ""
					}
				}
			}
		}
		if !masked {
			paths = nil
			if expect == nil && openDomain == "" && !wantErr {
				openDomain = "no-mask-partial-request"
			}
		}
		op := "Model.UpdateFanSpeed"
		if viaRPC {
			op = "Server.UpdateFanSpeed"
		}
		switch {
		case relative && masked:
			op += ":relative-mask"
		case relative:
			op += ":relative-nomask"
		case masked:
			op += ":mask"
		default:
			op += ":nomask"
		}
		t.log("%s %s paths=%v (current %s)", op, fanTriple(req), paths, fanTriple(cur))

		var after *traits.FanSpeed
		var err error
		sent := proto.Clone(req).(*traits.FanSpeed)
		ok := t.try(op, func() {
			if viaRPC {
				rq := &traits.UpdateFanSpeedRequest{Name: "dev", FanSpeed: sent, Relative: relative}
				if paths != nil {
					rq.UpdateMask = &fieldmaskpb.FieldMask{Paths: paths}
				}
				after, err = srv.UpdateFanSpeed(context.Background(), rq)
			} else if paths != nil {
				after, err = m.UpdateFanSpeed(sent, resource.WithUpdatePaths(paths...))
			} else {
				after, err = m.UpdateFanSpeed(sent)
			}
		})
		if !ok {
			return
		}
		r.Eval(1)
		r.Count("fanspeed/updates", 1)
		r.Distinct(fmt.Sprintf("fanspeed|%v|%s|%s|%s|%v", presets, op, fanTriple(cur), fanTriple(req), paths))
		var stored *traits.FanSpeed
		if !t.try("FanSpeed", func() { stored = m.FanSpeed() }) {
			return
		}
		if r.WantSample("fanspeed-" + op) {
			r.Sample("fanspeed-"+op, map[string]any{"presets": fmt.Sprint(presets), "before": fanTriple(cur), "request": fanTriple(req), "paths": paths, "after": fanTriple(stored), "error": errStr(err)})
		}
		if wantErr {
			r.Count("fanspeed/unknown-preset-requests", 1)
			if err == nil {
				t.viol("unknown-preset-accepted", op, "preset %q is not configured (%v) but the update succeeded: %s", req.Preset, presets, fanTriple(stored))
			} else if stored.Preset != cur.Preset || stored.PresetIndex != cur.PresetIndex || stored.Percentage != cur.Percentage {
				t.viol("changed-on-error", op, "rejected update changed the value from %s to %s", fanTriple(cur), fanTriple(stored))
			}
			cur = stored
			continue
		}
		if err != nil {
			if openDomain != "" {
				r.Count("fanspeed/open-domain:"+openDomain+":rejected", 1)
			} else {
				t.viol("unexpected-error", op, "well-formed update %s (paths %v) from %s failed: %v", fanTriple(req), paths, fanTriple(cur), err)
			}
			cur = stored
			continue
		}
		if after == nil || after.Preset != stored.Preset || after.PresetIndex != stored.PresetIndex || after.Percentage != stored.Percentage {
			t.viol("returned-value", op, "update returned %s but FanSpeed() is %s", fanTriple(after), fanTriple(stored))
		}
		if rule, detail := fanInvariant(stored, presets); rule != "" {
			t.viol(rule, op, "%s; before %s, request %s paths %v, presets %v", detail, fanTriple(cur), fanTriple(req), paths, presets)
			// Later operations must start from a consistent triple, otherwise one defect is reported again under the
			// keys of whatever follows. Select a preset by name through the model (masked, the unambiguous form).
			back := presets[rng.Intn(len(presets))].Name
			if back == stored.Preset {
				back = presets[(presetIdx(back)+1)%len(presets)].Name
			}
			t.log("(restore) Model.UpdateFanSpeed preset=%q paths=[preset]", back)
			if !t.try("Model.UpdateFanSpeed:mask", func() { _, err = m.UpdateFanSpeed(&traits.FanSpeed{Preset: back}, resource.WithUpdatePaths("preset")) }) {
				return
			}
			if !t.try("FanSpeed", func() { stored = m.FanSpeed() }) {
				return
			}
			if rule, _ := fanInvariant(stored, presets); rule != "" || err != nil {
				r.Count("fanspeed/case-abandoned-after-violation", 1)
				return
			}
		} else if expect != nil {
			if rule, detail := expect(stored); rule != "" {
				t.viol(rule, op, "%s; before %s, request %s paths %v, after %s, presets %v", detail, fanTriple(cur), fanTriple(req), paths, fanTriple(stored), presets)
			}
		}
		if openDomain != "" {
			r.Count("fanspeed/open-domain:"+openDomain, 1)
		}
		if masked && stored.Direction != cur.Direction {
			// mask semantics belong to C05/C14; observed here because it is how an ignored update_mask shows
			r.Count("fanspeed/open-domain:direction-changed-by-update-with-mask-"+paths[0], 1)
		}
		cur = stored
	}
}
