package main

// Mode model. Specification (doc comments of modepb.NewModelModes / ModelServer, sc-api comments of ModeValues,
// Modes and UpdateModeValuesRequest):
//
//	NewModelModes(M): Modes() == M, AvailableValues(mode) == M's values of that mode, and the first value of each
//	                  mode is selected.  NewModel() == NewModelModes(DefaultModes).
//	UpdateModeValues{mode_values: V}                  values become V (no update mask: whole record)
//	UpdateModeValues{mode_values: V, relative: R}     for every mode in R with a non-zero step s whose current value
//	        is the i-th of its n available values, the value becomes the ((i+s) mod n)-th ("relative adjustments
//	        win", "wrap around in both directions"); modes not in R take their value from V; a mode with step 0 takes
//	        the value from V (sc-api reading) or keeps its current one (counted as an observation, not judged).
//	UpdateModeValues{relative: R} (nothing else)      the stepped modes as above, a step of 0 keeps the current value
//	        (there is no absolute value it could take instead); what happens to modes not named in R is left open by
//	        the documentation (observed and counted, not judged).

import (
	"context"
	"fmt"
	"math/big"
	"strings"

	"github.com/smart-core-os/sc-api/go/traits"
	"google.golang.org/protobuf/proto"

	"github.com/smart-core-os/sc-golang/internal/verif/vk"
	"github.com/smart-core-os/sc-golang/pkg/trait/modepb"
)

var modeNamePool = []string{"temperature", "spin", "program", "eco", "lock"}
var modeValuePool = []string{"auto", "slow", "fast", "delicates", "medium", "whites", "on", "off", "v1", "v2"}

func runMode(r *vk.Run) {
	n := r.Pick(4000, 450000)
	for i := 0; i < n; i++ {
		if !r.Mine(i) {
			continue
		}
		modeCase(r, i)
	}
}

func modesString(m *traits.Modes) string {
	var sb strings.Builder
	for _, md := range m.GetModes() {
		sb.WriteString(md.Name + "[")
		for i, v := range md.Values {
			if i > 0 {
				sb.WriteString(",")
			}
			sb.WriteString(v.Name)
		}
		sb.WriteString("] ")
	}
	return strings.TrimSpace(sb.String())
}

func valuesString(v map[string]string) string {
	var sb strings.Builder
	for _, k := range sortedKeys(v) {
		fmt.Fprintf(&sb, "%s=%s ", k, v[k])
	}
	return "{" + strings.TrimSpace(sb.String()) + "}"
}

func copyValues(v map[string]string) map[string]string {
	out := make(map[string]string, len(v))
	for k, x := range v {
		out[k] = x
	}
	return out
}

// refStep is the wrap-around lookup: index of the value after stepping s from index i in a list of n.
func refStep(i int, s int32, n int) int {
	x := new(big.Int).Add(big.NewInt(int64(i)), big.NewInt(int64(s)))
	x.Mod(x, big.NewInt(int64(n))) // Euclidean: always in [0,n)
	return int(x.Int64())
}

func modeCase(r *vk.Run, idx int) {
	rng := r.CaseRand("mode", idx)
	t := newCase(r, "mode", "mode", idx)

	var modes *traits.Modes
	var m *modepb.Model
	how := rng.Intn(3)
	switch how {
	case 0:
		modes = proto.Clone(modepb.DefaultModes).(*traits.Modes)
		t.config = "NewModel() default modes: " + modesString(modes)
		if !t.try("NewModel", func() { m = modepb.NewModel() }) {
			return
		}
	default:
		modes = &traits.Modes{}
		for _, mi := range rng.Perm(len(modeNamePool))[:rng.Range(1, 4)] {
			md := &traits.Modes_Mode{Name: modeNamePool[mi], Ordered: rng.Bool()}
			for _, vi := range rng.Perm(len(modeValuePool))[:rng.Range(1, 5)] {
				md.Values = append(md.Values, &traits.Modes_Value{Name: modeValuePool[vi]})
			}
			modes.Modes = append(modes.Modes, md)
		}
		t.config = "NewModelModes(" + modesString(modes) + ")"
		r.Count("mode/custom-configs", 1)
		given := proto.Clone(modes).(*traits.Modes)
		if !t.try("NewModelModes", func() { m = modepb.NewModelModes(given) }) {
			return
		}
	}
	srv := modepb.NewModelServer(m)
	ctor := "NewModelModes"
	if how == 0 {
		ctor = "NewModel"
	}

	// configuration is used
	r.Eval(1)
	var gotModes *traits.Modes
	if !t.try("Modes", func() { gotModes = proto.Clone(m.Modes()).(*traits.Modes) }) {
		return
	}
	if !proto.Equal(gotModes, modes) {
		t.viol("config-ignored", ctor, "Modes() = %s, constructed with %s", modesString(gotModes), modesString(modes))
		return // relative steps would be looked up in the wrong table; the remaining scenario assumes the configured one
	}
	available := map[string][]string{}
	for _, md := range modes.Modes {
		var vs []string
		for _, v := range md.Values {
			vs = append(vs, v.Name)
		}
		available[md.Name] = vs
		var gotVs []string
		if !t.try("AvailableValues", func() {
			for _, v := range m.AvailableValues(md.Name) {
				gotVs = append(gotVs, v.Name)
			}
		}) {
			return
		}
		if strings.Join(gotVs, ",") != strings.Join(vs, ",") {
			t.viol("config-ignored", ctor, "AvailableValues(%q) = %v, configured %v", md.Name, gotVs, vs)
			return
		}
	}
	cur := map[string]string{}
	for name, vs := range available {
		cur[name] = vs[0]
	}
	var got *traits.ModeValues
	if !t.try("ModeValues", func() { got = m.ModeValues() }) {
		return
	}
	if valuesString(got.GetValues()) != valuesString(cur) {
		t.viol("initial-values", ctor, "ModeValues() = %s, the first value of each mode is %s", valuesString(got.GetValues()), valuesString(cur))
		cur = copyValues(got.GetValues())
	}
	indexOf := func(mode, value string) int {
		for i, v := range available[mode] {
			if v == value {
				return i
			}
		}
		return -1
	}
	modeNames := sortedKeys(available)

	steps := rng.Range(15, 45)
	for s := 0; s < steps && !t.dead; s++ {
		req := &traits.UpdateModeValuesRequest{Name: "dev"}
		want := map[string]string{} // asserted values after the call
		open := map[string]bool{}   // modes whose value the documentation leaves open for this request
		extreme, wrapped, zeroStep := false, false, false
		kind := rng.Intn(10)
		var op string
		switch {
		case kind < 3: // absolute, whole record
			op = "UpdateModeValues:absolute"
			v := map[string]string{}
			for _, name := range modeNames {
				v[name] = available[name][rng.Intn(len(available[name]))]
			}
			req.ModeValues = &traits.ModeValues{Values: v}
			want = copyValues(v)
		case kind < 8: // absolute record plus relative steps
			op = "UpdateModeValues:relative"
			v := copyValues(cur)
			for _, name := range modeNames {
				if _, has := v[name]; !has || rng.Chance(1, 4) {
					v[name] = available[name][rng.Intn(len(available[name]))]
				}
			}
			req.ModeValues = &traits.ModeValues{Values: copyValues(v)}
			want = copyValues(v)
			rel := map[string]int32{}
			for _, name := range modeNames {
				if !rng.Chance(2, 3) {
					continue
				}
				step := int32(rng.Range(-7, 7))
				if rng.Chance(1, 12) {
					step = []int32{2147483647, -2147483648, 2147483646, -2147483647, 1 << 30, -(1 << 30)}[rng.Intn(6)]
					extreme = true
				}
				rel[name] = step
				i := indexOf(name, cur[name])
				switch {
				case i < 0: // no (valid) current value: "liberal", not specified
					open[name] = true
				case step == 0:
					zeroStep = true // value comes from mode_values
				default:
					n := len(available[name])
					want[name] = available[name][refStep(i, step, n)]
					if int64(i)+int64(step) >= int64(n) || int64(i)+int64(step) < 0 {
						wrapped = true
					}
				}
			}
			if len(rel) == 0 {
				rel[modeNames[0]] = 1
				if i := indexOf(modeNames[0], cur[modeNames[0]]); i >= 0 {
					want[modeNames[0]] = available[modeNames[0]][refStep(i, 1, len(available[modeNames[0]]))]
				} else {
					open[modeNames[0]] = true
				}
			}
			req.Relative = &traits.ModeValuesRelative{Values: rel}
		default: // relative only
			op = "UpdateModeValues:relative-only"
			rel := map[string]int32{}
			for _, name := range modeNames {
				open[name] = true // modes not stepped: open
			}
			for _, name := range modeNames {
				if len(rel) > 0 && !rng.Chance(1, 2) {
					continue
				}
				step := int32(rng.Range(-7, 7))
				if step == 0 && !rng.Chance(1, 2) {
					step = 1
				}
				// a step of 0 in a request without mode_values is the (i+0) mod n-th value: the mode stays where it is
				rel[name] = step
				if step == 0 {
					zeroStep = true
				}
				if i := indexOf(name, cur[name]); i >= 0 {
					n := len(available[name])
					want[name] = available[name][refStep(i, step, n)]
					delete(open, name)
					if i+int(step) >= n || i+int(step) < 0 {
						wrapped = true
					}
				}
			}
			req.Relative = &traits.ModeValuesRelative{Values: rel}
		}
		_ = extreme
		t.log("%s mode_values=%s relative=%v (current %s)", op, valuesString(req.GetModeValues().GetValues()), req.GetRelative().GetValues(), valuesString(cur))
		sent := proto.Clone(req).(*traits.UpdateModeValuesRequest)
		var res *traits.ModeValues
		var err error
		if !t.try(op, func() { res, err = srv.UpdateModeValues(context.Background(), sent) }) {
			return
		}
		r.Eval(1)
		r.Count("mode/updates", 1)
		if wrapped {
			r.Count("mode/wraps", 1)
		}
		r.Distinct(fmt.Sprintf("mode|%s|%s|%s|%s|%v", modesString(modes), op, valuesString(cur), valuesString(req.GetModeValues().GetValues()), req.GetRelative().GetValues()))
		var stored *traits.ModeValues
		if !t.try("ModeValues", func() { stored = m.ModeValues() }) {
			return
		}
		if r.WantSample("mode-" + op) {
			r.Sample("mode-"+op, map[string]any{"modes": modesString(modes), "before": valuesString(cur), "mode_values": valuesString(req.GetModeValues().GetValues()),
				"relative": fmt.Sprint(req.GetRelative().GetValues()), "after": valuesString(stored.GetValues()), "error": errStr(err)})
		}
		if err != nil {
			t.viol("unexpected-error", op, "well-formed request failed: %v", err)
			cur = copyValues(stored.GetValues())
			continue
		}
		if valuesString(res.GetValues()) != valuesString(stored.GetValues()) {
			t.viol("returned-value", op, "response %s but ModeValues() is %s", valuesString(res.GetValues()), valuesString(stored.GetValues()))
		}
		for _, name := range modeNames {
			if open[name] {
				if _, has := stored.GetValues()[name]; !has {
					r.Count("mode/open-domain:unstepped-mode-dropped-by-relative-only-request", 1)
				}
				continue
			}
			gotV, has := stored.GetValues()[name]
			if has && gotV == want[name] {
				continue
			}
			step, stepped := req.GetRelative().GetValues()[name]
			switch {
			case stepped && step != 0:
				wop := op
				if step > 1<<20 || step < -(1<<20) {
					wop += "-extreme-step" // steps near the int32 limits are reported apart from ordinary steps
				}
				t.viol("wrap", wop, "mode %q [%s]: current %q stepped by %d should be %q, is %q", name, strings.Join(available[name], ","), cur[name], step, want[name], gotV)
			case stepped && step == 0:
				// sc-api: "relative adjustments win" only "if the adjustment in relative is non-zero". The C20 statement does
				// not fix what a zero step does, so a zero step that keeps the current value is observed, not judged; any
				// other outcome (neither the absolute nor the current value) is still a wrong lookup.
				if has && gotV == cur[name] {
					r.Count("mode/open-domain:zero-step-overrides-absolute", 1)
				} else {
					t.viol("wrap", op+"-zero-step", "mode %q: step 0 with mode_values %q from current %q gave %q", name, want[name], cur[name], gotV)
				}
			default:
				t.viol("absolute-not-applied", op, "mode %q: mode_values asked for %q, is %q", name, want[name], gotV)
			}
		}
		_ = zeroStep
		for name := range stored.GetValues() {
			if _, known := available[name]; !known {
				t.viol("unknown-mode-stored", op, "mode %q appeared in the values but is not configured", name)
			}
		}
		cur = copyValues(stored.GetValues())
	}
}
