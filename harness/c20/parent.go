package main

// Parent model. Specification (from the doc comments of parentpb.Model):
//
//	state: map child name -> set of trait names
//	AddChild(c)                 name known: no change; else state[name] = set(c.Traits)
//	AddChildTrait(n, ts...)     state[n] = state[n] ∪ ts (child created when unknown); created == n was unknown
//	RemoveChildTrait(n, ts...)  n unknown: returns nil, no change; else state[n] = state[n] ∖ ts
//	RemoveChildByName(n)        n unknown: error; else removes and returns the child
//	ListChildren / ParentApi.ListChildren: every child once, traits sorted ascending by name, no duplicates
//
// Only the child named in a call may change.

import (
	"context"
	"fmt"
	"sort"
	"strings"

	"github.com/smart-core-os/sc-api/go/traits"
	"google.golang.org/protobuf/proto"

	"github.com/smart-core-os/sc-golang/internal/verif/vk"
	"github.com/smart-core-os/sc-golang/pkg/resource"
	"github.com/smart-core-os/sc-golang/pkg/trait"
	"github.com/smart-core-os/sc-golang/pkg/trait/parentpb"
)

var parentTraitPool = []string{"Brightness", "Light", "LightX", "Occupancy", "OnOff", "a", "ab", "z"}
var parentChildPool = []string{"c0", "c1", "c2", "c3"}

type parentRef map[string]map[string]bool

func (p parentRef) String() string {
	var sb strings.Builder
	for _, n := range sortedKeys(p) {
		fmt.Fprintf(&sb, "%s=%s ", n, setString(p[n]))
	}
	return strings.TrimSpace(sb.String())
}

func parentChildMsg(name string, set map[string]bool) *traits.Child {
	c := &traits.Child{Name: name}
	for _, t := range sortedKeys(set) {
		c.Traits = append(c.Traits, &traits.Trait{Name: t})
	}
	return c
}

func traitNamesOf(c *traits.Child) []string {
	out := make([]string, 0, len(c.GetTraits()))
	for _, t := range c.GetTraits() {
		out = append(out, t.GetName())
	}
	return out
}

// compareTraits returns the first broken clause ("" when got is the sorted duplicate-free rendering of want).
func compareTraits(got []string, want map[string]bool) (rule, detail string) {
	seen := map[string]bool{}
	for i, g := range got {
		if seen[g] {
			return "traits-duplicate", fmt.Sprintf("trait %q listed twice in %v", g, got)
		}
		seen[g] = true
		if i > 0 && got[i-1] > g {
			return "traits-unsorted", fmt.Sprintf("traits not ascending: %v", got)
		}
	}
	for w := range want {
		if !seen[w] {
			return "traits-missing", fmt.Sprintf("trait %q missing: got %v want %s", w, got, setString(want))
		}
	}
	for g := range seen {
		if !want[g] {
			return "traits-extra", fmt.Sprintf("trait %q unexpected: got %v want %s", g, got, setString(want))
		}
	}
	return "", ""
}

func runParent(r *vk.Run) {
	n := r.Pick(4000, 450000)
	for i := 0; i < n; i++ {
		if !r.Mine(i) {
			continue
		}
		parentCase(r, i)
	}
}

func pickNames(rng *vk.Rand, pool []string, lo, hi int) []string {
	k := rng.Range(lo, hi)
	out := make([]string, 0, k)
	for j := 0; j < k; j++ {
		out = append(out, pool[rng.Intn(len(pool))])
	}
	return out
}

func toTraitNames(ss []string) []trait.Name {
	out := make([]trait.Name, len(ss))
	for i, s := range ss {
		out[i] = trait.Name(s)
	}
	return out
}

func parentCase(r *vk.Run, idx int) {
	rng := r.CaseRand("parent", idx)
	t := newCase(r, "parent", "parent", idx)
	ref := parentRef{}

	// configuration: 0..3 initial children with sorted trait lists
	var initial []*traits.Child
	for _, name := range parentChildPool[:rng.Intn(4)] {
		set := map[string]bool{}
		for _, tn := range pickNames(rng, parentTraitPool, 0, 5) {
			set[tn] = true
		}
		ref[name] = set
		initial = append(initial, parentChildMsg(name, set))
	}
	t.config = "WithInitialChildren(" + ref.String() + ")"
	var m *parentpb.Model
	if !t.try("NewModel", func() { m = parentpb.NewModel(parentpb.WithInitialChildren(initial...)) }) {
		return
	}
	srv := parentpb.NewModelServer(m)
	if rule, detail := parentCompareAll(t, m, ref); rule != "" {
		t.viol("config-ignored", "WithInitialChildren", "%s: %s", rule, detail)
		return
	}

	steps := rng.Range(20, 60)
	for s := 0; s < steps && !t.dead; s++ {
		name := parentChildPool[rng.Intn(len(parentChildPool))]
		pre := ref.String()
		switch k := rng.Intn(100); {
		case k < 40: // AddChildTrait
			names := pickNames(rng, parentTraitPool, 0, 3)
			t.log("AddChildTrait(%s, %v)", name, names)
			_, known := ref[name]
			preSet := copySet(ref[name])
			want := copySet(ref[name])
			for _, tn := range names {
				if !want[tn] && len(want) > 0 && tn < maxKey(want) {
					r.Count("parent/insert-in-middle", 1)
				}
				want[tn] = true
			}
			ref[name] = want
			var got *traits.Child
			var created bool
			if !t.try("AddChildTrait", func() { got, created = m.AddChildTrait(name, toTraitNames(names)...) }) {
				return
			}
			r.Eval(1)
			r.Count("parent/ops", 1)
			r.Distinct("parent|add|" + name + "|" + setString(preSet) + "|" + strings.Join(names, ","))
			if created == known {
				t.viol("created-flag", "AddChildTrait", "created=%v but the child was known=%v before the call (state %s)", created, known, pre)
			}
			if got == nil || got.Name != name {
				t.viol("returned-child", "AddChildTrait", "returned %s, want child %q", vk.JSON(got), name)
			} else if rule, detail := compareTraits(traitNamesOf(got), want); rule != "" {
				t.viol(rule, "AddChildTrait:"+parentShrinkAdd(preSet, known, name, names), "returned child: %s (before: %s)", detail, setString(preSet))
			}
			if rule, detail := parentCompareAll(t, m, ref); rule != "" && !t.dead {
				t.viol(rule, "AddChildTrait:"+parentShrinkAdd(preSet, known, name, names), "ListChildren after the call: %s (before: %s)", detail, pre)
				parentResync(t, m, ref)
			}
		case k < 75: // RemoveChildTrait
			names := pickNames(rng, parentTraitPool, 0, 3)
			t.log("RemoveChildTrait(%s, %v)", name, names)
			_, known := ref[name]
			preSet := copySet(ref[name])
			var want map[string]bool
			if known {
				want = copySet(ref[name])
				for _, tn := range names {
					if !want[tn] {
						r.Count("parent/remove-absent-trait", 1)
					}
					delete(want, tn)
				}
				ref[name] = want
			}
			var got *traits.Child
			if !t.try("RemoveChildTrait", func() { got = m.RemoveChildTrait(name, toTraitNames(names)...) }) {
				return
			}
			r.Eval(1)
			r.Count("parent/ops", 1)
			r.Distinct("parent|remove|" + name + "|" + fmt.Sprint(known) + setString(preSet) + "|" + strings.Join(names, ","))
			if r.WantSample("parent-remove") && known && len(names) > 0 {
				r.Sample("parent-remove", map[string]any{"before": setString(preSet), "remove": names, "returned": traitNamesOf(got)})
			}
			switch {
			case !known && got != nil:
				t.viol("returned-child", "RemoveChildTrait:unknown-child", "returned %s for an unknown child, documented result is nil", vk.JSON(got))
			case known && (got == nil || got.Name != name):
				t.viol("returned-child", "RemoveChildTrait", "returned %s, want child %q", vk.JSON(got), name)
			case known:
				if rule, detail := compareTraits(traitNamesOf(got), want); rule != "" {
					t.viol(rule, "RemoveChildTrait:"+parentShrinkRemove(preSet, name, names), "returned child: %s (before: %s)", detail, setString(preSet))
				}
			}
			if rule, detail := parentCompareAll(t, m, ref); rule != "" && !t.dead {
				t.viol(rule, "RemoveChildTrait:"+parentShrinkRemove(preSet, name, names), "ListChildren after the call: %s (before: %s)", detail, pre)
				parentResync(t, m, ref)
			}
		case k < 85: // AddChild
			set := map[string]bool{}
			for _, tn := range pickNames(rng, parentTraitPool, 0, 4) {
				set[tn] = true
			}
			t.log("AddChild(%s %s)", name, setString(set))
			if _, known := ref[name]; !known {
				ref[name] = set
			}
			if !t.try("AddChild", func() { m.AddChild(parentChildMsg(name, set)) }) {
				return
			}
			r.Eval(1)
			r.Count("parent/ops", 1)
			r.Distinct("parent|addchild|" + pre + "|" + name + setString(set))
			if rule, detail := parentCompareAll(t, m, ref); rule != "" && !t.dead {
				t.viol(rule, "AddChild", "ListChildren after the call: %s (before: %s)", detail, pre)
				parentResync(t, m, ref)
			}
		case k < 93: // RemoveChildByName
			t.log("RemoveChildByName(%s)", name)
			want, known := ref[name]
			delete(ref, name)
			var got *traits.Child
			var err error
			if !t.try("RemoveChildByName", func() { got, err = m.RemoveChildByName(name) }) {
				return
			}
			r.Eval(1)
			r.Count("parent/ops", 1)
			r.Distinct("parent|removechild|" + pre + "|" + name)
			switch {
			case !known && err == nil:
				t.viol("returned-child", "RemoveChildByName:unknown-child", "no error removing an unknown child (returned %s)", vk.JSON(got))
			case known && err != nil:
				t.viol("returned-child", "RemoveChildByName", "error %v removing a known child", err)
			case known:
				if rule, detail := compareTraits(traitNamesOf(got), want); rule != "" || got.GetName() != name {
					t.viol("returned-child", "RemoveChildByName", "removed child %s differs from what was stored: %s %s", vk.JSON(got), rule, detail)
				}
			}
			if rule, detail := parentCompareAll(t, m, ref); rule != "" && !t.dead {
				t.viol(rule, "RemoveChildByName", "ListChildren after the call: %s (before: %s)", detail, pre)
				parentResync(t, m, ref)
			}
		default: // ParentApi.ListChildren
			t.log("rpc ListChildren")
			var resp *traits.ListChildrenResponse
			var err error
			if !t.try("Server.ListChildren", func() {
				resp, err = srv.ListChildren(context.Background(), &traits.ListChildrenRequest{Name: "dev"})
			}) {
				return
			}
			r.Eval(1)
			r.Count("parent/ops", 1)
			r.Count("parent/rpc-lists", 1)
			if err != nil {
				t.viol("list-rpc", "Server.ListChildren", "error %v", err)
				break
			}
			if rule, detail := parentCompareList(resp.Children, ref); rule != "" {
				t.viol(rule, "Server.ListChildren", "%s (state %s)", detail, pre)
			}
			if int(resp.TotalSize) != len(ref) {
				t.viol("list-rpc", "Server.ListChildren", "total_size %d, %d children known", resp.TotalSize, len(ref))
			}
		}
	}
}

func copySet(m map[string]bool) map[string]bool {
	out := make(map[string]bool, len(m))
	for k := range m {
		out[k] = true
	}
	return out
}

func maxKey(m map[string]bool) string {
	ks := sortedKeys(m)
	return ks[len(ks)-1]
}

func parentCompareAll(t *tc, m *parentpb.Model, ref parentRef) (rule, detail string) {
	var children []*traits.Child
	if !t.try("ListChildren", func() { children = m.ListChildren() }) {
		return "panic", "ListChildren panicked"
	}
	return parentCompareList(children, ref)
}

func parentCompareList(children []*traits.Child, ref parentRef) (rule, detail string) {
	seen := map[string]bool{}
	var names []string
	for _, c := range children {
		names = append(names, c.GetName())
		if seen[c.GetName()] {
			return "child-set", fmt.Sprintf("child %q listed twice", c.GetName())
		}
		seen[c.GetName()] = true
		want, ok := ref[c.GetName()]
		if !ok {
			return "child-set", fmt.Sprintf("unexpected child %q (want children %v)", c.GetName(), sortedKeys(ref))
		}
		if rule, detail := compareTraits(traitNamesOf(c), want); rule != "" {
			return rule, fmt.Sprintf("child %q: %s", c.GetName(), detail)
		}
	}
	for n := range ref {
		if !seen[n] {
			return "child-set", fmt.Sprintf("child %q missing (listed %v)", n, names)
		}
	}
	if !sort.StringsAreSorted(names) {
		return "child-order", fmt.Sprintf("children not sorted by name: %v", names)
	}
	return "", ""
}

// parentResync makes the specification adopt the model's state after a reported difference, so that one
// defect is not reported again under the keys of later operations.
func parentResync(t *tc, m *parentpb.Model, ref parentRef) {
	var children []*traits.Child
	if !t.try("ListChildren", func() { children = m.ListChildren() }) {
		return
	}
	for k := range ref {
		delete(ref, k)
	}
	for _, c := range children {
		set := map[string]bool{}
		for _, n := range traitNamesOf(c) {
			set[n] = true
		}
		ref[c.GetName()] = set
	}
}

// parentShrinkRemove reduces a failing RemoveChildTrait call to its class: it replays the trait names of the call
// one at a time on a fresh model holding the same child and reports the class (present / absent at that moment) of
// the first single-name removal that fails.
func parentShrinkRemove(pre map[string]bool, child string, names []string) string {
	m := parentpb.NewModel(parentpb.WithInitialChildren(parentChildMsg(child, pre)))
	cur := copySet(pre)
	for _, n := range names {
		had := cur[n]
		delete(cur, n)
		var got *traits.Child
		if p, _ := vk.Recover(func() { got = m.RemoveChildTrait(child, trait.Name(n)) }); p {
			return "single-panics"
		}
		if rule, _ := compareTraits(traitNamesOf(got), cur); rule != "" {
			if had {
				return "present-trait"
			}
			return "absent-trait"
		}
	}
	return "multi"
}

func parentShrinkAdd(pre map[string]bool, known bool, child string, names []string) string {
	var opts []resource.Option
	if known {
		opts = append(opts, parentpb.WithInitialChildren(parentChildMsg(child, pre)))
	}
	m := parentpb.NewModel(opts...)
	cur := copySet(pre)
	for _, n := range names {
		had := cur[n]
		cur[n] = true
		var got *traits.Child
		if p, _ := vk.Recover(func() { got, _ = m.AddChildTrait(child, trait.Name(n)) }); p {
			return "single-panics"
		}
		if rule, _ := compareTraits(traitNamesOf(got), cur); rule != "" {
			if had {
				return "existing-trait"
			}
			return "new-trait"
		}
	}
	return "multi"
}

var _ = proto.Equal
