// Monitor for C20: trait models keep derived state consistent with their rules.
//
// One file per trait model; each holds a small executable specification written from the doc comments of the
// model and the comments of the sc-api messages, and a generated workload that drives the real model (and its
// gRPC server adapter) in lock-step with the specification.
//
// Violation keys: C20/<model>/<rule>/<operation>.
package main

import "github.com/smart-core-os/sc-golang/internal/verif/vk"

func main() { vk.Main("C20", run) }

func run(r *vk.Run) {
	r.Describe("per trait model (parent, unit conversion, vending, fan speed, mode, enter/leave, meter, publication) random operation "+
		"sequences with random configurations (initial children; initial stock with every subset of used/remaining and every unit pair; "+
		"preset lists; mode lists; initial totals; initial readings; initial publications) are run against the real model and its server adapter; "+
		"after every operation the returned value, the getters and the RPC responses are compared with a small executable specification "+
		"(set algebra, exact rational arithmetic, lookup tables, counters, fake clock, content->version bijection). "+
		"Unit conversion is additionally enumerated over every ordered unit pair x a value grid. "+
		"A case is one operation on one pre-state; it is distinct by (model, operation, rendered pre-state, rendered arguments) and "+
		"non-trivial when the operation reached the model with a well-formed request.",
		"all operations of a case are issued from one goroutine (the property is sequential); every model call runs under recover",
		"amounts are finite and non-negative, percentages stay within [0,100], preset lists are non-empty with distinct names and ascending distinct percentages",
		"the size of a CUP is taken to be one of the standard cup definitions (US customary, US legal, metric, imperial, Japanese), selected by one observation",
		"requests the documentation leaves open (unknown mode names, relative steps with no active preset, acknowledging without an audience, no-mask partial fan-speed requests) are only checked for panics and state invariants and counted as open-domain observations",
	)
	runUnits(r)
	runParent(r)
	runVending(r)
	runFanSpeed(r)
	runMode(r)
	runEnterLeave(r)
	runMeter(r)
	runPublication(r)

	q := r.Quick()
	min := func(quick, thorough int) int {
		if q {
			return quick
		}
		return thorough
	}
	r.Require("unit/conversions", min(3000, 50000))
	r.Require("unit/cross-category-pairs", 20)
	r.Require("parent/ops", min(20000, 400000))
	r.Require("parent/remove-absent-trait", min(1000, 20000))
	r.Require("parent/insert-in-middle", min(1000, 20000))
	r.Require("vending/dispenses", min(10000, 200000))
	r.Require("vending/dispense-cross-unit", min(500, 10000))
	r.Require("vending/dispense-floor-at-zero", min(100, 2000))
	r.Require("vending/configs-with-initial-consumables", min(200, 4000))
	r.Require("fanspeed/updates", min(10000, 200000))
	r.Require("fanspeed/custom-preset-configs", min(300, 6000))
	r.Require("mode/updates", min(10000, 200000))
	r.Require("mode/wraps", min(1000, 20000))
	r.Require("mode/custom-configs", min(300, 6000))
	r.Require("enterleave/events", min(10000, 200000))
	r.Require("enterleave/resets", min(500, 10000))
	r.Require("meter/ops", min(10000, 200000))
	r.Require("publication/ops", min(10000, 200000))
	r.Require("publication/acknowledges", min(2000, 40000))
}
