package main

// Vending model. Specification (doc comments of vendingpb.Model.DispenseInstantly, NewModel, WithInitialStock,
// WithInitialConsumable; sc-api comments of Consumable.Stock and DispenseRequest):
//
//	NewModel(WithInitialStock(s...), WithInitialConsumable(c...)): ListInventory = s, ListConsumables = c
//	DispenseInstantly(name, q) / VendingApi.Dispense:
//	  unknown stock                         -> error, nothing changes
//	  used present:      used'      = {unit: used.unit,      amount: used.amount + conv(q -> used.unit)}
//	  remaining present: remaining' = {unit: remaining.unit, amount: max(0, remaining.amount - conv(q -> remaining.unit))}
//	  absent quantities stay absent; last_dispensed' = q
//	  a needed conversion that is impossible -> error returned, nothing changes
//	  the returned stock is the stored stock
//
// Amounts are float32 in the API; the specification computes with exact rationals from the previous observed
// amount and accepts a result within float32 rounding of the exact value.

import (
	"context"
	"fmt"
	"math"
	"math/big"
	"strings"

	"github.com/smart-core-os/sc-api/go/traits"
	"google.golang.org/protobuf/proto"

	"github.com/smart-core-os/sc-golang/internal/verif/vk"
	"github.com/smart-core-os/sc-golang/pkg/resource"
	"github.com/smart-core-os/sc-golang/pkg/trait/vendingpb"
)

type qty struct {
	amount float32
	unit   unit
}

func (q *qty) String() string {
	if q == nil {
		return "-"
	}
	return fmt.Sprintf("%v %v", q.amount, q.unit)
}

func (q *qty) msg() *traits.Consumable_Quantity {
	if q == nil {
		return nil
	}
	return &traits.Consumable_Quantity{Amount: q.amount, Unit: q.unit}
}

func qtyOf(m *traits.Consumable_Quantity) *qty {
	if m == nil {
		return nil
	}
	return &qty{amount: m.Amount, unit: m.Unit}
}

type refStock struct {
	used, remaining, last *qty
	dispensing            bool
}

func (s *refStock) String() string {
	return fmt.Sprintf("{used %v, remaining %v, last %v}", s.used, s.remaining, s.last)
}

func (s *refStock) presence() string {
	u, rm := "U-", "R-"
	if s.used != nil {
		u = "U+"
	}
	if s.remaining != nil {
		rm = "R+"
	}
	return u + rm
}

func (s *refStock) msg(name string) *traits.Consumable_Stock {
	return &traits.Consumable_Stock{Consumable: name, Used: s.used.msg(), Remaining: s.remaining.msg(), LastDispensed: s.last.msg(), Dispensing: s.dispensing}
}

func refStockOf(m *traits.Consumable_Stock) *refStock {
	return &refStock{used: qtyOf(m.Used), remaining: qtyOf(m.Remaining), last: qtyOf(m.LastDispensed), dispensing: m.Dispensing}
}

type vendingRef map[string]*refStock

func (v vendingRef) String() string {
	var sb strings.Builder
	for _, n := range sortedKeys(v) {
		fmt.Fprintf(&sb, "%s=%v ", n, v[n])
	}
	return strings.TrimSpace(sb.String())
}

var vendingNames = []string{"coffee", "milk", "water", "cups"}
var vendingAmounts = []float32{0, 0, 1, 2, 0.5, 0.25, 3.75, 10, 100, 1000, 0.001, 12345.678, 7}

func genUnit(rng *vk.Rand) unit {
	if rng.Chance(1, 2) { // favour the volume units: conversions that succeed
		return []unit{traits.Consumable_LITER, traits.Consumable_CUBIC_METER, traits.Consumable_CUP}[rng.Intn(3)]
	}
	return allUnits[rng.Intn(len(allUnits))]
}

func genAmount(rng *vk.Rand) float32 {
	if rng.Chance(2, 3) {
		return vendingAmounts[rng.Intn(len(vendingAmounts))]
	}
	return float32(rng.Float64() * math.Pow(10, float64(rng.Range(-2, 4))))
}

func genQty(rng *vk.Rand) *qty { return &qty{amount: genAmount(rng), unit: genUnit(rng)} }

func genStock(rng *vk.Rand) *refStock {
	s := &refStock{}
	mask := rng.Intn(4) // every subset of {used, remaining}
	if mask&1 != 0 {
		s.used = genQty(rng)
	}
	if mask&2 != 0 {
		s.remaining = genQty(rng)
		if s.used != nil && rng.Chance(1, 2) {
			s.remaining.unit = s.used.unit
		}
	}
	if rng.Chance(1, 4) {
		s.last = genQty(rng)
	}
	return s
}

func runVending(r *vk.Run) {
	determineCup(r)
	n := r.Pick(4000, 450000)
	for i := 0; i < n; i++ {
		if !r.Mine(i) {
			continue
		}
		vendingCase(r, i)
	}
}

func sameQty(got *traits.Consumable_Quantity, want *qty) bool {
	if got == nil || want == nil {
		return got == nil && want == nil
	}
	return got.Unit == want.unit && (got.Amount == want.amount)
}

func sameStock(got *traits.Consumable_Stock, name string, want *refStock) bool {
	return got != nil && got.Consumable == name && sameQty(got.Used, want.used) && sameQty(got.Remaining, want.remaining) && sameQty(got.LastDispensed, want.last)
}

func vendingCase(r *vk.Run, idx int) {
	rng := r.CaseRand("vending", idx)
	t := newCase(r, "vending", "vending", idx)
	ref := vendingRef{}

	// configuration
	var stocks []*traits.Consumable_Stock
	for _, name := range vendingNames {
		if rng.Chance(1, 2) {
			ref[name] = genStock(rng)
			stocks = append(stocks, ref[name].msg(name))
		}
	}
	var consumables []*traits.Consumable
	consumableNames := map[string]bool{}
	switch rng.Intn(4) {
	case 0: // the consumables the stock refers to
		for _, name := range sortedKeys(ref) {
			consumableNames[name] = true
		}
	case 1: // other names
		for _, name := range []string{"tea", "sugar"}[:rng.Range(1, 2)] {
			consumableNames[name] = true
		}
	}
	for _, name := range sortedKeys(consumableNames) {
		consumables = append(consumables, &traits.Consumable{Name: name, Title: "the " + name})
	}
	t.config = fmt.Sprintf("WithInitialStock(%v) WithInitialConsumable(%v)", ref, sortedKeys(consumableNames))
	var opts []resource.Option
	// the same configuration given in one option or split over several (the options add up)
	split := rng.Chance(1, 3)
	if len(stocks) > 0 {
		if split && len(stocks) > 1 {
			k := rng.Range(1, len(stocks)-1)
			opts = append(opts, vendingpb.WithInitialStock(stocks[:k]...), vendingpb.WithInitialStock(stocks[k:]...))
			r.Count("vending/configs-with-stock-split-over-two-options", 1)
		} else {
			opts = append(opts, vendingpb.WithInitialStock(stocks...))
		}
	}
	if len(consumables) > 0 {
		if split && len(consumables) > 1 {
			k := rng.Range(1, len(consumables)-1)
			opts = append(opts, vendingpb.WithInitialConsumable(consumables[:k]...), vendingpb.WithInitialConsumable(consumables[k:]...))
		} else {
			opts = append(opts, vendingpb.WithInitialConsumable(consumables...))
		}
		r.Count("vending/configs-with-initial-consumables", 1)
	}
	if rng.Bool() { // order of options must not matter
		for i, j := 0, len(opts)-1; i < j; i, j = i+1, j-1 {
			opts[i], opts[j] = opts[j], opts[i]
		}
	}
	var m *vendingpb.Model
	ctorOp := "NewModel"
	if len(consumables) > 0 {
		ctorOp = "NewModel:WithInitialConsumable"
	}
	if !t.try(ctorOp, func() { m = vendingpb.NewModel(opts...) }) {
		return
	}
	srv := vendingpb.NewModelServer(m)
	r.Eval(1)

	// configuration is used: consumables first (a stray record in the inventory would make ListInventory panic)
	var gotCons []*traits.Consumable
	if !t.try("ListConsumables", func() { gotCons = m.ListConsumables() }) {
		return
	}
	gotNames := map[string]bool{}
	for _, c := range gotCons {
		gotNames[c.GetName()] = true
	}
	if setString(gotNames) != setString(consumableNames) {
		t.viol("config-ignored", "WithInitialConsumable", "ListConsumables = %s, configured %s", setString(gotNames), setString(consumableNames))
		return // the model's state is not what the scenario assumes
	}
	if rule, detail := vendingCompareAll(t, m, ref); rule != "" {
		if !t.dead {
			t.viol("config-ignored", "WithInitialStock", "%s: %s", rule, detail)
		}
		return
	}

	steps := rng.Range(15, 45)
	for s := 0; s < steps && !t.dead; s++ {
		name := vendingNames[rng.Intn(len(vendingNames))]
		pre := ref.String()
		switch k := rng.Intn(100); {
		case k < 72:
			viaRPC := rng.Bool()
			q := genQty(rng)
			if st := ref[name]; st != nil && rng.Chance(1, 3) { // more successful conversions
				if st.used != nil {
					q.unit = st.used.unit
				} else if st.remaining != nil {
					q.unit = st.remaining.unit
				}
			}
			vendingDispense(t, m, srv, ref, name, q, viaRPC)
			if rule, detail := vendingCompareAll(t, m, ref); rule != "" && !t.dead {
				t.viol(rule, "DispenseInstantly", "inventory after the call: %s (before: %s)", detail, pre)
				vendingResync(t, m, ref)
			}
		case k < 74: // a request without quantity (sc-api: the consumable's default_portion applies): must not panic
			t.log("rpc Dispense(%s, <no quantity>)", name)
			if !t.try("Server.Dispense:no-quantity", func() {
				_, _ = srv.Dispense(context.Background(), &traits.DispenseRequest{Name: "dev", Consumable: name})
			}) {
				return
			}
			r.Count("vending/open-domain:dispense-without-quantity", 1)
			vendingResync(t, m, ref)
		case k < 88: // UpdateStock, whole record
			ns := genStock(rng)
			t.log("UpdateStock(%s %v)", name, ns)
			_, known := ref[name]
			var got *traits.Consumable_Stock
			var err error
			if !t.try("UpdateStock", func() { got, err = m.UpdateStock(ns.msg(name)) }) {
				return
			}
			r.Eval(1)
			r.Count("vending/stock-updates", 1)
			if !known {
				if err == nil {
					t.viol("unknown-stock-accepted", "UpdateStock", "no error updating unknown stock %q", name)
					vendingResync(t, m, ref)
				}
				break
			}
			ref[name] = ns
			if err != nil || !sameStock(got, name, ns) {
				t.viol("stock-record", "UpdateStock", "returned %s, %v; want %v", vk.JSON(got), err, ns)
				vendingResync(t, m, ref)
			}
		case k < 94: // CreateStock
			ns := genStock(rng)
			t.log("CreateStock(%s %v)", name, ns)
			_, known := ref[name]
			var err error
			if !t.try("CreateStock", func() { _, err = m.CreateStock(ns.msg(name)) }) {
				return
			}
			r.Eval(1)
			if known != (err != nil) {
				t.viol("stock-record", "CreateStock", "known=%v but error=%v", known, err)
				vendingResync(t, m, ref)
				break
			}
			if !known {
				ref[name] = ns
			}
		default: // DeleteStock
			t.log("DeleteStock(%s)", name)
			_, known := ref[name]
			var err error
			if !t.try("DeleteStock", func() { _, err = m.DeleteStock(name) }) {
				return
			}
			r.Eval(1)
			if known != (err == nil) {
				t.viol("stock-record", "DeleteStock", "known=%v but error=%v", known, err)
				vendingResync(t, m, ref)
				break
			}
			delete(ref, name)
		}
		if !t.dead && rng.Chance(1, 6) {
			if rule, detail := vendingCompareAll(t, m, ref); rule != "" && !t.dead {
				t.viol(rule, "ListInventory", "%s (want %s)", detail, ref)
				vendingResync(t, m, ref)
			}
		}
	}
}

// tol32 is the accepted distance from the exact value for a float32 result computed from operands of the given size.
func tol32(scale float64) float64 { return 0x1p-21*scale + 1e-44 }

func vendingDispense(t *tc, m *vendingpb.Model, srv *vendingpb.ModelServer, ref vendingRef, name string, q *qty, viaRPC bool) {
	r := t.r
	op := "DispenseInstantly"
	if viaRPC {
		op = "Server.Dispense"
		t.log("rpc Dispense(%s, %v)", name, q)
	} else {
		t.log("DispenseInstantly(%s, %v)", name, q)
	}
	st := ref[name]
	opClass := op
	if st != nil {
		opClass = op + ":" + st.presence()
	}
	var got *traits.Consumable_Stock
	var err error
	ok := t.try(opClass, func() {
		if viaRPC {
			got, err = srv.Dispense(context.Background(), &traits.DispenseRequest{Name: "dev", Consumable: name, Quantity: q.msg()})
		} else {
			got, err = m.DispenseInstantly(name, q.msg())
		}
	})
	if !ok {
		return
	}
	r.Eval(1)
	r.Count("vending/dispenses", 1)
	if st == nil {
		r.Distinct("vending|dispense-unknown|" + name)
		if err == nil {
			t.viol("unknown-stock-accepted", op, "dispensing from unknown stock %q returned %s without an error", name, vk.JSON(got))
			vendingResync(t, m, ref)
		}
		return
	}
	r.Distinct(fmt.Sprintf("vending|dispense|%v|%v", st, q))

	// the specification
	fu, uok, uknown := big.NewRat(1, 1), true, true
	if st.used != nil {
		fu, uok, uknown = refFactor(q.unit, st.used.unit)
	}
	fr, rok, rknown := big.NewRat(1, 1), true, true
	if st.remaining != nil {
		fr, rok, rknown = refFactor(q.unit, st.remaining.unit)
	}
	if !uknown || !rknown {
		r.Count("vending/cup-size-unknown-skipped", 1)
		vendingResync(t, m, ref)
		return
	}
	if r.WantSample("vending-dispense-" + st.presence()) {
		r.Sample("vending-dispense-"+st.presence(), map[string]any{"before": st.String(), "quantity": q.String(), "returned": vk.JSON(got), "error": errStr(err)})
	}
	if !uok || !rok {
		r.Count("vending/dispense-impossible-conversion", 1)
		if err == nil {
			t.viol("error-swallowed", op, "quantity %v cannot be converted to the stock's units %v but no error was returned (result %s)", q, st, vk.JSON(got))
		}
		// nothing may have changed; vendingCompareAll (caller) checks the stored record against the unchanged ref
		return
	}
	if err != nil {
		t.viol("unexpected-error", op, "dispensing %v from %v returned error %v", q, st, err)
		vendingResync(t, m, ref)
		return
	}
	if got == nil {
		t.viol("returned-stock", op, "dispensing %v from %v returned neither stock nor error", q, st)
		vendingResync(t, m, ref)
		return
	}
	if (st.used != nil && q.unit != st.used.unit) || (st.remaining != nil && q.unit != st.remaining.unit) {
		r.Count("vending/dispense-cross-unit", 1)
	}
	next := &refStock{last: q}
	bad := false
	qa := ratOf(float64(q.amount))
	if st.used != nil {
		delta := new(big.Rat).Mul(qa, fu)
		want := new(big.Rat).Add(ratOf(float64(st.used.amount)), delta)
		scale := math.Max(math.Abs(float64(st.used.amount)), math.Max(ratFloat(delta), ratFloat(want)))
		switch {
		case got.Used == nil:
			t.viol("used-amount", opClass, "used disappeared: before %v, dispensed %v", st, q)
			bad = true
		case got.Used.Unit != st.used.unit:
			t.viol("used-unit", opClass, "used is now in %v, was %v (dispensed %v)", got.Used.Unit, st.used, q)
			bad = true
		case !closeRat(float64(got.Used.Amount), want, 0, 0, tol32(scale)):
			t.viol("used-amount", opClass, "used = %v, want %v + %v = %s %v", got.Used.Amount, st.used, q, want.FloatString(6), st.used.unit)
			bad = true
		default:
			next.used = &qty{amount: got.Used.Amount, unit: st.used.unit}
		}
	} else if got.Used != nil {
		t.viol("used-amount", opClass, "used appeared (%v) although the stock had none", got.Used)
		bad = true
	}
	if st.remaining != nil {
		delta := new(big.Rat).Mul(qa, fr)
		want := new(big.Rat).Sub(ratOf(float64(st.remaining.amount)), delta)
		scale := math.Max(math.Abs(float64(st.remaining.amount)), math.Max(ratFloat(delta), math.Abs(ratFloat(want))))
		if want.Sign() <= 0 {
			want = new(big.Rat)
			r.Count("vending/dispense-floor-at-zero", 1)
		}
		switch {
		case got.Remaining == nil:
			t.viol("remaining-amount", opClass, "remaining disappeared: before %v, dispensed %v", st, q)
			bad = true
		case got.Remaining.Unit != st.remaining.unit:
			t.viol("remaining-unit", opClass, "remaining is now in %v, was %v (used is %v, dispensed %v)", got.Remaining.Unit, st.remaining, st.used, q)
			bad = true
		case got.Remaining.Amount < 0:
			t.viol("remaining-negative", opClass, "remaining = %v after dispensing %v from %v", got.Remaining.Amount, q, st)
			bad = true
		case !closeRat(float64(got.Remaining.Amount), want, 0, 0, tol32(scale)):
			t.viol("remaining-amount", opClass, "remaining = %v, want max(0, %v - %v) = %s %v", got.Remaining.Amount, st.remaining, q, want.FloatString(6), st.remaining.unit)
			bad = true
		default:
			next.remaining = &qty{amount: got.Remaining.Amount, unit: st.remaining.unit}
		}
	} else if got.Remaining != nil {
		t.viol("remaining-amount", opClass, "remaining appeared (%v) although the stock had none", got.Remaining)
		bad = true
	}
	if !sameQty(got.LastDispensed, q) {
		t.viol("last-dispensed", op, "last_dispensed = %v after dispensing %v", got.LastDispensed, q)
		bad = true
	}
	if got.Consumable != name {
		t.viol("returned-stock", op, "returned stock of %q when dispensing %q", got.Consumable, name)
		bad = true
	}
	if got.Dispensing {
		r.Count("vending/open-domain:dispensing-true-after-instant-dispense", 1)
	}
	if bad {
		vendingResync(t, m, ref)
		return
	}
	ref[name] = next
}

func vendingCompareAll(t *tc, m *vendingpb.Model, ref vendingRef) (rule, detail string) {
	var inv []*traits.Consumable_Stock
	if !t.try("ListInventory", func() { inv = m.ListInventory() }) {
		return "panic", "ListInventory panicked"
	}
	seen := map[string]bool{}
	for _, s := range inv {
		want, ok := ref[s.GetConsumable()]
		if !ok || seen[s.GetConsumable()] {
			return "stock-set", fmt.Sprintf("unexpected or repeated stock %q (want %v)", s.GetConsumable(), sortedKeys(ref))
		}
		seen[s.GetConsumable()] = true
		if !sameStock(s, s.GetConsumable(), want) {
			return "stock-record", fmt.Sprintf("stock %q is %s, want %v", s.GetConsumable(), vk.JSON(s), want)
		}
		// the keyed getter agrees with the list
		var one *traits.Consumable_Stock
		var exists bool
		if !t.try("GetStock", func() { one, exists = m.GetStock(s.GetConsumable()) }) {
			return "panic", "GetStock panicked"
		}
		if !exists || !proto.Equal(one, s) {
			return "stock-record", fmt.Sprintf("GetStock(%q) = %s, %v but ListInventory has %s", s.GetConsumable(), vk.JSON(one), exists, vk.JSON(s))
		}
	}
	for n := range ref {
		if !seen[n] {
			return "stock-set", fmt.Sprintf("stock %q missing from ListInventory", n)
		}
	}
	return "", ""
}

func vendingResync(t *tc, m *vendingpb.Model, ref vendingRef) {
	var inv []*traits.Consumable_Stock
	if !t.try("ListInventory", func() { inv = m.ListInventory() }) {
		return
	}
	for k := range ref {
		delete(ref, k)
	}
	for _, s := range inv {
		ref[s.GetConsumable()] = refStockOf(s)
	}
}
