package main

import (
	"context"
	"fmt"
	"runtime"
	"sort"
	"strings"
	"sync"
	"sync/atomic"

	"github.com/smart-core-os/sc-api/go/traits"
	"google.golang.org/grpc/codes"
	"google.golang.org/grpc/status"
	"google.golang.org/protobuf/proto"

	"github.com/smart-core-os/sc-golang/internal/verif/vk"
	"github.com/smart-core-os/sc-golang/pkg/resource"
	"github.com/smart-core-os/sc-golang/pkg/trait/electricpb"
)

// concRes is what one worker saw of one of its operations.
type concRes struct {
	Worker int    `json:"worker"`
	Op     string `json:"op"`
	ID     string `json:"id"`
	Result string `json:"result"`
}

// concurrent runs 2-4 goroutines issuing the operations on one model under pseudo-random yields at the library's
// hook points. "All operations finished" is decided by vk.Quiesce (every goroutine blocked) and Task.Done, never
// by sleeping. The model clock returns a fresh, larger instant on every reading.
func concurrent(r *vk.Run) {
	n := r.Pick(4000, 40000)
	// mix C (the cases after the first n): every operation competes for the one normal slot (updates to and from normal,
	// normal adds and creates, deletes), so that two such writers overlap in most cases instead of a few per thousand
	nC := r.Pick(2000, 20000)
	sched := vk.NewSched()
	defer sched.Close()
	t := newTally()
	defer t.flush(r)
	targets := []string{"a0", "a1", "a2", "c0", "c1", "ghost"}

	for i := 0; i < n+nC; i++ {
		if !r.Mine(i) {
			continue
		}
		rng := r.CaseRand("c19-conc", i)
		// mix A never updates a mode to normal, so only create/add compete for the normal slot; mix B uses every operation
		mix := "A"
		if i%2 == 1 {
			mix = "B"
		}
		if i >= n {
			mix = "C"
		}
		clk := &tickClock{}
		init := genInit(rng)
		w := newWorld(clk, uint64(i)*0x9E3779B97F4A7C15+r.Seed+7, false, init...)
		var changed atomic.Bool
		if len(init) > 0 && rng.Bool() {
			if _, err := w.m.ChangeActiveMode(init[0].Id); err == nil {
				changed.Store(true)
			}
		}
		var initDesc []string
		for _, m := range init {
			initDesc = append(initDesc, modeStr(m))
		}

		msub := subscribeModes(w, "model", true)
		asub := subscribeActive(w, "model", true)
		lossy := subscribeModes(w, "model", false)

		nw := rng.Range(2, 4)
		plans := make([][]op, nw)
		for p := range plans {
			k := rng.Range(6, 10)
			for j := 0; j < k; j++ {
				door := "model"
				if rng.Bool() {
					door = "server"
				}
				if mix == "C" {
					plans[p] = append(plans[p], genNormalRaceOp(rng, door))
					continue
				}
				plans[p] = append(plans[p], genOp(rng, door, targets, mix == "B", false))
			}
		}
		stressSeed := rng.Uint64() | 1

		var (
			resMu     sync.Mutex
			results   []concRes
			started   atomic.Int64 // active-mode operations begun
			finished  atomic.Int64 // active-mode operations returned
			remaining atomic.Int64
			snapshots int
			windows   int
		)
		type pending struct{ key, detail string }
		var pend []pending // violations found on worker/observer goroutines, reported after the run
		report := func(key, format string, a ...any) {
			resMu.Lock()
			pend = append(pend, pending{key, fmt.Sprintf(format, a...)})
			resMu.Unlock()
		}
		remaining.Store(int64(nw))
		sched.Stress(stressSeed)

		var tasks []*vk.Task
		for p := 0; p < nw; p++ {
			p := p
			tasks = append(tasks, vk.Go(func() {
				defer remaining.Add(-1)
				for _, o := range plans[p] {
					id := w.resolve(o.Target)
					var f1, s1 int64
					var a1 *traits.ElectricMode
					if o.Kind == "delete" {
						f1 = finished.Load()
						s1 = started.Load()
						a1 = w.m.ActiveMode()
					}
					if o.isActiveOp() {
						started.Add(1)
					}
					t0 := clk.Peek()
					out := w.exec(o, id)
					t1 := clk.Peek()
					if o.isActiveOp() {
						if out.ok() {
							changed.Store(true)
						}
						finished.Add(1)
					}
					resMu.Lock()
					results = append(results, concRes{Worker: p, Op: o.String(), ID: id, Result: out.class()})
					resMu.Unlock()
					kop := o.keyOp()
					if out.Panic != "" {
						report("C19/panic/"+kop, "panic on a well-formed %s: %s", o, out.Panic)
						continue
					}
					switch o.Kind {
					case "delete":
						// the active mode is never deleted: decidable when no active-mode operation overlapped the call
						a2 := w.m.ActiveMode()
						s2 := started.Load()
						if s1 == f1 && s2 == s1 && a1.GetId() == id && a2.GetId() == id && id != "" {
							if out.ok() && !o.AM {
								report("C19/active-deleted/delete@concurrent", "worker %d: %s [id %q] succeeded while %q was the active mode before and after the call and no set-active/change-active/clear-active overlapped it", p, o, id, id)
							}
						}
						// with allow-missing the mode is, at the moment the delete takes effect, either present (deleted, or refused
						// because it is active) or absent (success): NotFound has no place in any interleaving
						if o.AM && out.code() == codes.NotFound {
							report("C19/delete-absent/"+kop+"/allow-missing-notfound", "worker %d: %s [id %q] with allow-missing returned NotFound (%s)", p, o, id, errStr(out.Err))
						}
						// an id nobody ever adds is absent in every interleaving
						if o.Target == "ghost" {
							if o.AM && !out.ok() {
								report("C19/delete-absent/"+kop, "worker %d: %s of the never-existing id %q with allow-missing returned %s (%s) instead of succeeding", p, o, id, out.class(), errStr(out.Err))
							}
							if !o.AM && out.code() != codes.NotFound {
								report("C19/delete-absent/"+kop, "worker %d: %s of the never-existing id %q returned %s (%s) instead of NotFound", p, o, id, out.class(), errStr(out.Err))
							}
						}
					case "clear-active":
						// whatever the interleaving, the mode selected was the normal one at that moment
						if out.ok() && out.Mode != nil && !out.Mode.Normal {
							report("C19/clear-active/"+kop+"/returned-not-normal", "worker %d: %s returned %s, which is not marked normal", p, o, modeStr(out.Mode))
						}
						fallthrough
					case "change-active":
						// stored modes never carry a start time in this workload, so a start time is a clock stamp taken during the call
						if out.ok() && out.Mode.GetStartTime() != nil {
							tick, isTick := tickOf(out.Mode.StartTime.AsTime())
							if !isTick || tick <= t0 || tick > t1 {
								report("C19/start-time/"+kop+"/stamp-outside-call", "worker %d: %s returned start_time %s, not a reading of the model clock taken during the call (ticks %d..%d)", p, o, tsStr(out.Mode.StartTime), t0, t1)
							}
						}
					}
				}
			}))
		}
		// observer: atomic snapshots while the workers run
		var snapTwoNormal string
		observer := vk.Go(func() {
			for remaining.Load() > 0 {
				ms := w.m.Modes() // one List call under the collection's read lock: an atomic snapshot
				snapshots++
				if ns := normalIDs(ms); len(ns) > 1 && snapTwoNormal == "" {
					snapTwoNormal = fmt.Sprintf("a Modes() snapshot taken while the workers ran shows the normal modes %v", ns)
				}
				// active mode vs table: only when provably no active-mode operation ran between the two readings of it
				f1 := finished.Load()
				s1 := started.Load()
				was := changed.Load()
				if s1 == f1 {
					a1 := w.m.ActiveMode()
					ms2 := w.m.Modes()
					a2 := w.m.ActiveMode()
					if started.Load() == s1 {
						windows++
						if was && a1.GetId() == a2.GetId() && findMode(ms2, a1.GetId()) == nil {
							report("C19/active-missing/window@concurrent", "while no active-mode operation was running the active mode was %q before and after a Modes() snapshot that does not contain it: %v", a1.GetId(), snap{modes: ms2, active: a1})
						}
					}
				}
				runtime.Gosched()
			}
		})

		gs, ok := r.MustQuiesce("c19-conc")
		sched.Stress(0)
		if !ok {
			return
		}
		stuck := !observer.Done()
		for _, tk := range tasks {
			if !tk.Done() {
				stuck = true
			}
		}
		if stuck {
			r.Inconclusive("c19-conc-blocked", fmt.Sprintf("concurrent case %d: the process is quiescent but an operation has not returned\n%s", i, vk.DescribeGs(vk.LibraryGoroutines(gs, nil))))
			return
		}

		// ---- everything has returned and every subscriber has drained: judge
		t.evals++
		t.count("conc:runs")
		t.count("conc:runs-mix" + mix)
		t.c["conc:snapshots"] += snapshots
		t.c["conc:clean-windows"] += windows
		sort.SliceStable(results, func(a, b int) bool {
			if results[a].Worker != results[b].Worker {
				return results[a].Worker < results[b].Worker
			}
			return false
		})
		var outcomes []string
		for _, res := range results {
			t.count("conc:op:" + res.Op[:strings.IndexAny(res.Op, "(@")] + ":" + res.Result)
			outcomes = append(outcomes, res.Op+"="+res.Result)
		}
		t.c["conc:ops"] += len(results)
		sort.Strings(outcomes)
		t.seen(fmt.Sprintf("conc:%s:%d:%s", mix, nw, strings.Join(outcomes, ",")))
		replay := map[string]any{"stream": "c19-conc", "case": i, "seed": r.Seed, "mix": mix, "initial_modes": initDesc, "plans": plans, "stress_seed": stressSeed, "results": results}
		ctxDesc := func() string {
			var sb strings.Builder
			fmt.Fprintf(&sb, "\nconcurrent case %d (mix %s, %d workers, initial modes %v); per-worker results:", i, mix, nw, initDesc)
			for _, res := range results {
				fmt.Fprintf(&sb, "\n  w%d %s [id %q] = %s", res.Worker, res.Op, res.ID, res.Result)
			}
			return sb.String()
		}
		viol := func(key, format string, a ...any) {
			r.Violation(key, fmt.Sprintf(format, a...)+ctxDesc(), replay)
		}
		for _, p := range pend {
			viol(p.key, "%s", p.detail)
		}

		final := w.observe()
		// the backpressured PullModes stream is the sequence of committed tables
		evs := msub.snapshot()
		view, firstBad := foldModes(evs, true)
		t.c["conc:stream-states"] += len(evs)
		streamFlagged := false
		if firstBad != nil {
			streamFlagged = true
			viol("C19/two-normal/"+firstBad.class()+"@concurrent", "the committed states seen through a backpressured PullModes stream include one with two normal modes, entered by the event %s", firstBad)
		}
		if snapTwoNormal != "" && !streamFlagged {
			viol("C19/two-normal/snapshot-only@concurrent", "%s (the PullModes stream did not show such a state)", snapTwoNormal)
		}
		if ns := final.normals(); len(ns) > 1 && !streamFlagged {
			viol("C19/two-normal/final-only@concurrent", "at the final quiescent point the modes %v are all normal (the PullModes stream did not show such a state): %s", ns, final)
		}
		if changed.Load() {
			t.count("conc:final-active-checked")
			if !final.has(final.active.GetId()) {
				viol("C19/active-missing/final@concurrent", "at the final quiescent point the active mode %q is not among Modes(): %s", final.active.GetId(), final)
			}
		}
		t.count("fold:modes-compared")
		if d := diffView(view, final.modes); d != "" {
			viol("C19/pull-fold/modes/model+backpressure/concurrent", "the PullModes stream folds to a different table than Modes() at the final quiescent point: %s; %s", d, final)
		}
		lview, _ := foldModes(lossy.snapshot(), false)
		t.count("fold:modes-compared")
		if d := diffView(lview, final.modes); d != "" {
			viol("C19/pull-fold/modes/model/concurrent", "the lossy PullModes stream folds to a different table than Modes() at the final quiescent point: %s; %s", d, final)
		}
		aevs := asub.snapshot()
		t.count("fold:active-compared")
		t.c["conc:active-events"] += len(aevs)
		if len(aevs) == 0 || !proto.Equal(aevs[len(aevs)-1], final.active) {
			last := "<none>"
			if len(aevs) > 0 {
				last = modeStr(aevs[len(aevs)-1])
			}
			viol("C19/pull-fold/active-mode/model+backpressure/concurrent", "the last PullActiveMode event is %s but ActiveMode() is %s at the final quiescent point", last, modeStr(final.active))
		}
		// every switch to a different mode made by change-active/clear-active carries a fresh clock stamp
		lastTick := int64(0)
		for k := 1; k < len(aevs); k++ {
			prev, cur := aevs[k-1], aevs[k]
			if cur.GetId() == prev.GetId() || cur.GetTitle() == "SET" {
				continue
			}
			t.count("conc:stream-switches")
			tick, isTick := int64(0), false
			if cur.StartTime != nil {
				tick, isTick = tickOf(cur.StartTime.AsTime())
			}
			if !isTick || tick <= lastTick || tick > clk.Peek() {
				viol("C19/start-time/stream@concurrent", "the PullActiveMode stream shows a switch from %q to %q whose start_time %s is not a fresh reading of the model clock (previous stamp tick %d, clock now at tick %d)", prev.GetId(), cur.GetId(), tsStr(cur.StartTime), lastTick, clk.Peek())
			}
			if isTick {
				lastTick = tick
			}
		}
		msub.cancel()
		asub.cancel()
		lossy.cancel()
		if r.WantSample("concurrent-" + mix) {
			r.Sample("concurrent-"+mix, map[string]any{"case": i, "workers": nw, "initial_modes": initDesc, "results": results, "final": final.String(), "modes_events": len(evs), "active_events": len(aevs), "snapshots": snapshots, "clean_windows": windows})
		}
	}
}

// deleteStorm: several goroutines released together delete the same existing, non-active mode (Model API or
// ModelServer RPC). With allow-missing every one of them succeeds; without it exactly one does and the others get
// NotFound; afterwards the mode is gone and the active mode untouched.
func deleteStorm(r *vk.Run) {
	rounds := r.Pick(6000, 200000)
	t := newTally()
	defer t.flush(r)
	w := newWorld(&tickClock{}, r.Seed+99, false, &traits.ElectricMode{Id: "keep", Normal: true})
	if _, err := w.m.ChangeActiveMode("keep"); err != nil {
		r.Inconclusive("c19-storm-setup", err.Error())
		return
	}
	for i := 0; i < rounds; i++ {
		if !r.Mine(i) {
			continue
		}
		rng := r.CaseRand("c19-storm", i)
		id := fmt.Sprintf("m%d", i)
		if err := w.m.AddMode(&traits.ElectricMode{Id: id, Title: "storm"}); err != nil {
			r.Violation("C19/panic/storm-setup", fmt.Sprintf("round %d: AddMode(%s): %v", i, id, err), nil)
			return
		}
		k := rng.Range(2, 4)
		am := rng.Chance(2, 3)
		server := rng.Bool()
		door := "model"
		if server {
			door = "server"
		}
		start := make(chan struct{})
		errs := make([]error, k)
		var wg sync.WaitGroup
		for g := 0; g < k; g++ {
			g := g
			wg.Add(1)
			go func() {
				defer wg.Done()
				<-start
				if server {
					_, errs[g] = w.srv.DeleteMode(context.Background(), &electricpb.DeleteModeRequest{Id: id, AllowMissing: am})
				} else {
					errs[g] = w.m.DeleteMode(id, resource.WithAllowMissing(am))
				}
			}()
		}
		close(start)
		wg.Wait()
		t.evals++
		t.count("storm:rounds")
		okN, nfN := 0, 0
		var other []string
		for _, e := range errs {
			switch status.Code(e) {
			case codes.OK:
				okN++
			case codes.NotFound:
				nfN++
			default:
				other = append(other, e.Error())
			}
		}
		t.seen(fmt.Sprintf("storm:%s:am=%v:k=%d:ok=%d:nf=%d", door, am, k, okN, nfN))
		replay := map[string]any{"stream": "storm", "round": i, "door": door, "allow_missing": am, "deleters": k}
		switch {
		case len(other) > 0:
			r.Violation("C19/delete-absent/delete@"+door+"/storm-other-error", fmt.Sprintf("round %d: %d concurrent deletes (allow_missing=%v) of the existing, non-active mode %q: unexpected errors %v", i, k, am, id, other), replay)
		case am && nfN > 0:
			r.Violation("C19/delete-absent/delete-allow-missing@"+door+"/allow-missing-notfound", fmt.Sprintf("round %d: %d concurrent deletes with allow-missing of the existing mode %q: %d succeeded, %d returned NotFound", i, k, id, okN, nfN), replay)
		case !am && okN != 1:
			r.Violation("C19/delete-absent/delete@"+door+"/storm-winners", fmt.Sprintf("round %d: %d concurrent deletes without allow-missing of the existing mode %q: %d succeeded (want exactly 1), %d NotFound", i, k, id, okN, nfN), replay)
		}
		if _, still := w.m.FindMode(id); still {
			r.Violation("C19/delete-absent/delete@"+door+"/storm-still-present", fmt.Sprintf("round %d: mode %q still exists after %d deletes returned", i, id, k), replay)
		}
		if a := w.m.ActiveMode(); a.GetId() != "keep" {
			r.Violation("C19/active-missing/storm", fmt.Sprintf("round %d: active mode became %q", i, a.GetId()), replay)
			return
		}
	}
}

// genNormalRaceOp draws an operation of mix C: a writer that may claim or give up the normal slot.
func genNormalRaceOp(rng *vk.Rand, door string) op {
	ids := []string{"a0", "a1", "a2"}
	o := op{Target: ids[rng.Intn(len(ids))], Door: door}
	switch rng.Intn(8) {
	case 0:
		o.Kind, o.Target, o.Normal = "create", "", rng.Chance(2, 3)
	case 1:
		o.Kind, o.Normal = "add", rng.Chance(2, 3)
	case 2:
		o.Kind, o.AM = "delete", rng.Bool()
	default:
		o.Kind, o.Normal = "update", rng.Chance(2, 3)
		o.Mask = rng.PickStr("normal", "normal", "none", "title+normal")
	}
	return o.cached()
}
