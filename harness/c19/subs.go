package main

import (
	"context"
	"fmt"
	"sort"
	"strings"
	"sync"

	"github.com/smart-core-os/sc-api/go/traits"
	"github.com/smart-core-os/sc-api/go/types"
	"google.golang.org/protobuf/proto"

	"github.com/smart-core-os/sc-golang/pkg/resource"
)

// modesEv is one PullModes change as delivered (the harness only reads the messages).
type modesEv struct {
	typ      types.ChangeType
	old, new *traits.ElectricMode
}

func (e modesEv) String() string {
	return fmt.Sprintf("%s old=%s new=%s", e.typ, modeStr(e.old), modeStr(e.new))
}

// class names the kind of operation that produces such an event.
func (e modesEv) class() string {
	switch e.typ {
	case types.ChangeType_ADD:
		return "create-or-add"
	case types.ChangeType_UPDATE, types.ChangeType_REPLACE:
		return "update"
	case types.ChangeType_REMOVE:
		return "delete"
	}
	return "unspecified"
}

// modesSub is a PullModes subscription drained by a harness goroutine into a mutex-guarded log.
type modesSub struct {
	via string // model | client
	bp  bool   // resource.WithBackpressure(true): every event is delivered, in commit order

	mu     sync.Mutex
	evs    []modesEv
	closed bool
	err    error
	cancel context.CancelFunc
}

func (s *modesSub) String() string {
	if s.bp {
		return s.via + "+backpressure"
	}
	return s.via
}

func (s *modesSub) snapshot() []modesEv {
	s.mu.Lock()
	defer s.mu.Unlock()
	return append([]modesEv(nil), s.evs...)
}

func (s *modesSub) add(e modesEv) {
	s.mu.Lock()
	s.evs = append(s.evs, e)
	s.mu.Unlock()
}

func subscribeModes(w *world, via string, bp bool) *modesSub {
	ctx, cancel := context.WithCancel(context.Background())
	s := &modesSub{via: via, bp: bp, cancel: cancel}
	switch via {
	case "model":
		var opts []resource.ReadOption
		if bp {
			opts = append(opts, resource.WithBackpressure(true))
		}
		ch := w.m.PullModes(ctx, opts...)
		go func() {
			for c := range ch {
				s.add(modesEv{typ: c.Type, old: c.OldValue, new: c.NewValue})
			}
			s.mu.Lock()
			s.closed = true
			s.mu.Unlock()
		}()
	case "client":
		stream, err := w.api.PullModes(ctx, &traits.PullModesRequest{Name: devName})
		if err != nil {
			s.err, s.closed = err, true
			return s
		}
		go func() {
			for {
				resp, err := stream.Recv()
				if err != nil {
					s.mu.Lock()
					s.closed, s.err = true, err
					s.mu.Unlock()
					return
				}
				for _, c := range resp.Changes {
					s.add(modesEv{typ: c.Type, old: c.OldValue, new: c.NewValue})
				}
			}
		}()
	}
	return s
}

// foldModes replays the events into a table. With every (in commit order) it also returns the first event after
// which the table holds two normal modes.
func foldModes(evs []modesEv, every bool) (view map[string]*traits.ElectricMode, firstBad *modesEv) {
	view = map[string]*traits.ElectricMode{}
	normals := 0
	for i := range evs {
		e := evs[i]
		if e.old != nil && (e.new == nil || e.new.GetId() != e.old.GetId()) {
			delete(view, e.old.GetId())
		}
		if e.new != nil {
			view[e.new.GetId()] = e.new
		}
		if every {
			n := 0
			for _, m := range view {
				if m.GetNormal() {
					n++
				}
			}
			if n > 1 && normals <= 1 && firstBad == nil {
				firstBad = &evs[i]
			}
			normals = n
		}
	}
	return view, firstBad
}

// diffView compares a folded table with a Modes() result; "" when they agree.
func diffView(view map[string]*traits.ElectricMode, modes []*traits.ElectricMode) string {
	var diffs []string
	seen := map[string]bool{}
	for _, m := range modes {
		seen[m.GetId()] = true
		v, ok := view[m.GetId()]
		switch {
		case !ok:
			diffs = append(diffs, fmt.Sprintf("mode %q missing from the folded view", m.GetId()))
		case !proto.Equal(v, m):
			diffs = append(diffs, fmt.Sprintf("mode %q folded as %s, stored as %s", m.GetId(), modeStr(v), modeStr(m)))
		}
	}
	for id := range view {
		if !seen[id] {
			diffs = append(diffs, fmt.Sprintf("folded view still holds %q", id))
		}
	}
	sort.Strings(diffs)
	return strings.Join(diffs, "; ")
}

// activeSub is a PullActiveMode subscription drained into a log.
type activeSub struct {
	via string
	bp  bool

	mu     sync.Mutex
	evs    []*traits.ElectricMode
	closed bool
	err    error
	cancel context.CancelFunc
}

func (s *activeSub) String() string {
	if s.bp {
		return s.via + "+backpressure"
	}
	return s.via
}

func (s *activeSub) snapshot() []*traits.ElectricMode {
	s.mu.Lock()
	defer s.mu.Unlock()
	return append([]*traits.ElectricMode(nil), s.evs...)
}

func (s *activeSub) add(m *traits.ElectricMode) {
	s.mu.Lock()
	s.evs = append(s.evs, m)
	s.mu.Unlock()
}

func subscribeActive(w *world, via string, bp bool) *activeSub {
	ctx, cancel := context.WithCancel(context.Background())
	s := &activeSub{via: via, bp: bp, cancel: cancel}
	switch via {
	case "model":
		var opts []resource.ReadOption
		if bp {
			opts = append(opts, resource.WithBackpressure(true))
		}
		ch := w.m.PullActiveMode(ctx, opts...)
		go func() {
			for c := range ch {
				s.add(c.ActiveMode)
			}
			s.mu.Lock()
			s.closed = true
			s.mu.Unlock()
		}()
	case "client":
		stream, err := w.api.PullActiveMode(ctx, &traits.PullActiveModeRequest{Name: devName})
		if err != nil {
			s.err, s.closed = err, true
			return s
		}
		go func() {
			for {
				resp, err := stream.Recv()
				if err != nil {
					s.mu.Lock()
					s.closed, s.err = true, err
					s.mu.Unlock()
					return
				}
				for _, c := range resp.Changes {
					s.add(c.ActiveMode)
				}
			}
		}()
	}
	return s
}
