package main

import (
	"fmt"
	"strings"
	"time"

	"github.com/smart-core-os/sc-api/go/traits"
	"google.golang.org/grpc/codes"
	"google.golang.org/protobuf/proto"

	"github.com/smart-core-os/sc-golang/internal/verif/vk"
)

// seqCase is one sequentially executed operation sequence on a fresh model.
type seqCase struct {
	r       *vk.Run
	t       *tally
	stream  string
	idx     int
	w       *world
	clk     *manualClock
	targets []string  // symbolic targets used for the abstract state descriptor
	hist    []stepRec // executed operations with their results (rendered only when needed)
	ops     []op
	changed bool // a set-active / change-active / clear-active has succeeded at least once
	pre     snap
	ref     *refTable
	init    []string
	// everTwoNormal: Modes() after some step showed two normal modes (reported there with the operation)
	everTwoNormal bool
}

func newSeqCase(r *vk.Run, t *tally, stream string, idx int, clients bool, targets []string, init ...*traits.ElectricMode) *seqCase {
	return newSeqCasePlaceholder(r, t, stream, idx, clients, targets, "", init...)
}

func newSeqCasePlaceholder(r *vk.Run, t *tally, stream string, idx int, clients bool, targets []string, placeholder string, init ...*traits.ElectricMode) *seqCase {
	c := &seqCase{r: r, t: t, stream: stream, idx: idx, clk: newManualClock(), targets: targets}
	if placeholder != "" {
		c.init = append(c.init, "placeholder active mode id="+placeholder)
	}
	c.w = newWorldPlaceholder(c.clk, uint64(idx)*0x9E3779B97F4A7C15+r.Seed, clients, placeholder, init...)
	c.w.futureStamps = true
	c.pre = c.w.observe()
	c.ref = &refTable{modes: map[string]bool{}}
	for _, m := range init {
		c.ref.modes[m.Id] = m.Normal
		c.init = append(c.init, modeStr(m))
	}
	return c
}

func (c *seqCase) replay() any {
	return map[string]any{"stream": c.stream, "case": c.idx, "seed": c.r.Seed, "initial_modes": c.init, "ops": c.ops}
}

// stepRec is one executed step.
type stepRec struct {
	now  time.Time
	o    op
	id   string
	out  outcome
	post snap
}

func (s stepRec) String() string {
	res := s.out.class()
	if s.out.Err != nil {
		res += " (" + s.out.Err.Error() + ")"
	}
	if s.out.Mode != nil {
		res += " -> " + modeStr(s.out.Mode)
	}
	return fmt.Sprintf("t=%s %s [id %q] = %s ; then %s", s.now.Format("15:04:05.000000000"), s.o, s.id, res, s.post)
}

func (c *seqCase) history() []string {
	h := make([]string, len(c.hist))
	for i, s := range c.hist {
		h[i] = s.String()
	}
	return h
}

func (c *seqCase) viol(key, format string, a ...any) {
	if c.r.Violated(key) {
		c.r.Violation(key, "", nil) // counted; the first witness is kept
		return
	}
	h := c.history()
	if len(h) > 12 {
		h = append([]string{fmt.Sprintf("… %d earlier steps …", len(h)-12)}, h[len(h)-12:]...)
	}
	c.r.Violation(key, fmt.Sprintf(format, a...)+"\n"+c.stream+" case "+fmt.Sprint(c.idx)+", initial modes "+fmt.Sprint(c.init)+", steps:\n  "+strings.Join(h, "\n  "), c.replay())
}

// absState renders the abstract state used for the distinct-case descriptor.
func (c *seqCase) absState(s snap) string {
	var b strings.Builder
	present := 0
	activeSym := "other"
	if s.active.GetId() == "" {
		activeSym = "dummy"
	}
	for _, t := range c.targets {
		id := c.w.resolve(t)
		m := s.find(id)
		switch {
		case m == nil:
			b.WriteByte('-')
		case m.Normal:
			b.WriteByte('N')
			present++
		default:
			b.WriteByte('p')
			present++
		}
		if s.active.GetId() == id {
			activeSym = t
		}
	}
	extra := len(s.modes) - present
	if extra > 2 {
		extra = 2
	}
	fmt.Fprintf(&b, "+%d/%s", extra, activeSym)
	return b.String()
}

// step advances the fake clock to a fresh instant, executes one operation on the real model and evaluates every
// clause of the statement on (state before, operation, result, state after, clock).
func (c *seqCase) step(o op, advance time.Duration) {
	id := c.w.resolve(o.Target)
	now := c.clk.Advance(advance)
	pre := c.pre
	preAbs := c.absState(pre)
	out := c.w.exec(o, id)
	post := c.w.observe()
	c.pre = post
	c.ops = append(c.ops, o)
	c.hist = append(c.hist, stepRec{now: now, o: o, id: id, out: out, post: post})

	t := c.t
	t.evals++
	kop := o.keyOp()
	t.count("op:" + kop + ":" + out.class())
	t.seen(preAbs + "|" + o.String() + "|" + out.class())

	if out.Panic != "" {
		c.viol("C19/panic/"+kop, "panic on a well-formed %s: %s", o, out.Panic)
		c.ref.resync(post, c.changed)
		return
	}
	ok := out.ok()
	changedAfter := c.changed || (o.isActiveOp() && ok)
	preN, postN := pre.normals(), post.normals()

	// clause 1: at most one mode is marked normal
	if o.setsNormal() {
		other := false
		for _, n := range preN {
			if n != id {
				other = true
			}
		}
		if other && (o.Kind != "update" || pre.has(id)) {
			t.count("premise:second-normal/" + o.Kind)
			if ok {
				t.count("second-normal-accepted/" + o.Kind)
			} else {
				t.count("second-normal-refused/" + o.Kind + ":" + out.class())
			}
		}
	}
	if len(postN) > 1 {
		c.everTwoNormal = true
	}
	if len(postN) > 1 && len(preN) <= 1 {
		c.viol("C19/two-normal/"+kop, "after %s [id %q] (result %s) the modes %v are all marked normal; before: %s; after: %s", o, id, out.class(), postN, pre, post)
	}

	// clause 3: once changed, the active mode always refers to a mode that exists
	if changedAfter {
		if post.has(post.active.GetId()) {
			t.count("premise:active-exists-after-change")
		} else if !(c.changed && !pre.has(pre.active.GetId())) {
			c.viol("C19/active-missing/"+kop, "after %s [id %q] (result %s) the active mode %q is not among Modes(); before: %s; after: %s", o, id, out.class(), post.active.GetId(), pre, post)
		}
	}
	if (o.Kind == "set-active" || o.Kind == "change-active") && !pre.has(id) {
		t.count("premise:activate-absent")
		if ok {
			t.count("activate-absent-accepted/" + o.Kind)
		}
	}

	// clause 2: the active mode is never deleted
	if o.Kind == "delete" && pre.has(id) && pre.active.GetId() == id {
		t.count("premise:delete-active")
		switch {
		case ok && !post.has(id):
			c.viol("C19/active-deleted/"+kop, "%s [id %q] succeeded although %q was the active mode; before: %s; after: %s", o, id, id, pre, post)
		case ok:
			t.count("delete-active-ok-but-still-present")
		case !post.has(id):
			c.viol("C19/active-deleted/"+kop, "%s [id %q] returned %s but the active mode %q is gone; before: %s; after: %s", o, id, out.class(), id, pre, post)
		}
	}

	// clause 4: clearing the active mode selects the normal mode
	if o.Kind == "clear-active" {
		switch len(preN) {
		case 1:
			t.count("premise:clear-active/one-normal")
			switch {
			case !ok:
				c.viol("C19/clear-active/"+kop+"/failed", "%s returned %s (%s) although %q is the normal mode; before: %s", o, out.class(), errStr(out.Err), preN[0], pre)
			case post.active.GetId() != preN[0]:
				c.viol("C19/clear-active/"+kop+"/wrong-mode", "%s succeeded but the active mode is %q, the normal mode is %q; before: %s; after: %s", o, post.active.GetId(), preN[0], pre, post)
			case out.Mode.GetId() != preN[0]:
				c.viol("C19/clear-active/"+kop+"/wrong-mode-returned", "%s returned mode %q, the normal mode is %q; before: %s; after: %s", o, out.Mode.GetId(), preN[0], pre, post)
			}
		case 0:
			t.count("premise:clear-active/no-normal")
			if ok {
				if post.active.GetId() != pre.active.GetId() {
					c.viol("C19/clear-active/"+kop+"/selected-non-normal", "%s succeeded without any normal mode and switched the active mode from %q to %q; before: %s; after: %s", o, pre.active.GetId(), post.active.GetId(), pre, post)
				} else {
					t.count("clear-active-no-normal-success-unchanged")
				}
			}
		default:
			t.count("ood:clear-active-with-two-normal-modes")
		}
	}

	// clause 5: switching to a different mode stamps its start time with the model clock's current time
	if (o.Kind == "change-active" || o.Kind == "clear-active") && ok {
		newID := post.active.GetId()
		if newID != pre.active.GetId() {
			t.count("premise:start-time/different-mode")
			switch {
			case !tsIs(post.active.GetStartTime(), now):
				c.viol("C19/start-time/"+kop+"/different-mode", "%s switched the active mode from %q to %q at clock time %s but its start_time is %s; after: %s", o, pre.active.GetId(), newID, now.Format(time.RFC3339Nano), tsStr(post.active.GetStartTime()), post)
			case out.Mode != nil && !tsIs(out.Mode.GetStartTime(), now):
				c.viol("C19/start-time/"+kop+"/different-mode", "%s switched the active mode from %q to %q at clock time %s but the returned mode has start_time %s", o, pre.active.GetId(), newID, now.Format(time.RFC3339Nano), tsStr(out.Mode.GetStartTime()))
			}
		} else {
			t.count("premise:start-time/same-mode")
			got := post.active.GetStartTime()
			stored := pre.find(newID).GetStartTime()
			switch {
			case tsEq(got, pre.active.GetStartTime()):
				t.count("same-mode-start-time:kept")
			case tsEq(got, stored):
				t.count("same-mode-start-time:from-stored-mode")
			default:
				c.viol("C19/start-time/"+kop+"/same-mode", "%s re-selected the already active mode %q (no switch to a different mode) at clock time %s and its start_time became %s (before %s, stored mode %s)", o, newID, now.Format(time.RFC3339Nano), tsStr(got), tsStr(pre.active.GetStartTime()), tsStr(stored))
			}
		}
	}

	// clause 6: deleting an absent mode reports NotFound unless allow-missing is set, in which case it succeeds
	if o.Kind == "delete" && !pre.has(id) && pre.active.GetId() != id {
		if o.AM {
			t.count("premise:delete-absent/allow-missing")
			if !ok {
				c.viol("C19/delete-absent/"+kop, "%s [id %q] of a mode that does not exist, with allow-missing, returned %s (%s) instead of succeeding; before: %s", o, id, out.class(), errStr(out.Err), pre)
			}
		} else {
			t.count("premise:delete-absent/plain")
			if out.code() != codes.NotFound {
				c.viol("C19/delete-absent/"+kop, "%s [id %q] of a mode that does not exist, without allow-missing, returned %s (%s) instead of NotFound; before: %s", o, id, out.class(), errStr(out.Err), pre)
			}
		}
	}

	// documented behaviour the statement does not fix: compared with the reference table, counted only
	if d := c.ref.apply(o, id, out, post); d != "" {
		t.count("ref-divergence:" + o.Kind + ":" + d)
		if c.r.WantSample("ref-divergence:" + o.Kind + ":" + d) {
			c.r.Sample("ref-divergence:"+o.Kind+":"+d, map[string]any{"op": o.String(), "id": id, "result": out.class(), "before": pre.String(), "after": post.String()})
		}
	}
	c.changed = changedAfter
	c.ref.resync(post, c.changed)
}

// refTable is the small reference model of the mode table written from the doc comments of electricpb.Model. It is
// used to tell which documented (but not stated) behaviours the run saw; divergences are counted, not reported.
type refTable struct {
	modes   map[string]bool // id -> normal
	active  string
	changed bool
}

func (f *refTable) otherNormal(id string) bool {
	for k, n := range f.modes {
		if n && k != id {
			return true
		}
	}
	return false
}

// apply predicts the documented result, compares it with what happened and returns a divergence class or "".
func (f *refTable) apply(o op, id string, out outcome, post snap) string {
	ok := out.ok()
	want := map[string]bool{}
	for k, v := range f.modes {
		want[k] = v
	}
	wantActive := f.active
	wantOK := true
	either := false
	switch o.Kind {
	case "create":
		if o.Normal && f.otherNormal("") {
			wantOK = false
		} else if ok && out.Mode != nil {
			if _, dup := want[out.Mode.Id]; dup || out.Mode.Id == "" {
				return "bad-generated-id"
			}
			want[out.Mode.Id] = o.Normal
		}
	case "add":
		if _, exists := want[id]; exists || (o.Normal && f.otherNormal("")) {
			wantOK = false
		} else {
			want[id] = o.Normal
		}
	case "update":
		cur, exists := want[id]
		switch {
		case !exists:
			wantOK = false
		default:
			n := cur
			if o.Mask != "title" && o.Mask != "empty" {
				n = o.Normal
			}
			if n && f.otherNormal(id) {
				either = true // refusing and accepting-with-demotion would both keep the invariant; accepting as is breaks clause 1
				if ok {
					want[id] = n
				}
			} else {
				want[id] = n
			}
		}
	case "delete":
		_, exists := want[id]
		switch {
		case exists && f.active == id:
			wantOK = false
		case exists:
			delete(want, id)
		default:
			wantOK = o.AM
		}
	case "set-active", "change-active":
		if _, exists := want[id]; exists {
			wantActive = id
		} else {
			wantOK = false
		}
	case "clear-active":
		var ns []string
		for k, n := range want {
			if n {
				ns = append(ns, k)
			}
		}
		switch len(ns) {
		case 0:
			wantOK = false
		case 1:
			wantActive = ns[0]
		default:
			either = true
			wantActive = post.active.GetId()
		}
	}
	if !either && ok != wantOK {
		if ok {
			return "accepted-but-documented-to-fail"
		}
		return "failed-but-documented-to-succeed:" + out.class()
	}
	if !ok {
		// a failed operation is documented (implicitly) to leave the table alone
		want = f.modes
		wantActive = f.active
	}
	if len(want) != len(post.modes) {
		return "table-size"
	}
	for _, m := range post.modes {
		if n, exists := want[m.GetId()]; !exists || n != m.GetNormal() {
			return "table-content"
		}
	}
	if (f.changed || wantActive != "") && post.active.GetId() != wantActive {
		return "active-id"
	}
	return ""
}

func (f *refTable) resync(post snap, changed bool) {
	f.modes = make(map[string]bool, len(post.modes))
	for _, m := range post.modes {
		f.modes[m.GetId()] = m.GetNormal()
	}
	f.active = post.active.GetId()
	f.changed = changed
}

// ---------------------------------------------------------------------------------------------------------------
// bounded-exhaustive sequences

// alphabet returns the operation symbols of the exhaustive part. With door "server" every operation that has an
// RPC is made on the ModelServer, the others (add, set-active) on the Model.
func alphabet(door string, big bool) (ops []op, targets []string) {
	adds := []string{"a0", "a1"}
	targets = []string{"a0", "a1", "c0"}
	masks := []string{"normal"}
	if big {
		targets = []string{"a0", "a1", "c0", "c1"}
		masks = []string{"normal", "none", "empty", "title+normal"}
	}
	d := func(kind string) string {
		if door == "server" && hasRPC(kind) {
			return "server"
		}
		return "model"
	}
	for _, n := range []bool{false, true} {
		ops = append(ops, op{Kind: "create", Normal: n, Door: d("create")})
	}
	for _, a := range adds {
		for _, n := range []bool{false, true} {
			ops = append(ops, op{Kind: "add", Target: a, Normal: n, Door: d("add")})
		}
	}
	for _, t := range targets {
		for _, m := range masks {
			for _, n := range []bool{true, false} {
				ops = append(ops, op{Kind: "update", Target: t, Normal: n, Mask: m, Door: d("update")})
			}
		}
		for _, am := range []bool{false, true} {
			ops = append(ops, op{Kind: "delete", Target: t, AM: am, Door: d("delete")})
		}
		ops = append(ops, op{Kind: "set-active", Target: t, Door: d("set-active")})
		ops = append(ops, op{Kind: "change-active", Target: t, Door: d("change-active")})
	}
	ops = append(ops, op{Kind: "clear-active", Door: d("clear-active")})
	for i := range ops {
		ops[i] = ops[i].cached()
	}
	return ops, targets
}

func exhaustive(r *vk.Run) {
	type space struct {
		name string
		big  bool
		n    int
	}
	spaces := []space{{"std", false, 4}}
	if !r.Quick() {
		spaces = []space{{"std", false, 5}, {"big", true, 4}}
	}
	complete := true
	for _, sp := range spaces {
		for _, door := range []string{"model", "server"} {
			stream := fmt.Sprintf("exh-%s%d-%s", sp.name, sp.n, door)
			alpha, targets := alphabet(door, sp.big)
			total := 1
			for k := 0; k < sp.n; k++ {
				total *= len(alpha)
			}
			t := newTally()
			for idx := 0; idx < total; idx++ {
				if !r.Mine(idx) {
					continue
				}
				c := newSeqCase(r, t, stream, idx, false, targets)
				x := idx
				for k := 0; k < sp.n; k++ {
					o := alpha[x%len(alpha)]
					x /= len(alpha)
					// 1.5 s, 2.5 s, ... : a fresh instant per step, with and without a fractional part
					c.step(o, time.Duration(k+1)*time.Second+time.Duration((k+idx)%2)*500*time.Millisecond)
					t.count("steps:exhaustive")
				}
				t.count("sequences:" + stream)
				if idx%4099 == 0 && r.WantSample(stream) {
					r.Sample(stream, map[string]any{"case": idx, "steps": c.history()})
				}
			}
			t.flush(r)
			r.Note("%s: alphabet of %d operations, %d sequences of length %d", stream, len(alpha), total, sp.n)
		}
	}
	r.Exhaustive(complete)
}

// ---------------------------------------------------------------------------------------------------------------
// random sequences with folded subscriptions

var (
	randTargets = []string{"a0", "a1", "a2", "a3", "c0", "c1", "c2", "ghost"}
	fixedIDs    = []string{"a0", "a1", "a2", "a3"}
)

// genOp draws one operation. doorMode is model | server | client | mixed. emptyID: the sequential random stream also
// switches to the empty id; the concurrent plans do not (their draw sequence is left as the recorded races need it).
func genOp(rng *vk.Rand, doorMode string, targets []string, allowUpdateNormalOn, emptyID bool) op {
	kinds := []string{"create", "add", "add", "update", "update", "update", "delete", "delete", "delete", "set-active", "change-active", "change-active", "clear-active"}
	o := op{Kind: kinds[rng.Intn(len(kinds))]}
	o.Target = targets[rng.Intn(len(targets))]
	switch o.Kind {
	case "create":
		o.Target = ""
		o.Normal = rng.Chance(1, 3)
	case "add":
		o.Target = fixedIDs[rng.Intn(len(fixedIDs))]
		o.Normal = rng.Chance(1, 3)
	case "update":
		o.Mask = rng.PickStr("normal", "normal", "title", "none", "empty", "title+normal")
		o.Normal = rng.Bool()
		if !allowUpdateNormalOn && o.Mask != "title" && o.Mask != "empty" {
			o.Normal = false
		}
	case "delete":
		o.AM = rng.Bool()
	case "clear-active":
		o.Target = ""
	case "set-active", "change-active":
		// the empty id names no mode (a generated id is never empty): switching to it is documented to fail like any
		// other unknown id, also while the model still shows its initial dummy mode, whose id is empty too
		if emptyID && rng.Chance(1, 8) {
			o.Target = "empty"
		}
	}
	door := doorMode
	if doorMode == "mixed" {
		door = rng.PickStr("model", "server", "client")
	}
	if !hasRPC(o.Kind) {
		door = "model"
	}
	o.Door = door
	return o.cached()
}

func genInit(rng *vk.Rand) []*traits.ElectricMode {
	var init []*traits.ElectricMode
	n := rng.Intn(3)
	haveNormal := false
	for _, k := range rng.Perm(len(fixedIDs))[:n] {
		m := &traits.ElectricMode{Id: fixedIDs[k], Title: "initial"}
		if !haveNormal && rng.Chance(1, 3) {
			m.Normal, haveNormal = true, true
		}
		init = append(init, m)
	}
	return init
}

func randomSequences(r *vk.Run) {
	n := r.Pick(320, 10000)
	steps := 100
	t := newTally()
	defer t.flush(r)
	for i := 0; i < n; i++ {
		if !r.Mine(i) {
			continue
		}
		rng := r.CaseRand("c19-rand", i)
		doorMode := []string{"model", "server", "client", "mixed"}[i%4]
		init := genInit(rng)
		clients := true
		crashKey := "C19/panic/server-goroutine"
		// a panic on a goroutine started by the in-process clients would kill the worker: let the driver attribute it
		// (in replay mode, r.Only set, every case runs unguarded)
		if r.Only == "" && !r.Guard(crashKey, map[string]any{"stream": "rand", "case": i}) {
			continue
		}
		// a third of the sequences start with a named placeholder as active mode (a fixed id that no initial mode has)
		placeholder := ""
		if rng.Chance(1, 3) {
			for _, k := range rng.Perm(len(fixedIDs)) {
				used := false
				for _, m := range init {
					used = used || m.Id == fixedIDs[k]
				}
				if !used {
					placeholder = fixedIDs[k]
					break
				}
			}
		}
		c := newSeqCasePlaceholder(r, t, "rand-"+doorMode, i, clients, randTargets, placeholder, init...)
		if placeholder != "" {
			t.count("sequences-with-named-placeholder")
		}
		var msubs []*modesSub
		var asubs []*activeSub
		subAt := map[int]bool{rng.Intn(steps): true, rng.Intn(steps / 4): true}
		if rng.Bool() {
			subAt[0] = true
		}
		nextQ := rng.Range(5, 25)
		for k := 0; k < steps; k++ {
			if subAt[k] {
				via := "model"
				if doorMode != "model" && rng.Bool() {
					via = "client"
				}
				if rng.Chance(2, 3) || len(msubs) == 0 {
					msubs = append(msubs, subscribeModes(c.w, via, via == "model" && rng.Bool()))
				}
				if rng.Chance(2, 3) || len(asubs) == 0 {
					asubs = append(asubs, subscribeActive(c.w, via, via == "model" && rng.Bool()))
				}
			}
			o := genOp(rng, doorMode, randTargets, true, true)
			if placeholder != "" && k < 3 && rng.Bool() {
				// address the placeholder's id while it is (probably) still the active mode
				kinds := []string{"set-active", "change-active", "delete", "update"}
				o = op{Kind: kinds[rng.Intn(len(kinds))], Target: placeholder, Mask: "title", AM: rng.Bool(), Door: "model"}
				if doorMode != "model" && hasRPC(o.Kind) {
					o.Door = "server"
				}
				o = o.cached()
				t.count("ops-addressing-the-placeholder-id")
			}
			adv := time.Duration(rng.Range(1, 5000))*time.Millisecond + time.Duration(rng.Intn(1000))*time.Nanosecond
			if rng.Chance(1, 3) {
				adv = time.Duration(rng.Range(1, 5000)) * time.Second // whole seconds are clock readings too
			}
			c.step(o, adv)
			t.count("steps:random")
			if (k == nextQ || k == steps-1) && len(msubs)+len(asubs) > 0 {
				nextQ = k + rng.Range(5, 25)
				if _, ok := r.MustQuiesce("c19-rand"); !ok {
					return
				}
				c.compareFolds(msubs, asubs, "sequential")
			}
		}
		for _, s := range msubs {
			s.cancel()
		}
		for _, s := range asubs {
			s.cancel()
		}
		r.Unguard()
		t.count("sequences:rand-" + doorMode)
		if r.WantSample("rand-" + doorMode) {
			h := c.history()
			if len(h) > 15 {
				h = h[:15]
			}
			r.Sample("rand-"+doorMode, map[string]any{"case": i, "initial_modes": c.init, "first_steps": h})
		}
	}
}

// compareFolds checks, at a quiescent point, that what the subscriptions delivered folds to what the getters show,
// and that no state in a backpressured PullModes stream has two normal modes.
func (c *seqCase) compareFolds(msubs []*modesSub, asubs []*activeSub, where string) {
	now := c.w.observe()
	for _, s := range msubs {
		evs := s.snapshot()
		view, firstBad := foldModes(evs, s.bp)
		c.t.count("fold:modes-compared")
		c.t.count("fold:modes-events-" + s.String())
		c.t.c["fold:modes-events-total"] += len(evs)
		if d := diffView(view, now.modes); d != "" {
			c.viol("C19/pull-fold/modes/"+s.String()+"/"+where, "the PullModes stream (%s) folds to a different table than Modes() at a quiescent point: %s; Modes(): %s", s, d, now)
		}
		if firstBad != nil && !c.everTwoNormal {
			// the snapshots after every step never showed it (otherwise clause 1 has reported it with the operation)
			c.viol("C19/two-normal/"+firstBad.class()+"@stream", "the backpressured PullModes stream passed through a state with two normal modes (event %s) although Modes() after every step showed at most one", firstBad)
		}
	}
	for _, s := range asubs {
		evs := s.snapshot()
		c.t.count("fold:active-compared")
		c.t.c["fold:active-events-total"] += len(evs)
		var last *traits.ElectricMode
		if len(evs) > 0 {
			last = evs[len(evs)-1]
		}
		if last == nil {
			c.viol("C19/pull-fold/active-mode/"+s.String()+"/"+where, "the PullActiveMode stream (%s) delivered nothing, not even the current value; ActiveMode(): %s", s, modeStr(now.active))
		} else if !proto.Equal(last, now.active) {
			c.viol("C19/pull-fold/active-mode/"+s.String()+"/"+where, "the last PullActiveMode event (%s) is %s but ActiveMode() is %s at a quiescent point", s, modeStr(last), modeStr(now.active))
		}
	}
}
