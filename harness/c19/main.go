// Monitor for C19: the electric model keeps its documented mode invariants.
//
// The real electricpb.Model (and its ModelServer, directly and through the generated in-process clients) is
// driven with bounded-exhaustive, random and concurrent operation mixes; after every step (sequential) resp. in
// atomic snapshots, in backpressured PullModes/PullActiveMode streams and at the final quiescent point
// (concurrent) the clauses of the property statement are evaluated on what the model's getters show.
package main

import (
	"context"
	"fmt"
	"math/rand"
	"sort"
	"strings"
	"sync"
	"sync/atomic"
	"time"

	"github.com/smart-core-os/sc-api/go/traits"
	"google.golang.org/grpc/codes"
	"google.golang.org/protobuf/proto"
	"google.golang.org/grpc/status"
	"google.golang.org/protobuf/encoding/protojson"
	"google.golang.org/protobuf/types/known/fieldmaskpb"
	"google.golang.org/protobuf/types/known/timestamppb"

	"github.com/smart-core-os/sc-golang/internal/verif/vk"
	"github.com/smart-core-os/sc-golang/pkg/resource"
	"github.com/smart-core-os/sc-golang/pkg/time/clock"
	"github.com/smart-core-os/sc-golang/pkg/trait/electricpb"
)

func main() { vk.Main("C19", run) }

const devName = "dev"

func run(r *vk.Run) {
	r.Describe("operations {create(normal?), add(id,normal?), update(id, normal on/off, mask normal|title|none), delete(id, allow-missing?), set-active(id), change-active(id), clear-active} on one electricpb.Model with a fake clock that the harness moves to a fresh, unique instant before every operation. "+
		"Exhaustive part: every sequence of length 4 (thorough: 5, and length 4 over a larger alphabet with 4 addressable modes and full-replace updates) over the 25-symbol alphabet {create x2, add x {a0,a1} x2, update x {a0,a1,c0} x {on,off}, delete x {a0,a1,c0} x {allow-missing?}, set-active x3, change-active x3, clear-active} where c0 is the first mode created with a generated id; once with every call on the Model API and once with every call that has an RPC on the ModelServer (ElectricApi / MemorySettingsApi methods; add and set-active have no RPC and stay on the Model). "+
		"Random part: 100-step sequences over 4 fixed ids, 3 generated ids and a never-existing id, starting from 0-2 initial modes, per-sequence door model / server / generated in-process clients / mixed, with PullModes and PullActiveMode subscriptions (Model channel or client stream, with and without backpressure) opened at random steps and folded; folded views are compared with Modes()/ActiveMode() at quiescent points. "+
		"Concurrent part: 2-4 goroutines issue 6-10 such operations each on one model while vk.Sched.Stress yields pseudo-randomly at the library's hook points; an observer goroutine takes atomic Modes() snapshots and, in windows in which provably no active-mode operation ran, ActiveMode/Modes/ActiveMode triples; backpressured PullModes/PullActiveMode streams give every committed state in order; everything is re-checked at the final quiescent point (vk.Quiesce). "+
		"Storm part: 2-4 goroutines released together delete one existing non-active mode (with / without allow-missing, Model or server): all succeed resp. exactly one does. "+
		"After every step the statement's clauses are evaluated on Modes()/ActiveMode() before and after the call, the call's result and the fake clock. "+
		"A case is distinct by (abstract state before: presence/normal flag of every addressable mode, number of other modes, which mode is active; operation; result code) resp. for concurrent runs by (mix, workers, outcome multiset); non-trivial = the operation's premise was met (counted per clause under premise:*).",
		"the statement's 'switching to a different mode stamps its start time' is asserted for ChangeActiveMode/UpdateActiveMode and ChangeToNormalMode/ClearActiveMode; SetActiveMode is documented as 'StartTime will not be set for you' and stores the caller's mode, its start time is observed, not judged",
		"re-selecting the mode that is already active: the statement only fixes the switch to a different mode; accepted start times are the previous one and the stored mode's own, a fresh clock stamp is reported (doc: 'Updates the StartTime ... if the mode changes')",
		"clear-active with no normal mode: an error is accepted, success is accepted only if the active mode did not change; with two normal modes already present (only reachable through another violation) the clause is not judged",
		"ids given to add/update/delete/set-active/change-active are non-empty; create gets an empty id (the Model panics otherwise by contract)",
		"UpdateMode is called with update masks only: passing collection-level write options such as resource.WithCreateIfAbsent through it (which makes it create modes, possibly with an empty id field and past the normal-mode check) and models configured with an id interceptor for modes are outside the quantified operations (creation is CreateMode/AddMode)",
		"documented return codes that the statement does not mention (AlreadyExists for a second normal mode, NotFound for unknown ids, FailedPrecondition for deleting the active mode) are compared with a small reference table and only counted (ref-divergence:*), never reported",
		"concurrent part relies on change events being published in commit order (C03, repaired in the tree) to read the backpressured PullModes stream as the sequence of committed states")

	// wall times of the parts go into the evidence notes only (sizing information, never a verdict)
	t0 := time.Now()
	exhaustive(r)
	t1 := time.Now()
	randomSequences(r)
	t2 := time.Now()
	concurrent(r)
	deleteStorm(r)
	if r.Shard == 0 {
		r.Note("shard 0 wall time: exhaustive %.1fs, random %.1fs, concurrent %.1fs", t1.Sub(t0).Seconds(), t2.Sub(t1).Seconds(), time.Since(t2).Seconds())
	}

	// a run that explored nothing is inconclusive, not green
	r.Require("steps:exhaustive", r.Pick(200000, 2000000))
	r.Require("steps:random", r.Pick(5000, 100000))
	r.Require("conc:runs", r.Pick(200, 5000))
	r.Require("storm:rounds", r.Pick(3000, 100000))
	for _, p := range []string{
		"premise:second-normal/create", "premise:second-normal/add", "premise:second-normal/update",
		"premise:delete-active", "premise:delete-absent/plain", "premise:delete-absent/allow-missing",
		"premise:clear-active/one-normal", "premise:clear-active/no-normal",
		"premise:start-time/different-mode", "premise:start-time/same-mode",
		"premise:active-exists-after-change", "premise:activate-absent",
	} {
		r.Require(p, 50)
	}
	r.Require("fold:modes-compared", 50)
	r.Require("fold:active-compared", 50)
	r.Require("conc:snapshots", 200)
	r.Require("conc:clean-windows", 20)
	r.Require("conc:stream-states", 500)
}

// ---------------------------------------------------------------------------------------------------------------
// operations

type op struct {
	Kind   string `json:"kind"`             // create add update delete set-active change-active clear-active
	Target string `json:"target,omitempty"` // a0..a3 = fixed ids, c0..c2 = n-th mode created with a generated id, ghost = never exists, empty = the id ""
	Normal bool   `json:"normal,omitempty"`
	Mask   string `json:"mask,omitempty"` // update: normal | title | empty (present, no paths) | none (= no mask, full replace)
	AM     bool   `json:"allow_missing,omitempty"`
	Door   string `json:"door"` // model | server (ModelServer method) | client (generated in-process client)

	str, kop string // cached String() / keyOp() (the exhaustive part executes each symbol millions of times)
}

// cached returns o with its rendered forms precomputed.
func (o op) cached() op {
	o.str, o.kop = "", ""
	o.str, o.kop = o.String(), o.keyOp()
	return o
}

func (o op) String() string {
	if o.str != "" {
		return o.str
	}
	var s string
	switch o.Kind {
	case "create":
		s = fmt.Sprintf("create(normal=%v)", o.Normal)
	case "add":
		s = fmt.Sprintf("add(%s,normal=%v)", o.Target, o.Normal)
	case "update":
		s = fmt.Sprintf("update(%s,normal=%v,mask=%s)", o.Target, o.Normal, o.Mask)
	case "delete":
		s = fmt.Sprintf("delete(%s,allow_missing=%v)", o.Target, o.AM)
	case "clear-active":
		s = "clear-active"
	default:
		s = fmt.Sprintf("%s(%s)", o.Kind, o.Target)
	}
	return s + "@" + o.Door
}

// keyOp is the operation part of a violation key: kind (+ allow-missing) @ door, the client door counted as server.
func (o op) keyOp() string {
	if o.kop != "" {
		return o.kop
	}
	k := o.Kind
	if k == "delete" && o.AM {
		k = "delete-allow-missing"
	}
	return k + "@" + o.keyDoor()
}

func (o op) keyDoor() string {
	if o.Door == "client" {
		return "server"
	}
	return o.Door
}

func (o op) isActiveOp() bool {
	return o.Kind == "set-active" || o.Kind == "change-active" || o.Kind == "clear-active"
}

// setsNormal reports whether a successful execution writes normal = true.
func (o op) setsNormal() bool {
	switch o.Kind {
	case "create", "add":
		return o.Normal
	case "update":
		return o.Normal && (o.Mask == "normal" || o.Mask == "none" || o.Mask == "title+normal")
	}
	return false
}

// hasRPC reports whether the ElectricApi / MemorySettingsApi offer the operation.
func hasRPC(kind string) bool { return kind != "add" && kind != "set-active" }

// ---------------------------------------------------------------------------------------------------------------
// fake clocks (the model clock is under the harness's control; no wall clock anywhere in an oracle)

type unusedTimers struct{}

func (unusedTimers) At(time.Time) <-chan time.Time {
	panic("C19 fake clock: At is not expected to be used")
}
func (unusedTimers) After(time.Duration) <-chan time.Time {
	panic("C19 fake clock: After is not expected to be used")
}
func (unusedTimers) Every(time.Duration) clock.Ticker {
	panic("C19 fake clock: Every is not expected to be used")
}

// manualClock only moves when the scenario says so.
type manualClock struct {
	unusedTimers
	mu sync.Mutex
	t  time.Time
}

func newManualClock() *manualClock {
	return &manualClock{t: time.Date(2021, 3, 4, 5, 6, 7, 0, time.UTC)}
}

func (c *manualClock) Now() time.Time {
	c.mu.Lock()
	defer c.mu.Unlock()
	return c.t
}

func (c *manualClock) Advance(d time.Duration) time.Time {
	c.mu.Lock()
	defer c.mu.Unlock()
	c.t = c.t.Add(d)
	return c.t
}

// tickClock returns a new, strictly larger instant on every reading, so every stamp taken from it is unique and
// ordered like the readings (used by the concurrent part, where the harness cannot set the time per operation).
type tickClock struct {
	unusedTimers
	n atomic.Int64
}

var tickBase = time.Date(2022, 1, 1, 0, 0, 0, 0, time.UTC)

func (c *tickClock) Now() time.Time {
	return tickBase.Add(time.Duration(c.n.Add(1)) * time.Millisecond)
}
func (c *tickClock) Peek() int64 { return c.n.Load() }
func tickOf(t time.Time) (int64, bool) {
	d := t.Sub(tickBase)
	if d <= 0 || d%time.Millisecond != 0 {
		return 0, false
	}
	return int64(d / time.Millisecond), true
}

// splitmix is a cheap math/rand source (seeding the default source costs more than a whole short sequence).
type splitmix struct{ s uint64 }

func (s *splitmix) Uint64() uint64 {
	s.s += 0x9E3779B97F4A7C15
	z := s.s
	z = (z ^ (z >> 30)) * 0xBF58476D1CE4E5B9
	z = (z ^ (z >> 27)) * 0x94D049BB133111EB
	return z ^ (z >> 31)
}
func (s *splitmix) Int63() int64 { return int64(s.Uint64() >> 1) }
func (s *splitmix) Seed(v int64) { s.s = uint64(v) }

// ---------------------------------------------------------------------------------------------------------------
// the system under observation

type world struct {
	m        *electricpb.Model
	srv      *electricpb.ModelServer
	api      traits.ElectricApiClient
	settings electricpb.MemorySettingsApiClient

	mu      sync.Mutex
	created []string // ids of modes created with a generated id, in order of creation
	nUpd    atomic.Int64
	nSet    atomic.Int64
	nChg    atomic.Int64
	nDel    atomic.Int64
	// futureStamps: a third of the start times given to SetActiveMode lie after every reading of the model clock
	// (a schedule entered ahead of time); only used with the manual clock of the sequential part
	futureStamps bool
}

func newWorld(clk clock.Clock, seed uint64, clients bool, init ...*traits.ElectricMode) *world {
	return newWorldPlaceholder(clk, seed, clients, "", init...)
}

// newWorldPlaceholder: placeholder != "" makes the model start with a dummy active mode carrying that id (the
// documented initial state: the active mode of a new model need not exist), instead of the default blank one.
func newWorldPlaceholder(clk clock.Clock, seed uint64, clients bool, placeholder string, init ...*traits.ElectricMode) *world {
	opts := []resource.Option{
		electricpb.WithClock(clk),
		electricpb.WithRNG(rand.New(&splitmix{s: seed})),
	}
	if len(init) > 0 {
		opts = append(opts, electricpb.WithInitialMode(init...))
	}
	if placeholder != "" {
		opts = append(opts, electricpb.WithInitialActiveMode(&traits.ElectricMode{Id: placeholder, Title: "placeholder"}))
	}
	w := &world{m: electricpb.NewModel(opts...)}
	w.srv = electricpb.NewModelServer(w.m)
	if clients {
		w.api = electricpb.WrapApi(w.srv)
		w.settings = electricpb.WrapMemorySettingsApi(w.srv)
	}
	return w
}

// resolve maps a symbolic target to the id used in the call.
func (w *world) resolve(target string) string {
	if len(target) == 2 && target[0] == 'c' {
		j := int(target[1] - '0')
		w.mu.Lock()
		defer w.mu.Unlock()
		if j < len(w.created) {
			return w.created[j]
		}
		return "uncreated-" + target
	}
	if target == "empty" {
		return "" // the id nobody has: only drawn for set-active / change-active (see genOp)
	}
	return target
}

type outcome struct {
	Err   error
	Mode  *traits.ElectricMode // returned mode, when the operation returns one and succeeded
	Panic string
}

func (o outcome) ok() bool         { return o.Err == nil && o.Panic == "" }
func (o outcome) code() codes.Code { return status.Code(o.Err) }
func (o outcome) class() string {
	if o.Panic != "" {
		return "panic"
	}
	return o.code().String()
}

// setStampBase is the (disjoint from both fake clocks) range of start times the harness passes to SetActiveMode.
var setStampBase = time.Date(1999, 1, 1, 0, 0, 0, 0, time.UTC)
var setStampFuture = time.Date(2045, 1, 1, 0, 0, 0, 0, time.UTC)

func (w *world) exec(o op, id string) (out outcome) {
	ctx := context.Background()
	panicked, what := vk.Recover(func() {
		switch o.Kind {
		case "create":
			mode := &traits.ElectricMode{Title: "created", Description: "by create", Normal: o.Normal,
				Segments: []*traits.ElectricMode_Segment{{Magnitude: 1}}}
			switch o.Door {
			case "model":
				out.Mode, out.Err = w.m.CreateMode(mode)
			case "server":
				out.Mode, out.Err = w.srv.CreateMode(ctx, &electricpb.CreateModeRequest{Name: devName, Mode: mode})
			case "client":
				out.Mode, out.Err = w.settings.CreateMode(ctx, &electricpb.CreateModeRequest{Name: devName, Mode: mode})
			}
			if out.Err == nil && out.Mode != nil && out.Mode.Id != "" {
				w.mu.Lock()
				w.created = append(w.created, out.Mode.Id)
				w.mu.Unlock()
			}
		case "add":
			out.Err = w.m.AddMode(&traits.ElectricMode{Id: id, Title: "added", Normal: o.Normal,
				Segments: []*traits.ElectricMode_Segment{{Magnitude: 2}}})
		case "update":
			n := w.nUpd.Add(1)
			mode := &traits.ElectricMode{Id: id, Title: fmt.Sprintf("upd%d", n), Normal: o.Normal}
			var mask *fieldmaskpb.FieldMask
			switch o.Mask {
			case "normal":
				mask = &fieldmaskpb.FieldMask{Paths: []string{"normal"}}
			case "title":
				mask = &fieldmaskpb.FieldMask{Paths: []string{"title"}}
			case "title+normal":
				mask = &fieldmaskpb.FieldMask{Paths: []string{"title", "normal"}} // several paths, in the caller's order
			case "empty":
				mask = &fieldmaskpb.FieldMask{} // present, no paths: nothing is written
			}
			switch o.Door {
			case "model":
				if mask != nil {
					out.Mode, out.Err = w.m.UpdateMode(mode, resource.WithUpdateMask(mask))
				} else {
					out.Mode, out.Err = w.m.UpdateMode(mode)
				}
			case "server":
				out.Mode, out.Err = w.srv.UpdateMode(ctx, &electricpb.UpdateModeRequest{Name: devName, Mode: mode, UpdateMask: mask})
			case "client":
				out.Mode, out.Err = w.settings.UpdateMode(ctx, &electricpb.UpdateModeRequest{Name: devName, Mode: mode, UpdateMask: mask})
			}
		case "delete":
			switch o.Door {
			case "model":
				var dopts []resource.WriteOption
				if o.AM {
					dopts = append(dopts, resource.WithAllowMissing(true))
				}
				if w.nDel.Add(1)%3 == 0 {
					// the caller's own (always satisfied) condition on the stored mode: it adds to the model's rules, it does not
					// replace them
					dopts = append(dopts, resource.WithExpectedCheck(func(proto.Message) error { return nil }))
				}
				out.Err = w.m.DeleteMode(id, dopts...)
			case "server":
				_, out.Err = w.srv.DeleteMode(ctx, &electricpb.DeleteModeRequest{Name: devName, Id: id, AllowMissing: o.AM})
			case "client":
				_, out.Err = w.settings.DeleteMode(ctx, &electricpb.DeleteModeRequest{Name: devName, Id: id, AllowMissing: o.AM})
			}
		case "set-active":
			n := w.nSet.Add(1)
			mode := &traits.ElectricMode{Id: id, Title: "SET"}
			switch {
			case n%3 == 1 && w.futureStamps:
				mode.StartTime = timestamppb.New(setStampFuture.Add(time.Duration(n) * time.Second))
			case n%3 != 0:
				mode.StartTime = timestamppb.New(setStampBase.Add(time.Duration(n) * time.Second))
			}
			out.Err = w.m.SetActiveMode(mode)
		case "change-active":
			switch o.Door {
			case "model":
				out.Mode, out.Err = w.m.ChangeActiveMode(id)
			case "server", "client":
				// a client that read the active mode, changed the id and sent the message back: every third request
				// carries a title and a (stale) start time of its own; the switch is stamped by the model clock all the same
				req := &traits.UpdateActiveModeRequest{Name: devName, ActiveMode: &traits.ElectricMode{Id: id}}
				if n := w.nChg.Add(1); n%3 == 0 {
					req.ActiveMode.Title = "stale"
					req.ActiveMode.StartTime = timestamppb.New(setStampBase.Add(time.Duration(5000000+n) * time.Second))
				}
				if o.Door == "server" {
					out.Mode, out.Err = w.srv.UpdateActiveMode(ctx, req)
				} else {
					out.Mode, out.Err = w.api.UpdateActiveMode(ctx, req)
				}
			}
		case "clear-active":
			switch o.Door {
			case "model":
				out.Mode, out.Err = w.m.ChangeToNormalMode()
			case "server":
				out.Mode, out.Err = w.srv.ClearActiveMode(ctx, &traits.ClearActiveModeRequest{Name: devName})
			case "client":
				out.Mode, out.Err = w.api.ClearActiveMode(ctx, &traits.ClearActiveModeRequest{Name: devName})
			}
		default:
			panic("harness: unknown op kind " + o.Kind)
		}
	})
	if panicked {
		out.Panic = what
	}
	if out.Err != nil {
		out.Mode = nil
	}
	return out
}

// snap is what the model's getters show at one moment: one Modes() call and one ActiveMode() call.
type snap struct {
	modes  []*traits.ElectricMode
	active *traits.ElectricMode
}

func (w *world) observe() snap {
	return snap{modes: w.m.Modes(), active: w.m.ActiveMode()}
}

func (s snap) find(id string) *traits.ElectricMode { return findMode(s.modes, id) }
func (s snap) has(id string) bool                  { return findMode(s.modes, id) != nil }
func (s snap) normals() []string                   { return normalIDs(s.modes) }

func findMode(ms []*traits.ElectricMode, id string) *traits.ElectricMode {
	for _, m := range ms {
		if m.GetId() == id {
			return m
		}
	}
	return nil
}

func normalIDs(ms []*traits.ElectricMode) []string {
	var ids []string
	for _, m := range ms {
		if m.GetNormal() {
			ids = append(ids, m.GetId())
		}
	}
	return ids
}

func (s snap) String() string {
	var parts []string
	for _, m := range s.modes {
		p := m.GetId()
		if m.GetNormal() {
			p += "(normal)"
		}
		parts = append(parts, p)
	}
	return fmt.Sprintf("modes=[%s] active=%s", strings.Join(parts, " "), modeStr(s.active))
}

func modeStr(m *traits.ElectricMode) string {
	if m == nil {
		return "<nil>"
	}
	b, err := protojson.MarshalOptions{}.Marshal(m)
	if err != nil {
		return fmt.Sprint(m)
	}
	// protojson deliberately varies its whitespace; normalise for stable details
	return strings.ReplaceAll(strings.ReplaceAll(string(b), ": ", ":"), ", ", ",")
}

func tsEq(a, b *timestamppb.Timestamp) bool {
	if a == nil || b == nil {
		return a == nil && b == nil
	}
	return a.AsTime().Equal(b.AsTime())
}

func tsIs(a *timestamppb.Timestamp, t time.Time) bool { return a != nil && a.AsTime().Equal(t) }

func tsStr(a *timestamppb.Timestamp) string {
	if a == nil {
		return "<absent>"
	}
	return a.AsTime().Format(time.RFC3339Nano)
}

func errStr(err error) string {
	if err == nil {
		return "<nil>"
	}
	return err.Error()
}

// tally batches counters locally (several per step, millions of steps) and flushes them into the run.
type tally struct {
	c        map[string]int
	evals    int
	distinct map[string]struct{}
}

func newTally() *tally { return &tally{c: map[string]int{}, distinct: map[string]struct{}{}} }

func (t *tally) count(name string) { t.c[name]++ }
func (t *tally) seen(desc string) {
	if _, ok := t.distinct[desc]; !ok {
		t.distinct[desc] = struct{}{}
	}
}
func (t *tally) flush(r *vk.Run) {
	names := make([]string, 0, len(t.c))
	for k := range t.c {
		names = append(names, k)
	}
	sort.Strings(names)
	for _, k := range names {
		r.Count(k, t.c[k])
	}
	r.Eval(t.evals)
	for d := range t.distinct {
		r.Distinct(d)
	}
	t.c, t.evals, t.distinct = map[string]int{}, 0, map[string]struct{}{}
}
