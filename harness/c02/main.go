// Monitor for C02: concurrent writes are atomic (linearizable outcomes, no lost updates).
//
// Histories of concurrent calls are recorded at the client boundary with a logical clock and checked offline
// with porcupine against the sequential model of C01, partitioned per id. Interleavings are produced (a) by
// forcing an interfering call into each window of the optimistic read / change / lock / save protocol through
// the build-tag hooks and (b) by stress with pseudo-random yields at the same hook points.
package main

import (
	"context"
	"fmt"
	"sort"
	"strings"
	"sync"
	"sync/atomic"
	"time"

	"github.com/anishathalye/porcupine"
	"google.golang.org/grpc/codes"
	"google.golang.org/protobuf/proto"

	"github.com/smart-core-os/sc-golang/internal/testproto"
	sm "github.com/smart-core-os/sc-golang/internal/verif/seqmodel"
	"github.com/smart-core-os/sc-golang/internal/verif/vk"
	"github.com/smart-core-os/sc-golang/pkg/resource"
)

func main() { vk.Main("C02", run) }

type tat = testproto.TestAllTypes

func info() sm.TypeInfo {
	return sm.TypeInfo{
		Zero: &tat{},
		Check: func(cur proto.Message) bool {
			m, ok := cur.(*tat)
			return ok && m != nil && m.DefaultInt32%2 == 1
		},
		Before: func(old, v proto.Message) {
			if o, _ := old.(*tat); o != nil {
				v.(*tat).DefaultInt64 += o.DefaultInt64
			}
		},
	}
}

// ---- history recording

type hop struct {
	proc     int
	op       sm.Op
	res      sm.Result
	call     int64
	ret      int64
	resolved string // id the op acted on (generated ids resolved)
}

type recorder struct {
	clock atomic.Int64
	mu    sync.Mutex
	ops   []*hop
}

func (rec *recorder) do(proc int, op sm.Op, exec func(sm.Op) sm.Result) *hop {
	h := &hop{proc: proc, op: op}
	h.call = rec.clock.Add(1) // call event is stamped before invoking
	h.res = exec(op)
	h.ret = rec.clock.Add(1) // return event after the reply
	rec.mu.Lock()
	rec.ops = append(rec.ops, h)
	rec.mu.Unlock()
	return h
}

// ---- porcupine model over one id

type regState struct {
	present bool
	msg     proto.Message
	s       string
}

func mkState(msg proto.Message, present bool) regState {
	if !present {
		return regState{}
	}
	return regState{present: true, msg: msg, s: vk.JSON(msg)}
}

func pModel(model *sm.Model) porcupine.Model {
	return porcupine.Model{
		Init: func() any { return regState{} },
		Step: func(st, in, out any) (bool, any) {
			s := st.(regState)
			h := in.(*hop)
			res := out.(sm.Result)
			if h.op.Kind == "init" {
				return true, mkState(h.op.Val, h.op.Val != nil)
			}
			if res.Code == codes.Aborted || res.Code == codes.Unavailable {
				return true, s // a call that lost a race: always a legal no-op
			}
			id := h.resolved
			state := sm.State{}
			if s.present {
				state[id] = sm.Item{Msg: s.msg}
			}
			op := h.op
			op.ID = id
			if op.Opts.GenID {
				// the id was generated: the op acted as an Add/Update of the resolved id
				op.Opts.GenID, op.Opts.IDCallback = false, false
				res.GenIDs = nil
			}
			v, next := model.Apply(state, op, res)
			if !v.OK {
				return false, s
			}
			it, ok := next[id]
			return true, mkState(it.Msg, ok)
		},
		Equal: func(a, b any) bool {
			x, y := a.(regState), b.(regState)
			return x.present == y.present && x.s == y.s
		},
		DescribeOperation: func(in, out any) string {
			h := in.(*hop)
			res := out.(sm.Result)
			return fmt.Sprintf("p%d %v -> %v %s", h.proc, h.op, res.Code, vk.JSON(res.Msg))
		},
		DescribeState: func(st any) string {
			s := st.(regState)
			if !s.present {
				return "absent"
			}
			return s.s
		},
	}
}

// checkHistory partitions by resolved id and runs porcupine on each partition. It returns the first illegal
// partition's description, or "" (and whether any partition timed out).
func checkHistory(r *vk.Run, model *sm.Model, init sm.State, ops []*hop, lower bool) (bad string, unknown bool) {
	byID := map[string][]*hop{}
	for _, h := range ops {
		byID[h.resolved] = append(byID[h.resolved], h)
	}
	for id, it := range init {
		byID[id] = append(byID[id], &hop{proc: -1, op: sm.Op{Kind: "init", ID: id, Val: it.Msg}, call: -2, ret: -1, resolved: id})
	}
	pm := pModel(model)
	ids := make([]string, 0, len(byID))
	for id := range byID {
		ids = append(ids, id)
	}
	sort.Strings(ids)
	for _, id := range ids {
		hs := byID[id]
		pops := make([]porcupine.Operation, 0, len(hs))
		for _, h := range hs {
			pops = append(pops, porcupine.Operation{ClientId: h.proc + 1, Input: h, Call: h.call, Output: h.res, Return: h.ret})
		}
		res, _ := porcupine.CheckOperationsVerbose(pm, pops, 60*time.Second)
		r.Count("porcupine-partitions", 1)
		switch res {
		case porcupine.Illegal:
			sort.Slice(hs, func(i, j int) bool { return hs[i].call < hs[j].call })
			var sb strings.Builder
			fmt.Fprintf(&sb, "history of id %q is not linearizable:\n", id)
			for _, h := range hs {
				fmt.Fprintf(&sb, "  [%3d,%3d] p%d %v -> %v %s\n", h.call, h.ret, h.proc, h.op, h.res.Code, vk.JSON(h.res.Msg))
			}
			return sb.String(), false
		case porcupine.Unknown:
			unknown = true
		}
	}
	return "", unknown
}

// ---- executing ops

type rig struct {
	model *sm.Model
	col   *resource.Collection
	val   *resource.Value
	rec   *recorder
	lower bool
	tagN  atomic.Int64
}

// clock is the resource's clock: ticking (every reading differs) or frozen (a coarse clock: every write of the run
// carries the same change time, so nothing may rely on change times to tell versions apart).
type clock struct {
	n      atomic.Int64
	frozen bool
}

func (c *clock) Now() time.Time {
	if c.frozen {
		return time.Unix(1000, 0)
	}
	return time.Unix(1000, c.n.Add(1))
}

// lockedRand makes the harness's rng safe for the collection's id generation (the race on rng use inside the
// library is C11's subject; here ids just have to be generated).
type lockedRand struct {
	mu sync.Mutex
	r  *vk.Rand
}

func (l *lockedRand) Read(p []byte) (int, error) {
	l.mu.Lock()
	defer l.mu.Unlock()
	return l.r.Read(p)
}

// stuckRand is a source of randomness that repeats itself: every id generation starts from the same candidate.
type stuckRand struct{}

func (stuckRand) Read(p []byte) (int, error) {
	for i := range p {
		p[i] = 0x5a
	}
	return len(p), nil
}

func newRig(model *sm.Model, init sm.State, rng *vk.Rand, stuck ...bool) *rig {
	g := &rig{model: model, rec: &recorder{}, lower: model.Cfg.LowerIDs}
	opts := append(model.ResourceOptions(), resource.WithClock(&clock{frozen: rng.Bool()}))
	if len(stuck) > 0 && stuck[0] {
		opts = append(opts, resource.WithRNG(stuckRand{}))
	} else {
		opts = append(opts, resource.WithRNG(&lockedRand{r: rng.Fork()}))
	}
	if rng.Chance(1, 3) {
		// an equivalence for subscribers (here a coarse one: only default_int32 counts) says which changes are worth
		// telling them about; it has no say in whether two writers conflict
		opts = append(opts, resource.WithEquivalence(resource.ComparerFunc(func(x, y proto.Message) bool {
			a, _ := x.(*tat)
			b, _ := y.(*tat)
			return a != nil && b != nil && a.DefaultInt32 == b.DefaultInt32
		})))
	}
	if model.Cfg.IsValue {
		if it, ok := init[""]; ok {
			opts = append(opts, resource.WithInitialValue(proto.Clone(it.Msg)))
		}
		g.val = resource.NewValue(opts...)
	} else {
		for id, it := range init {
			opts = append(opts, resource.WithInitialRecord(id, proto.Clone(it.Msg)))
		}
		g.col = resource.NewCollection(opts...)
	}
	return g
}

func (g *rig) exec(op sm.Op) sm.Result {
	if g.val != nil {
		return g.model.ExecValue(g.val, op)
	}
	return g.model.ExecCollection(g.col, op)
}

func (g *rig) do(proc int, op sm.Op) *hop {
	h := g.rec.do(proc, op, g.exec)
	id := op.ID
	if g.val != nil {
		id = ""
	} else if g.lower {
		id = strings.ToLower(id)
	}
	if op.Opts.GenID && op.ID == "" {
		if len(h.res.GenIDs) > 0 {
			id = h.res.GenIDs[len(h.res.GenIDs)-1]
		} else {
			id = fmt.Sprintf("<ungenerated-%d>", h.call)
		}
	}
	h.resolved = id
	return h
}

func (g *rig) tag(proc int) string { return fmt.Sprintf("p%dn%d", proc, g.tagN.Add(1)) }

// op constructors; every written value carries a unique tag
func (g *rig) val3(proc int, parity int32) *tat {
	return &tat{DefaultString: g.tag(proc), DefaultInt32: parity}
}

func opUpdate(id string, v *tat, o sm.Opts) sm.Op {
	return sm.Op{Kind: sm.Update, ID: id, Val: v, Opts: o}
}

var allowedLoserCodes = map[codes.Code]bool{
	codes.OK: true, codes.Aborted: true, codes.AlreadyExists: true, codes.FailedPrecondition: true,
	codes.NotFound: true, codes.Unavailable: true, codes.InvalidArgument: true, sm.CheckCode: true,
}

func run(r *vk.Run) {
	r.Describe("histories of 2-4 concurrent writers on one Value / 1-3 collection ids (Set/Add/Update/Delete/Get with CAS, expected checks, delta interceptors, create-if-absent, generated ids; every written value uniquely tagged) recorded at the call boundary with a logical clock and checked with porcupine against the sequential model, partitioned per id, plus independent conservation checks (sum of successful increments, uniqueness of generated ids, at most one successful Add per absent id). Forced part: victim op x window {gau.afterRead, gau.beforeLock, col.delete.afterRead, col.delete.beforeLock} x interfering op sequence x pre-state, depth 2 with a second victim parked inside the first; the same two windows for Value.Set on a Value with and without a stored value; plus a conditional Delete / Update interfered with on every one of its attempts (1-9 times, the last interference leaving a version the condition refuses); plus writer A parked between commit and publication (value.set.beforePublish / col.update.beforePublish) while writer B commits, with and without a live subscriber. Stress part: random histories with pseudo-random yields at all hook points. Distinct = (victim, window, interferer, pre-state) triples reached, resp. distinct outcome vectors of stress histories.",
		"Aborted/Unavailable are always-legal no-ops; FailedPrecondition/AlreadyExists/NotFound/check errors are legal only in a state that justifies them",
		"a porcupine timeout (60 s per partition) is inconclusive, never a violation")
	forced(r)
	forcedRetryBudget(r)
	forcedValue(r)
	forcedPublish(r)
	stress(r)
	counters(r)
	ownEffects(r)
	r.Require("forced-windows-reached", 50)
	r.Require("forced-publish-windows-reached", 8)
	r.Require("stress-histories", 100)
}

// ---------------------------------------------------------------------------------------------------------
// forced windows

type victimSpec struct {
	name   string
	window []string
	mk     func(g *rig, cur *tat) sm.Op
}

type interfererSpec struct {
	name  string
	ops   func(g *rig, cur *tat) []sm.Op
	stuck bool // the collection's random source repeats itself: concurrent id generations propose the same id
}

func victims() []victimSpec {
	gau := []string{"gau.afterRead", "gau.beforeLock"}
	del := []string{"col.delete.afterRead", "col.delete.beforeLock"}
	return []victimSpec{
		{"update", gau, func(g *rig, cur *tat) sm.Op { return opUpdate("a", g.val3(0, 1), sm.Opts{}) }},
		{"update-create", gau, func(g *rig, cur *tat) sm.Op {
			return opUpdate("a", g.val3(0, 1), sm.Opts{CreateIfAbsent: true, CreatedCB: true})
		}},
		{"update-cas", gau, func(g *rig, cur *tat) sm.Op {
			o := sm.Opts{}
			if cur != nil {
				o.ExpectValue = proto.Clone(cur)
			} else {
				o.ExpectValue = &tat{}
				o.CreateIfAbsent = true
			}
			return opUpdate("a", g.val3(0, 1), o)
		}},
		{"update-check", gau, func(g *rig, cur *tat) sm.Op { return opUpdate("a", g.val3(0, 0), sm.Opts{ExpectCheck: true}) }},
		{"update-cas-check", gau, func(g *rig, cur *tat) sm.Op {
			// expected value AND expected check on one write: both must have held at the instant of the write
			o := sm.Opts{ExpectCheck: true}
			if cur != nil {
				o.ExpectValue = proto.Clone(cur)
			} else {
				o.ExpectValue = &tat{}
				o.CreateIfAbsent = true
			}
			return opUpdate("a", g.val3(0, 1), o)
		}},
		{"update-delta", gau, func(g *rig, cur *tat) sm.Op {
			return opUpdate("a", &tat{DefaultInt64: 5}, sm.Opts{Before: true, HasUpdateMask: true, UpdateMask: []string{"default_int64"}})
		}},
		{"update-delta-create", gau, func(g *rig, cur *tat) sm.Op {
			return opUpdate("a", &tat{DefaultInt64: 5}, sm.Opts{Before: true, HasUpdateMask: true, UpdateMask: []string{"default_int64"}, CreateIfAbsent: true})
		}},
		{"add", gau, func(g *rig, cur *tat) sm.Op { return sm.Op{Kind: sm.Add, ID: "a", Val: g.val3(0, 1)} }},
		{"add-genid", gau, func(g *rig, cur *tat) sm.Op {
			return sm.Op{Kind: sm.Add, ID: "", Val: g.val3(0, 1), Opts: sm.Opts{GenID: true, IDCallback: true}}
		}},
		{"delete", del, func(g *rig, cur *tat) sm.Op { return sm.Op{Kind: sm.Delete, ID: "a"} }},
		{"delete-allowmissing", del, func(g *rig, cur *tat) sm.Op {
			return sm.Op{Kind: sm.Delete, ID: "a", Opts: sm.Opts{AllowMissing: true}}
		}},
		{"delete-expect", del, func(g *rig, cur *tat) sm.Op {
			o := sm.Opts{}
			if cur != nil {
				o.ExpectValue = proto.Clone(cur)
			}
			return sm.Op{Kind: sm.Delete, ID: "a", Opts: o}
		}},
		{"delete-expect-check", del, func(g *rig, cur *tat) sm.Op {
			o := sm.Opts{ExpectCheck: true}
			if cur != nil {
				o.ExpectValue = proto.Clone(cur)
			}
			return sm.Op{Kind: sm.Delete, ID: "a", Opts: o}
		}},
		{"delete-check", del, func(g *rig, cur *tat) sm.Op { return sm.Op{Kind: sm.Delete, ID: "a", Opts: sm.Opts{ExpectCheck: true}} }},
	}
}

func interferers() []interfererSpec {
	same := func(cur *tat) *tat {
		if cur == nil {
			return &tat{}
		}
		return proto.Clone(cur).(*tat)
	}
	return []interfererSpec{
		{name: "none", ops: func(g *rig, cur *tat) []sm.Op { return nil }},
		{name: "update", ops: func(g *rig, cur *tat) []sm.Op {
			return []sm.Op{opUpdate("a", g.val3(1, 0), sm.Opts{CreateIfAbsent: true})}
		}},
		{name: "update-aba", ops: func(g *rig, cur *tat) []sm.Op {
			return []sm.Op{opUpdate("a", g.val3(1, 0), sm.Opts{CreateIfAbsent: true}), opUpdate("a", same(cur), sm.Opts{})}
		}},
		{name: "delta", ops: func(g *rig, cur *tat) []sm.Op {
			return []sm.Op{opUpdate("a", &tat{DefaultInt64: 3}, sm.Opts{Before: true, HasUpdateMask: true, UpdateMask: []string{"default_int64"}, CreateIfAbsent: true})}
		}},
		{name: "delete", ops: func(g *rig, cur *tat) []sm.Op {
			return []sm.Op{{Kind: sm.Delete, ID: "a", Opts: sm.Opts{AllowMissing: true}}}
		}},
		{name: "delete-readd-same", ops: func(g *rig, cur *tat) []sm.Op {
			return []sm.Op{{Kind: sm.Delete, ID: "a", Opts: sm.Opts{AllowMissing: true}}, {Kind: sm.Add, ID: "a", Val: same(cur)}}
		}},
		{name: "delete-readd-other", ops: func(g *rig, cur *tat) []sm.Op {
			return []sm.Op{{Kind: sm.Delete, ID: "a", Opts: sm.Opts{AllowMissing: true}}, {Kind: sm.Add, ID: "a", Val: g.val3(1, 1)}}
		}},
		{name: "add", ops: func(g *rig, cur *tat) []sm.Op { return []sm.Op{{Kind: sm.Add, ID: "a", Val: g.val3(1, 0)}} }},
		{name: "add-genid-same-candidate", stuck: true, ops: func(g *rig, cur *tat) []sm.Op {
			return []sm.Op{{Kind: sm.Add, ID: "", Val: g.val3(1, 0), Opts: sm.Opts{GenID: true, IDCallback: true}}}
		}},
		{name: "add-empty", ops: func(g *rig, cur *tat) []sm.Op { return []sm.Op{{Kind: sm.Add, ID: "a", Val: &tat{}}} }},
		{name: "add-delete", ops: func(g *rig, cur *tat) []sm.Op {
			return []sm.Op{{Kind: sm.Add, ID: "a", Val: g.val3(1, 0)}, {Kind: sm.Delete, ID: "a", Opts: sm.Opts{AllowMissing: true}}}
		}},
	}
}

func forced(r *vk.Run) {
	model := &sm.Model{Cfg: sm.Config{NilWritable: true}, Type: info()}
	vs, is := victims(), interferers()
	sched := vk.NewSched()
	defer sched.Close()
	idx := 0
	pre := []struct {
		name string
		cur  *tat
	}{{"absent", nil}, {"present", &tat{DefaultString: "init", DefaultInt32: 1, DefaultInt64: 100}}, {"present-empty", &tat{}}}
	for _, v := range vs {
		for _, w := range v.window {
			for _, in := range is {
				for _, ps := range pre {
					// depth 1: victim parked in w while the interferer's ops run
					idx++
					if r.Mine(idx) {
						forcedScenario(r, sched, model, v, w, in, nil, "", ps.name, ps.cur)
					}
					// depth 2: a second victim (of the same kind family) parked inside the first one's window
					if r.Quick() && idx%3 != int(r.Seed%3) {
						continue
					}
					for _, v2 := range vs {
						if v2.name != "add" && v2.name != "update-delta-create" && v2.name != "delete" && v2.name != "update-cas" {
							continue
						}
						idx++
						if r.Mine(idx) {
							forcedScenario(r, sched, model, v, w, in, &v2, v2.window[len(v2.window)-1], ps.name, ps.cur)
						}
					}
				}
			}
		}
	}
	r.Count("forced-scenarios", idx)
}

func forcedScenario(r *vk.Run, sched *vk.Sched, model *sm.Model, v victimSpec, w string, in interfererSpec, v2 *victimSpec, w2 string, preName string, cur *tat) {
	init := sm.State{}
	if cur != nil {
		init["a"] = sm.Item{Msg: proto.Clone(cur)}
	}
	g := newRig(model, init, r.Rand("forced-ids"), in.stuck)
	key := fmt.Sprintf("%s@%s/%s/%s", v.name, w, in.name, preName)
	if v2 != nil {
		key = fmt.Sprintf("%s@%s+%s@%s/%s/%s", v.name, w, v2.name, w2, in.name, preName)
	}
	if !r.Selected("C02/forced/" + key) {
		return
	}
	// victim 1
	p1 := sched.ParkAt(w, nil)
	t1 := vk.Go(func() { g.do(0, v.mk(g, cur)) })
	if !waitArrived(p1, t1) {
		r.Count("forced-window-not-reached", 1)
		r.Distinct("unreached:" + key)
		p1.Release()
		t1.Wait()
		return
	}
	var p2 *vk.Park
	var t2 *vk.Task
	if v2 != nil {
		p2 = sched.ParkAt(w2, nil)
		t2 = vk.Go(func() { g.do(2, v2.mk(g, cur)) })
		if !waitArrived(p2, t2) {
			r.Count("forced-window2-not-reached", 1)
			p2.Release() // disarm, otherwise the interferer would park there
		}
	}
	for _, op := range in.ops(g, cur) {
		g.do(1, op)
	}
	if p2 != nil {
		p2.Release()
		t2.Wait()
	}
	p1.Release()
	t1.Wait()
	// final read
	g.do(9, sm.Op{Kind: sm.Get, ID: "a"})
	for _, h := range g.rec.ops {
		if h.op.Opts.GenID && h.res.Code == codes.OK {
			g.do(9, sm.Op{Kind: sm.Get, ID: h.resolved})
		}
	}
	r.Eval(1)
	r.Count("forced-windows-reached", 1)
	r.Distinct("forced:" + key)
	judge(r, model, init, g, "C02/forced/"+key, map[string]any{"victim": v.name, "window": w, "interferer": in.name, "pre": preName, "victim2": w2})
	if r.WantSample("forced-history") {
		r.Sample("forced-history", renderHistory(g.rec.ops))
	}
}

// forcedPublish: writer A is parked after it has committed and before it publishes (value.set.beforePublish /
// col.update.beforePublish); writer B then runs as far as it gets (it commits and waits for its turn to publish),
// A is released and both return. What each call returned must still be explainable by one order of the two writes:
// a result assembled after the commit (re-read state, shared buffers) shows here.
func forcedPublish(r *vk.Run) {
	sched := vk.NewSched()
	defer sched.Close()
	type wr struct {
		name string
		mk   func(g *rig, proc int) sm.Op
	}
	delta := sm.Opts{Before: true, HasUpdateMask: true, UpdateMask: []string{"default_int64"}}
	idx := 0
	for _, isValue := range []bool{true, false} {
		window := "col.update.beforePublish"
		kind := sm.Update
		if isValue {
			window, kind = "value.set.beforePublish", sm.Set
		}
		ws := []wr{
			{"delta", func(g *rig, proc int) sm.Op {
				return sm.Op{Kind: kind, ID: "a", Val: &tat{DefaultInt64: int64(3 + 4*proc)}, Opts: delta}
			}},
			{"replace", func(g *rig, proc int) sm.Op { return sm.Op{Kind: kind, ID: "a", Val: g.val3(proc, 1)} }},
		}
		for _, a := range ws {
			for _, b := range ws {
				for _, withSub := range []bool{false, true} {
					idx++
					if !r.Mine(idx) {
						continue
					}
					model := &sm.Model{Cfg: sm.Config{IsValue: isValue, NilWritable: true}, Type: info()}
					init := sm.State{}
					id := "a"
					if isValue {
						id = ""
					}
					init[id] = sm.Item{Msg: &tat{DefaultString: "init", DefaultInt32: 1, DefaultInt64: 100}}
					g := newRig(model, init, r.Rand("forced-publish"))
					key := fmt.Sprintf("publish-window/%s+%s@%s", a.name, b.name, window)
					if !r.Selected("C02/forced/" + key) {
						continue
					}
					cancel := func() {}
					if withSub {
						// a subscriber that keeps receiving: publishing has somebody to deliver to
						ctx, c := context.WithCancel(context.Background())
						cancel = c
						if isValue {
							ch := g.val.Pull(ctx, resource.WithBackpressure(true))
							go func() {
								for range ch {
								}
							}()
						} else {
							ch := g.col.Pull(ctx, resource.WithBackpressure(true))
							go func() {
								for range ch {
								}
							}()
						}
						vk.Quiesce()
					}
					pa := sched.ParkAt(window, nil)
					ta := vk.Go(func() { g.do(0, a.mk(g, 0)) })
					if !waitArrived(pa, ta) {
						r.Count("forced-window-not-reached", 1)
						pa.Release()
						ta.Wait()
						cancel()
						continue
					}
					tb := vk.Go(func() { g.do(1, b.mk(g, 1)) })
					vk.Quiesce()
					pa.Release()
					ta.Wait()
					tb.Wait()
					g.do(9, sm.Op{Kind: sm.Get, ID: "a"})
					cancel()
					r.Eval(1)
					r.Count("forced-windows-reached", 1)
					r.Count("forced-publish-windows-reached", 1)
					r.Distinct(fmt.Sprintf("forced:%s:%v", key, withSub))
					judge(r, model, init, g, "C02/forced/"+key, map[string]any{"a": a.name, "b": b.name, "window": window, "subscriber": withSub})
				}
			}
		}
	}
}

// forcedValue: the collection windows again for a Value, in particular one that has nothing stored yet: a Set
// (delta interceptor, expected check, plain) is parked after its optimistic read / before taking the lock while
// another Set commits.
func forcedValue(r *vk.Run) {
	sched := vk.NewSched()
	defer sched.Close()
	type wr struct {
		name string
		mk   func(g *rig, proc int, restricted bool) sm.Op
	}
	ws := []wr{
		{"delta", func(g *rig, proc int, restricted bool) sm.Op {
			// on a Value with writable fields the counter is not one of them: the increment asks for all fields
			return sm.Op{Kind: sm.Set, Val: &tat{DefaultInt64: int64(3 + 4*proc)}, Opts: sm.Opts{Before: true, HasUpdateMask: true, UpdateMask: []string{"default_int64"}, AllWritable: restricted}}
		}},
		{"replace", func(g *rig, proc int, _ bool) sm.Op { return sm.Op{Kind: sm.Set, Val: g.val3(proc, 1)} }},
		{"check", func(g *rig, proc int, _ bool) sm.Op { return sm.Op{Kind: sm.Set, Val: g.val3(proc, 0), Opts: sm.Opts{ExpectCheck: true}} }},
		{"cas-never-written", func(g *rig, proc int, _ bool) sm.Op {
			return sm.Op{Kind: sm.Set, Val: g.val3(proc, 1), Opts: sm.Opts{ExpectValue: &tat{DefaultString: "never-written"}}}
		}},
	}
	idx := 0
	for _, window := range []string{"gau.afterRead", "gau.beforeLock"} {
		for _, pre := range []string{"unset", "set", "set+writable-fields"} {
			for _, a := range ws {
				for _, b := range ws {
					idx++
					if !r.Mine(idx) {
						continue
					}
					restricted := pre == "set+writable-fields"
					cfg := sm.Config{IsValue: true, NilWritable: true}
					if restricted {
						// a plain Set only rewrites these fields, everything else is carried over from what it read
						cfg = sm.Config{IsValue: true, Writable: []string{"default_string", "default_int32"}}
					}
					model := &sm.Model{Cfg: cfg, Type: info()}
					init := sm.State{}
					if pre != "unset" {
						init[""] = sm.Item{Msg: &tat{DefaultString: "init", DefaultInt32: 1, DefaultInt64: 100}}
					}
					g := newRig(model, init, r.Rand("forced-value"))
					key := fmt.Sprintf("value/%s@%s/%s/%s", a.name, window, b.name, pre)
					if !r.Selected("C02/forced/" + key) {
						continue
					}
					pa := sched.ParkAt(window, nil)
					ta := vk.Go(func() { g.do(0, a.mk(g, 0, restricted)) })
					if !waitArrived(pa, ta) {
						r.Count("forced-window-not-reached", 1)
						r.Distinct("unreached:" + key)
						pa.Release()
						ta.Wait()
						continue
					}
					g.do(1, b.mk(g, 1, restricted))
					pa.Release()
					ta.Wait()
					g.do(9, sm.Op{Kind: sm.Get})
					r.Eval(1)
					r.Count("forced-windows-reached", 1)
					r.Count("forced-value-windows-reached", 1)
					r.Distinct("forced:" + key)
					judge(r, model, init, g, "C02/forced/"+key, map[string]any{"victim": a.name, "window": window, "interferer": b.name, "pre": pre})
				}
			}
		}
	}
}

// forcedRetryBudget: a conditional Delete (and a conditional Update) is interfered with on EVERY attempt: each time
// it is about to take the write lock another writer has just stored a new version. The first versions satisfy the
// precondition, the last one does not. Whatever the call does when its attempts run out, it must not remove (or
// overwrite) a version its precondition never saw: the recorded history must stay explainable one call at a time.
func forcedRetryBudget(r *vk.Run) {
	sched := vk.NewSched()
	defer sched.Close()
	idx := 0
	for _, victim := range []string{"delete-check", "delete-check-allowmissing", "update-check"} {
		for _, budget := range []int{1, 3, 5, 6, 9} {
			idx++
			if !r.Mine(idx) {
				continue
			}
			model := &sm.Model{Cfg: sm.Config{NilWritable: true}, Type: info()}
			init := sm.State{"a": sm.Item{Msg: &tat{DefaultString: "init", DefaultInt32: 1, DefaultInt64: 100}}}
			g := newRig(model, init, r.Rand("forced-retry"))
			key := fmt.Sprintf("retry-budget/%s/%d-interferences", victim, budget)
			if !r.Selected("C02/forced/" + key) {
				continue
			}
			point := "col.delete.beforeLock"
			if victim == "update-check" {
				point = "gau.beforeLock"
			}
			hits, busy := 0, false
			sched.Tap(func(p string, _, _ any) {
				if p != point || busy || hits >= budget {
					return
				}
				busy = true
				hits++
				parity := int32(1) // satisfies the expected check
				if hits == budget {
					parity = 0 // the version left behind would be refused
				}
				g.do(1, opUpdate("a", g.val3(1, parity), sm.Opts{}))
				busy = false
			})
			switch victim {
			case "delete-check":
				g.do(0, sm.Op{Kind: sm.Delete, ID: "a", Opts: sm.Opts{ExpectCheck: true}})
			case "delete-check-allowmissing":
				g.do(0, sm.Op{Kind: sm.Delete, ID: "a", Opts: sm.Opts{ExpectCheck: true, AllowMissing: true}})
			default:
				g.do(0, opUpdate("a", g.val3(0, 1), sm.Opts{ExpectCheck: true}))
			}
			sched.Tap(nil)
			g.do(9, sm.Op{Kind: sm.Get, ID: "a"})
			r.Eval(1)
			r.Count("forced-windows-reached", 1)
			r.Count("forced-retry-budget-scenarios", 1)
			r.Count(fmt.Sprintf("forced-retry-budget-interferences-%d", hits), 1)
			r.Distinct(fmt.Sprintf("forced:%s:%d", key, hits))
			judge(r, model, init, g, "C02/forced/"+key, map[string]any{"victim": victim, "interferences": budget})
		}
	}
}

// waitArrived waits until the goroutine is parked or the task finished without reaching the hook.
func waitArrived(p *vk.Park, t *vk.Task) bool {
	for {
		if p.Arrived() {
			return true
		}
		if t.Done() {
			return p.Arrived()
		}
		vk.Quiesce() // blocks until everything is parked or finished; no wall-clock decision
		if p.Arrived() {
			return true
		}
		if t.Done() {
			return p.Arrived()
		}
	}
}

func renderHistory(ops []*hop) []string {
	hs := append([]*hop{}, ops...)
	sort.Slice(hs, func(i, j int) bool { return hs[i].call < hs[j].call })
	var out []string
	for _, h := range hs {
		out = append(out, fmt.Sprintf("[%d,%d] p%d %v -> %v %s", h.call, h.ret, h.proc, h.op, h.res.Code, vk.JSON(h.res.Msg)))
	}
	return out
}

// judge runs all checkers over the recorded history.
func judge(r *vk.Run, model *sm.Model, init sm.State, g *rig, key string, replay any) {
	ops := g.rec.ops
	hist := strings.Join(renderHistory(ops), "\n")
	for _, h := range ops {
		if !allowedLoserCodes[h.res.Code] {
			r.Violation(fmt.Sprintf("C02/error-code/%s/%v", h.op.Kind, h.res.Code), fmt.Sprintf("%v returned %v (%s), not one of the documented outcomes of a lost race\n%s", h.op, h.res.Code, h.res.Err, hist), replay)
		}
	}
	// at most one successful Add per id while it is continuously absent is implied by linearizability; check the
	// simplest form independently: two successful Adds of one id with no successful Delete of it in the history
	adds, dels := map[string]int{}, map[string]int{}
	for _, h := range ops {
		if h.res.Code != codes.OK {
			continue
		}
		switch h.op.Kind {
		case sm.Add:
			adds[h.resolved]++
		case sm.Delete:
			if h.res.Msg != nil {
				dels[h.resolved]++
			}
		}
	}
	for id, n := range adds {
		pre := 0
		if _, ok := init[id]; ok {
			pre = 1
		}
		if n+pre > dels[id]+1 {
			r.Violation(key+"#double-add", fmt.Sprintf("%d Adds of id %q succeeded (initially present: %v) with only %d successful Deletes\n%s", n, id, pre == 1, dels[id], hist), replay)
		}
	}
	// generated ids are pairwise distinct
	seen := map[string]bool{}
	for _, h := range ops {
		if h.op.Opts.GenID && h.res.Code == codes.OK {
			if seen[h.resolved] {
				r.Violation("C02/conservation/ids", fmt.Sprintf("generated id %q handed out twice\n%s", h.resolved, hist), replay)
			}
			seen[h.resolved] = true
		}
	}
	bad, unknown := checkHistory(r, model, init, ops, g.lower)
	if unknown {
		r.Inconclusive("porcupine-timeout", "a partition could not be decided within 60 s")
	}
	if bad != "" {
		r.Violation(key, bad, replay)
	}
}

// ---------------------------------------------------------------------------------------------------------
// stress

func stress(r *vk.Run) {
	n := r.Pick(2000, 600000)
	sched := vk.NewSched()
	defer sched.Close()
	for i := 0; i < n; i++ {
		if !r.Mine(i) {
			continue
		}
		rng := r.CaseRand("c02-stress", i)
		isValue := rng.Chance(1, 4)
		lower := !isValue && rng.Chance(1, 5)
		model := &sm.Model{Cfg: sm.Config{IsValue: isValue, NilWritable: true, LowerIDs: lower}, Type: info()}
		ids := []string{"a", "b", "c"}[:rng.Range(1, 3)]
		if lower {
			ids = append(ids, "A")
		}
		init := sm.State{}
		if isValue {
			if rng.Chance(2, 3) { // a third of the Values start with nothing stored
				init[""] = sm.Item{Msg: &tat{DefaultString: "init", DefaultInt32: 1}}
			}
		} else if rng.Bool() {
			init["a"] = sm.Item{Msg: &tat{DefaultString: "init", DefaultInt32: 1}}
		}
		g := newRig(model, init, rng)
		procs := rng.Range(2, 4)
		per := 30 / procs
		sched.Stress(rng.Uint64() | 1)
		var wg sync.WaitGroup
		for p := 0; p < procs; p++ {
			prng := rng.Fork()
			p := p
			wg.Add(1)
			go func() {
				defer wg.Done()
				var lastSeen = map[string]*tat{}
				for k := 0; k < per; k++ {
					id := ids[prng.Intn(len(ids))]
					if isValue {
						id = ""
					}
					var op sm.Op
					switch c := prng.Intn(12); {
					case isValue && c < 3:
						op = sm.Op{Kind: sm.Get}
					case isValue && c < 6:
						op = sm.Op{Kind: sm.Set, Val: g.val3(p, int32(prng.Intn(2)))}
					case isValue && c < 8:
						o := sm.Opts{}
						if ls := lastSeen[""]; ls != nil {
							o.ExpectValue = proto.Clone(ls)
						} else {
							// nothing seen yet (possibly nothing stored yet): a value nobody ever wrote is not what the register holds
							o.ExpectValue = &tat{DefaultString: "never-written"}
						}
						o.ExpectCheck = prng.Intn(3) == 0 // both preconditions on one write: each must hold
						op = sm.Op{Kind: sm.Set, Val: g.val3(p, int32(prng.Intn(2))), Opts: o}
					case isValue && c < 10:
						op = sm.Op{Kind: sm.Set, Val: &tat{DefaultInt64: int64(prng.Range(1, 9))}, Opts: sm.Opts{Before: true, HasUpdateMask: true, UpdateMask: []string{"default_int64"}}}
					case isValue:
						op = sm.Op{Kind: sm.Set, Val: g.val3(p, 0), Opts: sm.Opts{ExpectCheck: true}}
					case c == 0:
						op = sm.Op{Kind: sm.Get, ID: id}
					case c == 1:
						op = sm.Op{Kind: sm.Add, ID: id, Val: g.val3(p, int32(prng.Intn(2)))}
					case c == 2:
						op = opUpdate(id, g.val3(p, int32(prng.Intn(2))), sm.Opts{})
					case c == 3:
						op = opUpdate(id, g.val3(p, int32(prng.Intn(2))), sm.Opts{CreateIfAbsent: true, CreatedCB: true})
					case c == 4:
						o := sm.Opts{}
						if ls := lastSeen[id]; ls != nil {
							o.ExpectValue = proto.Clone(ls)
						} else {
							o.ExpectValue, o.CreateIfAbsent = &tat{}, true
						}
						o.ExpectCheck = prng.Intn(3) == 0
						op = opUpdate(id, g.val3(p, int32(prng.Intn(2))), o)
					case c == 5:
						op = opUpdate(id, g.val3(p, 0), sm.Opts{ExpectCheck: true})
					case c == 6 || c == 7:
						op = opUpdate(id, &tat{DefaultInt64: int64(prng.Range(1, 9))}, sm.Opts{Before: true, HasUpdateMask: true, UpdateMask: []string{"default_int64"}, CreateIfAbsent: prng.Bool()})
					case c == 8:
						op = sm.Op{Kind: sm.Delete, ID: id, Opts: sm.Opts{AllowMissing: prng.Bool()}}
					case c == 9:
						o := sm.Opts{}
						if ls := lastSeen[id]; ls != nil {
							o.ExpectValue = proto.Clone(ls)
						}
						o.ExpectCheck = prng.Intn(3) == 0
						op = sm.Op{Kind: sm.Delete, ID: id, Opts: o}
					case c == 10:
						op = sm.Op{Kind: sm.Add, ID: "", Val: g.val3(p, 1), Opts: sm.Opts{GenID: true, IDCallback: true}}
					default:
						op = sm.Op{Kind: sm.Delete, ID: id, Opts: sm.Opts{ExpectCheck: true}}
					}
					h := g.do(p, op)
					if h.res.Code == codes.OK && h.res.Msg != nil && op.Kind != sm.Delete {
						if m, ok := h.res.Msg.(*tat); ok && m != nil {
							lastSeen[h.resolved] = proto.Clone(m).(*tat)
						}
					}
				}
			}()
		}
		wg.Wait()
		sched.Stress(0)
		// final reads of every id touched
		touched := map[string]bool{}
		for _, h := range g.rec.ops {
			touched[h.resolved] = true
		}
		for id := range touched {
			if strings.HasPrefix(id, "<ungenerated") {
				continue
			}
			if isValue {
				g.do(9, sm.Op{Kind: sm.Get})
			} else {
				g.do(9, sm.Op{Kind: sm.Get, ID: id})
			}
		}
		r.Eval(1)
		r.Count("stress-histories", 1)
		r.Count("stress-operations", len(g.rec.ops))
		var outcome []string
		for _, h := range g.rec.ops {
			outcome = append(outcome, fmt.Sprintf("%s:%v", h.op.Kind, h.res.Code))
			if h.res.Code == codes.Aborted || h.res.Code == codes.Unavailable {
				r.Count("stress-lost-races(Aborted/Unavailable)", 1)
			}
		}
		sort.Strings(outcome)
		r.Distinct("stress:" + strings.Join(outcome, ","))
		kind := "collection"
		if isValue {
			kind = "value"
		}
		judge(r, model, init, g, "C02/stress/"+kind, map[string]any{"case": i})
		if r.WantSample("stress-history") {
			r.Sample("stress-history", renderHistory(g.rec.ops))
		}
	}
}

// ---------------------------------------------------------------------------------------------------------
// every successful call takes effect exactly once, as ITS OWN call

// ownEffects: several goroutines Add / Update items on two collections at once, every call with its own id callback
// (generated ids) and its own after-interceptor stamp. A successful call's callback runs exactly once, with an id
// under which Get returns that call's value and stamp, and the call returns its own value and stamp: no call takes
// effect as another one.
func ownEffects(r *vk.Run) {
	rounds := r.Pick(24, 2400)
	for round := 0; round < rounds; round++ {
		if !r.Mine(round) {
			continue
		}
		cols := []*resource.Collection{resource.NewCollection(), resource.NewCollection()}
		type rec struct {
			col         int
			tag         string
			stamp       int64
			ids         []string
			ret         *tat
			err         error
			viaUpdate   bool
			explicitID  string
			afterCalled int
		}
		var mu sync.Mutex
		var recs []*rec
		var wg sync.WaitGroup
		for g := 0; g < 8; g++ {
			g := g
			wg.Add(1)
			go func() {
				defer wg.Done()
				for k := 0; k < 40; k++ {
					rc := &rec{col: (g + k) % 2, tag: fmt.Sprintf("r%dg%dk%d", round, g, k), stamp: int64(round)*1000000 + int64(g)*1000 + int64(k) + 1, viaUpdate: k%5 == 4}
					opts := []resource.WriteOption{
						resource.InterceptAfter(func(_, new proto.Message) {
							rc.afterCalled++
							new.(*tat).DefaultInt64 = rc.stamp
						}),
					}
					id := ""
					if k%3 == 0 {
						id = rc.tag // an explicit id of its own
						rc.explicitID = id
					} else {
						opts = append(opts, resource.WithGenIDIfAbsent(), resource.WithIDCallback(func(id string) { rc.ids = append(rc.ids, id) }))
					}
					var res proto.Message
					if rc.viaUpdate {
						res, rc.err = cols[rc.col].Update(id, &tat{DefaultString: rc.tag}, append(opts, resource.WithCreateIfAbsent())...)
					} else {
						res, rc.err = cols[rc.col].Add(id, &tat{DefaultString: rc.tag}, opts...)
					}
					rc.ret, _ = res.(*tat)
					mu.Lock()
					recs = append(recs, rc)
					mu.Unlock()
				}
			}()
		}
		wg.Wait()
		r.Eval(len(recs))
		r.Count("own-effect-calls", len(recs))
		r.Distinct(fmt.Sprintf("owneffects|%d", round%8))
		for _, rc := range recs {
			what := "Add"
			if rc.viaUpdate {
				what = "Update+create"
			}
			bad := ""
			id := rc.explicitID
			switch {
			case rc.err != nil:
				continue // Aborted etc.: a call that failed is not judged here
			case rc.explicitID == "" && len(rc.ids) != 1:
				bad = fmt.Sprintf("its id callback ran %d times (%v), want once", len(rc.ids), rc.ids)
			case rc.afterCalled != 1:
				bad = fmt.Sprintf("its after-interceptor ran %d times, want once", rc.afterCalled)
			case rc.ret == nil || rc.ret.DefaultString != rc.tag || rc.ret.DefaultInt64 != rc.stamp:
				bad = fmt.Sprintf("it returned %s, want its own value %q with its own stamp %d", vk.JSON(rc.ret), rc.tag, rc.stamp)
			}
			if bad == "" {
				if id == "" {
					id = rc.ids[0]
				}
				got, ok := cols[rc.col].Get(id)
				if gt, _ := got.(*tat); !ok || gt == nil || gt.DefaultString != rc.tag || gt.DefaultInt64 != rc.stamp {
					bad = fmt.Sprintf("Get(%q) returns %s, want its own value %q with its own stamp %d", id, vk.JSON(got), rc.tag, rc.stamp)
				}
			}
			if bad != "" {
				r.Violation("C02/own-effect/"+what, fmt.Sprintf("8 goroutines creating items on two collections, each call with its own id callback / after-interceptor: a successful %s of %q: %s", what, rc.tag, bad), map[string]any{"round": round})
				break
			}
		}
	}
	r.Require("own-effect-calls", 500)
}

// ---------------------------------------------------------------------------------------------------------
// conservation of increments

func counters(r *vk.Run) {
	n := r.Pick(300, 60000)
	sched := vk.NewSched()
	defer sched.Close()
	for i := 0; i < n; i++ {
		if !r.Mine(i) {
			continue
		}
		rng := r.CaseRand("c02-counter", i)
		isValue := rng.Bool()
		model := &sm.Model{Cfg: sm.Config{IsValue: isValue, NilWritable: true}, Type: info()}
		init := sm.State{}
		key := "a"
		if isValue {
			key = ""
		}
		init[key] = sm.Item{Msg: &tat{DefaultString: "ctr", DefaultInt64: 1000}}
		g := newRig(model, init, rng)
		procs := rng.Range(2, 4)
		sched.Stress(rng.Uint64() | 1)
		var sum atomic.Int64
		var wg sync.WaitGroup
		for p := 0; p < procs; p++ {
			p := p
			prng := rng.Fork()
			wg.Add(1)
			go func() {
				defer wg.Done()
				for k := 0; k < 12; k++ {
					d := int64(prng.Range(1, 9))
					op := sm.Op{Kind: sm.Update, ID: "a", Val: &tat{DefaultInt64: d}, Opts: sm.Opts{Before: true, HasUpdateMask: true, UpdateMask: []string{"default_int64"}}}
					if isValue {
						op.Kind, op.ID = sm.Set, ""
					}
					h := g.do(p, op)
					if h.res.Code == codes.OK {
						sum.Add(d)
					}
				}
			}()
		}
		wg.Wait()
		sched.Stress(0)
		var final *tat
		if isValue {
			final, _ = g.val.Get().(*tat)
		} else {
			m, _ := g.col.Get("a")
			final, _ = m.(*tat)
		}
		r.Eval(1)
		r.Count("counter-histories", 1)
		r.Distinct(fmt.Sprintf("counter:%v:%d:%d", isValue, procs, sum.Load()))
		if final == nil || final.DefaultInt64 != 1000+sum.Load() {
			r.Violation("C02/conservation/increments", fmt.Sprintf("sum of successful increments is %d but the counter went from 1000 to %v\n%s", sum.Load(), vk.JSON(final), strings.Join(renderHistory(g.rec.ops), "\n")), map[string]any{"case": i})
		}
	}
}
