package main

import (
	"context"
	"fmt"
	"sort"
	"strings"
	"sync"

	"github.com/smart-core-os/sc-api/go/types"
	"google.golang.org/protobuf/proto"

	"github.com/smart-core-os/sc-golang/internal/testproto"
	"github.com/smart-core-os/sc-golang/internal/verif/vk"
	"github.com/smart-core-os/sc-golang/pkg/resource"
)

// equivalencePhase: include predicates on a collection that ALSO has an equivalence configured (two values are
// equivalent iff they carry the same tag; the sequence number differs per write). Suppressing equivalent updates
// must not disturb the filtered view: after every write the folded stream has exactly the members of
// List(WithInclude) and each held value is equivalent to the listed one. Histories are random words over the
// generic alphabet (add/update/delete x 2 ids x 2 tags) of length 3-9, so that items leave the filtered
// collection (by delete or by an update that stops matching) and come back with an equivalent value.
func equivalencePhase(r *vk.Run) {
	g := newGeneric(r)
	defer g.flush()
	n := r.Pick(4000, 150000)
	sameTag := func(x, y proto.Message) bool {
		a, _ := x.(*testproto.TestAllTypes)
		b, _ := y.(*testproto.TestAllTypes)
		if a == nil || b == nil {
			return false
		}
		return a.DefaultInt32 == b.DefaultInt32
	}
	for i := 0; i < n; i++ {
		if !r.Mine(i) {
			continue
		}
		rng := r.CaseRand("c08-equiv", i)
		p := rng.Intn(64)
		length := rng.Range(3, 9)
		ops := make([]op, length)
		for k := range ops {
			ops[k] = letters[rng.Intn(len(letters))]
		}
		subAt := rng.Intn(length)
		bp := rng.Bool()
		mode := "lossy"
		if bp {
			mode = "bp"
		}
		// one case in three: a coarse equivalence under which ALL stored values are equivalent, so that the predicate
		// distinguishes values the comparer does not (an update that makes an item start or stop matching must still be
		// reported, whatever the comparer thinks of the two versions)
		coarse := rng.Intn(3) == 0
		equivalent := sameTag
		if coarse {
			mode += "+coarse"
			equivalent = func(x, y proto.Message) bool {
				a, _ := x.(*testproto.TestAllTypes)
				b, _ := y.(*testproto.TestAllTypes)
				return a != nil && b != nil
			}
		}
		col := resource.NewCollection(resource.WithEquivalence(resource.ComparerFunc(equivalent)))
		pred := g.predFn(p)
		model := map[int]*val{}
		var seq int64
		var mu sync.Mutex
		view := map[string]proto.Message{}
		ctx, cancel := context.WithCancel(context.Background())
		var trace []string
		ok := true
		for k, o := range ops {
			if k == subAt {
				ch := col.Pull(ctx, resource.WithInclude(pred), resource.WithBackpressure(bp))
				go func() {
					for e := range ch {
						mu.Lock()
						if e.ChangeType == types.ChangeType_REMOVE {
							delete(view, e.Id)
						} else {
							view[e.Id] = e.NewValue
						}
						mu.Unlock()
					}
				}()
				trace = append(trace, "subscribe")
			}
			seq++
			v := &val{tag: int32(o.Val + 1), seq: seq}
			id := idNames[o.ID]
			var err error
			switch o.Kind {
			case kAdd:
				_, err = col.Add(id, mkMsg(id, v))
			case kUpdate:
				_, err = col.Update(id, mkMsg(id, v))
			case kDelete:
				_, err = col.Delete(id)
			}
			if err == nil {
				if o.Kind == kDelete {
					delete(model, o.ID)
				} else {
					model[o.ID] = v
				}
			}
			trace = append(trace, fmt.Sprintf("%v err=%v", o, err != nil))
			if k < subAt {
				continue
			}
			if _, q := r.MustQuiesce("c08-equiv"); !q {
				ok = false
				break
			}
			r.Eval(1)
			listed := map[string]proto.Message{}
			for _, m := range col.List(resource.WithInclude(pred)) {
				listed[m.(*testproto.TestAllTypes).DefaultString] = m
			}
			// List against the model
			for idx, id := range idNames {
				mv := model[idx]
				want := mv != nil && pred(id, mkMsg(id, mv))
				if _, has := listed[id]; has != want {
					r.Violation("C08/equivalence/list/"+mode, fmt.Sprintf("case %d: List(include) has %q = %v, the model says %v\npredicate %s\n%s", i, id, has, want, predString(p), strings.Join(trace, "\n")), map[string]any{"case": i})
					ok = false
				}
			}
			mu.Lock()
			var bad []string
			for id, m := range listed {
				h, has := view[id]
				switch {
				case !has:
					bad = append(bad, "missing "+id)
				case !equivalent(h, m):
					bad = append(bad, fmt.Sprintf("stale %s: holds %s, listed %s", id, vk.JSON(h), vk.JSON(m)))
				}
			}
			for id := range view {
				if _, has := listed[id]; !has {
					bad = append(bad, "extra "+id)
				}
			}
			mu.Unlock()
			sort.Strings(bad)
			if len(bad) > 0 {
				cls := strings.SplitN(bad[0], " ", 2)[0]
				r.Violation("C08/equivalence/fold/"+cls+"/"+mode, fmt.Sprintf("case %d: the folded include-filtered stream of a collection with an equivalence differs from List(include): %s\npredicate %s\n%s", i, strings.Join(bad, "; "), predString(p), strings.Join(trace, "\n")), map[string]any{"case": i, "predicate": p, "ops": ops, "subscribe_before_op": subAt, "backpressure": bp, "coarse_equivalence": coarse})
				ok = false
			}
			if !ok {
				break
			}
		}
		cancel()
		r.Count("equivalence-scenarios", 1)
		r.Distinct(fmt.Sprintf("eqv|%d|%s|%d|%v|%v", p, opsString(ops), subAt, bp, coarse))
		if !ok {
			continue
		}
	}
	r.MustQuiesce("c08-equiv-end")
	r.Require("equivalence-scenarios", 200)
}
