package main

import (
	"context"
	"fmt"
	"sort"
	"strings"
	"sync"

	"github.com/smart-core-os/sc-api/go/traits"
	"github.com/smart-core-os/sc-api/go/types"
	timepb "github.com/smart-core-os/sc-api/go/types/time"
	"google.golang.org/grpc"
	"google.golang.org/protobuf/proto"
	"google.golang.org/protobuf/types/known/fieldmaskpb"
	"google.golang.org/protobuf/types/known/timestamppb"

	"github.com/smart-core-os/sc-golang/internal/verif/vk"
	"github.com/smart-core-os/sc-golang/pkg/resource"
	"github.com/smart-core-os/sc-golang/pkg/trait/bookingpb"
)

// Booking part: bookingpb.ModelServer.ListBookings / PullBookings with booking_intersects.
// Ground truth for the state is the server's own unfiltered, unmasked ListBookings (a path that does not touch the
// include machinery); the reference filter is a dense-timeline interval overlap written here.

const inf = int64(1) << 62

func tsKey(t *timestamppb.Timestamp, unbounded int64) int64 {
	if t == nil {
		return unbounded
	}
	return t.Seconds*1_000_000_000 + int64(t.Nanos)
}

// refIntersects: [s1,e1) and [s2,e2) share a non-empty interval; a missing endpoint is unbounded.
func refIntersects(a, b *timepb.Period) bool {
	if a == nil || b == nil {
		return false
	}
	lo := max(tsKey(a.StartTime, -inf), tsKey(b.StartTime, -inf))
	hi := min(tsKey(a.EndTime, inf), tsKey(b.EndTime, inf))
	return lo < hi
}

func periodValid(p *timepb.Period) bool {
	return p != nil && tsKey(p.StartTime, -inf) < tsKey(p.EndTime, inf)
}

func periodString(p *timepb.Period) string {
	if p == nil {
		return "<none>"
	}
	e := func(t *timestamppb.Timestamp) string {
		if t == nil {
			return "-"
		}
		if t.Nanos != 0 {
			return fmt.Sprintf("%d.%d", t.Seconds, t.Nanos/100_000_000)
		}
		return fmt.Sprint(t.Seconds)
	}
	return "[" + e(p.StartTime) + "," + e(p.EndTime) + ")"
}

func genPeriod(rng *vk.Rand, allowUnbounded bool) *timepb.Period {
	// a grid of half seconds over ten seconds: bounds that differ only in their sub-second part occur often
	s := rng.Intn(19)
	e := s + 1 + rng.Intn(20-s)
	at := func(h int) *timestamppb.Timestamp {
		return &timestamppb.Timestamp{Seconds: int64(h / 2), Nanos: int32(h%2) * 500_000_000}
	}
	p := &timepb.Period{StartTime: at(s), EndTime: at(e)}
	if allowUnbounded {
		if rng.Chance(1, 6) {
			p.StartTime = nil
		}
		if rng.Chance(1, 6) {
			p.EndTime = nil
		}
	}
	return p
}

type pullStream struct {
	grpc.ServerStream
	ctx  context.Context
	gate sync.Mutex // held by the scenario while the consumer is parked

	mu  sync.Mutex
	got []*traits.PullBookingsResponse_Change
	err error
	end bool
}

func (s *pullStream) Context() context.Context { return s.ctx }
func (s *pullStream) Send(m *traits.PullBookingsResponse) error {
	s.gate.Lock()
	//lint:ignore SA2001 the gate only delays the consumer
	s.gate.Unlock()
	s.mu.Lock()
	s.got = append(s.got, m.Changes...)
	s.mu.Unlock()
	return nil
}

var bookingMasks = [][]string{nil, {"id", "booked"}, {"id", "title"}, {"id", "check_in"}}

func bookingPhase(r *vk.Run) {
	n := r.Pick(7000, 250000)
	for i := 0; i < n; i++ {
		if !r.Mine(i) {
			continue
		}
		runBooking(r, r.CaseRand("booking", i))
	}
}

type bookingCase struct {
	r      *vk.Run
	srv    *bookingpb.ModelServer
	q      *timepb.Period
	mask   []string
	script []string
	stream *pullStream
	view   *vk.View
	taken  int
	all    []string
	// tableViolated: a decision-table row was already reported in this case (see exec.tableViolated)
	tableViolated bool
}

func (c *bookingCase) log(format string, a ...any) {
	c.script = append(c.script, fmt.Sprintf(format, a...))
}

func (c *bookingCase) req() *traits.ListBookingsRequest {
	req := &traits.ListBookingsRequest{Name: "room", BookingIntersects: c.q}
	if c.mask != nil {
		req.ReadMask = &fieldmaskpb.FieldMask{Paths: c.mask}
	}
	return req
}

// state returns the server's unfiltered, unmasked bookings by id (clones) and whether all are in the domain
// (a booked period with start < end).
func (c *bookingCase) state() (map[string]*traits.Booking, bool) {
	res, err := c.srv.ListBookings(context.Background(), &traits.ListBookingsRequest{Name: "room"})
	if err != nil {
		c.r.Inconclusive("booking/unfiltered-list", err.Error())
		return nil, false
	}
	m := map[string]*traits.Booking{}
	ok := true
	for _, b := range res.Bookings {
		m[b.Id] = proto.Clone(b).(*traits.Booking)
		if b.Booked != nil && !periodValid(b.Booked) {
			ok = false // an empty or inverted period is not an interval; a booking without any period is fine: it intersects nothing
		}
	}
	return m, ok
}

func (c *bookingCase) included(b *traits.Booking) bool {
	if b == nil {
		return false
	}
	if c.q == nil {
		return true
	}
	return refIntersects(b.Booked, c.q)
}

func (c *bookingCase) proj(b *traits.Booking) proto.Message {
	if b == nil {
		return nil
	}
	return vk.RefProject(b, c.mask, c.mask == nil)
}

// refList: the filtered collection sorted by id, projected.
func (c *bookingCase) refList(st map[string]*traits.Booking) []proto.Message {
	ids := make([]string, 0, len(st))
	for id := range st {
		ids = append(ids, id)
	}
	sort.Strings(ids)
	out := []proto.Message{}
	for _, id := range ids {
		if c.included(st[id]) {
			out = append(out, c.proj(st[id]))
		}
	}
	return out
}

func bookingMap(l []proto.Message) map[string]proto.Message {
	m := map[string]proto.Message{}
	for i, e := range l {
		id := fmt.Sprintf("?%d", i)
		if b, ok := e.(*traits.Booking); ok && b != nil {
			id = b.Id
		}
		m[id] = e
	}
	return m
}

func (c *bookingCase) violation(key, what string, st map[string]*traits.Booking) {
	if strings.HasPrefix(key, "C08/booking/pull/table/") {
		c.tableViolated = true
	}
	var ids []string
	for id := range st {
		ids = append(ids, id)
	}
	sort.Strings(ids)
	var sb strings.Builder
	for _, id := range ids {
		fmt.Fprintf(&sb, "%s booked %s; ", id, periodString(st[id].Booked))
	}
	c.r.Violation(key, fmt.Sprintf("%s\nbooking_intersects %s, read mask %v\nscript: %s\nbookings now: %s\nchanges received so far: %s",
		what, periodString(c.q), c.mask, strings.Join(c.script, "; "), sb.String(), strings.Join(c.all, " ")),
		map[string]any{"booking_intersects": periodString(c.q), "read_mask": c.mask, "script": c.script})
}

func changeString(ch *traits.PullBookingsResponse_Change) string {
	return fmt.Sprintf("{%v old:%s new:%s}", ch.Type, vk.JSON(nilIfNil(ch.OldValue)), vk.JSON(nilIfNil(ch.NewValue)))
}

func nilIfNil(b *traits.Booking) proto.Message {
	if b == nil {
		return nil
	}
	return b
}

// take returns the changes received since the last call and folds them into the view.
func (c *bookingCase) take() []*traits.PullBookingsResponse_Change {
	c.stream.mu.Lock()
	evs := append([]*traits.PullBookingsResponse_Change(nil), c.stream.got[c.taken:]...)
	c.taken = len(c.stream.got)
	c.stream.mu.Unlock()
	for _, ch := range evs {
		cc := &resource.CollectionChange{ChangeType: ch.Type}
		if ch.OldValue != nil {
			cc.OldValue, cc.Id = ch.OldValue, ch.OldValue.Id
		}
		if ch.NewValue != nil {
			cc.NewValue, cc.Id = ch.NewValue, ch.NewValue.Id
		}
		c.view.Apply(cc)
		c.all = append(c.all, changeString(ch))
	}
	return evs
}

// oracles compares ListBookings(filter) with the reference filter and the folded stream with ListBookings(filter).
func (c *bookingCase) oracles(where string, st map[string]*traits.Booking) {
	res, err := c.srv.ListBookings(context.Background(), c.req())
	if err != nil {
		c.r.Inconclusive("booking/list", err.Error())
		return
	}
	real := make([]proto.Message, len(res.Bookings))
	for i, b := range res.Bookings {
		real[i] = b
	}
	want := c.refList(st)
	c.r.Eval(2)
	c.r.Count("booking/list-checks", 1)
	if len(want) > 0 && len(want) < len(st) {
		c.r.Count("booking/list-checks/non-trivial", 1) // the filter both keeps and drops something
	}
	if !vk.SameList(real, want) {
		c.violation("C08/booking/list/"+diffClass(bookingMap(real), bookingMap(want)),
			fmt.Sprintf("%s: ListBookings(booking_intersects) = %s, reference filter gives %s", where, vk.ListJSON(real), vk.ListJSON(want)), st)
	}
	c.r.Count("booking/fold-checks", 1)
	if folded := c.view.Sorted(); !vk.SameList(folded, real) && c.tableViolated {
		c.r.Count("booking/fold-mismatches-attributed-to-a-reported-table-row", 1)
	} else if !vk.SameList(folded, real) {
		c.violation("C08/booking/pull/fold/"+diffClass(c.view.Items, bookingMap(real)),
			fmt.Sprintf("%s: fold of PullBookings(booking_intersects) = %s but ListBookings with the same request = %s", where, vk.ListJSON(folded), vk.ListJSON(real)), st)
	}
}

func runBooking(r *vk.Run, rng *vk.Rand) {
	c := &bookingCase{r: r, srv: bookingpb.NewModelServer(bookingpb.NewModel()), view: vk.NewView(false)}
	bg := context.Background()
	if !rng.Chance(1, 12) {
		c.q = genPeriod(rng, true)
		if rng.Chance(1, 6) {
			c.q = &timepb.Period{} // "all time": still only bookings that have a period at all intersect it
			r.Count("booking/all-time-requests", 1)
		}
	}
	c.mask = bookingMasks[0]
	if rng.Chance(1, 2) {
		c.mask = bookingMasks[1+rng.Intn(len(bookingMasks)-1)]
	}
	updatesOnly := rng.Chance(1, 5)
	nextID := 0
	create := func() (string, error) {
		nextID++
		b := &traits.Booking{Id: fmt.Sprintf("k%d", nextID), Title: fmt.Sprintf("t%d", nextID), Booked: genPeriod(rng, true)}
		if rng.Chance(1, 6) {
			b.Booked = nil // a booking without a booked period intersects nothing
			r.Count("booking/bookings-without-period", 1)
		}
		c.log("create %s %s", b.Id, periodString(b.Booked))
		_, err := c.srv.CreateBooking(bg, &traits.CreateBookingRequest{Name: "room", Booking: b})
		return b.Id, err
	}
	var ids []string
	for k, n := 0, rng.Intn(4); k < n; k++ {
		id, err := create()
		if err != nil {
			r.Inconclusive("booking/create", err.Error())
			return
		}
		ids = append(ids, id)
	}

	// subscribe
	ctx, cancel := context.WithCancel(bg)
	c.stream = &pullStream{ctx: ctx}
	paused := false
	defer func() {
		cancel()
		if paused {
			c.stream.gate.Unlock()
		}
	}()
	req := c.req()
	req.UpdatesOnly = updatesOnly
	c.log("pull updates_only=%v", updatesOnly)
	go func() {
		err := c.srv.PullBookings(req, c.stream)
		c.stream.mu.Lock()
		c.stream.err, c.stream.end = err, true
		c.stream.mu.Unlock()
	}()
	if _, ok := r.MustQuiesce("booking-seed"); !ok {
		return
	}
	st, inDomain := c.state()
	if st == nil {
		return
	}
	if !inDomain {
		r.Count("booking/out-of-domain-state", 1)
		return
	}
	nontrivial := false
	if updatesOnly {
		if got := c.take(); len(got) > 0 {
			c.violation("C08/booking/pull/seed/updates-only-seeded", "updates_only stream delivered a seed", st)
		}
		for _, m := range c.refList(st) {
			c.view.Items[m.(*traits.Booking).Id] = m
		}
	} else {
		seeds := c.take()
		var got []proto.Message
		for _, s := range seeds {
			got = append(got, nilIfNil(s.NewValue))
		}
		want := c.refList(st)
		r.Eval(1)
		if len(want) > 0 {
			r.Count("booking/seed-checks/non-empty", 1)
			nontrivial = true
		}
		if !vk.SameList(got, want) {
			c.violation("C08/booking/pull/seed/"+diffClass(bookingMap(got), bookingMap(want)),
				fmt.Sprintf("seed of PullBookings(booking_intersects) = %s, reference filter gives %s", vk.ListJSON(got), vk.ListJSON(want)), st)
		}
	}
	c.oracles("after subscribe", st)

	// writes
	type pend struct {
		id          string
		failed      bool
		before, aft *traits.Booking
		what        string
	}
	var pending []pend
	steps := 3 + rng.Intn(6)
	for k := 0; k < steps; k++ {
		drain := k == steps-1 || !rng.Chance(1, 3)
		if !drain && !paused {
			c.stream.gate.Lock() // quiescent and drained: nothing is inside Send
			paused = true
		}
		var id, what string
		var err error
		pick := func() string {
			if len(ids) == 0 || rng.Chance(1, 15) {
				return "nope"
			}
			return ids[rng.Intn(len(ids))]
		}
		switch x := rng.Intn(16); {
		case x < 4:
			id, err = create()
			ids = append(ids, id)
			what = "create " + id
		case x < 9:
			id = pick()
			p := genPeriod(rng, false)
			what = fmt.Sprintf("update %s booked=%s", id, periodString(p))
			c.log("%s", what)
			_, err = c.srv.UpdateBooking(bg, &traits.UpdateBookingRequest{Name: "room", Booking: &traits.Booking{Id: id, Booked: p}, UpdateMask: &fieldmaskpb.FieldMask{Paths: []string{"booked"}}})
		case x < 12:
			id = pick()
			what = fmt.Sprintf("update %s title=s%d", id, k)
			c.log("%s", what)
			_, err = c.srv.UpdateBooking(bg, &traits.UpdateBookingRequest{Name: "room", Booking: &traits.Booking{Id: id, Title: fmt.Sprintf("s%d", k)}, UpdateMask: &fieldmaskpb.FieldMask{Paths: []string{"title"}}})
		case x < 14:
			id = pick()
			what = fmt.Sprintf("check-in %s", id)
			c.log("%s", what)
			_, err = c.srv.CheckInBooking(bg, &traits.CheckInBookingRequest{Name: "room", BookingId: id, Time: &timestamppb.Timestamp{Seconds: int64(100 + k)}})
		default:
			id = pick()
			what = fmt.Sprintf("check-out %s", id)
			c.log("%s", what)
			_, err = c.srv.CheckOutBooking(bg, &traits.CheckOutBookingRequest{Name: "room", BookingId: id, Time: &timestamppb.Timestamp{Seconds: int64(200 + k)}})
		}
		if _, ok := r.MustQuiesce("booking-after-write"); !ok {
			return
		}
		after, inDomain := c.state()
		if after == nil {
			return
		}
		if !inDomain {
			r.Count("booking/out-of-domain-state", 1)
			return
		}
		pending = append(pending, pend{id: id, failed: err != nil, before: st[id], aft: after[id], what: what})
		if err != nil {
			r.Count("booking/writes/failed", 1)
			same := len(after) == len(st)
			for oid, b := range after {
				same = same && st[oid] != nil && proto.Equal(b, st[oid])
			}
			if !same {
				r.Inconclusive("booking/failed-write-changed-state", what)
			}
		} else {
			r.Count("booking/writes/ok", 1)
		}
		st = after
		if !drain {
			continue
		}
		if paused {
			c.stream.gate.Unlock()
			paused = false
			if _, ok := r.MustQuiesce("booking-after-resume"); !ok {
				return
			}
		}
		evs := c.take()
		nontrivial = true
		if len(pending) == 1 {
			c.table(pending[0].what, pending[0].failed, pending[0].before, pending[0].aft, evs, st)
		} else {
			r.Count("booking/drains-covering-2+-writes", 1)
		}
		pending = pending[:0]
		c.oracles("after "+what, st)
	}
	c.stream.mu.Lock()
	if c.stream.end {
		r.Inconclusive("booking/stream-ended", fmt.Sprintf("PullBookings returned while its context was live: %v", c.stream.err))
	}
	c.stream.mu.Unlock()
	if nontrivial {
		r.Distinct(fmt.Sprintf("booking: q=%s mask=%v %s", periodString(c.q), c.mask, strings.Join(c.script, ";")))
	}
	if r.WantSample("booking") {
		r.Sample("booking", map[string]any{"booking_intersects": periodString(c.q), "read_mask": c.mask, "script": c.script, "changes_received": c.all})
	}
}

// table checks the decision-table row of one booking write that was drained on its own.
func (c *bookingCase) table(what string, failed bool, before, after *traits.Booking, evs []*traits.PullBookingsResponse_Change, st map[string]*traits.Booking) {
	r := c.r
	r.Eval(1)
	name := func(b *traits.Booking) string {
		switch {
		case b == nil:
			return "absent"
		case c.included(b):
			return "incl"
		}
		return "excl"
	}
	row := name(before) + "-" + name(after)
	deliver := !failed && (c.included(before) || c.included(after))
	if failed {
		row = "failed-write"
	}
	var kind types.ChangeType
	var wantOld, wantNew proto.Message
	switch {
	case !deliver:
	case !c.included(before):
		kind, wantNew = types.ChangeType_ADD, c.proj(after)
		if before != nil {
			r.Count("booking/events/ADD-by-filter", 1)
		}
	case !c.included(after):
		kind, wantOld = types.ChangeType_REMOVE, c.proj(before)
		r.Count("booking/events/REMOVE-by-filter", 1)
	default:
		kind, wantOld, wantNew = types.ChangeType_UPDATE, c.proj(before), c.proj(after)
	}
	base := "C08/booking/pull/table/" + row + "/"
	var got []string
	for _, e := range evs {
		got = append(got, changeString(e))
	}
	describe := func() string {
		exp := "nothing"
		if deliver {
			exp = fmt.Sprintf("one %v (old %s, new %s)", kind, vk.JSON(wantOld), vk.JSON(wantNew))
		}
		return fmt.Sprintf("%s (row %s): the filtered collection reports %s; PullBookings delivered [%s]", what, row, exp, strings.Join(got, " "))
	}
	if !deliver {
		r.Count("booking/expected/none("+row+")", 1)
		if len(evs) > 0 {
			c.violation(base+evs[0].Type.String(), describe(), st)
		}
		return
	}
	r.Count("booking/expected/"+kind.String(), 1)
	switch {
	case len(evs) == 0:
		c.violation(base+"none", describe(), st)
	case len(evs) > 1:
		c.violation(base+"duplicate", describe(), st)
	case evs[0].Type != kind && !(kind == types.ChangeType_UPDATE && evs[0].Type == types.ChangeType_REPLACE):
		c.violation(base+evs[0].Type.String(), describe(), st)
	default:
		if !vk.SameMessage(nilIfNil(evs[0].NewValue), wantNew) {
			c.violation(base+"new-value", describe(), st)
		}
		if !vk.SameMessage(nilIfNil(evs[0].OldValue), wantOld) {
			c.violation(base+"old-value", describe(), st)
		}
	}
}
