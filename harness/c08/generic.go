package main

import (
	"context"
	"fmt"
	"sort"
	"strings"
	"sync"
	"sync/atomic"

	"github.com/smart-core-os/sc-api/go/types"
	"google.golang.org/protobuf/proto"
	"google.golang.org/protobuf/types/known/fieldmaskpb"

	"github.com/smart-core-os/sc-golang/internal/testproto"
	"github.com/smart-core-os/sc-golang/internal/verif/vk"
	"github.com/smart-core-os/sc-golang/pkg/resource"
)

// ---- alphabet -------------------------------------------------------------------------------------------------

const (
	kAdd = iota
	kUpdate
	kDelete
)

// op is one letter of a write history.
type op struct {
	Kind int `json:"kind"` // kAdd, kUpdate, kDelete
	ID   int `json:"id"`   // 0 = "a", 1 = "b"
	Val  int `json:"val"`  // 0 = v0 (tag 1), 1 = v1 (tag 2); unused for delete
}

var idNames = [2]string{"a", "b"}

func (o op) String() string {
	switch o.Kind {
	case kAdd:
		return fmt.Sprintf("add(%s,v%d)", idNames[o.ID], o.Val)
	case kUpdate:
		return fmt.Sprintf("update(%s,v%d)", idNames[o.ID], o.Val)
	}
	return fmt.Sprintf("delete(%s)", idNames[o.ID])
}

func opsString(ops []op) string {
	ss := make([]string, len(ops))
	for i, o := range ops {
		ss[i] = o.String()
	}
	return strings.Join(ss, " ")
}

// letters is the alphabet of histories: add/update x 2 ids x 2 values, delete x 2 ids.
var letters = func() []op {
	var l []op
	for _, k := range []int{kAdd, kUpdate} {
		for id := 0; id < 2; id++ {
			for v := 0; v < 2; v++ {
				l = append(l, op{k, id, v})
			}
		}
	}
	for id := 0; id < 2; id++ {
		l = append(l, op{kDelete, id, 0})
	}
	return l
}()

// history decodes word number n of the given length over letters.
func history(n, length int) []op {
	ops := make([]op, length)
	for i := length - 1; i >= 0; i-- {
		ops[i] = letters[n%len(letters)]
		n /= len(letters)
	}
	return ops
}

// val is a value of the model: the tag the predicate looks at and a sequence number unique per write.
type val struct {
	tag int32
	seq int64
}

func mkMsg(id string, v *val) *testproto.TestAllTypes {
	return &testproto.TestAllTypes{DefaultString: id, DefaultInt32: v.tag, DefaultInt64: v.seq}
}

// read masks: 0 none, 1 keeps id+tag (drops the sequence number), 2 keeps id+seq (drops the field the predicate reads)
var maskPaths = [3][]string{nil, {"default_string", "default_int32"}, {"default_string", "default_int64"}}

// project is the reference projection of a model value through read mask kind m.
func project(id string, v *val, m int) proto.Message {
	if v == nil {
		return nil
	}
	switch m {
	case 1:
		return &testproto.TestAllTypes{DefaultString: id, DefaultInt32: v.tag}
	case 2:
		return &testproto.TestAllTypes{DefaultString: id, DefaultInt64: v.seq}
	}
	return mkMsg(id, v)
}

// ---- predicates -----------------------------------------------------------------------------------------------

// A predicate is a 6-bit truth table: bit id*3+state, state 0 = absent (nil value), 1 = v0, 2 = v1.
func predAt(p, id, state int) bool { return p>>(id*3+state)&1 == 1 }

func predString(p int) string {
	var sb strings.Builder
	for id := 0; id < 2; id++ {
		for st, n := range []string{"absent", "v0", "v1"} {
			if predAt(p, id, st) {
				fmt.Fprintf(&sb, "(%s,%s) ", idNames[id], n)
			}
		}
	}
	return "true on {" + strings.TrimSpace(sb.String()) + "}"
}

// ---- monitor state --------------------------------------------------------------------------------------------

type generic struct {
	r   *vk.Run
	idx int // running case number, dealt round-robin to the workers

	// counters written from library goroutines (the predicate is called on the Pull forwarder)
	predCalls, predNil, predOddValue, predOddID int64
}

func newGeneric(r *vk.Run) *generic { return &generic{r: r} }

func (g *generic) flush() {
	g.r.Count("predicate-calls", int(atomic.LoadInt64(&g.predCalls)))
	g.r.Count("predicate-calls/absent-value", int(atomic.LoadInt64(&g.predNil)))
	g.r.Count("predicate-calls/value-is-not-a-stored-value", int(atomic.LoadInt64(&g.predOddValue)))
	g.r.Count("predicate-calls/unknown-id", int(atomic.LoadInt64(&g.predOddID)))
}

// predFn turns a truth table into the FilterFunc handed to the library. It only reads its arguments.
func (g *generic) predFn(p int) resource.FilterFunc {
	return func(id string, m proto.Message) bool {
		atomic.AddInt64(&g.predCalls, 1)
		idx := 0
		switch id {
		case "a":
		case "b":
			idx = 1
		default:
			atomic.AddInt64(&g.predOddID, 1)
			return false
		}
		state := 0
		if m != nil && m.ProtoReflect().IsValid() {
			t, ok := m.(*testproto.TestAllTypes)
			if !ok {
				atomic.AddInt64(&g.predOddValue, 1)
				return false
			}
			switch t.DefaultInt32 {
			case 1:
				state = 1
			case 2:
				state = 2
			default:
				// not a value that was ever stored (e.g. a read-mask projection): answer as for "absent" and let the
				// fold/list oracles decide whether that made a difference
				atomic.AddInt64(&g.predOddValue, 1)
			}
		} else {
			atomic.AddInt64(&g.predNil, 1)
		}
		return predAt(p, idx, state)
	}
}

// scenario is one fully determined run; it is also the replay record of a violation.
type scenario struct {
	Phase string `json:"phase"`
	Pred  int    `json:"predicate_truth_table"` // bit id*3+state
	Ops   []op   `json:"ops"`
	SubAt int    `json:"subscribe_before_op"` // the subscriber is opened before Ops[SubAt] (== len(Ops): after all)
	BP    bool   `json:"backpressure"`
	Drain uint32 `json:"drain_after_op_bits"` // lossy only: bit i set = consumer drains (and oracles run) after Ops[i]
	Mask  int    `json:"read_mask_kind"`
	// FoldIDs: the collection has an id interceptor (strings.ToLower) and every write spells the id in upper case;
	// predicates, events and List deal in the stored (lower case) id.
	FoldIDs bool `json:"id_interceptor_lowercase,omitempty"`
}

func (sc scenario) desc() string {
	return fmt.Sprintf("p=%02x bp=%v sub=%d drain=%x mask=%d fold-ids=%v ops=%s", sc.Pred, sc.BP, sc.SubAt, sc.Drain, sc.Mask, sc.FoldIDs, opsString(sc.Ops))
}

func (sc scenario) mode() string {
	if sc.BP {
		return "bp"
	}
	return "lossy"
}

// ---- consumer -------------------------------------------------------------------------------------------------

// consumer receives from the Pull channel into a log. It can be parked (at a quiescent, drained point) so that
// the lossy path has to hold and merge events.
type consumer struct {
	mu     sync.Mutex
	log    []*resource.CollectionChange
	closed bool

	pauseReq, resume, quit chan struct{}
	paused                 bool // owned by the scenario goroutine
}

func startConsumer(ch <-chan *resource.CollectionChange) *consumer {
	c := &consumer{pauseReq: make(chan struct{}), resume: make(chan struct{}), quit: make(chan struct{})}
	go func() {
		for {
			select {
			case e, ok := <-ch:
				if !ok {
					c.mu.Lock()
					c.closed = true
					c.mu.Unlock()
					ch = nil
					continue
				}
				c.mu.Lock()
				c.log = append(c.log, e)
				c.mu.Unlock()
			case <-c.pauseReq:
				select {
				case <-c.resume:
				case <-c.quit:
					return
				}
			case <-c.quit:
				return
			}
		}
	}()
	return c
}

func (c *consumer) pause()   { c.pauseReq <- struct{}{}; c.paused = true }
func (c *consumer) unpause() { c.resume <- struct{}{}; c.paused = false }

// ---- expected events ------------------------------------------------------------------------------------------

// expect is what the filtered collection does for one write, derived from the model only.
type expect struct {
	op       op
	failed   bool // the write is invalid in the model (add of a present id, update/delete of an absent one)
	row      string
	pnil     bool             // the predicate is true for the absent value of this id and the row involves "absent"
	kind     types.ChangeType // meaningful when deliver
	deliver  bool
	id       string
	old, new *val
}

func memberState(p, id int, v *val) (string, bool) {
	if v == nil {
		return "absent", false
	}
	if predAt(p, id, int(v.tag)) {
		return "incl", true
	}
	return "excl", false
}

func (g *generic) runScenario(sc scenario) {
	r := g.r
	r.Count("runs/"+sc.Phase+"/"+sc.mode(), 1)
	if sc.Mask == 2 {
		r.Count("read-mask-runs/drops-predicate-field", 1)
	}
	x := &exec{g: g, r: r, sc: sc, model: map[string]*val{}}
	if sc.FoldIDs {
		r.Count("runs/id-interceptor", 1)
		x.col = resource.NewCollection(resource.WithIDInterceptor(strings.ToLower))
	} else {
		x.col = resource.NewCollection()
	}
	x.readOpts = []resource.ReadOption{resource.WithInclude(g.predFn(sc.Pred))}
	if sc.Mask != 0 {
		x.readOpts = append(x.readOpts, resource.WithReadMask(&fieldmaskpb.FieldMask{Paths: maskPaths[sc.Mask]}))
	}
	ctx, cancel := context.WithCancel(context.Background())
	defer func() {
		cancel()
		if x.cons != nil {
			close(x.cons.quit)
		}
	}()

	last := len(sc.Ops) - 1
	for i, o := range sc.Ops {
		if i == sc.SubAt {
			if !x.subscribe(ctx) {
				return
			}
		}
		subscribed := x.cons != nil
		drainStep := sc.BP || sc.Drain>>uint(i)&1 == 1 || i == last
		if subscribed && !drainStep && !x.cons.paused {
			x.cons.pause() // we are at a quiescent, drained point: the consumer takes the request, not an event
		}
		e := x.write(o)
		if !subscribed {
			continue
		}
		x.pending = append(x.pending, e)
		if _, ok := r.MustQuiesce("after-write"); !ok {
			return
		}
		if drainStep {
			if x.cons.paused {
				x.cons.unpause()
				if _, ok := r.MustQuiesce("after-resume"); !ok {
					return
				}
			}
			x.check(fmt.Sprintf("after op %d %v", i, o))
		}
	}
	if sc.SubAt >= len(sc.Ops) {
		if !x.subscribe(ctx) {
			return
		}
	}
	if x.nontrivial {
		r.Distinct("generic:" + sc.desc())
	}
	if len(x.all) >= 3 && len(sc.Ops) >= 3 && sc.Pred != 0 && sc.Pred != 63 && r.WantSample("generic-"+sc.mode()) {
		r.Sample("generic-"+sc.mode(), map[string]any{
			"predicate": predString(sc.Pred), "ops": opsString(sc.Ops), "subscribe_before_op": sc.SubAt, "backpressure": sc.BP,
			"drain_bits": sc.Drain, "read_mask": maskPaths[sc.Mask], "events_received": x.rendered(), "final_filtered_list": vk.ListJSON(x.col.List(x.readOpts...)),
		})
	}
}

type exec struct {
	g        *generic
	r        *vk.Run
	sc       scenario
	col      *resource.Collection
	readOpts []resource.ReadOption
	model    map[string]*val
	seq      int64

	cons       *consumer
	view       *vk.View
	consumed   int
	pending    []*expect
	nontrivial bool
	all        []*resource.CollectionChange
	// tableViolated is set once a decision-table row was reported in this scenario; a later fold mismatch is then
	// a consequence of that row and is counted instead of being reported under a second key
	tableViolated bool
}

func (x *exec) rendered() []string {
	var out []string
	for _, e := range x.all {
		out = append(out, vk.ChangeJSON(e))
	}
	return out
}

// write applies one letter to the real collection and to the model and returns what the filtered collection is
// expected to report for it.
func (x *exec) write(o op) *expect {
	id := idNames[o.ID]
	before := x.model[id]
	e := &expect{op: o, id: id, old: before}
	var err error
	callID := id
	if x.sc.FoldIDs {
		callID = strings.ToUpper(id)
	}
	switch o.Kind {
	case kAdd, kUpdate:
		x.seq++
		nv := &val{tag: int32(o.Val + 1), seq: x.seq}
		if o.Kind == kAdd {
			_, err = x.col.Add(callID, mkMsg(id, nv))
			e.failed = before != nil
		} else {
			_, err = x.col.Update(callID, mkMsg(id, nv))
			e.failed = before == nil
		}
		if !e.failed {
			x.model[id] = nv
			e.new = nv
		}
	case kDelete:
		_, err = x.col.Delete(callID)
		e.failed = before == nil
		if !e.failed {
			delete(x.model, id)
		}
	}
	if (err != nil) != e.failed {
		x.r.Inconclusive("generic/write-outcome", fmt.Sprintf("%v returned err=%v but the map model says failed=%v (scenario %s)", o, err, e.failed, x.sc.desc()))
	}
	if e.failed {
		e.row = "failed-write"
		e.new = before
		x.r.Count("writes/failed", 1)
		return e
	}
	x.r.Count("writes/ok", 1)
	oldS, oldIn := memberState(x.sc.Pred, o.ID, e.old)
	newS, newIn := memberState(x.sc.Pred, o.ID, e.new)
	e.row = oldS + "-" + newS
	e.pnil = predAt(x.sc.Pred, o.ID, 0) && (e.old == nil || e.new == nil)
	switch {
	case !oldIn && newIn:
		e.deliver, e.kind = true, types.ChangeType_ADD
	case oldIn && !newIn:
		e.deliver, e.kind = true, types.ChangeType_REMOVE
	case oldIn && newIn:
		e.deliver, e.kind = true, types.ChangeType_UPDATE
	}
	return e
}

// refList is the reference List: members of the filtered collection sorted by id, projected through the mask.
func (x *exec) refList(filtered bool) []proto.Message {
	ids := make([]string, 0, len(x.model))
	for id := range x.model {
		ids = append(ids, id)
	}
	sort.Strings(ids)
	out := []proto.Message{}
	for _, id := range ids {
		v := x.model[id]
		idx := 0
		if id == "b" {
			idx = 1
		}
		if filtered {
			if !predAt(x.sc.Pred, idx, int(v.tag)) {
				continue
			}
			out = append(out, project(id, v, x.sc.Mask))
		} else {
			out = append(out, mkMsg(id, v))
		}
	}
	return out
}

func (x *exec) violation(key, what string) {
	if strings.HasPrefix(key, "C08/table/") {
		x.tableViolated = true
	}
	detail := fmt.Sprintf("%s\nscenario: predicate %s; %s\nmodel now: %s\nevents received so far: %s",
		what, predString(x.sc.Pred), x.sc.desc(), vk.ListJSON(x.refList(false)), strings.Join(x.rendered(), " "))
	x.r.Violation(key, detail, x.sc)
}

// subscribe opens the filtered Pull, lets the seed arrive and checks it.
func (x *exec) subscribe(ctx context.Context) bool {
	opts := append(append([]resource.ReadOption{}, x.readOpts...), resource.WithBackpressure(x.sc.BP))
	ch := x.col.Pull(ctx, opts...)
	x.cons = startConsumer(ch)
	x.view = vk.NewView(false)
	if _, ok := x.r.MustQuiesce("seed"); !ok {
		return false
	}
	x.cons.mu.Lock()
	seeds := append([]*resource.CollectionChange(nil), x.cons.log...)
	x.consumed = len(x.cons.log)
	x.cons.mu.Unlock()
	x.all = append(x.all, seeds...)
	want := x.refList(true)
	x.r.Eval(1)
	if len(want) > 0 {
		x.r.Count("seed-checks/non-empty", 1)
		x.nontrivial = true
	} else {
		x.r.Count("seed-checks/empty", 1)
	}
	var got []proto.Message
	okFlags, okKinds := true, true
	for i, s := range seeds {
		x.view.Apply(s)
		got = append(got, s.NewValue)
		if s.ChangeType != types.ChangeType_ADD || s.OldValue != nil {
			okKinds = false
		}
		if !s.SeedValue || s.LastSeedValue != (i == len(seeds)-1) {
			okFlags = false
		}
	}
	if !vk.SameList(got, want) {
		x.violation("C08/seed/"+diffClass(listMap(got), listMap(want)), fmt.Sprintf("seed of Pull(WithInclude) is %s, the filtered collection holds %s", vk.ListJSON(got), vk.ListJSON(want)))
	} else {
		if !okKinds {
			x.violation("C08/seed/kind", "a seed event is not a plain ADD without old value")
		}
		if !okFlags {
			x.violation("C08/seed/flags", "seed events of the filtered collection must all be flagged SeedValue and exactly the last one LastSeedValue")
		}
	}
	x.listChecks("after subscribe")
	return true
}

func listMap(l []proto.Message) map[string]proto.Message {
	m := map[string]proto.Message{}
	for i, e := range l {
		id := fmt.Sprintf("?%d", i)
		if t, ok := e.(*testproto.TestAllTypes); ok && t != nil {
			id = t.DefaultString
		}
		m[id] = e
	}
	return m
}

// diffClass classifies how got differs from want, by a fixed priority so that the class does not depend on map
// order: an id missing from got, an extra id in got (with a nil value / with a value), a held id with another value.
func diffClass(got, want map[string]proto.Message) string {
	for id := range want {
		if _, ok := got[id]; !ok {
			return "missing"
		}
	}
	extra, extraNil, stale := false, false, false
	for id, g := range got {
		w, ok := want[id]
		switch {
		case !ok && g == nil:
			extraNil = true
		case !ok:
			extra = true
		case !vk.SameMessage(g, w):
			stale = true
		}
	}
	switch {
	case extraNil:
		return "extra-nil-value"
	case extra:
		return "extra"
	case stale:
		return "stale"
	}
	return "order"
}

// listChecks compares the real filtered List with the model and the folded view with the real filtered List.
func (x *exec) listChecks(where string) {
	mode := x.sc.mode()
	real := x.col.List(x.readOpts...)
	want := x.refList(true)
	x.r.Eval(2)
	x.r.Count("list-checks", 1)
	x.r.Count("fold-checks/"+mode, 1)
	if !vk.SameList(real, want) {
		x.violation("C08/list/"+diffClass(listMap(real), listMap(want)), fmt.Sprintf("%s: List(WithInclude) = %s, the filtered collection holds %s", where, vk.ListJSON(real), vk.ListJSON(want)))
	}
	folded := x.view.Sorted()
	if !vk.SameList(folded, real) && x.tableViolated {
		x.r.Count("fold-mismatches-attributed-to-a-reported-table-row", 1)
	} else if !vk.SameList(folded, real) {
		x.violation("C08/fold/"+mode+"/"+diffClass(x.view.Items, listMap(real)), fmt.Sprintf("%s: fold of the filtered stream = %s but List(WithInclude) = %s", where, vk.ListJSON(folded), vk.ListJSON(real)))
	}
	if unf := x.col.List(); !vk.SameList(unf, x.refList(false)) {
		x.r.Inconclusive("generic/model-divergence", fmt.Sprintf("unfiltered List = %s, map model = %s (scenario %s)", vk.ListJSON(unf), vk.ListJSON(x.refList(false)), x.sc.desc()))
	}
}

// check runs at a quiescent point at which the consumer has drained: table row (when exactly one write happened
// since the last such point, so nothing can have been merged), fold and list oracles.
func (x *exec) check(where string) {
	x.cons.mu.Lock()
	evs := append([]*resource.CollectionChange(nil), x.cons.log[x.consumed:]...)
	x.consumed = len(x.cons.log)
	closed := x.cons.closed
	x.cons.mu.Unlock()
	x.all = append(x.all, evs...)
	x.nontrivial = true
	if closed {
		x.r.Inconclusive("generic/stream-closed", "the Pull channel closed while its context was live: "+x.sc.desc())
	}
	for _, e := range evs {
		x.view.Apply(e)
	}
	if len(x.pending) == 1 {
		x.tableCheck(x.pending[0], evs, where)
	} else {
		x.r.Count("lossy-drains-covering-2+-writes", 1)
		expected := 0
		for _, p := range x.pending {
			if p.deliver {
				expected++
			}
		}
		if len(evs) < expected {
			x.r.Count("lossy-drains-with-merged-events", 1)
		}
	}
	x.pending = x.pending[:0]
	x.listChecks(where)
}

func kindName(k types.ChangeType) string { return k.String() }

func (x *exec) tableCheck(e *expect, evs []*resource.CollectionChange, where string) {
	x.r.Eval(1)
	x.r.Count("table-checks/"+e.row, 1)
	suffix := ""
	if e.pnil {
		suffix = "/nil-matching-predicate"
		x.r.Count("table-checks/nil-matching-predicate", 1)
	}
	base := "C08/table/" + e.row + "/"
	describe := func() string {
		exp := "nothing"
		if e.deliver {
			exp = fmt.Sprintf("one %v of %q (old %s, new %s)", e.kind, e.id, vk.JSON(project(e.id, e.old, x.sc.Mask)), vk.JSON(project(e.id, x.newFor(e), x.sc.Mask)))
		}
		var got []string
		for _, ev := range evs {
			got = append(got, vk.ChangeJSON(ev))
		}
		return fmt.Sprintf("%s (%v, row %s): the filtered collection reports %s; the stream delivered [%s]", where, e.op, e.row, exp, strings.Join(got, " "))
	}
	if !e.deliver {
		x.r.Count("expected/none("+e.row+")", 1)
		if len(evs) > 0 {
			x.violation(base+kindName(evs[0].ChangeType)+suffix, describe())
		}
		return
	}
	x.r.Count("expected/"+kindName(e.kind), 1)
	if len(evs) == 0 {
		x.violation(base+"none"+suffix, describe())
		return
	}
	if len(evs) > 1 {
		x.violation(base+"duplicate"+suffix, describe())
		return
	}
	ev := evs[0]
	kindOK := ev.ChangeType == e.kind
	if e.kind == types.ChangeType_UPDATE && ev.ChangeType == types.ChangeType_REPLACE {
		kindOK = true // "delivered as an update": REPLACE is the merged form of an update
		x.r.Count("update-delivered-as-REPLACE", 1)
	}
	if !kindOK {
		x.violation(base+kindName(ev.ChangeType)+suffix, describe())
		return
	}
	if ev.Id != e.id {
		x.violation(base+"wrong-id"+suffix, describe())
		return
	}
	var wantOld, wantNew proto.Message
	switch e.kind {
	case types.ChangeType_ADD:
		wantNew = project(e.id, e.new, x.sc.Mask)
	case types.ChangeType_REMOVE:
		wantOld = project(e.id, e.old, x.sc.Mask)
	default:
		wantOld, wantNew = project(e.id, e.old, x.sc.Mask), project(e.id, e.new, x.sc.Mask)
	}
	if !vk.SameMessage(ev.NewValue, wantNew) {
		x.violation(base+"new-value"+suffix, describe())
	}
	if !vk.SameMessage(ev.OldValue, wantOld) {
		x.violation(base+"old-value"+suffix, describe())
	}
	if ev.SeedValue || ev.LastSeedValue {
		x.violation(base+"seed-flag"+suffix, describe())
	}
}

func (x *exec) newFor(e *expect) *val {
	if e.kind == types.ChangeType_REMOVE {
		return nil
	}
	return e.new
}

// ---- phases ---------------------------------------------------------------------------------------------------

func (g *generic) next() (int, bool) {
	i := g.idx
	g.idx++
	return i, g.r.Mine(i)
}

// tablePhase: every (predicate, id, old state, new state) cell with backpressure on and off, one transition each.
func (g *generic) tablePhase() {
	for p := 0; p < 64; p++ {
		for id := 0; id < 2; id++ {
			for oldS := 0; oldS < 3; oldS++ {
				for newS := 0; newS < 3; newS++ {
					if oldS == 0 && newS == 0 {
						continue
					}
					for _, bp := range []bool{true, false} {
						i, mine := g.next()
						if !mine {
							continue
						}
						var ops []op
						if oldS != 0 {
							ops = append(ops, op{kAdd, id, oldS - 1})
						}
						switch {
						case oldS == 0:
							ops = append(ops, op{kAdd, id, newS - 1})
						case newS == 0:
							ops = append(ops, op{kDelete, id, 0})
						default:
							ops = append(ops, op{kUpdate, id, newS - 1})
						}
						rng := g.r.CaseRand("table", i)
						sc := scenario{Phase: "table", Pred: p, Ops: ops, SubAt: len(ops) - 1, BP: bp, Drain: 0xffffffff}
						if rng.Chance(1, 4) {
							sc.Mask = 1 + rng.Intn(2)
						}
						sc.FoldIDs = rng.Chance(1, 4)
						g.runScenario(sc)
						g.r.Count("table-cells", 1)
					}
				}
			}
		}
	}
}

func (g *generic) derive(sc *scenario, rng *vk.Rand) {
	n := len(sc.Ops)
	if n > 0 && rng.Chance(1, 2) {
		sc.SubAt = 1 + rng.Intn(n)
	}
	if rng.Chance(1, 2) {
		sc.Mask = 1 + rng.Intn(2)
	}
	if !sc.BP {
		switch rng.Intn(4) {
		case 0:
			sc.Drain = 0xffffffff // drain after every write: nothing can be merged
		case 1:
			sc.Drain = 0 // only at the end: everything that can merge does
		default:
			sc.Drain = uint32(rng.Uint64())
		}
		if n < 32 {
			sc.Drain &= 1<<uint(n) - 1
		}
	} else {
		sc.Drain = 0
	}
	sc.FoldIDs = rng.Chance(1, 4)
}

func (g *generic) historyPhase() {
	maxLen := g.r.Pick(3, 4)
	hcount := 0
	runHistory := func(ops []op, phase string) {
		hcount++
		for p := 0; p < 64; p++ {
			for _, bp := range []bool{true, false} {
				i, mine := g.next()
				if !mine {
					continue
				}
				sc := scenario{Phase: phase, Pred: p, Ops: ops, BP: bp}
				g.derive(&sc, g.r.CaseRand("hist", i))
				g.runScenario(sc)
			}
		}
	}
	for l := 0; l <= maxLen; l++ {
		n := 1
		for k := 0; k < l; k++ {
			n *= len(letters)
		}
		for h := 0; h < n; h++ {
			runHistory(history(h, l), fmt.Sprintf("len%d", l))
		}
	}
	if g.r.Quick() {
		for h := 0; h < 10000; h++ {
			if g.r.CaseRand("len4-pick", h).Chance(3, 100) {
				runHistory(history(h, 4), "len4-sample")
			}
		}
	}
	if !g.r.Quick() {
		for h := 0; h < 100000; h++ {
			if g.r.CaseRand("len5-pick", h).Chance(5, 100) {
				runHistory(history(h, 5), "len5-sample")
			}
		}
	}
	if g.r.Shard == 0 {
		g.r.Count("histories-enumerated", hcount)
	}
}

// longPhase: random histories of length 5-10 with random predicates.
func (g *generic) longPhase() {
	n := g.r.Pick(3000, 400000)
	for k := 0; k < n; k++ {
		i, mine := g.next()
		if !mine {
			continue
		}
		rng := g.r.CaseRand("long", i)
		l := 5 + rng.Intn(6)
		ops := make([]op, l)
		for j := range ops {
			ops[j] = letters[rng.Intn(len(letters))]
		}
		sc := scenario{Phase: "long", Pred: rng.Intn(64), Ops: ops, BP: rng.Bool()}
		g.derive(&sc, rng)
		g.runScenario(sc)
	}
}
