package main

import (
	"context"
	"fmt"
	"sync"

	"github.com/smart-core-os/sc-api/go/traits"
	"google.golang.org/protobuf/proto"

	"github.com/smart-core-os/sc-golang/internal/verif/vk"
	"github.com/smart-core-os/sc-golang/pkg/resource"
)

// multiSubscriber: several subscribers with DIFFERENT include predicates pull the same collection at the same time
// (with and without backpressure). Each one's folded stream must equal List with its own predicate after every
// write: one subscriber's predicate must not influence what another receives.
func multiSubscriber(r *vk.Run) {
	n := r.Pick(400, 20000)
	type pred struct {
		name string
		f    resource.FilterFunc
	}
	isOn := func(m proto.Message) bool { o, _ := m.(*traits.OnOff); return o != nil && o.State == traits.OnOff_ON }
	preds := []pred{
		{"on", func(_ string, m proto.Message) bool { return isOn(m) }},
		{"off", func(_ string, m proto.Message) bool { return m != nil && !isOn(m) }},
		{"id-a", func(id string, m proto.Message) bool { return id == "a" }},
		{"on-or-b", func(id string, m proto.Message) bool { return isOn(m) || id == "b" }},
		{"all", func(string, proto.Message) bool { return true }},
	}
	for i := 0; i < n; i++ {
		if !r.Mine(i) {
			continue
		}
		rng := r.CaseRand("c08-multi", i)
		col := resource.NewCollection(resource.WithInitialRecord("a", &traits.OnOff{State: traits.OnOff_ON}))
		ctx, cancel := context.WithCancel(context.Background())
		bp := rng.Bool()
		type sub struct {
			p    pred
			mu   sync.Mutex
			view *vk.View
		}
		ns := rng.Range(2, 3)
		subs := make([]*sub, ns)
		for k := range subs {
			s := &sub{p: preds[rng.Intn(len(preds))], view: vk.NewView(false)}
			subs[k] = s
			ch := col.Pull(ctx, resource.WithInclude(s.p.f), resource.WithBackpressure(bp))
			go func() {
				for e := range ch {
					s.mu.Lock()
					s.view.Apply(e)
					s.mu.Unlock()
				}
			}()
		}
		var trace []string
		ids := []string{"a", "b", "c"}
		ok := true
		for st, steps := 0, rng.Range(3, 8); st < steps && ok; st++ {
			id := ids[rng.Intn(3)]
			state := traits.OnOff_ON
			if rng.Bool() {
				state = traits.OnOff_OFF
			}
			switch rng.Intn(4) {
			case 0:
				col.Delete(id, resource.WithAllowMissing(true))
				trace = append(trace, "delete "+id)
			default:
				col.Update(id, &traits.OnOff{State: state}, resource.WithCreateIfAbsent())
				trace = append(trace, fmt.Sprintf("upsert %s=%v", id, state))
			}
			if _, qok := r.MustQuiesce("c08-multi"); !qok {
				cancel()
				return
			}
			r.Eval(1)
			for k, s := range subs {
				want := col.List(resource.WithInclude(s.p.f))
				s.mu.Lock()
				got := s.view.Sorted()
				s.mu.Unlock()
				r.Count("multi-subscriber-fold-checks", 1)
				if !vk.SameList(got, want) {
					mode := "lossy"
					if bp {
						mode = "bp"
					}
					var others []string
					for j, o := range subs {
						if j != k {
							others = append(others, o.p.name)
						}
					}
					r.Violation("C08/fold/"+mode+"/multi-subscriber", fmt.Sprintf("case %d: subscriber %d (predicate %s, alongside subscribers with predicates %v) folds to %s but List with its predicate is %s after: %v", i, k, s.p.name, others, vk.ListJSON(got), vk.ListJSON(want), trace), map[string]any{"case": i})
					ok = false
					break
				}
			}
		}
		r.Distinct(fmt.Sprintf("multi:%v:%d:%v", bp, ns, trace))
		cancel()
	}
	r.Require("multi-subscriber-fold-checks", 500)
}
