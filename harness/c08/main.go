// Monitor for C08: include-filtered List/Pull behave as the filtered collection.
//
// The real resource.Collection is driven by a single writer; one subscriber opened with WithInclude(p) receives into a
// log. After every write the process is brought to a quiescent point (vk.Quiesce: every other goroutine blocked), so
// "the subscriber has received everything it will get for this write" is decided on goroutine state, never on time.
// The oracle is a map model of the collection written from the property text: an item is in the filtered collection
// iff it is present and p(id, value) holds; an event is expected exactly when membership or the value of a member
// changes (absent/excluded -> included = ADD, included -> absent/excluded = REMOVE, included -> included = update,
// anything else = nothing). The folded stream is compared with the real List(WithInclude(p)) and that with the model.
package main

import (
	"os"
	"runtime"
	"strconv"

	"github.com/smart-core-os/sc-golang/internal/verif/vk"
)

func main() {
	// Every scenario is sequenced by quiescent points, each of which stops the world at least twice; with one
	// worker process per core a small GOMAXPROCS makes that several times cheaper and changes no verdict.
	procs := 1
	if v, err := strconv.Atoi(os.Getenv("C08_GOMAXPROCS")); err == nil && v > 0 {
		procs = v
	}
	runtime.GOMAXPROCS(procs)
	vk.Main("C08", run)
}

func run(r *vk.Run) {
	r.Describe("generic part: predicates are the 64 truth tables over (id in {a,b}) x (value in {absent, v0, v1}); write histories are words over "+
		"{add,update,delete} x 2 ids x 2 values (10 letters, failing calls included). Phase 'table' enumerates every (predicate, id, old state, new state, "+
		"backpressure on/off) cell once (2048 scenarios). Phase 'histories' enumerates every history of length <= 3 (quick; plus a PRNG-chosen 3% of length 4) "+
		"or <= 4 (thorough; plus a PRNG-chosen 5% of length 5) x 64 predicates x backpressure on/off; the point at which the subscriber is opened, the read mask (none / drops the field the "+
		"predicate reads / drops the sequence field) and, without backpressure, the set of writes after which the consumer is allowed to drain are drawn "+
		"from the case PRNG. Phase 'long' runs random histories of length 5-10. Booking part: random bookings and query periods on a small time grid "+
		"through bookingpb.ModelServer (ListBookings / PullBookings with booking_intersects). A case is distinct by (predicate, history, subscribe point, "+
		"mode, drain set, mask) resp. the rendered booking script, and non-trivial when at least one write happened while the subscriber was open or the seed was non-empty.",
		"phase 'equivalence': random histories of length 3-9 on a collection configured with an equivalence (same tag), judged modulo that equivalence: same members as List(include), held value equivalent to the listed one",
		"phase 'forced delete window': the one deliberate exception to the single writer: a Delete parked (build-tag hook) between its read and the write lock while an Update of the same item commits, for all 64 predicates",
		"single writer otherwise; the consumer is either free-running or parked at a quiescent, drained point, so which writes are merged by the lossy path is an enumerated variable",
		"every written value is unique (sequence number), the predicate reads only the tag field and the id",
		"an absent item is not a member of the filtered collection whatever the predicate answers for a nil value",
		"event change times and the values of OldValue on lossy (merged) events are not asserted")
	g := newGeneric(r)
	if r.Guard("C08/crash/generic", "generic collection scenarios") {
		g.tablePhase()
		g.historyPhase()
		g.longPhase()
		r.Unguard()
	}
	g.flush()
	if r.Guard("C08/crash/booking", "booking scenarios") {
		bookingPhase(r)
		r.Unguard()
	}
	if r.Guard("C08/crash/multi-subscriber", "multi-subscriber scenarios") {
		multiSubscriber(r)
		r.Unguard()
	}
	if r.Guard("C08/crash/forced-delete-window", "delete racing an update inside its read-to-lock window") {
		forcedDeleteWindow(r)
		r.Unguard()
	}
	if r.Guard("C08/crash/forced-join-unpublished", "subscriber joining while a membership flip is committed but unpublished") {
		forcedJoinUnpublished(r)
		r.Unguard()
	}
	if r.Guard("C08/crash/equivalence", "include on a collection with an equivalence") {
		equivalencePhase(r)
		r.Unguard()
	}

	r.Exhaustive(!r.Quick())
	r.Require("table-cells", 2048)
	for _, row := range []string{"absent-incl", "absent-excl", "incl-absent", "excl-absent", "incl-incl", "incl-excl", "excl-incl", "excl-excl"} {
		r.Require("table-checks/"+row, r.Pick(2000, 20000))
	}
	r.Require("table-checks/failed-write", r.Pick(2000, 20000))
	r.Require("fold-checks/bp", r.Pick(50000, 500000))
	r.Require("fold-checks/lossy", r.Pick(50000, 500000))
	r.Require("lossy-drains-covering-2+-writes", r.Pick(5000, 50000))
	r.Require("seed-checks/non-empty", r.Pick(5000, 50000))
	r.Require("table-checks/nil-matching-predicate", r.Pick(10000, 100000))
	r.Require("read-mask-runs/drops-predicate-field", r.Pick(5000, 50000))
	r.Require("booking/fold-checks", r.Pick(10000, 400000))
	r.Require("booking/list-checks/non-trivial", r.Pick(3000, 100000))
	r.Require("booking/events/ADD-by-filter", r.Pick(200, 8000))
	r.Require("booking/events/REMOVE-by-filter", r.Pick(200, 8000))
	r.Require("booking/expected/UPDATE", r.Pick(800, 30000))
	r.Require("booking/expected/none(excl-excl)", r.Pick(800, 30000))
}
