package main

import (
	"context"
	"fmt"
	"strings"
	"sync"

	"github.com/smart-core-os/sc-api/go/types"
	"google.golang.org/protobuf/proto"

	"github.com/smart-core-os/sc-golang/internal/testproto"
	"github.com/smart-core-os/sc-golang/internal/verif/vk"
	"github.com/smart-core-os/sc-golang/pkg/resource"
)

// forcedDeleteWindow: a Delete is parked between reading the item and taking the write lock while an Update of the
// same item commits (moving it into or out of the predicate). Whatever the Delete then does (retry, proceed), the
// REMOVE it publishes must describe the version that was actually removed: the include decision is taken on the
// event's old value, so a stale one makes the subscriber keep a deleted item or be told about the removal of an
// item it never had. Judged at quiescence: fold of the filtered stream == List(WithInclude), for all 64 predicates.
func forcedDeleteWindow(r *vk.Run) {
	g := newGeneric(r)
	defer g.flush()
	sched := vk.NewSched()
	defer sched.Close()
	idx := 0
	for _, window := range []string{"col.delete.afterRead", "col.delete.beforeLock", "upsert@gau.afterRead", "upsert@gau.beforeLock"} {
		for p := 0; p < 64; p++ {
			for _, bp := range []bool{true, false} {
				for from := 0; from < 2; from++ {
					idx++
					if !r.Mine(idx) {
						continue
					}
					mode := map[bool]string{true: "bp", false: "lossy"}[bp]
					pred := g.predFn(p)
					v0 := &val{tag: int32(from + 1), seq: 1}
					v1 := &val{tag: int32(2 - from), seq: 2}
					upsert := strings.HasPrefix(window, "upsert@")
					var copts []resource.Option
					if !upsert {
						copts = append(copts, resource.WithInitialRecord("a", mkMsg("a", v0)))
					}
					col := resource.NewCollection(copts...)
					ctx, cancel := context.WithCancel(context.Background())
					var mu sync.Mutex
					view := map[string]proto.Message{}
					var log []string
					ch := col.Pull(ctx, resource.WithInclude(pred), resource.WithBackpressure(bp))
					go func() {
						for e := range ch {
							mu.Lock()
							log = append(log, fmt.Sprintf("%s %s old=%s new=%s", e.ChangeType, e.Id, vk.JSON(e.OldValue), vk.JSON(e.NewValue)))
							if e.ChangeType == types.ChangeType_REMOVE {
								delete(view, e.Id)
							} else {
								view[e.Id] = e.NewValue
							}
							mu.Unlock()
						}
					}()
					if _, ok := r.MustQuiesce("c08-forced-open"); !ok {
						cancel()
						return
					}
					var park *vk.Park
					var td *vk.Task
					var uerr error
					if upsert {
						// two creating writers of one new id: the parked one has read "absent" when the other creates the item
						park = sched.ParkAt(strings.TrimPrefix(window, "upsert@"), nil)
						td = vk.Go(func() { col.Update("a", mkMsg("a", v1), resource.WithCreateIfAbsent()) })
					} else {
						park = sched.ParkAt(window, nil)
						td = vk.Go(func() { col.Delete("a") })
					}
					vk.Quiesce()
					reached := park.Arrived()
					if upsert {
						_, uerr = col.Update("a", mkMsg("a", v0), resource.WithCreateIfAbsent())
					} else {
						_, uerr = col.Update("a", mkMsg("a", v1))
					}
					park.Release()
					td.Wait()
					if _, ok := r.MustQuiesce("c08-forced-final"); !ok {
						cancel()
						return
					}
					r.Eval(1)
					r.Count("forced-delete-window-scenarios", 1)
					if reached {
						r.Distinct(fmt.Sprintf("delwin|%s|%d|%v|%d", window, p, bp, from))
					} else {
						r.Count("forced-window-not-reached", 1)
					}
					listed := map[string]bool{}
					for _, m := range col.List(resource.WithInclude(pred)) {
						listed[m.(*testproto.TestAllTypes).DefaultString] = true
					}
					mu.Lock()
					var bad string
					for id := range view {
						if !listed[id] {
							bad = "extra"
						}
					}
					for id := range listed {
						if _, has := view[id]; !has {
							bad = "missing"
						}
					}
					trace := append([]string{}, log...)
					mu.Unlock()
					if bad != "" {
						what := "delete-racing-update"
						if upsert {
							what = "upsert-racing-upsert"
						}
						r.Violation("C08/fold/"+mode+"/"+what+"/"+bad, fmt.Sprintf("the first writer of item a was parked at %s while Update(a) moved the item from tag %d to tag %d (update error: %v); predicate %s; afterwards List(include) has %v but the folded stream holds %d item(s)\nreceived:\n  %s", window, v0.tag, v1.tag, uerr, predString(p), listed, len(view), joinLines(trace)), map[string]any{"window": window, "predicate": p, "backpressure": bp, "from_tag": v0.tag})
					}
					cancel()
				}
			}
		}
	}
	r.MustQuiesce("c08-forced-end")
	r.Require("forced-delete-window-scenarios", 30)
}

func joinLines(ss []string) string {
	out := ""
	for i, s := range ss {
		if i > 0 {
			out += "\n  "
		}
		out += s
	}
	return out
}

// forcedJoinUnpublished: an include-filtered subscriber opens while a write that flipped item a's membership is
// committed but not published yet (writer parked at col.update.beforePublish). Its seed already shows the committed
// state, so that write's event is not for it. The subscriber does not read for a while (its seed is still pending)
// and a second write flips the item back; then it drains. Fold == List(WithInclude) at the end, all 64 predicates,
// with and without backpressure, reading at once or late.
func forcedJoinUnpublished(r *vk.Run) {
	g := newGeneric(r)
	defer g.flush()
	sched := vk.NewSched()
	defer sched.Close()
	idx := 0
	for p := 0; p < 64; p++ {
		for _, bp := range []bool{true, false} {
			for from := 0; from < 2; from++ {
				for _, late := range []bool{true, false} {
					idx++
					if !r.Mine(idx) {
						continue
					}
					if bp && late {
						continue // a backpressured subscriber that does not read holds the writers up: nothing to merge
					}
					mode := map[bool]string{true: "bp", false: "lossy"}[bp]
					pred := g.predFn(p)
					v0 := &val{tag: int32(from + 1), seq: 1}
					v1 := &val{tag: int32(2 - from), seq: 2}
					v2 := &val{tag: int32(from + 1), seq: 3}
					col := resource.NewCollection(resource.WithInitialRecord("a", mkMsg("a", v0)), resource.WithInitialRecord("b", mkMsg("b", v0)))
					ctx, cancel := context.WithCancel(context.Background())
					park := sched.ParkAt("col.update.beforePublish", nil)
					t1 := vk.Go(func() { col.Update("a", mkMsg("a", v1)) })
					vk.Quiesce()
					reached := park.Arrived()
					var mu sync.Mutex
					view := map[string]proto.Message{}
					var log []string
					ch := col.Pull(ctx, resource.WithInclude(pred), resource.WithBackpressure(bp))
					consume := func() {
						for e := range ch {
							mu.Lock()
							log = append(log, fmt.Sprintf("%s %s old=%s new=%s", e.ChangeType, e.Id, vk.JSON(e.OldValue), vk.JSON(e.NewValue)))
							if e.ChangeType == types.ChangeType_REMOVE {
								delete(view, e.Id)
							} else {
								view[e.Id] = e.NewValue
							}
							mu.Unlock()
						}
					}
					if !late {
						go consume()
					}
					vk.Quiesce()
					park.Release()
					vk.Quiesce()
					t2 := vk.Go(func() { col.Update("a", mkMsg("a", v2)) })
					vk.Quiesce()
					if late {
						go consume()
					}
					gs, ok := r.MustQuiesce("c08-join-unpublished")
					if !ok {
						cancel()
						return
					}
					r.Eval(1)
					r.Count("forced-join-unpublished-scenarios", 1)
					if reached {
						r.Distinct(fmt.Sprintf("joinunpub|%d|%v|%d|%v", p, bp, from, late))
					}
					if !t1.Done() || !t2.Done() {
						r.Violation("C08/fold/"+mode+"/join-unpublished/writer-stuck", fmt.Sprintf("a writer has not returned at the quiescent point\n%s", vk.DescribeGs(vk.LibraryGoroutines(gs, nil))), map[string]any{"predicate": p, "backpressure": bp})
						cancel()
						return
					}
					listed := map[string]bool{}
					for _, m := range col.List(resource.WithInclude(pred)) {
						listed[m.(*testproto.TestAllTypes).DefaultString] = true
					}
					mu.Lock()
					var bad string
					for id := range view {
						if !listed[id] {
							bad = "extra"
						}
					}
					for id := range listed {
						if _, has := view[id]; !has {
							bad = "missing"
						}
					}
					trace := append([]string{}, log...)
					mu.Unlock()
					if bad != "" {
						r.Violation("C08/fold/"+mode+"/join-unpublished/"+bad, fmt.Sprintf("Update(a: tag %d -> %d) was committed and held before publishing when the subscriber (reads late: %v) opened; then Update(a: -> tag %d); predicate %s; List(include) has %v, the folded stream holds %d item(s)\nreceived:\n  %s", v0.tag, v1.tag, late, v2.tag, predString(p), listed, len(view), joinLines(trace)), map[string]any{"predicate": p, "backpressure": bp, "from_tag": v0.tag, "late": late})
					}
					cancel()
				}
			}
		}
	}
	r.MustQuiesce("c08-join-unpublished-end")
	r.Require("forced-join-unpublished-scenarios", 30)
}
