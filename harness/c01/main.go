// Monitor for C01: Value/Collection conform to a sequential register/map specification.
//
// The real resource and the reference model (internal/verif/seqmodel) are stepped in lock-step: every call's
// return value, error class and callback counts, the Get/List taken right after it and the events seen by a
// backpressured subscriber are compared with the model.
package main

import (
	"context"
	"fmt"
	"io"
	"strings"
	"sync"
	"time"

	"github.com/smart-core-os/sc-api/go/traits"
	"google.golang.org/grpc/codes"
	"google.golang.org/protobuf/proto"
	"google.golang.org/protobuf/reflect/protoreflect"

	"github.com/smart-core-os/sc-golang/internal/testproto"
	sm "github.com/smart-core-os/sc-golang/internal/verif/seqmodel"
	"github.com/smart-core-os/sc-golang/internal/verif/vk"
	"github.com/smart-core-os/sc-golang/pkg/resource"
)

func main() { vk.Main("C01", run) }

type fakeClock struct {
	mu sync.Mutex
	t  int64
}

func (c *fakeClock) Now() time.Time {
	c.mu.Lock()
	defer c.mu.Unlock()
	c.t++
	return time.Unix(1000, c.t)
}

// ---- type infos

func tatInfo() sm.TypeInfo {
	return sm.TypeInfo{
		Zero: &testproto.TestAllTypes{},
		Check: func(cur proto.Message) bool {
			m, ok := cur.(*testproto.TestAllTypes)
			return ok && m != nil && m.DefaultInt32%2 == 1
		},
		Before: func(old, v proto.Message) {
			o, _ := old.(*testproto.TestAllTypes)
			if o != nil {
				v.(*testproto.TestAllTypes).DefaultInt64 += o.DefaultInt64
			}
		},
		After: func(old, nw proto.Message) {
			o, _ := old.(*testproto.TestAllTypes)
			var prev uint32
			if o != nil {
				prev = o.DefaultUint32
			}
			nw.(*testproto.TestAllTypes).DefaultUint32 = prev + 1
		},
	}
}

// genericInfo builds pure check/interceptor functions from the first top-level numeric fields of a message type.
func genericInfo(zero proto.Message) sm.TypeInfo {
	md := zero.ProtoReflect().Descriptor()
	var nums []protoreflect.FieldDescriptor
	for i := 0; i < md.Fields().Len(); i++ {
		fd := md.Fields().Get(i)
		if fd.IsList() || fd.IsMap() || fd.ContainingOneof() != nil {
			continue
		}
		switch fd.Kind() {
		case protoreflect.Int32Kind, protoreflect.Int64Kind, protoreflect.FloatKind, protoreflect.DoubleKind, protoreflect.EnumKind, protoreflect.Uint32Kind:
			nums = append(nums, fd)
		}
	}
	num := func(m proto.Message, fd protoreflect.FieldDescriptor) float64 {
		if m == nil || !m.ProtoReflect().IsValid() {
			return 0
		}
		v := m.ProtoReflect().Get(fd)
		switch fd.Kind() {
		case protoreflect.FloatKind, protoreflect.DoubleKind:
			return v.Float()
		case protoreflect.EnumKind:
			return float64(v.Enum())
		case protoreflect.Uint32Kind:
			return float64(v.Uint())
		}
		return float64(v.Int())
	}
	set := func(m proto.Message, fd protoreflect.FieldDescriptor, x float64) {
		r := m.ProtoReflect()
		switch fd.Kind() {
		case protoreflect.FloatKind:
			r.Set(fd, protoreflect.ValueOfFloat32(float32(x)))
		case protoreflect.DoubleKind:
			r.Set(fd, protoreflect.ValueOfFloat64(x))
		case protoreflect.EnumKind:
			n := fd.Enum().Values().Len()
			r.Set(fd, protoreflect.ValueOfEnum(fd.Enum().Values().Get(((int(x)%n)+n)%n).Number()))
		case protoreflect.Uint32Kind:
			r.Set(fd, protoreflect.ValueOfUint32(uint32(int64(x))))
		case protoreflect.Int32Kind:
			r.Set(fd, protoreflect.ValueOfInt32(int32(x)))
		default:
			r.Set(fd, protoreflect.ValueOfInt64(int64(x)))
		}
	}
	ti := sm.TypeInfo{Zero: zero}
	if len(nums) > 0 {
		f := nums[0]
		ti.Check = func(cur proto.Message) bool { return int64(num(cur, f))%2 != 0 }
		ti.Before = func(old, v proto.Message) { set(v, f, num(v, f)+num(old, f)) }
	}
	if len(nums) > 1 {
		g := nums[1]
		ti.After = func(old, nw proto.Message) { set(nw, g, num(old, g)+1) }
	}
	return ti
}

// ---- harness around one real resource

type eventRec struct {
	id    string
	typ   string
	old   proto.Message
	new   proto.Message
	t     time.Time
	seed  bool
	valid bool
}

type rig struct {
	r     *vk.Run
	model *sm.Model
	val   *resource.Value
	col   *resource.Collection
	state sm.State

	cancel context.CancelFunc
	mu     sync.Mutex
	events []eventRec
	closed bool
	coarse bool // the resource has an equivalence under which everything is a duplicate
	stuck  bool // the random source always reads zeros
}

// lowEntropy is a random source that often repeats itself: half of its reads are all zero bytes, so generated id
// candidates collide with ids generated earlier (after the id interceptor has mapped them).
type lowEntropy struct{ r *vk.Rand }

func (l lowEntropy) Read(p []byte) (int, error) {
	if l.r.Bool() {
		for i := range p {
			p[i] = 0
		}
		return len(p), nil
	}
	return l.r.Read(p)
}

type stuckReader struct{}

func (stuckReader) Read(p []byte) (int, error) {
	for i := range p {
		p[i] = 0
	}
	return len(p), nil
}

func newRig(r *vk.Run, model *sm.Model, initial sm.State, rng *vk.Rand) *rig {
	g := &rig{r: r, model: model, state: initial}
	var src io.Reader = rng.Fork()
	switch rng.Intn(6) {
	case 0, 1, 2:
		src = lowEntropy{rng.Fork()}
	case 3:
		// a source that is stuck: every generated candidate of a given length is the same, so the n-th generated id
		// needs n attempts and the 11th generation runs out of attempts (Aborted, nothing changed)
		src = stuckReader{}
		g.stuck = true
		r.Count("rigs-with-a-stuck-random-source", 1)
	}
	opts := append(model.ResourceOptions(), resource.WithClock(&fakeClock{}), resource.WithRNG(src))
	if rng.Chance(1, 4) {
		// an equivalence (here: everything is equivalent) only decides what subscribers are told; what is stored and
		// returned must be the same as without it. Event counts are not judged on such a rig.
		g.coarse = true
		opts = append(opts, resource.WithEquivalence(resource.ComparerFunc(func(x, y proto.Message) bool { return true })))
		r.Count("rigs-with-an-all-equivalent-comparer", 1)
	}
	ctx, cancel := context.WithCancel(context.Background())
	g.cancel = cancel
	if model.Cfg.IsValue {
		if it, ok := initial[""]; ok {
			opts = append(opts, resource.WithInitialValue(proto.Clone(it.Msg)))
		}
		g.val = resource.NewValue(opts...)
		ch := g.val.Pull(ctx, resource.WithBackpressure(true), resource.WithUpdatesOnly(true))
		go func() {
			for e := range ch {
				g.mu.Lock()
				g.events = append(g.events, eventRec{typ: "VALUE", new: e.Value, t: e.ChangeTime, seed: e.SeedValue, valid: true})
				g.mu.Unlock()
			}
			g.mu.Lock()
			g.closed = true
			g.mu.Unlock()
		}()
	} else {
		for id, it := range initial {
			opts = append(opts, resource.WithInitialRecord(id, proto.Clone(it.Msg)))
		}
		g.col = resource.NewCollection(opts...)
		ch := g.col.Pull(ctx, resource.WithBackpressure(true), resource.WithUpdatesOnly(true))
		go func() {
			for e := range ch {
				g.mu.Lock()
				g.events = append(g.events, eventRec{id: e.Id, typ: e.ChangeType.String(), old: e.OldValue, new: e.NewValue, t: e.ChangeTime, seed: e.SeedValue, valid: true})
				g.mu.Unlock()
			}
			g.mu.Lock()
			g.closed = true
			g.mu.Unlock()
		}()
	}
	return g
}

func (g *rig) close() { g.cancel() }

func (g *rig) takeEvents() []eventRec {
	g.mu.Lock()
	defer g.mu.Unlock()
	ev := g.events
	g.events = nil
	return ev
}

func (g *rig) exec(op sm.Op) sm.Result {
	if g.val != nil {
		return g.model.ExecValue(g.val, op)
	}
	return g.model.ExecCollection(g.col, op)
}

func resClass(res sm.Result) string {
	if res.Code == codes.OK {
		return "ok"
	}
	return res.Code.String()
}

// step executes op, compares with the model, checks the follow-up Get/List and the events. It returns false
// when the sequence should stop (the model and the real resource have diverged).
func (g *rig) step(op sm.Op, trace *[]string) bool {
	r := g.r
	var res sm.Result
	panicked, what := vk.Recover(func() { res = g.exec(op) })
	r.Eval(1)
	kind := "collection"
	if g.val != nil {
		kind = "value"
	}
	*trace = append(*trace, fmt.Sprintf("%v -> %s %s", op, resClass(res), vk.JSON(res.Msg)))
	replay := map[string]any{"resource": kind, "config": g.model.Cfg, "trace": *trace}
	if panicked {
		r.Violation(fmt.Sprintf("C01/panic/%s/%s", op.Kind, op.Opts.Reduced()), "panic in "+op.String()+": "+what+"\n"+strings.Join(*trace, "\n"), replay)
		return false
	}
	v, next := g.model.Apply(g.state, op, res)
	g.state = next
	r.Distinct(fmt.Sprintf("%s|%s|%s|%s", kind, op.Kind, op.Opts.Class(), resClass(res)))
	r.Count("calls", 1)
	r.Count("outcome:"+resClass(res), 1)
	ok := true
	if !v.OK {
		r.Violation(fmt.Sprintf("C01/%s/%s/%s/%s", v.Clause, kind, op.Kind, op.Opts.Reduced()), v.Why+"\ntrace:\n"+strings.Join(*trace, "\n"), replay)
		ok = false
	}
	isWrite := op.Kind != sm.Get && op.Kind != sm.List
	if !isWrite {
		return ok
	}
	// id generation tries ten candidates of growing length: with fewer than ten ids in use at all one of them is free,
	// whatever the random source (sequential use: nothing else can make the call fail with Aborted)
	if g.col != nil && op.ID == "" && op.Opts.GenID && res.Code == codes.Aborted && len(g.state) < 10 && ok {
		r.Violation(fmt.Sprintf("C01/genid-gave-up/%s/%s", kind, op.Kind), fmt.Sprintf("%v failed with %v (%s) although only %d ids are in use: one of the ten candidates of different lengths must have been free\ntrace:\n%s", op, res.Code, res.Err, len(g.state), strings.Join(*trace, "\n")), replay)
		ok = false
	}
	// generated id must be usable
	if v.OK && v.Success && op.Opts.GenID && len(res.GenIDs) == 1 && g.col != nil {
		id := res.GenIDs[0]
		got, found := g.col.Get(id)
		r.Eval(1)
		if !found || !vk.SameMessage(got, res.Msg) {
			cls := "plain"
			if g.model.Cfg.LowerIDs {
				cls = "with-id-interceptor"
			}
			r.Violation("C01/genid/unusable/"+cls, fmt.Sprintf("generated id %q reported through the id callback is not usable: Get found=%v value=%s, write returned %s\ntrace:\n%s", id, found, vk.JSON(got), vk.JSON(res.Msg), strings.Join(*trace, "\n")), replay)
			return false
		}
	}
	// state after the call: full Get/List must equal the model
	if g.val != nil {
		got := g.val.Get()
		want := g.state[""].Msg
		r.Eval(1)
		if !(want == nil && (got == nil || !got.ProtoReflect().IsValid())) && !vk.SameMessage(want, got) {
			clause := "state-after-success"
			if res.Code != codes.OK {
				clause = "state-after-failure"
			}
			r.Violation(fmt.Sprintf("C01/%s/value/%s/%s", clause, op.Kind, resClass(res)), fmt.Sprintf("after %v Get = %s, model says %s\ntrace:\n%s", op, vk.JSON(got), vk.JSON(want), strings.Join(*trace, "\n")), replay)
			ok = false
		}
	} else {
		got := g.col.List()
		r.Eval(1)
		var want []proto.Message
		for _, id := range g.state.IDs() {
			want = append(want, g.state[id].Msg)
		}
		if !vk.SameList(want, got) {
			clause := "state-after-success"
			if res.Code != codes.OK {
				clause = "state-after-failure"
			}
			r.Violation(fmt.Sprintf("C01/%s/collection/%s/%s", clause, op.Kind, resClass(res)), fmt.Sprintf("after %v List = %s, model says %s\ntrace:\n%s", op, vk.ListJSON(got), vk.ListJSON(want), strings.Join(*trace, "\n")), replay)
			ok = false
		}
		// every id of the model is gettable, sorted order is by id
		for _, id := range g.state.IDs() {
			m, found := g.col.Get(id)
			if !found || !vk.SameMessage(m, g.state[id].Msg) {
				r.Violation(fmt.Sprintf("C01/get-after-write/collection/%s", op.Kind), fmt.Sprintf("after %v Get(%q) found=%v %s, model says %s\ntrace:\n%s", op, id, found, vk.JSON(m), vk.JSON(g.state[id].Msg), strings.Join(*trace, "\n")), replay)
				ok = false
			}
		}
	}
	// events: exactly one for a success, none for a failure
	if _, qok := r.MustQuiesce("c01-step"); !qok {
		return false
	}
	evs := g.takeEvents()
	wantN := 0
	if v.Event != nil {
		wantN = 1
	}
	if res.Code != codes.OK && len(evs) > 0 {
		r.Violation(fmt.Sprintf("C01/event-after-failure/%s/%s/%s", kind, op.Kind, resClass(res)), fmt.Sprintf("%v failed with %v but %d event(s) were published\ntrace:\n%s", op, res.Code, len(evs), strings.Join(*trace, "\n")), replay)
		ok = false
	} else if g.coarse {
		// nothing to judge: every event is a duplicate for the subscriber
	} else if v.OK && len(evs) != wantN {
		r.Violation(fmt.Sprintf("C01/event-count/%s/%s/%s", kind, op.Kind, op.Opts.Reduced()), fmt.Sprintf("%v published %d events, model says %d\ntrace:\n%s", op, len(evs), wantN, strings.Join(*trace, "\n")), replay)
		ok = false
	} else if v.OK && wantN == 1 {
		e := evs[0]
		we := v.Event
		bad := ""
		if g.col != nil {
			switch {
			case e.id != we.ID:
				bad = fmt.Sprintf("id %q, want %q", e.id, we.ID)
			case e.typ != we.Type:
				bad = fmt.Sprintf("type %s, want %s", e.typ, we.Type)
			case !vk.SameMessage(e.new, we.New) && !(e.new == nil && we.New == nil):
				bad = fmt.Sprintf("new value %s, want %s", vk.JSON(e.new), vk.JSON(we.New))
			case !vk.SameMessage(e.old, we.Old) && !(we.Old == nil && (e.old == nil || !e.old.ProtoReflect().IsValid())):
				bad = fmt.Sprintf("old value %s, want %s", vk.JSON(e.old), vk.JSON(we.Old))
			}
		} else if !vk.SameMessage(e.new, we.New) {
			bad = fmt.Sprintf("value %s, want %s", vk.JSON(e.new), vk.JSON(we.New))
		}
		if bad == "" && we.Time != nil && op.Kind != sm.Delete && !e.t.Equal(*we.Time) {
			bad = fmt.Sprintf("change time %v, want the write time %v", e.t.UnixNano(), we.Time.UnixNano())
		}
		if bad != "" {
			r.Violation(fmt.Sprintf("C01/event-content/%s/%s/%s", kind, op.Kind, op.Opts.Reduced()), fmt.Sprintf("%v published an event with %s\ntrace:\n%s", op, bad, strings.Join(*trace, "\n")), replay)
			ok = false
		}
	}
	return ok
}

// ---- alphabets

var tatVals = []*testproto.TestAllTypes{
	{DefaultInt32: 1, DefaultString: "x", DefaultInt64: 10},
	{DefaultInt32: 2, DefaultNestedMessage: &testproto.TestAllTypes_NestedMessage{A: 5}, DefaultInt64: 3, RepeatedInt32: []int32{4}},
	{},
}

func run(r *vk.Run) {
	r.Describe("lock-step comparison of resource.Value/Collection with the sequential reference model: (1) bounded-exhaustive: every single call over ids {\"\",a,b,A} x 3 values x every subset of the write options from each pre-state in {empty,{a},{a,b}} and 2 configurations (id interceptor on/off), then all length-2/3 sequences over a covering option set; (2) long random sequences on TestAllTypes, OnOff, Brightness, ElectricMode with random option subsets and masks. Distinct = (resource kind, op, option subset, outcome class); every case is non-trivial (a real call compared with the model).",
		"the model is written from the doc comments of pkg/resource (DESIGN.md appendix C); where several preconditions fail at once any of their error codes is accepted",
		"events are observed through a backpressured updates-only Pull and counted at quiescent points")
	exhaustiveSingle(r)
	shortSequences(r)
	randomSequences(r)
	optionSlices(r)
	r.Require("calls", 1000)
}

func ptime(n int64) *time.Time { t := time.Unix(5000, n); return &t }

// optsFromBits builds one option subset. Bit layout (11 write options of the property statement):
// 0 update mask, 1 reset mask, 2 expected value, 3 expected check, 4 expect-absent, 5 create-if-absent,
// 6 allow-missing, 7 generated ids (+id callback), 8 before interceptor, 9 after interceptor, 10 write time.
func optsFromBits(bits int, expect proto.Message) sm.Opts {
	var o sm.Opts
	if bits&1 != 0 {
		o.HasUpdateMask, o.UpdateMask = true, []string{"default_int32", "default_int64"}
	}
	if bits&2 != 0 {
		o.HasResetMask, o.ResetMask = true, []string{"default_string"}
	}
	if bits&4 != 0 {
		o.ExpectValue = expect
	}
	o.ExpectCheck = bits&8 != 0
	o.ExpectAbsent = bits&16 != 0
	o.CreateIfAbsent = bits&32 != 0
	o.AllowMissing = bits&64 != 0
	if bits&128 != 0 {
		o.GenID, o.IDCallback = true, true
	}
	o.Before = bits&256 != 0
	o.After = bits&512 != 0
	if bits&1024 != 0 {
		o.WriteTime = ptime(int64(bits))
	}
	o.CreatedCB = true
	return o
}

func preStates() []sm.State {
	return []sm.State{
		{},
		{"a": {Msg: tatVals[0]}},
		{"a": {Msg: tatVals[0]}, "b": {Msg: tatVals[1]}},
	}
}

func exhaustiveSingle(r *vk.Run) {
	info := tatInfo()
	ids := []string{"", "a", "b", "A"}
	idx := 0
	rng := r.Rand("c01-single")
	for _, lower := range []bool{false, true} {
		model := &sm.Model{Cfg: sm.Config{NilWritable: true, LowerIDs: lower}, Type: info}
		for si, pre := range preStates() {
			for _, id := range ids {
				for vi, val := range tatVals {
					for _, kind := range []sm.OpKind{sm.Update, sm.Add, sm.Delete} {
						for bits := 0; bits < 2048; bits++ {
							if kind == sm.Add && bits&(16|32) != 0 {
								continue // Add implies these two
							}
							if kind == sm.Delete && (vi != 0 || bits&(1|2|16|32|128|256|512) != 0) {
								continue // options that do not apply to Delete
							}
							if kind != sm.Delete && bits&64 != 0 {
								continue // allow-missing only applies to Delete
							}
							idx++
							if !r.Mine(idx) {
								continue
							}
							// expected value: the stored value of a (so it matches for id a, not for b)
							op := sm.Op{Kind: kind, ID: id, Val: val, Opts: optsFromBits(bits, tatVals[0])}
							g := newRig(r, model, pre, rng)
							var trace []string
							trace = append(trace, fmt.Sprintf("pre-state #%d %s lowerIDs=%v", si, pre.Render(), lower))
							g.step(op, &trace)
							if r.WantSample("single-call") {
								r.Sample("single-call", trace)
							}
							g.close()
						}
					}
				}
			}
		}
	}
	// Value: Set from {absent, v0} x values x option subsets that apply to a Value
	vmodel := &sm.Model{Cfg: sm.Config{IsValue: true, NilWritable: true}, Type: info}
	for _, pre := range []sm.State{{}, {"": {Msg: tatVals[0]}}, {"": {Msg: tatVals[1]}}} {
		for _, val := range tatVals {
			for bits := 0; bits < 2048; bits++ {
				if bits&(16|32|64|128) != 0 {
					continue // collection-only options
				}
				if len(pre) == 0 && bits&(4|8) != 0 {
					continue // expected value/check against "no value yet" is not specified
				}
				idx++
				if !r.Mine(idx) {
					continue
				}
				op := sm.Op{Kind: sm.Set, Val: val, Opts: optsFromBits(bits, tatVals[0])}
				op.Opts.CreatedCB = false
				g := newRig(r, vmodel, pre, rng)
				var trace []string
				trace = append(trace, "pre-state "+pre.Render())
				g.step(op, &trace)
				g.step(sm.Op{Kind: sm.Get}, &trace)
				g.close()
			}
		}
	}
	r.Count("exhaustive-single-cases", idx)
}

// coverOpts is a pairwise-covering set of option subsets used for exhaustive short sequences.
var coverBits = []int{0, 1, 2 | 512, 4, 8 | 256, 32, 32 | 128, 16 | 32, 1 | 4 | 32, 1024 | 32, 8 | 16 | 32 | 2}

func shortSequences(r *vk.Run) {
	info := tatInfo()
	type cand struct {
		kind sm.OpKind
		id   string
		vi   int
		bits int
	}
	var cands []cand
	for _, id := range []string{"a", "b"} {
		for _, b := range coverBits {
			cands = append(cands, cand{sm.Update, id, 1, b})
		}
		cands = append(cands, cand{sm.Add, id, 0, 0}, cand{sm.Add, id, 1, 256}, cand{sm.Delete, id, 0, 0}, cand{sm.Delete, id, 0, 64}, cand{sm.Delete, id, 0, 4}, cand{sm.Delete, id, 0, 8})
	}
	cands = append(cands, cand{sm.Add, "", 1, 128}, cand{sm.Update, "", 1, 128 | 32}, cand{sm.Update, "A", 0, 32})
	n := len(cands)
	maxLen := 2
	depth3 := r.Pick(0, 1) == 1
	idx := 0
	rng := r.Rand("c01-seq")
	runSeq := func(seq []cand, lower bool) {
		model := &sm.Model{Cfg: sm.Config{NilWritable: true, LowerIDs: lower}, Type: info}
		g := newRig(r, model, sm.State{"a": {Msg: tatVals[0]}}, rng)
		var trace []string
		for _, c := range seq {
			op := sm.Op{Kind: c.kind, ID: c.id, Val: tatVals[c.vi], Opts: optsFromBits(c.bits, tatVals[0])}
			if c.kind == sm.Delete {
				op.Opts.CreatedCB = false
			}
			if !g.step(op, &trace) {
				break
			}
			g.step(sm.Op{Kind: sm.List}, &trace)
		}
		r.Distinct("seq:" + strings.Join(trace, ";"))
		if r.WantSample("short-sequence") {
			r.Sample("short-sequence", trace)
		}
		g.close()
	}
	for _, lower := range []bool{false, true} {
		for i := 0; i < n; i++ {
			for j := 0; j < n; j++ {
				idx++
				if r.Mine(idx) {
					runSeq([]cand{cands[i], cands[j]}, lower)
				}
				if !depth3 {
					// quick tier: a PRNG-chosen third step for a tenth of the pairs
					if r.Mine(idx) && (i*n+j)%10 == int(r.Seed%10) {
						k := r.CaseRand("c01-third", idx).Intn(n)
						runSeq([]cand{cands[i], cands[j], cands[k]}, lower)
					}
					continue
				}
				for k := 0; k < n; k++ {
					idx++
					if r.Mine(idx) {
						runSeq([]cand{cands[i], cands[j], cands[k]}, lower)
					}
				}
			}
		}
	}
	_ = maxLen
	r.Count("short-sequences", idx)
}

// idField names, per message type, the string field the id callback writes a generated id into.
var idField = map[string]string{"TestAllTypes": "default_string", "ElectricMode": "id", "Brightness": "", "OnOff": ""}

func randomSequences(r *vk.Run) {
	type tcase struct {
		name  string
		info  sm.TypeInfo
		paths []string
	}
	tat := tatInfo()
	cases := []tcase{
		{"TestAllTypes", tat, append(vk.LeafPaths(tat.Zero.ProtoReflect().Descriptor(), 1), "default_nested_message.corecursive.default_int32", "bogus", "default_int32.x")},
		{"OnOff", genericInfo(&traits.OnOff{}), append(vk.LeafPaths((&traits.OnOff{}).ProtoReflect().Descriptor(), 1), "nope")},
		{"Brightness", genericInfo(&traits.Brightness{}), append(vk.LeafPaths((&traits.Brightness{}).ProtoReflect().Descriptor(), 2), "nope")},
		{"ElectricMode", genericInfo(&traits.ElectricMode{}), append(vk.LeafPaths((&traits.ElectricMode{}).ProtoReflect().Descriptor(), 1), "nope")},
	}
	nseq := r.Pick(500, 20000)
	steps := 200
	ids := []string{"a", "b", "c", "A", "Ab", ""}
	for i := 0; i < nseq; i++ {
		if !r.Mine(i) {
			continue
		}
		rng := r.CaseRand("c01-rand", i)
		tc := cases[rng.Intn(len(cases))]
		isValue := rng.Chance(1, 3)
		cfg := sm.Config{IsValue: isValue, NilWritable: true, LowerIDs: !isValue && rng.Chance(1, 3)}
		model := &sm.Model{Cfg: cfg, Type: tc.info}
		gen := vk.GenOpts{Density: 30, MaxDepth: 1, MaxList: 2}
		init := sm.State{}
		if isValue {
			if !rng.Chance(1, 4) { // a quarter of the Values start with nothing stored
				init[""] = sm.Item{Msg: vk.GenMessage(rng, tc.info.Zero, gen)}
			}
		} else if rng.Bool() {
			init["a"] = sm.Item{Msg: vk.GenMessage(rng, tc.info.Zero, gen)}
		}
		g := newRig(r, model, init, rng)
		ids := ids
		if g.stuck && !isValue {
			ids = []string{"", "", "", "a", "b"} // mostly generated ids, so that the attempts run out
		}
		var trace []string
		trace = append(trace, fmt.Sprintf("type=%s config=%+v init=%s stuck-rng=%v", tc.name, cfg, init.Render(), g.stuck))
		var genIDs []string
		mask := func() []string {
			n := rng.Intn(3)
			var m []string
			for k := 0; k < n; k++ {
				p := tc.paths[rng.Intn(len(tc.paths))]
				if (p == "bogus" || p == "nope" || p == "default_int32.x") && !rng.Chance(1, 4) {
					p = tc.paths[0]
				}
				if strings.HasPrefix(p, "oneof_") && strings.Contains(p, ".") {
					// a nested path through a oneof member switches the oneof arm as a side effect; whether the other arm
					// counts as "outside the mask" is C05's question, not the register model's
					p = tc.paths[0]
				}
				m = append(m, p)
			}
			return noOverlap(m)
		}
		for s := 0; s < steps; s++ {
			var op sm.Op
			pickID := func() string {
				if len(genIDs) > 0 && rng.Chance(1, 4) {
					return genIDs[rng.Intn(len(genIDs))]
				}
				return ids[rng.Intn(len(ids))]
			}
			var cur proto.Message
			if isValue {
				cur = g.state[""].Msg
			}
			if isValue {
				if rng.Chance(1, 4) {
					op = sm.Op{Kind: sm.Get}
					if rng.Bool() {
						op.Opts.HasReadMask, op.Opts.ReadMask = true, validOnly(tc.info.Zero, mask())
					}
				} else {
					op = sm.Op{Kind: sm.Set, Val: vk.GenMessage(rng, tc.info.Zero, gen)}
				}
			} else {
				switch rng.Intn(10) {
				case 0:
					op = sm.Op{Kind: sm.Get, ID: pickID()}
					if rng.Bool() {
						op.Opts.HasReadMask, op.Opts.ReadMask = true, validOnly(tc.info.Zero, mask())
					}
				case 1:
					op = sm.Op{Kind: sm.List}
					if rng.Bool() {
						op.Opts.HasReadMask, op.Opts.ReadMask = true, validOnly(tc.info.Zero, mask())
					}
					op.Opts.IncludeCheck = rng.Chance(1, 3) // with or without a mask: the predicate sees the stored item
				case 2, 3:
					op = sm.Op{Kind: sm.Delete, ID: pickID()}
				case 4, 5:
					op = sm.Op{Kind: sm.Add, ID: pickID(), Val: vk.GenMessage(rng, tc.info.Zero, gen)}
				default:
					op = sm.Op{Kind: sm.Update, ID: pickID(), Val: vk.GenMessage(rng, tc.info.Zero, gen)}
				}
				if it, ok := g.state[lowerIf(cfg.LowerIDs, op.ID)]; ok {
					cur = it.Msg
				}
			}
			if op.Kind != sm.Get && op.Kind != sm.List {
				o := &op.Opts
				if op.Kind != sm.Delete {
					if rng.Chance(1, 3) {
						o.HasUpdateMask, o.UpdateMask = true, mask()
					}
					if rng.Chance(1, 6) {
						o.HasResetMask, o.ResetMask = true, mask()
					}
					o.Before = rng.Chance(1, 5)
					o.After = rng.Chance(1, 5)
					if !isValue {
						o.ExpectAbsent = rng.Chance(1, 8)
						o.CreateIfAbsent = rng.Chance(1, 2)
						if op.ID == "" && rng.Chance(3, 4) {
							o.GenID, o.IDCallback = true, true
							if rng.Bool() {
								// the callback also fills the id into the message being written, as a model would
								o.IDIntoField = idField[tc.name]
							}
						}
						o.CreatedCB = rng.Bool()
					}
				} else {
					o.AllowMissing = rng.Chance(1, 3)
				}
				if rng.Chance(1, 5) {
					switch {
					case cur != nil && rng.Chance(2, 3):
						o.ExpectValue = proto.Clone(cur)
					case rng.Chance(1, 3):
						// the empty message: what a register holding nothing does NOT hold (and what a created item starts from)
						o.ExpectValue = tc.info.Zero.ProtoReflect().New().Interface()
					default:
						o.ExpectValue = vk.GenMessage(rng, tc.info.Zero, gen)
					}
				}
				o.ExpectCheck = rng.Chance(1, 6)
				if isValue && cur == nil {
					o.ExpectCheck = false // what a check is shown for "nothing stored" is not specified
				}
				o.PlainCheckErr = o.ExpectCheck && rng.Chance(1, 3)
				if rng.Chance(1, 5) {
					o.WriteTime = ptime(int64(s))
				}
			}
			before := len(g.state)
			cont := g.step(op, &trace)
			if len(trace) > 12 {
				trace = append(trace[:1], trace[len(trace)-10:]...)
			}
			if !cont {
				break
			}
			if op.Opts.GenID && len(g.state) > before {
				for id := range g.state {
					found := false
					for _, k := range append(ids, genIDs...) {
						if k == id {
							found = true
						}
					}
					if !found {
						genIDs = append(genIDs, id)
					}
				}
			}
			r.Distinct("state:" + g.state.Render())
		}
		r.Count("random-sequences", 1)
		if r.WantSample("random-sequence-tail") {
			r.Sample("random-sequence-tail", trace)
		}
		g.close()
	}
}

func lowerIf(b bool, s string) string {
	if b {
		return strings.ToLower(s)
	}
	return s
}

// validOnly drops paths that are not valid for the message type (read masks with invalid paths are C06's subject).
func validOnly(zero proto.Message, paths []string) []string {
	var out []string
	for _, p := range paths {
		if vk.ClassifyPath(zero.ProtoReflect().Descriptor(), p) == vk.PathValid {
			out = append(out, p)
		}
	}
	return noOverlap(out)
}

// noOverlap drops paths that equal, contain or lie inside an earlier path (parent+child and duplicate paths are
// the subject of C05/C06, not of the register/map model).
func noOverlap(paths []string) []string {
	var out []string
	for _, p := range paths {
		clash := false
		for _, q := range out {
			if p == q || strings.HasPrefix(p, q+".") || strings.HasPrefix(q, p+".") {
				clash = true
			}
		}
		if !clash {
			out = append(out, p)
		}
	}
	return out
}

// optionSlices: a caller may build its option lists by appending to a shared prefix that has spare capacity; what a
// call does with the variadic slice it is handed must not show in a sibling slice that shares the backing array.
// For every write entry point: call it with the prefix, then use the sibling (prefix + an expected check) in an Update
// of an existing item: the check runs exactly once and the update succeeds. The same for read options.
func optionSlices(r *vk.Run) {
	type entry struct {
		name string
		call func(col *resource.Collection, val *resource.Value, opts []resource.WriteOption)
	}
	entries := []entry{
		{"Collection.Add", func(col *resource.Collection, _ *resource.Value, o []resource.WriteOption) {
			col.Add("n", &traits.OnOff{State: traits.OnOff_ON}, o...)
		}},
		{"Collection.Update", func(col *resource.Collection, _ *resource.Value, o []resource.WriteOption) {
			col.Update("x", &traits.OnOff{State: traits.OnOff_ON}, o...)
		}},
		{"Collection.Update+create", func(col *resource.Collection, _ *resource.Value, o []resource.WriteOption) {
			// (the harness must not write into the shared array either: the create option goes first, in a slice of its own)
			own := append(make([]resource.WriteOption, 0, len(o)+4), resource.WithCreateIfAbsent())
			col.Update("m", &traits.OnOff{State: traits.OnOff_ON}, append(own, o...)...)
		}},
		{"Collection.Delete", func(col *resource.Collection, _ *resource.Value, o []resource.WriteOption) { col.Delete("y", o...) }},
		{"Value.Set", func(_ *resource.Collection, val *resource.Value, o []resource.WriteOption) {
			val.Set(&traits.OnOff{State: traits.OnOff_ON}, o...)
		}},
	}
	for i, e := range entries {
		if !r.Mine(i) {
			continue
		}
		for _, prefixLen := range []int{0, 1, 2} {
			col := resource.NewCollection(resource.WithInitialRecord("x", &traits.OnOff{}), resource.WithInitialRecord("y", &traits.OnOff{}), resource.WithInitialRecord("z", &traits.OnOff{}))
			val := resource.NewValue(resource.WithInitialValue(&traits.OnOff{}))
			prefix := make([]resource.WriteOption, 0, 8)
			after := 0
			for k := 0; k < prefixLen; k++ {
				prefix = append(prefix, resource.InterceptAfter(func(_, _ proto.Message) { after++ }))
			}
			checks := 0
			sibling := append(prefix, resource.WithExpectedCheck(func(proto.Message) error { checks++; return nil }), resource.WithWriteTime(time.Unix(77, 0)))
			e.call(col, val, prefix)
			_, err := col.Update("z", &traits.OnOff{State: traits.OnOff_OFF}, sibling...)
			r.Eval(1)
			r.Count("option-slice-cases", 1)
			r.Distinct(fmt.Sprintf("optslice|%s|%d", e.name, prefixLen))
			if err != nil || checks != 1 {
				r.Violation("C01/caller-option-slice/"+e.name, fmt.Sprintf("%s was called with a %d-option slice that has spare capacity; afterwards an Update of an existing item with a sibling slice (the same prefix + WithExpectedCheck + WithWriteTime) returned %v and ran the check %d times (want nil, once): the call wrote into the caller's slice", e.name, prefixLen, err, checks), map[string]any{"entry": e.name, "prefix": prefixLen})
			}
		}
	}
	// read options
	readers := []struct {
		name string
		call func(col *resource.Collection, val *resource.Value, o []resource.ReadOption)
	}{
		{"Collection.Get", func(col *resource.Collection, _ *resource.Value, o []resource.ReadOption) { col.Get("x", o...) }},
		{"Collection.List", func(col *resource.Collection, _ *resource.Value, o []resource.ReadOption) { col.List(o...) }},
		{"Value.Get", func(_ *resource.Collection, val *resource.Value, o []resource.ReadOption) { val.Get(o...) }},
		{"Collection.Pull", func(col *resource.Collection, _ *resource.Value, o []resource.ReadOption) {
			ctx, cancel := context.WithCancel(context.Background())
			ch := col.Pull(ctx, o...)
			cancel()
			for range ch {
			}
		}},
		{"Collection.PullID", func(col *resource.Collection, _ *resource.Value, o []resource.ReadOption) {
			ctx, cancel := context.WithCancel(context.Background())
			ch := col.PullID(ctx, "x", o...)
			cancel()
			for range ch {
			}
		}},
		{"Value.Pull", func(_ *resource.Collection, val *resource.Value, o []resource.ReadOption) {
			ctx, cancel := context.WithCancel(context.Background())
			ch := val.Pull(ctx, o...)
			cancel()
			for range ch {
			}
		}},
	}
	for i, e := range readers {
		if !r.Mine(100 + i) {
			continue
		}
		col := resource.NewCollection(resource.WithInitialRecord("x", &traits.Brightness{LevelPercent: 40, TargetLevelPercent: 60}))
		val := resource.NewValue(resource.WithInitialValue(&traits.Brightness{LevelPercent: 40, TargetLevelPercent: 60}))
		prefix := make([]resource.ReadOption, 0, 8)
		prefix = append(prefix, resource.WithUpdatesOnly(false))
		sibling := append(prefix, resource.WithReadPaths(&traits.Brightness{}, "level_percent"))
		e.call(col, val, prefix)
		got, _ := col.Get("x", sibling...)
		r.Eval(1)
		r.Count("option-slice-cases", 1)
		r.Distinct("optslice|" + e.name)
		if want := (&traits.Brightness{LevelPercent: 40}); !proto.Equal(got, want) {
			r.Violation("C01/caller-option-slice/"+e.name, fmt.Sprintf("%s was called with a read-option slice that has spare capacity; afterwards Get with a sibling slice (the same prefix + a read mask) returned %s, want %s", e.name, vk.JSON(got), vk.JSON(want)), map[string]any{"entry": e.name})
		}
	}
	vk.Quiesce()
}
