// Monitor for C03: a subscriber's folded view converges to the store's state.
//
// Subscribers (Value.Pull, Collection.Pull, Collection.PullID; seed or updates-only; backpressure on/off; read
// mask) are opened at forced or random moments relative to 1-3 writers that write uniquely tagged values. Once
// the writers have returned and the process is quiescent, the fold of what each subscriber received is
// compared with Get/List; independently the delivery order of every subscriber is compared with the commit
// order taken under the write lock (hook taps), which attributes a stale view to publish reordering or to a
// loss around the subscribe instant.
package main

import (
	"context"
	"fmt"
	"runtime"
	"sort"
	"strings"
	"sync"
	"sync/atomic"
	"time"

	"github.com/smart-core-os/sc-api/go/types"
	"google.golang.org/protobuf/proto"
	"google.golang.org/protobuf/types/known/fieldmaskpb"

	"github.com/smart-core-os/sc-golang/internal/testproto"
	"github.com/smart-core-os/sc-golang/internal/verif/vk"
	"github.com/smart-core-os/sc-golang/pkg/resource"
)

func main() { vk.Main("C03", run) }

type tat = testproto.TestAllTypes

var maskPaths = []string{"default_string", "default_int32"}

// ---- subscribers

type subSpec struct {
	Kind        string `json:"kind"` // value | pull | pullid
	UpdatesOnly bool   `json:"updatesOnly"`
	BP          bool   `json:"backpressure"`
	Mask        bool   `json:"mask"`
	ID          string `json:"id,omitempty"`
}

func (s subSpec) String() string {
	f := func(b bool, t string) string {
		if b {
			return t
		}
		return ""
	}
	return s.Kind + f(s.UpdatesOnly, "+updatesOnly") + f(s.BP, "+bp") + f(!s.BP, "+lossy") + f(s.Mask, "+mask")
}

func (s subSpec) class() string {
	if s.BP {
		return s.Kind + "/bp"
	}
	return s.Kind + "/lossy"
}

func (s subSpec) readOpts() []resource.ReadOption {
	ro := []resource.ReadOption{resource.WithUpdatesOnly(s.UpdatesOnly), resource.WithBackpressure(s.BP)}
	if s.Mask {
		ro = append(ro, resource.WithReadMask(&fieldmaskpb.FieldMask{Paths: append([]string{}, maskPaths...)}))
	}
	return ro
}

type ev struct {
	id   string
	typ  types.ChangeType
	old  *tat
	new  *tat
	seed bool
}

type subscriber struct {
	spec    subSpec
	cancel  context.CancelFunc
	mu      sync.Mutex
	events  []ev
	closed  bool
	yield   *vk.Rand // pacing of the consumer (nil = none); only used by the consumer goroutine
	hold    chan struct{}
	openedN int64    // logical time at which Pull returned
}

func asTat(m proto.Message) *tat {
	t, _ := m.(*tat)
	return t
}

type world struct {
	val   *resource.Value
	col   *resource.Collection
	clock atomic.Int64 // logical clock for "write started after the subscription was open"

	mu      sync.Mutex
	commits []commit // ground truth commit order, appended under the resource's write lock
	tagN    int64

	holdNext chan struct{} // given to the next subscriber as its hold gate
}

type commit struct {
	del bool
	id  string // for deletes
	tag string // for writes
}

func newWorld(isValue bool, init map[string]*tat) *world {
	w := &world{}
	opts := []resource.Option{resource.WithClock(clk{})}
	if isValue {
		if v, ok := init[""]; ok {
			opts = append(opts, resource.WithInitialValue(v))
		}
		w.val = resource.NewValue(opts...)
	} else {
		for id, v := range init {
			opts = append(opts, resource.WithInitialRecord(id, v))
		}
		w.col = resource.NewCollection(opts...)
	}
	return w
}

type clk struct{}

func (clk) Now() time.Time { return time.Unix(1, 0) }

// tap records the commit order; it runs under the resource's write lock for the two committed points.
func (w *world) tap(point string, key, val any) {
	switch point {
	case "gau.committed":
		if m, ok := val.(*tat); ok && m != nil {
			w.mu.Lock()
			w.commits = append(w.commits, commit{tag: m.DefaultString})
			w.mu.Unlock()
		}
	case "col.delete.committed":
		id, _ := val.(string)
		w.mu.Lock()
		w.commits = append(w.commits, commit{del: true, id: id})
		w.mu.Unlock()
	}
}

func (w *world) newVal(id string, proc int) *tat {
	w.mu.Lock()
	w.tagN++
	n := w.tagN
	w.mu.Unlock()
	return &tat{DefaultString: fmt.Sprintf("%s#p%dn%d", id, proc, n), DefaultInt32: int32(n), DefaultInt64: 7}
}

func idOfTag(tag string) string {
	if i := strings.IndexByte(tag, '#'); i >= 0 {
		return tag[:i]
	}
	return ""
}

func (w *world) subscribe(spec subSpec, pace *vk.Rand) *subscriber {
	ctx, cancel := context.WithCancel(context.Background())
	s := &subscriber{spec: spec, cancel: cancel, yield: pace, hold: w.holdNext}
	w.holdNext = nil
	pause := func() {
		if s.hold != nil {
			<-s.hold // a reader that pauses after every event until it is let go (closing the channel lets it run freely)
		}
		if s.yield != nil {
			for k := s.yield.Intn(4); k > 0; k-- {
				runtime.Gosched()
			}
		}
	}
	switch spec.Kind {
	case "value":
		ch := w.val.Pull(ctx, spec.readOpts()...)
		go func() {
			for e := range ch {
				s.mu.Lock()
				s.events = append(s.events, ev{typ: types.ChangeType_UPDATE, new: asTat(e.Value), seed: e.SeedValue})
				s.mu.Unlock()
				pause()
			}
			s.mu.Lock()
			s.closed = true
			s.mu.Unlock()
		}()
	case "pull":
		ch := w.col.Pull(ctx, spec.readOpts()...)
		go func() {
			for e := range ch {
				s.mu.Lock()
				s.events = append(s.events, ev{id: e.Id, typ: e.ChangeType, old: asTat(e.OldValue), new: asTat(e.NewValue), seed: e.SeedValue})
				s.mu.Unlock()
				pause()
			}
			s.mu.Lock()
			s.closed = true
			s.mu.Unlock()
		}()
	case "pullid":
		ch := w.col.PullID(ctx, spec.ID, spec.readOpts()...)
		go func() {
			for e := range ch {
				s.mu.Lock()
				s.events = append(s.events, ev{id: spec.ID, typ: types.ChangeType_UPDATE, new: asTat(e.Value), seed: e.SeedValue})
				s.mu.Unlock()
				pause()
			}
			s.mu.Lock()
			s.closed = true
			s.mu.Unlock()
		}()
	}
	s.openedN = w.clock.Add(1)
	return s
}

func (s *subscriber) snapshot() ([]ev, bool) {
	s.mu.Lock()
	defer s.mu.Unlock()
	return append([]ev{}, s.events...), s.closed
}

// ---- writes

type wop struct {
	Kind string `json:"kind"` // set | add | update | upsert | delete
	ID   string `json:"id,omitempty"`
}

type wres struct {
	op      wop
	ok      bool
	started int64
	tag     string
}

func (w *world) write(op wop, proc int) wres {
	res := wres{op: op, started: w.clock.Add(1)}
	var err error
	switch op.Kind {
	case "set":
		v := w.newVal("", proc)
		res.tag = v.DefaultString
		if v.DefaultInt32%2 == 0 {
			v.DefaultInt64 = 4242
			_, err = w.val.Set(v, resource.WithUpdatePaths("default_string", "default_int32"))
		} else {
			_, err = w.val.Set(v)
		}
	case "add":
		v := w.newVal(op.ID, proc)
		res.tag = v.DefaultString
		_, err = w.col.Add(op.ID, v)
	case "update":
		v := w.newVal(op.ID, proc)
		res.tag = v.DefaultString
		if v.DefaultInt32%2 == 0 {
			// every other update is a partial one: the written message carries a field the mask does not name, which must
			// neither be stored nor show up in the event (the event carries the committed value, not the request)
			v.DefaultInt64 = 4242
			_, err = w.col.Update(op.ID, v, resource.WithUpdatePaths("default_string", "default_int32"))
		} else {
			_, err = w.col.Update(op.ID, v)
		}
	case "upsert":
		v := w.newVal(op.ID, proc)
		res.tag = v.DefaultString
		_, err = w.col.Update(op.ID, v, resource.WithCreateIfAbsent())
	case "delete":
		_, err = w.col.Delete(op.ID, resource.WithAllowMissing(true))
	}
	res.ok = err == nil
	return res
}

// ---- judging one subscriber at the final quiescent point

func project(m *tat, mask bool) *tat {
	if m == nil || !mask {
		return m
	}
	return &tat{DefaultString: m.DefaultString, DefaultInt32: m.DefaultInt32}
}

type verdict struct {
	key    string
	detail string
}

// commitIndex maps every committed version to its position in the commit order.
type commitIndex struct {
	writeAt  map[string]int // tag -> commit index
	removeOf map[string]int // tag of the removed version -> commit index of the delete
}

func indexCommits(cs []commit, init map[string]*tat) commitIndex {
	ci := commitIndex{writeAt: map[string]int{}, removeOf: map[string]int{}}
	cur := map[string]string{} // id -> tag currently stored
	for id, v := range init {
		cur[id] = v.DefaultString
		ci.writeAt[v.DefaultString] = -1
	}
	for i, c := range cs {
		if c.del {
			if t, ok := cur[c.id]; ok {
				ci.removeOf[t] = i
				delete(cur, c.id)
			}
			continue
		}
		ci.writeAt[c.tag] = i
		cur[idOfTag(c.tag)] = c.tag
	}
	return ci
}

func renderEvents(es []ev) string {
	var sb strings.Builder
	for i, e := range es {
		if i > 0 {
			sb.WriteString(" ")
		}
		t := func(m *tat) string {
			if m == nil {
				return "-"
			}
			return m.DefaultString
		}
		fmt.Fprintf(&sb, "%s(%s:%s>%s%s)", e.typ, e.id, t(e.old), t(e.new), map[bool]string{true: ",seed", false: ""}[e.seed])
	}
	return sb.String()
}

func renderCommits(cs []commit) string {
	var p []string
	for _, c := range cs {
		if c.del {
			p = append(p, "del("+c.id+")")
		} else {
			p = append(p, c.tag)
		}
	}
	return strings.Join(p, " ")
}

// judge compares what the subscriber folded with the store and checks delivery order against commit order.
// writers is the number of concurrent writers of the scenario (for the key of ordering violations).
func (w *world) judge(s *subscriber, init map[string]*tat, results []wres, writers int) []verdict {
	var out []verdict
	events, closed := s.snapshot()
	w.mu.Lock()
	commits := append([]commit{}, w.commits...)
	w.mu.Unlock()
	ci := indexCommits(commits, init)
	wclass := "1-writer"
	if writers > 1 {
		wclass = "multi-writer"
	}
	ctx := func() string {
		return fmt.Sprintf("subscriber %v received: %s\ncommit order: %s", s.spec, renderEvents(events), renderCommits(commits))
	}
	// --- order: indices of delivered non-seed events must be strictly increasing
	last := -2
	inverted := false
	for _, e := range events {
		if e.seed {
			continue
		}
		idx, known := -2, false
		switch {
		case e.typ == types.ChangeType_REMOVE && !s.spec.BP:
			// a lossy stream merges changes: a REMOVE keeps the old value of the oldest merged change, so it does not
			// identify a single commit; its effect is checked by the fold
			continue
		case e.typ == types.ChangeType_REMOVE && e.old != nil:
			idx, known = lookup(ci.removeOf, e.old.DefaultString)
		case e.new != nil:
			idx, known = lookup(ci.writeAt, e.new.DefaultString)
		}
		if !known {
			if s.spec.BP {
				out = append(out, verdict{"C03/unknown-event/" + s.spec.class(), "an event does not correspond to any commit\n" + ctx()})
			}
			continue // lossy merges synthesise events (REPLACE etc.); their values are still checked by the fold
		}
		if idx < last && !inverted {
			inverted = true
			out = append(out, verdict{fmt.Sprintf("C03/order/delivery-vs-commit/%s/%s", s.spec.class(), wclass), "events were delivered in an order that contradicts the commit order\n" + ctx()})
		}
		if idx == last && s.spec.BP && idx >= 0 {
			out = append(out, verdict{"C03/duplicate/" + s.spec.class(), "a commit was delivered twice\n" + ctx()})
		}
		if idx > last {
			last = idx
		}
	}
	// --- gaps (backpressure only): every commit after the first delivered one must have been delivered
	if s.spec.BP && s.spec.Kind != "pullid" && !inverted {
		first := -2
		got := map[int]bool{}
		for _, e := range events {
			if e.seed {
				continue
			}
			var idx int
			var known bool
			if e.typ == types.ChangeType_REMOVE && e.old != nil {
				idx, known = lookup(ci.removeOf, e.old.DefaultString)
			} else if e.new != nil {
				idx, known = lookup(ci.writeAt, e.new.DefaultString)
			}
			if known {
				got[idx] = true
				if first == -2 || idx < first {
					first = idx
				}
			}
		}
		if first != -2 {
			for i := first; i < len(commits); i++ {
				if !got[i] {
					out = append(out, verdict{"C03/lost/" + s.spec.class(), fmt.Sprintf("commit #%d was never delivered although an earlier one was\n%s", i, ctx())})
					break
				}
			}
		}
	}
	// --- fold vs store
	switch s.spec.Kind {
	case "value":
		var view *tat
		defined := false
		for _, e := range events {
			view, defined = e.new, true
		}
		want := project(asTat(w.val.Get()), s.spec.Mask)
		mustBeDefined := false
		for _, r := range results {
			if r.ok && r.started > s.openedN {
				mustBeDefined = true
			}
		}
		if !s.spec.UpdatesOnly && len(init) > 0 {
			mustBeDefined = true
		}
		if !defined && mustBeDefined {
			out = append(out, verdict{"C03/fold/" + s.spec.class() + "/nothing-received", "the subscriber received nothing although a write committed after it subscribed\n" + ctx()})
		} else if defined && !vk.SameMessage(view, want) && !inverted {
			out = append(out, verdict{"C03/fold/" + s.spec.class(), fmt.Sprintf("last delivered value %s, Get says %s\n%s", vk.JSON(view), vk.JSON(want), ctx())})
		} else if defined && !vk.SameMessage(view, want) {
			out = append(out, verdict{fmt.Sprintf("C03/stale/%s/%s", s.spec.class(), wclass), fmt.Sprintf("last delivered value %s, Get says %s (attributed to the delivery order above)\n%s", vk.JSON(view), vk.JSON(want), ctx())})
		}
	case "pull":
		view := map[string]*tat{}
		touched := map[string]bool{}
		for _, e := range events {
			touched[e.id] = true
			if e.typ == types.ChangeType_REMOVE {
				delete(view, e.id)
			} else {
				if e.new == nil {
					// an event that is not a removal says "the item now has this value": without a value the view
					// would hold an item that has nothing in it
					out = append(out, verdict{"C03/fold/" + s.spec.class() + "/valueless-event", fmt.Sprintf("a %s event for id %q carries no new value\n%s", e.typ, e.id, ctx())})
				}
				view[e.id] = e.new
			}
		}
		final := map[string]*tat{}
		ids := map[string]bool{}
		for _, m := range w.col.List() {
			t := asTat(m)
			final[idOfTag(t.DefaultString)] = project(t, s.spec.Mask)
		}
		for id := range final {
			ids[id] = true
		}
		for id := range view {
			ids[id] = true
		}
		// the final version of an id, if written by a call that started after the subscription was open, must have
		// reached the subscriber (also an updates-only one)
		for _, r := range results {
			if r.ok && r.started > s.openedN && r.op.Kind != "delete" {
				if f := final[r.op.ID]; f != nil && f.DefaultString == r.tag && !touched[r.op.ID] {
					out = append(out, verdict{"C03/fold/" + s.spec.class() + "/nothing-received", fmt.Sprintf("no event for id %q although its final version was written after the subscription was open\n%s", r.op.ID, ctx())})
				}
			}
		}
		var bad []string
		for id := range ids {
			if s.spec.UpdatesOnly && !touched[id] {
				continue // an updates-only view knows nothing about untouched ids
			}
			if !vk.SameMessage(view[id], final[id]) && !(view[id] == nil && final[id] == nil) {
				bad = append(bad, fmt.Sprintf("%q: view %s, store %s", id, vk.JSON(view[id]), vk.JSON(final[id])))
			}
		}
		sort.Strings(bad)
		if len(bad) > 0 && !inverted {
			out = append(out, verdict{"C03/fold/" + s.spec.class(), "folded view differs from List: " + strings.Join(bad, "; ") + "\n" + ctx()})
		} else if len(bad) > 0 {
			out = append(out, verdict{fmt.Sprintf("C03/stale/%s/%s", s.spec.class(), wclass), "folded view differs from List: " + strings.Join(bad, "; ") + " (attributed to the delivery order above)\n" + ctx()})
		}
	case "pullid":
		var view *tat
		defined := false
		for _, e := range events {
			view, defined = e.new, true
		}
		m, present := w.col.Get(s.spec.ID)
		want := project(asTat(m), s.spec.Mask)
		removed := false // was the item ever removed after the subscription could see it
		for _, c := range commits {
			if c.del && c.id == s.spec.ID {
				removed = true
			}
		}
		// the final version of the item, written by a call that started after PullID had returned, must have arrived
		wroteAfter := false
		for _, r := range results {
			if r.ok && r.started > s.openedN && r.op.Kind != "delete" && r.op.ID == s.spec.ID && want != nil && asTat(m).GetDefaultString() == r.tag {
				wroteAfter = true
			}
		}
		switch {
		case !closed && !removed && present && !defined && wroteAfter:
			out = append(out, verdict{"C03/fold/" + s.spec.class() + "/nothing-received", fmt.Sprintf("no event although the final version of %q was written after PullID had returned\n%s", s.spec.ID, ctx())})
		case closed && !removed:
			out = append(out, verdict{"C03/pullid-closed-early/" + s.spec.class(), "PullID channel closed although the item was never removed\n" + ctx()})
		case !closed && present && defined && !vk.SameMessage(view, want) && !inverted:
			out = append(out, verdict{"C03/fold/" + s.spec.class(), fmt.Sprintf("last delivered value %s, Get says %s\n%s", vk.JSON(view), vk.JSON(want), ctx())})
		case !closed && present && defined && !vk.SameMessage(view, want):
			out = append(out, verdict{fmt.Sprintf("C03/stale/%s/%s", s.spec.class(), wclass), fmt.Sprintf("last delivered value %s, Get says %s (attributed to the delivery order above)\n%s", vk.JSON(view), vk.JSON(want), ctx())})
		}
	}
	return out
}

func lookup(m map[string]int, k string) (int, bool) {
	v, ok := m[k]
	return v, ok
}

// ---------------------------------------------------------------------------------------------------------

func run(r *vk.Run) {
	r.Describe("subscribers (Value.Pull, Collection.Pull, PullID x seed/updates-only x backpressure on/off x read mask) opened at forced or random moments relative to 1-3 writers of uniquely tagged values; at the quiescent point after the writers returned the fold of the received events is compared with Get/List and each subscriber's delivery order with the commit order recorded under the write lock. Forced part: (F1) subscriber parked between snapshot and listen while writers run to quiescence, (F2) subscribe while a writer is parked at gau.beforeLock / *.beforePublish / bus.send.afterSnapshot, (F3) writer A parked before publishing while writer B commits and publishes, for every op pair and subscriber variant, (F4) a single write issued immediately after the subscribing call returned. Stress part: 1-3 writers x 1-4 subscribers opened at random instants with random consumer pacing and random yields at hook points. Distinct = scenario descriptor (forced) or (subscriber variants, outcome classes) (stress).",
		"quiescence (all goroutines blocked in two identical dumps) stands for 'once writers stop and the reader has drained'",
		"consumers keep receiving; a consumer that stops forever is C09/C10's subject")
	forced(r)
	readdEquivalent(r)
	zeroBodies(r)
	toleranceDrift(r)
	deadOnArrival(r)
	joinEmptied(r)
	subscribeStorm(r)
	joinWhileWriterHoldsLock(r)
	stress(r)
	r.Require("forced-scenarios-run", 100)
	r.Require("stress-runs", 100)
}

func subVariants(isValue bool) []subSpec {
	var out []subSpec
	kinds := []string{"pull", "pullid"}
	if isValue {
		kinds = []string{"value"}
	}
	for _, k := range kinds {
		for _, uo := range []bool{false, true} {
			for _, bp := range []bool{false, true} {
				for _, mask := range []bool{false, true} {
					out = append(out, subSpec{Kind: k, UpdatesOnly: uo, BP: bp, Mask: mask, ID: "a"})
				}
			}
		}
	}
	return out
}

type scenario struct {
	Name    string  `json:"name"`
	IsValue bool    `json:"isValue"`
	Present bool    `json:"present"` // initial contents: value set / id a present
	Sub     subSpec `json:"sub"`
	A       wop     `json:"a"`
	B       wop     `json:"b"`
	Window  string  `json:"window,omitempty"`
	Writers int     `json:"writers,omitempty"`
	History []wop   `json:"history,omitempty"`
}

func forced(r *vk.Run) {
	var scs []scenario
	for _, isValue := range []bool{true, false} {
		pairs := [][2]wop{{{Kind: "set"}, {Kind: "set"}}}
		pubPoint, subPoint := "value.set.beforePublish", "value.sub.afterSnapshot"
		if !isValue {
			pubPoint, subPoint = "col.update.beforePublish", "col.sub.afterSnapshot"
			pairs = [][2]wop{
				{{"update", "a"}, {"update", "a"}}, {{"update", "a"}, {"delete", "a"}}, {{"add", "a"}, {"delete", "a"}},
				{{"add", "a"}, {"update", "a"}}, {{"upsert", "a"}, {"upsert", "a"}}, {{"update", "a"}, {"update", "b"}},
				{{"delete", "a"}, {"add", "a"}}, {{"upsert", "a"}, {"delete", "a"}},
			}
		}
		for _, sub := range subVariants(isValue) {
			for _, present := range []bool{true, false} {
				for _, p := range pairs {
					// F3: A parked before publishing while B commits and publishes; subscriber is live throughout
					scs = append(scs, scenario{Name: "F3-publish-overtake", IsValue: isValue, Present: present, Sub: sub, A: p[0], B: p[1], Window: pubPoint})
					// F2: subscribe while a writer is parked inside one of its windows; then B writes
					for _, win := range []string{"gau.beforeLock", pubPoint, "bus.send.afterSnapshot", "bus.send.beforeListener"} {
						scs = append(scs, scenario{Name: "F2-subscribe-in-writer-window", IsValue: isValue, Present: present, Sub: sub, A: p[0], B: p[1], Window: win})
					}
				}
				// F4: one write issued right after the subscribing call returned, nothing in between and nothing after
				for rep := 0; rep < 3; rep++ {
					a := wop{Kind: "set"}
					if !isValue {
						a = wop{Kind: "upsert", ID: "a"}
					}
					scs = append(scs, scenario{Name: "F4-write-right-after-subscribe", IsValue: isValue, Present: present, Sub: sub, A: a, B: a, Window: "none"})
				}
				// F5: a lossy reader pauses (it holds one event) while one writer runs a whole history on the item, then
				// carries on: whatever was merged meanwhile, the fold must end at the store's state
				if !isValue && !sub.BP {
					for _, h := range [][]wop{
						{{"delete", "a"}, {"add", "a"}, {"delete", "a"}},
						{{"delete", "a"}, {"add", "a"}, {"update", "a"}},
						{{"upsert", "a"}, {"delete", "a"}, {"add", "a"}, {"delete", "a"}},
						{{"update", "a"}, {"delete", "a"}, {"upsert", "a"}, {"update", "a"}},
						{{"delete", "a"}, {"upsert", "a"}, {"delete", "a"}, {"add", "a"}},
					} {
						scs = append(scs, scenario{Name: "F5-paused-lossy-reader", IsValue: false, Present: present, Sub: sub, A: h[0], B: h[len(h)-1], Window: "none", History: h})
					}
				}
				// F1: subscriber parked between snapshot and listen while writers run
				for nw := 1; nw <= 3; nw++ {
					a := wop{Kind: "set"}
					if !isValue {
						a = wop{Kind: "upsert", ID: "a"}
					}
					scs = append(scs, scenario{Name: "F1-writers-during-subscribe", IsValue: isValue, Present: present, Sub: sub, A: a, B: a, Window: subPoint, Writers: nw})
				}
			}
		}
	}
	sched := vk.NewSched()
	defer sched.Close()
	for i, sc := range scs {
		if !r.Mine(i) {
			continue
		}
		runForced(r, sched, sc)
	}
	r.Count("forced-scenarios", len(scs))
	r.Exhaustive(false)
}

func scKey(sc scenario) string {
	res := "collection"
	if sc.IsValue {
		res = "value"
	}
	if len(sc.History) > 0 {
		var ks []string
		for _, o := range sc.History {
			ks = append(ks, o.Kind)
		}
		return fmt.Sprintf("%s/%s/%s", sc.Name, res, strings.Join(ks, ","))
	}
	return fmt.Sprintf("%s/%s/%s,%s@%s", sc.Name, res, sc.A.Kind, sc.B.Kind, sc.Window)
}

func runForced(r *vk.Run, sched *vk.Sched, sc scenario) {
	init := map[string]*tat{}
	if sc.Present {
		if sc.IsValue {
			init[""] = &tat{DefaultString: "#init", DefaultInt32: -1}
		} else {
			init["a"] = &tat{DefaultString: "a#init", DefaultInt32: -1}
		}
	}
	if !r.Selected("C03/") {
		return
	}
	w := newWorld(sc.IsValue, init)
	sched.Tap(w.tap)
	defer sched.Tap(nil)
	var results []wres
	var rmu sync.Mutex
	do := func(op wop, proc int) {
		res := w.write(op, proc)
		rmu.Lock()
		results = append(results, res)
		rmu.Unlock()
	}
	var sub *subscriber
	writers := 2
	reached := true
	switch sc.Name {
	case "F3-publish-overtake":
		sub = w.subscribe(sc.Sub, nil)
		r.MustQuiesce("c03-f3-sub")
		pa := sched.ParkAt(sc.Window, nil)
		ta := vk.Go(func() { do(sc.A, 0) })
		vk.Quiesce()
		reached = pa.Arrived()
		tb := vk.Go(func() { do(sc.B, 1) })
		vk.Quiesce() // B has committed and published (or is blocked, which the final check will tell)
		pa.Release()
		ta.Wait()
		tb.Wait()
	case "F2-subscribe-in-writer-window":
		pa := sched.ParkAt(sc.Window, nil)
		ta := vk.Go(func() { do(sc.A, 0) })
		vk.Quiesce()
		reached = pa.Arrived()
		ts := vk.Go(func() { sub = w.subscribe(sc.Sub, nil) })
		vk.Quiesce()
		pa.Release()
		ta.Wait()
		ts.Wait()
		do(sc.B, 1)
		writers = 1 // A and B do not overlap each other
	case "F5-paused-lossy-reader":
		gate := make(chan struct{})
		w.holdNext = gate
		sub = w.subscribe(sc.Sub, nil)
		r.MustQuiesce("c03-f5-sub")
		// a first write occupies the reader (it takes that event and then pauses), the history piles up behind it
		do(wop{Kind: "upsert", ID: "b"}, 0)
		for _, op := range sc.History {
			do(op, 0)
		}
		vk.Quiesce()
		close(gate)
		writers = 1
	case "F4-write-right-after-subscribe":
		sub = w.subscribe(sc.Sub, nil)
		do(sc.A, 0)
		writers = 1
	case "F1-writers-during-subscribe":
		ps := sched.ParkAt(sc.Window, nil)
		ts := vk.Go(func() { sub = w.subscribe(sc.Sub, nil) })
		vk.Quiesce()
		reached = ps.Arrived()
		var tw []*vk.Task
		for k := 0; k < sc.Writers; k++ {
			k := k
			tw = append(tw, vk.Go(func() { do(sc.A, k) }))
		}
		vk.Quiesce()
		ps.Release()
		ts.Wait()
		for _, t := range tw {
			t.Wait()
		}
		writers = sc.Writers
	}
	if _, ok := r.MustQuiesce("c03-forced-final"); !ok {
		return
	}
	r.Eval(1)
	r.Count("forced-scenarios-run", 1)
	if !reached {
		r.Count("forced-window-not-reached", 1)
	} else {
		r.Distinct(fmt.Sprintf("forced:%s:%v:%v", scKey(sc), sc.Sub, sc.Present))
	}
	for _, v := range w.judge(sub, init, results, writers) {
		key := v.key
		if strings.HasPrefix(key, "C03/order/") || strings.HasPrefix(key, "C03/stale/") {
			// forced scenarios are deterministic: name the exact op pair and window
			key = fmt.Sprintf("%s/%s", v.key, scKey(sc))
		} else {
			key = fmt.Sprintf("%s/%s", v.key, scKey(sc))
		}
		r.Violation(key, fmt.Sprintf("scenario %+v\n%s", sc, v.detail), sc)
	}
	if r.WantSample("forced") {
		es, _ := sub.snapshot()
		r.Sample("forced", map[string]any{"scenario": sc, "received": renderEvents(es), "commits": renderCommits(w.commits)})
	}
	sub.cancel()
}

func stress(r *vk.Run) {
	n := r.Pick(3000, 900000)
	sched := vk.NewSched()
	defer sched.Close()
	for i := 0; i < n; i++ {
		if !r.Mine(i) {
			continue
		}
		rng := r.CaseRand("c03-stress", i)
		isValue := rng.Chance(1, 3)
		init := map[string]*tat{}
		if rng.Bool() {
			if isValue {
				init[""] = &tat{DefaultString: "#init", DefaultInt32: -1}
			} else {
				init["a"] = &tat{DefaultString: "a#init", DefaultInt32: -1}
			}
		}
		w := newWorld(isValue, init)
		sched.Tap(w.tap)
		sched.Stress(rng.Uint64() | 1)
		nw := rng.Range(1, 3)
		ns := rng.Range(1, 4)
		variants := subVariants(isValue)
		ids := []string{"a", "b"}
		var results []wres
		var rmu sync.Mutex
		var tasks []*vk.Task
		subs := make([]*subscriber, ns)
		var smu sync.Mutex
		for k := 0; k < ns; k++ {
			k := k
			spec := variants[rng.Intn(len(variants))]
			srng := rng.Fork()
			tasks = append(tasks, vk.Go(func() {
				for y := srng.Intn(40); y > 0; y-- {
					runtime.Gosched()
				}
				var pace *vk.Rand
				if srng.Bool() {
					pace = srng.Fork()
				}
				sb := w.subscribe(spec, pace)
				smu.Lock()
				subs[k] = sb
				smu.Unlock()
			}))
		}
		for p := 0; p < nw; p++ {
			p := p
			prng := rng.Fork()
			tasks = append(tasks, vk.Go(func() {
				for k := 0; k < 8; k++ {
					var op wop
					if isValue {
						op = wop{Kind: "set"}
					} else {
						op = wop{Kind: []string{"add", "update", "upsert", "upsert", "delete"}[prng.Intn(5)], ID: ids[prng.Intn(2)]}
					}
					res := w.write(op, p)
					rmu.Lock()
					results = append(results, res)
					rmu.Unlock()
					for y := prng.Intn(3); y > 0; y-- {
						runtime.Gosched()
					}
				}
			}))
		}
		gs, ok := r.MustQuiesce("c03-stress-final")
		if !ok {
			return
		}
		sched.Stress(0)
		blocked := false
		for _, t := range tasks {
			if !t.Done() {
				blocked = true
			}
		}
		if blocked {
			// quiescent with a writer (or subscribe call) that has not returned although every consumer keeps receiving
			var specs []string
			smu.Lock()
			for _, sb := range subs {
				if sb != nil {
					specs = append(specs, sb.spec.String())
				}
			}
			smu.Unlock()
			sort.Strings(specs)
			kinds := map[string]bool{}
			for _, sp := range specs {
				kinds[strings.SplitN(sp, "+", 2)[0]] = true
			}
			var ks []string
			for k := range kinds {
				ks = append(ks, k)
			}
			sort.Strings(ks)
			r.Violation("C03/writer-blocked/stress/"+strings.Join(ks, "+"), fmt.Sprintf("stress case %d: the process is quiescent but a writer has not returned although all consumers keep receiving; subscribers %v\n%s", i, specs, vk.DescribeGs(vk.LibraryGoroutines(gs, nil))), map[string]any{"case": i})
			smu.Lock()
			for _, sb := range subs {
				if sb != nil {
					sb.cancel()
				}
			}
			smu.Unlock()
			if _, ok := r.MustQuiesce("c03-stress-unblock"); !ok {
				return
			}
			stuck := false
			for _, t := range tasks {
				if !t.Done() {
					stuck = true
				}
			}
			if stuck {
				r.Inconclusive("c03-stress-stuck", "writers still blocked after cancelling every subscription")
				return
			}
			sched.Tap(nil)
			continue
		}
		sched.Tap(nil)
		r.Eval(1)
		r.Count("stress-runs", 1)
		var classes []string
		for _, s := range subs {
			vs := w.judge(s, init, results, nw)
			es, _ := s.snapshot()
			r.Count("stress-events-received", len(es))
			classes = append(classes, fmt.Sprintf("%v:%d", s.spec, len(es)))
			for _, v := range vs {
				r.Violation(v.key+"/stress", fmt.Sprintf("stress case %d (%d writers, %d subscribers)\n%s", i, nw, ns, v.detail), map[string]any{"case": i})
			}
			s.cancel()
		}
		sort.Strings(classes)
		r.Distinct(fmt.Sprintf("stress:%v:%d:%s", isValue, nw, strings.Join(classes, ",")))
		if r.WantSample("stress") {
			es, _ := subs[0].snapshot()
			r.Sample("stress", map[string]any{"writers": nw, "subscriber": subs[0].spec.String(), "received": renderEvents(es), "commits": renderCommits(w.commits)})
		}
	}
}

// readdEquivalent (F6): on a resource that suppresses duplicates (exact equality or a comparer), an item is removed
// and then added again with a body equivalent to the one it had, while a subscriber that has seen the item is
// listening. The subscriber was told about the removal, so it must be told about the re-creation: its folded view
// has to contain the item again (any equivalent body will do). Also the other way round: a Value written back to an
// equivalent value keeps the view equivalent to Get.
func readdEquivalent(r *vk.Run) {
	n := r.Pick(120, 6000)
	sameLevel := resource.ComparerFunc(func(x, y proto.Message) bool {
		a, b := asTat(x), asTat(y)
		return a != nil && b != nil && a.DefaultInt32 == b.DefaultInt32
	})
	for i := 0; i < n; i++ {
		if !r.Mine(i) {
			continue
		}
		rng := r.CaseRand("c03-readd", i)
		eq := "nodup"
		opt := resource.WithNoDuplicates()
		if rng.Bool() {
			eq, opt = "comparer", resource.WithEquivalence(sameLevel)
		}
		first := &tat{DefaultString: "a#first", DefaultInt32: 7}
		col := resource.NewCollection(opt, resource.WithClock(clk{}), resource.WithInitialRecord("a", first), resource.WithInitialRecord("b", &tat{DefaultString: "b#first", DefaultInt32: 1}))
		bp, uo, pullID := rng.Bool(), rng.Chance(1, 3), rng.Chance(1, 3)
		ctx, cancel := context.WithCancel(context.Background())
		var mu sync.Mutex
		view := map[string]*tat{}
		seen := 0
		closed := false
		if pullID {
			ch := col.PullID(ctx, "b", resource.WithBackpressure(bp), resource.WithUpdatesOnly(uo))
			go func() {
				for e := range ch {
					mu.Lock()
					view["b"] = asTat(e.Value)
					seen++
					mu.Unlock()
				}
				mu.Lock()
				closed = true
				mu.Unlock()
			}()
		} else {
			ch := col.Pull(ctx, resource.WithBackpressure(bp), resource.WithUpdatesOnly(uo))
			go func() {
				for e := range ch {
					mu.Lock()
					if e.ChangeType == types.ChangeType_REMOVE {
						delete(view, e.Id)
					} else {
						view[e.Id] = asTat(e.NewValue)
					}
					seen++
					mu.Unlock()
				}
			}()
		}
		if _, ok := r.MustQuiesce("c03-readd-open"); !ok {
			cancel()
			return
		}
		// the item the subscriber is judged on is a: make sure an updates-only subscriber has heard of it
		var trace []string
		step := func(what string, f func() error) bool {
			err := f()
			trace = append(trace, fmt.Sprintf("%s -> %v", what, err))
			_, ok := r.MustQuiesce("c03-readd-step")
			return ok
		}
		body := func(tag string) *tat {
			if eq == "nodup" {
				return proto.Clone(first).(*tat) // exactly the body it had
			}
			return &tat{DefaultString: tag, DefaultInt32: 7} // equivalent under the comparer
		}
		okAll := step("update a (another level)", func() error {
			_, err := col.Update("a", &tat{DefaultString: "a#second", DefaultInt32: 8})
			return err
		}) && step("update a (back to the first level)", func() error { _, err := col.Update("a", body("a#third")); return err }) &&
			step("delete a", func() error { _, err := col.Delete("a"); return err }) &&
			step("add a (equivalent to what it was)", func() error { _, err := col.Add("a", body("a#fourth")); return err })
		if pullID {
			okAll = okAll && step("update b", func() error { _, err := col.Update("b", &tat{DefaultString: "b#second", DefaultInt32: 2}); return err })
		}
		if !okAll {
			cancel()
			return
		}
		r.Eval(1)
		r.Count("readd-equivalent-scenarios", 1)
		r.Distinct(fmt.Sprintf("readd|%s|%v|%v|%v", eq, bp, uo, pullID))
		mu.Lock()
		stored, present := col.Get("a")
		va, has := view["a"]
		bad := ""
		switch {
		case pullID:
			if sb, _ := col.Get("b"); closed || view["b"] == nil || !proto.Equal(view["b"], sb) {
				bad = fmt.Sprintf("PullID(b) on the same collection: closed=%v, last value %s, Get says %s", closed, vk.JSON(view["b"]), vk.JSON(sb))
			}
		case !present:
			bad = "harness: item a is not stored"
		case !has:
			bad = fmt.Sprintf("the subscriber was told a was removed and never that it exists again; the collection holds %s", vk.JSON(stored))
		case va.DefaultInt32 != asTat(stored).DefaultInt32:
			bad = fmt.Sprintf("the view holds %s, the collection %s", vk.JSON(va), vk.JSON(stored))
		}
		mu.Unlock()
		if bad != "" {
			mode := map[bool]string{true: "bp", false: "lossy"}[bp]
			r.Violation("C03/fold/pull/"+mode+"/readd-equivalent/"+eq, fmt.Sprintf("case %d (updates-only %v): %s\n%s", i, uo, bad, strings.Join(trace, "\n")), map[string]any{"case": i})
		}
		cancel()
	}
	r.MustQuiesce("c03-readd-end")
	r.Require("readd-equivalent-scenarios", 30)
}

// toleranceDrift (F8): resources whose comparer is a tolerance (|difference of the level| <= 5, not transitive). A
// writer walks the level in steps smaller than the tolerance; each step may be suppressed, but only against the value
// the subscriber HOLDS: at every quiescent point the value the subscriber was last sent is equivalent to what Get
// returns. (A baseline that moves with suppressed events lets the view drift away without bound.)
func toleranceDrift(r *vk.Run) {
	n := r.Pick(150, 8000)
	near := resource.ComparerFunc(func(x, y proto.Message) bool {
		a, b := asTat(x), asTat(y)
		if a == nil || b == nil {
			return false
		}
		d := a.DefaultInt32 - b.DefaultInt32
		return d >= -5 && d <= 5
	})
	for i := 0; i < n; i++ {
		if !r.Mine(i) {
			continue
		}
		rng := r.CaseRand("c03-drift", i)
		isValue := rng.Bool()
		bp, uo, masked := rng.Bool(), rng.Chance(1, 3), rng.Chance(1, 3)
		ro := []resource.ReadOption{resource.WithBackpressure(bp)}
		if masked {
			ro = append(ro, resource.WithReadPaths(&tat{}, "default_int32"))
		}
		ctx, cancel := context.WithCancel(context.Background())
		var mu sync.Mutex
		var held *tat
		seen := 0
		level := int32(20)
		var val *resource.Value
		var col *resource.Collection
		if isValue {
			ro = append(ro, resource.WithUpdatesOnly(uo))
			val = resource.NewValue(resource.WithEquivalence(near), resource.WithClock(clk{}), resource.WithInitialValue(&tat{DefaultString: "v#0", DefaultInt32: level}))
			ch := val.Pull(ctx, ro...)
			go func() {
				for e := range ch {
					mu.Lock()
					held = asTat(e.Value)
					seen++
					mu.Unlock()
				}
			}()
		} else {
			uo = false
			col = resource.NewCollection(resource.WithEquivalence(near), resource.WithClock(clk{}), resource.WithInitialRecord("a", &tat{DefaultString: "a#0", DefaultInt32: level}), resource.WithInitialRecord("b", &tat{DefaultString: "b#0", DefaultInt32: 1}))
			ch := col.Pull(ctx, ro...)
			go func() {
				for e := range ch {
					if e.Id != "a" {
						continue
					}
					mu.Lock()
					held = asTat(e.NewValue)
					seen++
					mu.Unlock()
				}
			}()
		}
		if _, ok := r.MustQuiesce("c03-drift-open"); !ok {
			cancel()
			return
		}
		var trace []string
		steps := rng.Range(3, 12)
		dir := int32(1)
		if rng.Bool() {
			dir = -1
		}
		bad := ""
		for k := 1; k <= steps && bad == ""; k++ {
			if rng.Chance(1, 6) {
				dir = -dir
			}
			level += dir * int32(rng.Range(1, 5))
			next := &tat{DefaultString: fmt.Sprintf("w#%d", k), DefaultInt32: level}
			var err error
			if isValue {
				_, err = val.Set(next)
			} else {
				_, err = col.Update("a", next)
			}
			trace = append(trace, fmt.Sprintf("write level %d -> %v", level, err))
			if _, ok := r.MustQuiesce("c03-drift-step"); !ok {
				cancel()
				return
			}
			var stored proto.Message
			if isValue {
				stored = val.Get()
			} else {
				stored, _ = col.Get("a")
			}
			mu.Lock()
			h, c := held, seen
			mu.Unlock()
			switch {
			case h == nil && uo:
				// an updates-only subscriber that was sent nothing yet is taken to hold the value of before the first write:
				// still within tolerance of it or it would have been sent something
				if d := level - 20; d < -5 || d > 5 {
					bad = fmt.Sprintf("after step %d the updates-only subscriber has received nothing although the level moved from 20 to %d", k, level)
				}
			case h == nil:
				bad = fmt.Sprintf("after step %d the subscriber holds nothing (%d events)", k, c)
			case !near.Compare(h, stored):
				bad = fmt.Sprintf("after step %d the subscriber holds level %d (%d events), Get returns level %d: further apart than the tolerance of 5", k, h.DefaultInt32, c, asTat(stored).DefaultInt32)
			}
		}
		r.Eval(1)
		r.Count("tolerance-drift-scenarios", 1)
		kind := map[bool]string{true: "value", false: "pull"}[isValue]
		r.Distinct(fmt.Sprintf("drift|%s|%v|%v|%v|%d", kind, bp, uo, masked, steps))
		if bad != "" {
			mode := map[bool]string{true: "bp", false: "lossy"}[bp]
			r.Violation("C03/fold/"+kind+"/"+mode+"/tolerance-drift", fmt.Sprintf("case %d (updates-only %v, read mask %v): %s\n%s", i, uo, masked, bad, strings.Join(trace, "\n")), map[string]any{"case": i})
		}
		cancel()
	}
	r.MustQuiesce("c03-drift-end")
	r.Require("tolerance-drift-scenarios", 40)
}

// deadOnArrival (F9): a subscription opened with a context that is already done (Pull, PullID, Value.Pull; seeded or
// updates-only) next to a healthy subscriber. The dead one must not take anything with it: the next write completes
// and reaches the healthy subscriber, whose view equals Get.
func deadOnArrival(r *vk.Run) {
	idx := 0
	for _, kind := range []string{"pull", "pullid", "value"} {
		for _, uo := range []bool{false, true} {
			for _, bp := range []bool{false, true} {
				for _, deadFirst := range []bool{true, false} {
					idx++
					if !r.Mine(idx) {
						continue
					}
					base := vk.IDs(vk.Goroutines())
					dead, kill := context.WithCancel(context.Background())
					kill()
					ctx, cancel := context.WithCancel(context.Background())
					ro := []resource.ReadOption{resource.WithBackpressure(bp), resource.WithUpdatesOnly(uo)}
					col := resource.NewCollection(resource.WithClock(clk{}), resource.WithInitialRecord("a", &tat{DefaultString: "a#0", DefaultInt32: 1}))
					val := resource.NewValue(resource.WithClock(clk{}), resource.WithInitialValue(&tat{DefaultString: "v#0", DefaultInt32: 1}))
					var mu sync.Mutex
					var last *tat
					openDead := func() {
						switch kind {
						case "pull":
							_ = col.Pull(dead, ro...)
						case "pullid":
							_ = col.PullID(dead, "a", ro...)
						default:
							_ = val.Pull(dead, ro...)
						}
					}
					if deadFirst {
						openDead()
					}
					if kind == "value" {
						ch := val.Pull(ctx, resource.WithBackpressure(true))
						go func() {
							for e := range ch {
								mu.Lock()
								last = asTat(e.Value)
								mu.Unlock()
							}
						}()
					} else {
						ch := col.PullID(ctx, "a", resource.WithBackpressure(true))
						go func() {
							for e := range ch {
								mu.Lock()
								last = asTat(e.Value)
								mu.Unlock()
							}
						}()
					}
					if !deadFirst {
						openDead()
					}
					if _, ok := r.MustQuiesce("c03-doa-open"); !ok {
						cancel()
						return
					}
					next := &tat{DefaultString: "w#1", DefaultInt32: 2}
					var err error
					t := vk.Go(func() {
						if kind == "value" {
							_, err = val.Set(next)
						} else {
							_, err = col.Update("a", next)
						}
					})
					gs, ok := r.MustQuiesce("c03-doa-write")
					if !ok {
						cancel()
						return
					}
					r.Eval(1)
					r.Count("dead-on-arrival-scenarios", 1)
					r.Distinct(fmt.Sprintf("doa|%s|%v|%v|%v", kind, uo, bp, deadFirst))
					mode := map[bool]string{true: "bp", false: "lossy"}[bp]
					key := "C03/fold/" + kind + "/" + mode + "/dead-on-arrival"
					desc := fmt.Sprintf("a %s subscription (updates-only %v) opened with an already cancelled context (before the healthy subscriber: %v)", kind, uo, deadFirst)
					replay := map[string]any{"kind": kind, "updatesOnly": uo, "bp": bp, "deadFirst": deadFirst}
					if !t.Done() {
						r.Violation(key+"/writer-stuck", fmt.Sprintf("%s: the next write has not returned at the quiescent point\n%s", desc, vk.DescribeGs(vk.LibraryGoroutines(gs, base))), replay)
						cancel()
						return // the stuck goroutines stay
					}
					mu.Lock()
					h := last
					mu.Unlock()
					if err != nil || h == nil || !proto.Equal(h, next) {
						r.Violation(key+"/healthy-subscriber-stale", fmt.Sprintf("%s: the write returned %v, the healthy subscriber holds %s, Get returns %s", desc, err, vk.JSON(h), vk.JSON(next)), replay)
					}
					cancel()
					r.MustQuiesce("c03-doa-end")
				}
			}
		}
	}
	r.Require("dead-on-arrival-scenarios", 10)
}

// joinEmptied (F10): the only item x has just been deleted, but the REMOVE is not published yet (its writer waits for
// its turn behind an update whose publication is held up); now PullID(x) / Pull is opened on the emptied collection.
// A seeded subscriber's (empty) seed places it after both commits: the stale REMOVE must not end its PullID, and once x
// is created again and written, its view is what Get returns. (An updates-only subscriber has no seed; it may be
// ordered before the two writes still in flight, so for it the removal may legitimately end a PullID.)
func joinEmptied(r *vk.Run) {
	sched := vk.NewSched()
	defer sched.Close()
	idx := 0
	for _, kind := range []string{"pullid", "pull"} {
		for _, bp := range []bool{true, false} {
			for _, uo := range []bool{false, true} {
				idx++
				if !r.Mine(idx) {
					continue
				}
				col := resource.NewCollection(resource.WithClock(clk{}), resource.WithInitialRecord("x", &tat{DefaultString: "x#0", DefaultInt32: 1}))
				ctx, cancel := context.WithCancel(context.Background())
				park := sched.ParkAt("col.update.beforePublish", nil)
				t1 := vk.Go(func() { col.Update("x", &tat{DefaultString: "x#1", DefaultInt32: 2}) })
				vk.Quiesce()
				reached := park.Arrived()
				t2 := vk.Go(func() { col.Delete("x") })
				vk.Quiesce()
				ro := []resource.ReadOption{resource.WithBackpressure(bp), resource.WithUpdatesOnly(uo)}
				var mu sync.Mutex
				var last *tat
				present, closed := false, false
				if kind == "pullid" {
					ch := col.PullID(ctx, "x", ro...)
					go func() {
						for e := range ch {
							mu.Lock()
							last, present = asTat(e.Value), true
							mu.Unlock()
						}
						mu.Lock()
						closed = true
						mu.Unlock()
					}()
				} else {
					ch := col.Pull(ctx, ro...)
					go func() {
						for e := range ch {
							if e.Id != "x" {
								continue
							}
							mu.Lock()
							if e.ChangeType == types.ChangeType_REMOVE {
								last, present = nil, false
							} else {
								last, present = asTat(e.NewValue), true
							}
							mu.Unlock()
						}
					}()
				}
				vk.Quiesce()
				park.Release()
				vk.Quiesce()
				t3 := vk.Go(func() {
					col.Add("x", &tat{DefaultString: "x#2", DefaultInt32: 3})
					col.Update("x", &tat{DefaultString: "x#3", DefaultInt32: 4})
				})
				gs, ok := r.MustQuiesce("c03-join-emptied")
				if !ok {
					cancel()
					return
				}
				r.Eval(1)
				r.Count("join-emptied-scenarios", 1)
				if reached {
					r.Distinct(fmt.Sprintf("joinemptied|%s|%v|%v", kind, bp, uo))
				}
				mode := map[bool]string{true: "bp", false: "lossy"}[bp]
				key := "C03/fold/" + kind + "/" + mode + "/join-emptied"
				desc := fmt.Sprintf("collection {x}: Update(x) committed and held up before publishing, Delete(x) committed and queued behind it, then %s (updates-only %v) is opened, the writers are released, x is added again and updated", kind, uo)
				replay := map[string]any{"kind": kind, "bp": bp, "updatesOnly": uo}
				if !t1.Done() || !t2.Done() || !t3.Done() {
					r.Violation(key+"/writer-stuck", fmt.Sprintf("%s: a writer has not returned at the quiescent point\n%s", desc, vk.DescribeGs(vk.LibraryGoroutines(gs, nil))), replay)
					cancel()
					return
				}
				stored, _ := col.Get("x")
				mu.Lock()
				h, has, cl := last, present, closed
				mu.Unlock()
				switch {
				case cl && uo:
					// an updates-only subscription has no seed that would place it after the two pending writes: both are still
					// in flight when it is opened, so it may be ordered before them, and then the removal ends it. Counted.
					r.Count("join-emptied/updates-only-pullid-ended-by-the-pending-remove", 1)
				case cl:
					r.Violation(key+"/closed", fmt.Sprintf("%s: the PullID channel was closed although x was not removed after it subscribed; Get returns %s", desc, vk.JSON(stored)), replay)
				case !has || !proto.Equal(h, stored):
					r.Violation(key, fmt.Sprintf("%s: the subscriber's view of x is %s, Get returns %s", desc, vk.JSON(h), vk.JSON(stored)), replay)
				}
				cancel()
				vk.Quiesce()
			}
		}
	}
	r.Require("join-emptied-scenarios", 2)
}

// subscribeStorm (F11): one writer counts an item (a Value) up, 1, 2, 3, ... without pause while four goroutines keep
// opening backpressured, seeded subscriptions: whatever value n the seed shows, the events that follow continue from
// it without a gap (n itself may be repeated once as an event): no commit around the moment of subscribing is missed. No hook is involved; the windows are
// whatever the library leaves open between taking the snapshot and joining the stream.
func subscribeStorm(r *vk.Run) {
	rounds := r.Pick(32, 640)
	per := r.Pick(250, 2500)
	for round := 0; round < rounds; round++ {
		if !r.Mine(round) {
			continue
		}
		isValue := round%2 == 1
		kind := map[bool]string{true: "value", false: "pull"}[isValue]
		col := resource.NewCollection(resource.WithClock(clk{}), resource.WithInitialRecord("x", &tat{DefaultString: "x", DefaultInt32: 0}))
		val := resource.NewValue(resource.WithClock(clk{}), resource.WithInitialValue(&tat{DefaultString: "x", DefaultInt32: 0}))
		var stop atomic.Bool
		wdone := make(chan struct{})
		go func() {
			defer close(wdone)
			for i := int32(1); !stop.Load(); i++ {
				if isValue {
					val.Set(&tat{DefaultString: "x", DefaultInt32: i})
				} else {
					col.Update("x", &tat{DefaultString: "x", DefaultInt32: i})
				}
			}
		}()
		var wg sync.WaitGroup
		var mu sync.Mutex
		bad := ""
		subs := 0
		for g := 0; g < 4; g++ {
			wg.Add(1)
			go func() {
				defer wg.Done()
				for k := 0; k < per; k++ {
					ctx, cancel := context.WithCancel(context.Background())
					var seen []int32
					if isValue {
						ch := val.Pull(ctx, resource.WithBackpressure(true))
						for len(seen) < 3 {
							e, ok := <-ch
							if !ok {
								break
							}
							seen = append(seen, asTat(e.Value).DefaultInt32)
						}
						cancel()
						for range ch {
						}
					} else {
						ch := col.Pull(ctx, resource.WithBackpressure(true))
						for len(seen) < 3 {
							e, ok := <-ch
							if !ok {
								break
							}
							seen = append(seen, asTat(e.NewValue).DefaultInt32)
						}
						cancel()
						for range ch {
						}
					}
					mu.Lock()
					subs++
					// the commit the seed already shows may arrive once more as an event (same value, the view is unaffected);
					// what may not happen is a gap or a step backwards
					okSeq := len(seen) == 3
					for q := 1; okSeq && q < 3; q++ {
						okSeq = seen[q] == seen[q-1] || seen[q] == seen[q-1]+1
					}
					if bad == "" && !okSeq {
						bad = fmt.Sprintf("a subscription was seeded with %v and then received %v: a commit in between was never delivered (or an older one came later)", seen[:1], seen[1:])
					}
					stopNow := bad != ""
					mu.Unlock()
					if stopNow {
						return
					}
				}
			}()
		}
		wg.Wait()
		stop.Store(true)
		<-wdone
		r.Eval(subs)
		r.Count("subscribe-storm-subscriptions", subs)
		r.Count("subscribe-storm-rounds", 1)
		r.Distinct("storm|" + kind)
		if bad != "" {
			r.Violation("C03/fold/"+kind+"/bp/subscribe-storm", fmt.Sprintf("one writer counting %s up while backpressured seeded subscriptions are opened and closed: %s", kind, bad), map[string]any{"round": round, "kind": kind})
		}
		if _, ok := r.MustQuiesce("c03-storm"); !ok {
			return
		}
	}
	r.Require("subscribe-storm-subscriptions", 1000)
}

// parkClock is a resource clock that, once armed, holds its next reading until released. Collection.Update reads
// the clock inside its critical section (for the item's change time), so an armed clock parks a writer while it
// holds the write lock, before it has taken its place in the publish order: a window no hook point covers.
type parkClock struct {
	armed   atomic.Bool
	reached chan struct{}
	release chan struct{}
}

func newParkClock() *parkClock {
	return &parkClock{reached: make(chan struct{}), release: make(chan struct{})}
}

func (c *parkClock) Now() time.Time {
	if c.armed.CompareAndSwap(true, false) {
		close(c.reached)
		<-c.release
	}
	return time.Unix(1, 0)
}

// joinWhileWriterHoldsLock (F12): a seeded subscription is opened while a writer is inside its critical section
// (holding the write lock, the new item about to be stored). The subscriber waits for the lock; its seed then
// contains the item, so the item's ADD event is not for it. A lossy subscriber that reads late then sees the item
// deleted: its folded view equals List.
func joinWhileWriterHoldsLock(r *vk.Run) {
	idx := 0
	for _, kind := range []string{"pull", "pullid"} {
		for _, bp := range []bool{false, true} {
			idx++
			if !r.Mine(idx) {
				continue
			}
			pc := newParkClock()
			col := resource.NewCollection(resource.WithClock(pc), resource.WithInitialRecord("k", &tat{DefaultString: "k#0", DefaultInt32: 1}))
			ctx, cancel := context.WithCancel(context.Background())
			pc.armed.Store(true)
			t1 := vk.Go(func() { col.Add("x", &tat{DefaultString: "x#1", DefaultInt32: 2}) })
			<-pc.reached
			var mu sync.Mutex
			view := map[string]*tat{}
			var log []string
			var chPull <-chan *resource.CollectionChange
			var chID <-chan *resource.ValueChange
			ts := vk.Go(func() {
				if kind == "pull" {
					chPull = col.Pull(ctx, resource.WithBackpressure(bp))
				} else {
					chID = col.PullID(ctx, "x", resource.WithBackpressure(bp))
				}
			})
			vk.Quiesce()
			close(pc.release)
			vk.Quiesce()
			ts.Wait()
			consume := func() {
				if kind == "pull" {
					for e := range chPull {
						mu.Lock()
						log = append(log, fmt.Sprintf("%s %s", e.ChangeType, e.Id))
						if e.ChangeType == types.ChangeType_REMOVE {
							delete(view, e.Id)
						} else {
							view[e.Id] = asTat(e.NewValue)
						}
						mu.Unlock()
					}
					return
				}
				for e := range chID {
					mu.Lock()
					log = append(log, "VALUE "+vk.JSON(e.Value))
					view["x"] = asTat(e.Value)
					mu.Unlock()
				}
				mu.Lock()
				delete(view, "x")
				log = append(log, "closed")
				mu.Unlock()
			}
			if bp {
				go consume() // a backpressured reader has to keep reading or the writers wait for it
			}
			t2 := vk.Go(func() {
				col.Delete("x")
				col.Add("zz", &tat{DefaultString: "zz#1", DefaultInt32: 3})
			})
			vk.Quiesce()
			if !bp {
				go consume() // the lossy reader starts late: everything so far met in the lossy stage
			}
			gs, ok := r.MustQuiesce("c03-join-writer-lock")
			if !ok {
				cancel()
				return
			}
			r.Eval(1)
			r.Count("join-while-writer-holds-lock-scenarios", 1)
			r.Distinct(fmt.Sprintf("joinlock|%s|%v", kind, bp))
			mode := map[bool]string{true: "bp", false: "lossy"}[bp]
			key := "C03/fold/" + kind + "/" + mode + "/join-while-writer-holds-lock"
			replay := map[string]any{"kind": kind, "bp": bp}
			if !t1.Done() || !t2.Done() {
				r.Violation(key+"/writer-stuck", fmt.Sprintf("a writer has not returned at the quiescent point\n%s", vk.DescribeGs(vk.LibraryGoroutines(gs, nil))), replay)
				cancel()
				return
			}
			mu.Lock()
			_, hasX := view["x"]
			trace := strings.Join(log, "; ")
			mu.Unlock()
			if _, stored := col.Get("x"); hasX && !stored {
				r.Violation(key, fmt.Sprintf("Add(x) was inside its critical section when a seeded %s subscriber (%s) was opened; then Delete(x), Add(zz); the subscriber (reading %s) still holds x, Get(x) finds nothing; received: %s", kind, mode, map[bool]string{true: "all along", false: "only afterwards"}[bp], trace), replay)
			}
			cancel()
			vk.Quiesce()
		}
	}
	r.Require("join-while-writer-holds-lock-scenarios", 1)
}

// zeroBodies (F7): items created with a body that has nothing set (the zero message), Values set to the zero
// message, and items updated to it: each is a committed change like any other and has to reach Pull and PullID
// subscribers (with and without backpressure, updates-only or not).
func zeroBodies(r *vk.Run) {
	idx := 0
	for _, bp := range []bool{true, false} {
		for _, uo := range []bool{false, true} {
			for _, how := range []string{"add", "upsert", "update-to-zero", "value-set-zero"} {
				idx++
				if !r.Mine(idx) {
					continue
				}
				ro := []resource.ReadOption{resource.WithBackpressure(bp), resource.WithUpdatesOnly(uo)}
				ctx, cancel := context.WithCancel(context.Background())
				var mu sync.Mutex
				var got, gotID []string
				bad := ""
				if how == "value-set-zero" {
					val := resource.NewValue(resource.WithClock(clk{}), resource.WithInitialValue(&tat{DefaultString: "init", DefaultInt32: 3}))
					ch := val.Pull(ctx, ro...)
					go func() {
						for e := range ch {
							mu.Lock()
							got = append(got, vk.JSON(e.Value))
							mu.Unlock()
						}
					}()
					r.MustQuiesce("c03-zero-open")
					_, err := val.Set(&tat{})
					r.MustQuiesce("c03-zero-write")
					mu.Lock()
					if err == nil && (len(got) == 0 || got[len(got)-1] != "{}") {
						bad = fmt.Sprintf("Value.Set(zero message) succeeded, Get returns %s, the subscriber received %v", vk.JSON(val.Get()), got)
					}
					mu.Unlock()
				} else {
					col := resource.NewCollection(resource.WithClock(clk{}), resource.WithInitialRecord("a", &tat{DefaultString: "a#init", DefaultInt32: 3}))
					target := "z"
					if how == "update-to-zero" {
						target = "a"
					}
					ch := col.Pull(ctx, ro...)
					go func() {
						for e := range ch {
							mu.Lock()
							got = append(got, fmt.Sprintf("%s %s %s", e.ChangeType, e.Id, vk.JSON(e.NewValue)))
							mu.Unlock()
						}
					}()
					chID := col.PullID(ctx, target, ro...)
					go func() {
						for e := range chID {
							mu.Lock()
							gotID = append(gotID, vk.JSON(e.Value))
							mu.Unlock()
						}
					}()
					r.MustQuiesce("c03-zero-open")
					var err error
					switch how {
					case "add":
						_, err = col.Add("z", &tat{})
					case "upsert":
						_, err = col.Update("z", &tat{}, resource.WithCreateIfAbsent())
					default:
						_, err = col.Update("a", &tat{})
					}
					r.MustQuiesce("c03-zero-write")
					mu.Lock()
					kind := "ADD"
					if how == "update-to-zero" {
						kind = "UPDATE"
					}
					want := fmt.Sprintf("%s %s {}", kind, target)
					_, stored := col.Get(target)
					switch {
					case err != nil || !stored:
						bad = fmt.Sprintf("harness: %s failed: %v (stored %v)", how, err, stored)
					case len(got) == 0 || got[len(got)-1] != want:
						bad = fmt.Sprintf("%s of %q with the zero message succeeded and Get finds it; the Pull subscriber's last events are %v, want %q last", how, target, got, want)
					case len(gotID) == 0 || gotID[len(gotID)-1] != "{}":
						bad = fmt.Sprintf("%s of %q with the zero message succeeded and Get finds it; the PullID(%s) subscriber received %v", how, target, target, gotID)
					}
					mu.Unlock()
				}
				r.Eval(1)
				r.Count("zero-body-scenarios", 1)
				r.Distinct(fmt.Sprintf("zero|%v|%v|%s", bp, uo, how))
				if bad != "" {
					mode := map[bool]string{true: "bp", false: "lossy"}[bp]
					r.Violation("C03/fold/pull/"+mode+"/zero-body/"+how, fmt.Sprintf("updates-only %v: %s", uo, bad), map[string]any{"bp": bp, "updatesOnly": uo, "how": how})
				}
				cancel()
				r.MustQuiesce("c03-zero-end")
			}
		}
	}
}
