// Monitor for C18: timeline algebra matches its mathematical meaning.
package main

import (
	"fmt"

	timepb "github.com/smart-core-os/sc-api/go/types/time"
	"google.golang.org/protobuf/proto"
	"google.golang.org/protobuf/types/known/timestamppb"

	"github.com/smart-core-os/sc-golang/internal/verif/vk"
	sctime "github.com/smart-core-os/sc-golang/pkg/time"
)

func main() { vk.Main("C18", run) }

func run(r *vk.Run) {
	r.Describe("periods: every ordered pair of periods with endpoints in {unbounded, 0..5}s x nanos {0,1,999999999} (bounded, start<end) checked against max(starts)<min(ends) / <=; "+
		"timestamps: exhaustive small grid plus random 64-bit-range pairs and triples checked for sign, antisymmetry, transitivity; "+
		"segments/modes: random step functions compared pointwise with brute-force evaluation. A case is distinct by its rendered inputs and non-trivial when it reaches the function under test with in-domain arguments.",
		"float32 magnitudes and lengths are small integers so arithmetic is exact",
		"bounded periods are taken with start < end; empty or inverted periods are counted as out-of-domain observations")
	periods(r)
	timestamps(r)
	segments(r)
}

type endpoint struct {
	unbounded bool
	s         int64
	n         int32
}

func (e endpoint) ts() *timestamppb.Timestamp {
	if e.unbounded {
		return nil
	}
	return &timestamppb.Timestamp{Seconds: e.s, Nanos: e.n}
}

// key gives a total order on bounded endpoints.
func (e endpoint) key() int64 { return e.s*1_000_000_000 + int64(e.n) }

func (e endpoint) String() string {
	if e.unbounded {
		return "-"
	}
	return fmt.Sprintf("%d.%09d", e.s, e.n)
}

func periods(r *vk.Run) {
	var eps []endpoint
	eps = append(eps, endpoint{unbounded: true})
	for s := int64(0); s <= 5; s++ {
		for _, n := range []int32{0, 1, 999999999} {
			eps = append(eps, endpoint{s: s, n: n})
		}
	}
	type period struct{ a, b endpoint }
	var ps []period
	for _, a := range eps {
		for _, b := range eps {
			if !a.unbounded && !b.unbounded && a.key() >= b.key() {
				r.Count("periods-out-of-domain(start>=end)", 1)
				continue
			}
			ps = append(ps, period{a, b})
		}
	}
	const inf = int64(1) << 62
	lo := func(p period) int64 {
		if p.a.unbounded {
			return -inf
		}
		return p.a.key()
	}
	hi := func(p period) int64 {
		if p.b.unbounded {
			return inf
		}
		return p.b.key()
	}
	idx := 0
	for _, p1 := range ps {
		for _, p2 := range ps {
			idx++
			if !r.Mine(idx) {
				continue
			}
			m1 := &timepb.Period{StartTime: p1.a.ts(), EndTime: p1.b.ts()}
			m2 := &timepb.Period{StartTime: p2.a.ts(), EndTime: p2.b.ts()}
			c1, c2 := proto.Clone(m1), proto.Clone(m2)
			maxLo, minHi := max(lo(p1), lo(p2)), min(hi(p1), hi(p2))
			wantI, wantC := maxLo < minHi, maxLo <= minHi
			gotI, gotC := sctime.PeriodsIntersect(m1, m2), sctime.PeriodsConnected(m1, m2)
			r.Eval(2)
			desc := fmt.Sprintf("[%v,%v) [%v,%v)", p1.a, p1.b, p2.a, p2.b)
			r.Distinct("period:" + desc)
			if r.WantSample("period-pair") {
				r.Sample("period-pair", map[string]any{"p1": fmt.Sprintf("[%v,%v)", p1.a, p1.b), "p2": fmt.Sprintf("[%v,%v)", p2.a, p2.b), "intersect": gotI, "connected": gotC})
			}
			if gotI != wantI {
				r.Violation("C18/PeriodsIntersect/value", fmt.Sprintf("PeriodsIntersect(%s) = %v, dense-timeline oracle says %v", desc, gotI, wantI), desc)
			}
			if gotC != wantC {
				r.Violation("C18/PeriodsConnected/value", fmt.Sprintf("PeriodsConnected(%s) = %v, dense-timeline oracle says %v", desc, gotC, wantC), desc)
			}
			if sctime.PeriodsIntersect(m2, m1) != gotI {
				r.Violation("C18/PeriodsIntersect/symmetry", "asymmetric on "+desc, desc)
			}
			if sctime.PeriodsConnected(m2, m1) != gotC {
				r.Violation("C18/PeriodsConnected/symmetry", "asymmetric on "+desc, desc)
			}
			if !proto.Equal(m1, c1) || !proto.Equal(m2, c2) {
				r.Violation("C18/Periods/mutates-input", "argument changed on "+desc, desc)
			}
		}
	}
	r.Count("period-pairs", len(ps)*len(ps))
}

func sign(x int64) int {
	switch {
	case x < 0:
		return -1
	case x > 0:
		return 1
	}
	return 0
}

func chrono(a, b *timestamppb.Timestamp) int {
	if a.Seconds != b.Seconds {
		if a.Seconds < b.Seconds {
			return -1
		}
		return 1
	}
	return sign(int64(a.Nanos) - int64(b.Nanos))
}

func timestamps(r *vk.Run) {
	rng := r.Rand("ts")
	gen := func(rng *vk.Rand) *timestamppb.Timestamp {
		var s int64
		switch rng.Intn(5) {
		case 0:
			s = int64(rng.Range(-3, 3))
		case 1:
			s = int64(rng.Uint64()) // full 64-bit range
		case 2:
			s = 253402300799 - int64(rng.Intn(3)) // max valid timestamp
		case 3:
			s = -62135596800 + int64(rng.Intn(3))
		default:
			s = int64(rng.Range(0, 2000000000))
		}
		n := int32(rng.Range(0, 999999999))
		if rng.Chance(1, 3) {
			n = []int32{0, 1, 999999999}[rng.Intn(3)]
		}
		return &timestamppb.Timestamp{Seconds: s, Nanos: n}
	}
	n := r.Pick(100000, 10000000)
	for i := 0; i < n; i++ {
		a, b, c := gen(rng), gen(rng), gen(rng)
		if rng.Chance(1, 4) {
			b.Seconds = a.Seconds
		}
		if !r.Mine(i) {
			continue
		}
		desc := fmt.Sprintf("%d.%09d vs %d.%09d", a.Seconds, a.Nanos, b.Seconds, b.Nanos)
		ab, ba := sctime.CompareAscending(a, b), sctime.CompareAscending(b, a)
		r.Eval(1)
		r.Distinct("ts:" + desc)
		if r.WantSample("timestamp-compare") {
			r.Sample("timestamp-compare", map[string]any{"a": fmt.Sprintf("%d.%09d", a.Seconds, a.Nanos), "b": fmt.Sprintf("%d.%09d", b.Seconds, b.Nanos), "result": ab})
		}
		want := chrono(a, b)
		if ab < -1 || ab > 1 {
			r.Violation("C18/CompareAscending/range", fmt.Sprintf("CompareAscending(%s) = %d, documented results are -1, 0, 1", desc, ab), desc)
		}
		if sign(int64(ab)) != want {
			r.Violation("C18/CompareAscending/order", fmt.Sprintf("CompareAscending(%s) = %d, chronological order says %d", desc, ab, want), desc)
		}
		if sign(int64(ab)) != -sign(int64(ba)) {
			r.Violation("C18/CompareAscending/antisymmetry", fmt.Sprintf("CompareAscending(%s) = %d but reversed = %d", desc, ab, ba), desc)
		}
		bc, ac := sctime.CompareAscending(b, c), sctime.CompareAscending(a, c)
		if ab <= 0 && bc <= 0 && ac > 0 {
			r.Violation("C18/CompareAscending/transitivity", fmt.Sprintf("a<=b, b<=c but a>c for a=%v b=%v c=%v", a, b, c), desc)
		}
	}
}
