// Monitor for C18: timeline algebra matches its mathematical meaning.
package main

import (
	"fmt"
	"math"
	"math/big"

	timepb "github.com/smart-core-os/sc-api/go/types/time"
	"google.golang.org/protobuf/proto"
	"google.golang.org/protobuf/types/known/timestamppb"

	"github.com/smart-core-os/sc-golang/internal/verif/vk"
	sctime "github.com/smart-core-os/sc-golang/pkg/time"
)

func main() { vk.Main("C18", run) }

func run(r *vk.Run) {
	r.Describe("periods: every ordered pair of periods with endpoints in {unbounded, 0..5}s x nanos {0,1,999999999} (bounded, start<end) plus random pairs over the 64-bit seconds range, checked against max(starts)<min(ends) / <= on exact integers, both argument orders; "+
		"timestamps: every pair and triple of a small grid plus random 64-bit-range pairs and triples checked for result in {-1,0,1}, chronological sign, antisymmetry, transitivity; "+
		"segments: every list of <=3 (thorough 4) segments over magnitudes {0,1,2} x lengths {0,1,2}ns (last optionally infinite) with every segmentpb operation at every integer instant, Sum of every ordered pair of the <=2-segment lists, "+
		"then random cases of 1-4 lists of 0-6 segments (magnitudes 0..4, lengths 0..4 units, unit in {1ns,2ns,1s,1.5s,999999999ns,1h}, zero-length and final infinite segments included): ActiveAt/MagnitudeAt/MaxAfter at every breakpoint, its neighbours, midpoints and beyond the end, Shift by each of those in both directions, Cut of every segment around its bounds, Sum of every prefix of the lists; "+
		"modes: the same lists with start time absent / present (base times 2020, around the Unix epoch with a nanosecond carry, and 0001-01-01 = Go's zero time) through modepb ActiveAt/MagnitudeAt/MaxSegmentAfter/MinAt/Cut/Shift/Sum, exhaustive over small modes and pairs of modes. "+
		"Every result list is read as a step function (absent = 0) and compared point by point with the definition; every argument is shadow-copied (element pointers, deep copies, sentinels in spare slice capacity) and re-compared after each call. "+
		"A case is distinct by its rendered inputs and non-trivial when it has at least one segment / in-domain arguments.",
		"float32 magnitudes and lengths are small non-negative integers so arithmetic is exact",
		"bounded periods are taken with start < end; empty or inverted periods are counted as out-of-domain observations",
		"only the last segment of a list may lack a length (sc-api: 'Only the last segment of a mode can have an absent length')",
		"timestamps are normalised (0 <= nanos < 1e9)",
		"the 'outside' results of Cut and the tie-break of Max are observed, not judged (the statement does not fix them)")
	periods(r)
	timestamps(r)
	segments(r)
}

type endpoint struct {
	unbounded bool
	s         int64
	n         int32
}

func (e endpoint) ts() *timestamppb.Timestamp {
	if e.unbounded {
		return nil
	}
	return &timestamppb.Timestamp{Seconds: e.s, Nanos: e.n}
}

// key gives a total order on bounded endpoints.
func (e endpoint) key() int64 { return e.s*1_000_000_000 + int64(e.n) }

func (e endpoint) String() string {
	if e.unbounded {
		return "-"
	}
	return fmt.Sprintf("%d.%09d", e.s, e.n)
}

// bigKey is the position of a timestamp on the timeline as an exact integer number of nanoseconds.
func bigKey(t *timestamppb.Timestamp) *big.Int {
	k := new(big.Int).Mul(big.NewInt(t.Seconds), big.NewInt(1_000_000_000))
	return k.Add(k, big.NewInt(int64(t.Nanos)))
}

var bigInf = new(big.Int).Lsh(big.NewInt(1), 100)

// periodOracle decides overlap on the dense timeline: [lo1,hi1) and [lo2,hi2) with absent ends at -inf/+inf.
func periodOracle(p1, p2 *timepb.Period) (intersect, connected bool) {
	lo := func(p *timepb.Period) *big.Int {
		if p.StartTime == nil {
			return new(big.Int).Neg(bigInf)
		}
		return bigKey(p.StartTime)
	}
	hi := func(p *timepb.Period) *big.Int {
		if p.EndTime == nil {
			return bigInf
		}
		return bigKey(p.EndTime)
	}
	maxLo, minHi := lo(p1), hi(p1)
	if l := lo(p2); l.Cmp(maxLo) > 0 {
		maxLo = l
	}
	if h := hi(p2); h.Cmp(minHi) < 0 {
		minHi = h
	}
	c := maxLo.Cmp(minHi)
	return c < 0, c <= 0
}

func periodDesc(p *timepb.Period) string {
	e := func(t *timestamppb.Timestamp) string {
		if t == nil {
			return "-"
		}
		return fmt.Sprintf("%d.%09d", t.Seconds, t.Nanos)
	}
	return "[" + e(p.StartTime) + "," + e(p.EndTime) + ")"
}

func checkPeriodPair(r *vk.Run, m1, m2 *timepb.Period, stream string) {
	c1, c2 := proto.Clone(m1), proto.Clone(m2)
	wantI, wantC := periodOracle(m1, m2)
	var gotI, gotC, revI, revC bool
	desc := periodDesc(m1) + " " + periodDesc(m2)
	if panicked, what := vk.Recover(func() {
		gotI, gotC = sctime.PeriodsIntersect(m1, m2), sctime.PeriodsConnected(m1, m2)
		revI, revC = sctime.PeriodsIntersect(m2, m1), sctime.PeriodsConnected(m2, m1)
	}); panicked {
		r.Violation("C18/Periods/panic", "panic on "+desc+": "+what, desc)
		return
	}
	r.Eval(4)
	r.Distinct("period:" + desc)
	r.Count("period-pairs-"+stream, 1)
	switch {
	case wantI:
		r.Count("period-pairs-overlapping", 1)
	case wantC:
		r.Count("period-pairs-touching", 1)
	default:
		r.Count("period-pairs-apart", 1)
	}
	if r.WantSample("period-pair-" + stream) {
		r.Sample("period-pair-"+stream, map[string]any{"p1": periodDesc(m1), "p2": periodDesc(m2), "intersect": gotI, "connected": gotC})
	}
	if gotI != wantI {
		r.Violation("C18/PeriodsIntersect/value", fmt.Sprintf("PeriodsIntersect(%s) = %v, dense-timeline oracle says %v", desc, gotI, wantI), desc)
	}
	if gotC != wantC {
		r.Violation("C18/PeriodsConnected/value", fmt.Sprintf("PeriodsConnected(%s) = %v, dense-timeline oracle says %v", desc, gotC, wantC), desc)
	}
	if revI != gotI {
		r.Violation("C18/PeriodsIntersect/symmetry", "asymmetric on "+desc, desc)
	}
	if revC != gotC {
		r.Violation("C18/PeriodsConnected/symmetry", "asymmetric on "+desc, desc)
	}
	if !proto.Equal(m1, c1) || !proto.Equal(m2, c2) {
		r.Violation("C18/Periods/mutates-input", "argument changed on "+desc, desc)
	}
}

func periods(r *vk.Run) {
	var eps []endpoint
	eps = append(eps, endpoint{unbounded: true})
	for s := int64(0); s <= 5; s++ {
		for _, n := range []int32{0, 1, 999999999} {
			eps = append(eps, endpoint{s: s, n: n})
		}
	}
	type period struct{ a, b endpoint }
	var ps []period
	ood := 0
	for _, a := range eps {
		for _, b := range eps {
			if !a.unbounded && !b.unbounded && a.key() >= b.key() {
				ood++
				continue
			}
			ps = append(ps, period{a, b})
		}
	}
	if r.Shard == 0 {
		r.Count("periods-out-of-domain(start>=end, not judged)", ood)
	}
	idx := 0
	for _, p1 := range ps {
		for _, p2 := range ps {
			idx++
			if !r.Mine(idx) {
				continue
			}
			checkPeriodPair(r, &timepb.Period{StartTime: p1.a.ts(), EndTime: p1.b.ts()}, &timepb.Period{StartTime: p2.a.ts(), EndTime: p2.b.ts()}, "grid")
		}
	}
	r.Require("period-pairs-grid", len(ps)*len(ps))

	// random periods over the whole 64-bit seconds range, clustered so that touching and overlapping are common
	n := r.Pick(50000, 2000000)
	for i := 0; i < n; i++ {
		if !r.Mine(i) {
			continue
		}
		rng := r.CaseRand("periods", i)
		var centre int64
		switch rng.Intn(4) {
		case 0:
			centre = int64(rng.Uint64())
		case 1:
			centre = math.MaxInt64 - 3
		case 2:
			centre = math.MinInt64 + 3
		default:
			centre = int64(rng.Range(-5, 5))
		}
		// half of the cases mix two far-apart centres (e.g. a date in 2020 with one in 9999 or 1600, or two unrelated
		// 64-bit values): an ordering that only holds for instants close to each other is not enough
		centre2 := centre
		if rng.Bool() {
			switch rng.Intn(5) {
			case 0:
				centre2 = int64(rng.Uint64())
			case 1:
				centre2 = 253402300799 - int64(rng.Intn(100000)) // year 9999
			case 2:
				centre2 = -62135596800 + int64(rng.Intn(100000)) // year 1
			case 3:
				centre2 = int64(rng.Range(1500000000, 1800000000)) // present day
			default:
				centre2 = -11644473600 + int64(rng.Intn(1000000)) // year 1601
			}
			r.Count("period-pairs-random-two-centres", 1)
		}
		pool := make([]*timestamppb.Timestamp, 4)
		for j := range pool {
			sec := centre
			if j%2 == 1 {
				sec = centre2
			}
			if d := int64(rng.Range(-3, 3)); (d > 0 && sec <= math.MaxInt64-d) || (d < 0 && sec >= math.MinInt64-d) {
				sec += d
			}
			pool[j] = &timestamppb.Timestamp{Seconds: sec, Nanos: []int32{0, 1, 500000000, 999999999}[rng.Intn(4)]}
		}
		gen := func() (*timepb.Period, bool) {
			p := &timepb.Period{}
			if !rng.Chance(1, 5) {
				p.StartTime = proto.Clone(pool[rng.Intn(4)]).(*timestamppb.Timestamp)
			}
			if !rng.Chance(1, 5) {
				p.EndTime = proto.Clone(pool[rng.Intn(4)]).(*timestamppb.Timestamp)
			}
			if p.StartTime != nil && p.EndTime != nil {
				switch chrono(p.StartTime, p.EndTime) {
				case 0:
					return nil, false
				case 1:
					p.StartTime, p.EndTime = p.EndTime, p.StartTime
				}
			}
			return p, true
		}
		p1, ok1 := gen()
		p2, ok2 := gen()
		if !ok1 || !ok2 {
			r.Count("periods-out-of-domain(start>=end, not judged)", 1)
			continue
		}
		checkPeriodPair(r, p1, p2, "random")
	}
	r.Require("period-pairs-random", n/2)
	r.Require("period-pairs-overlapping", 10000)
	r.Require("period-pairs-touching", 2000)
	r.Require("period-pairs-apart", 5000)
}

func sign(x int64) int {
	switch {
	case x < 0:
		return -1
	case x > 0:
		return 1
	}
	return 0
}

// chrono is the chronological order of two normalised timestamps.
func chrono(a, b *timestamppb.Timestamp) int {
	return bigKey(a).Cmp(bigKey(b))
}

func checkTimestamps(r *vk.Run, a, b, c *timestamppb.Timestamp, stream string) {
	ca, cb, cc := proto.Clone(a), proto.Clone(b), proto.Clone(c)
	desc := fmt.Sprintf("%d.%09d vs %d.%09d", a.Seconds, a.Nanos, b.Seconds, b.Nanos)
	ab, ba := sctime.CompareAscending(a, b), sctime.CompareAscending(b, a)
	bc, ac := sctime.CompareAscending(b, c), sctime.CompareAscending(a, c)
	aa := sctime.CompareAscending(a, proto.Clone(a).(*timestamppb.Timestamp))
	r.Eval(5)
	r.Distinct("ts:" + desc)
	r.Count("timestamp-cases-"+stream, 1)
	want := chrono(a, b)
	r.Count(fmt.Sprintf("timestamp-order(%d)", want), 1)
	if a.Seconds == b.Seconds && a.Nanos != b.Nanos {
		r.Count("timestamp-same-second-different-nanos", 1)
	}
	if r.WantSample("timestamp-compare-" + stream) {
		r.Sample("timestamp-compare-"+stream, map[string]any{"a": fmt.Sprintf("%d.%09d", a.Seconds, a.Nanos), "b": fmt.Sprintf("%d.%09d", b.Seconds, b.Nanos), "result": ab})
	}
	for _, v := range []int{ab, ba, bc, ac, aa} {
		if v < -1 || v > 1 {
			r.Violation("C18/CompareAscending/range", fmt.Sprintf("CompareAscending returned %d on %s (c=%d.%09d); documented results are -1, 0, 1", v, desc, c.Seconds, c.Nanos), desc)
			break
		}
	}
	if sign(int64(ab)) != want {
		r.Violation("C18/CompareAscending/order", fmt.Sprintf("CompareAscending(%s) = %d, chronological order says %d", desc, ab, want), desc)
	}
	if sign(int64(ab)) != -sign(int64(ba)) {
		r.Violation("C18/CompareAscending/antisymmetry", fmt.Sprintf("CompareAscending(%s) = %d but reversed = %d", desc, ab, ba), desc)
	}
	if aa != 0 {
		r.Violation("C18/CompareAscending/reflexivity", fmt.Sprintf("CompareAscending(a, copy of a) = %d for a = %d.%09d", aa, a.Seconds, a.Nanos), desc)
	}
	if (ab <= 0 && bc <= 0 && ac > 0) || (ab >= 0 && bc >= 0 && ac < 0) || (ab == 0 && bc == 0 && ac != 0) ||
		(ab < 0 && bc <= 0 && ac >= 0) || (ab <= 0 && bc < 0 && ac >= 0) {
		r.Violation("C18/CompareAscending/transitivity", fmt.Sprintf("cmp(a,b)=%d cmp(b,c)=%d cmp(a,c)=%d for a=%v b=%v c=%v", ab, bc, ac, a, b, c), desc)
	}
	if !proto.Equal(a, ca) || !proto.Equal(b, cb) || !proto.Equal(c, cc) {
		r.Violation("C18/CompareAscending/mutates-input", "argument changed on "+desc, desc)
	}
}

func timestamps(r *vk.Run) {
	// small grid: every pair and triple
	var grid []*timestamppb.Timestamp
	for _, s := range []int64{math.MinInt64, -62135596800, -2, -1, 0, 1, 2, 253402300799, math.MaxInt64} {
		for _, n := range []int32{0, 1, 999999999} {
			grid = append(grid, &timestamppb.Timestamp{Seconds: s, Nanos: n})
		}
	}
	idx := 0
	for _, a := range grid {
		for _, b := range grid {
			for _, c := range grid {
				idx++
				if r.Mine(idx) {
					checkTimestamps(r, a, b, c, "grid")
				}
			}
		}
	}
	r.Require("timestamp-cases-grid", len(grid)*len(grid)*len(grid))

	gen := func(rng *vk.Rand) *timestamppb.Timestamp {
		var s int64
		switch rng.Intn(5) {
		case 0:
			s = int64(rng.Range(-3, 3))
		case 1:
			s = int64(rng.Uint64()) // full 64-bit range
		case 2:
			s = 253402300799 - int64(rng.Intn(3)) // max valid timestamp
		case 3:
			s = -62135596800 + int64(rng.Intn(3))
		default:
			s = int64(rng.Range(0, 2000000000))
		}
		n := int32(rng.Range(0, 999999999))
		if rng.Chance(1, 3) {
			n = []int32{0, 1, 999999999}[rng.Intn(3)]
		}
		return &timestamppb.Timestamp{Seconds: s, Nanos: n}
	}
	n := r.Pick(100000, 10000000)
	for i := 0; i < n; i++ {
		if !r.Mine(i) {
			continue
		}
		rng := r.CaseRand("ts", i)
		a, b, c := gen(rng), gen(rng), gen(rng)
		if rng.Chance(1, 4) {
			b.Seconds = a.Seconds
		}
		if rng.Chance(1, 4) {
			c.Seconds = b.Seconds
		}
		if rng.Chance(1, 16) {
			b.Nanos = a.Nanos
		}
		checkTimestamps(r, a, b, c, "random")
	}
	r.Require("timestamp-cases-random", n)
	r.Require("timestamp-order(-1)", 10000)
	r.Require("timestamp-order(0)", 300)
	r.Require("timestamp-order(1)", 10000)
	r.Require("timestamp-same-second-different-nanos", 5000)
}
