package main

// Electric mode part of C18: pkg/trait/electricpb/modepb. A mode with a start time is read as a function of
// absolute time F(T) = f(T - start); every mode-level operation must agree with the segment-level meaning
// after that translation. Absolute times are handled as integer nanosecond offsets from the case's base time.

import (
	"fmt"
	"time"

	"github.com/smart-core-os/sc-api/go/traits"
	"google.golang.org/protobuf/types/known/timestamppb"

	"github.com/smart-core-os/sc-golang/internal/verif/vk"
	"github.com/smart-core-os/sc-golang/pkg/trait/electricpb/modepb"
)

type mode = traits.ElectricMode

type modeCtx struct {
	*caseCtx
	base      time.Time
	baseSec   int64
	baseNanos int64
}

func newModeCtx(c *caseCtx, base time.Time) *modeCtx {
	return &modeCtx{caseCtx: c, base: base, baseSec: base.Unix(), baseNanos: int64(base.Nanosecond())}
}

func (mc *modeCtx) T(off int64) time.Time { return mc.base.Add(time.Duration(off)) }

// off converts a timestamp to nanoseconds from the base time, reading the fields directly.
func (mc *modeCtx) off(ts *timestamppb.Timestamp) int64 {
	return (ts.Seconds-mc.baseSec)*1_000_000_000 + (int64(ts.Nanos) - mc.baseNanos)
}

func (mc *modeCtx) unmutatedModes(fn string, ms ...*shadowMode) {
	for i, m := range ms {
		if why := m.changed(); why != "" {
			mc.bad(fn, "mutates-input", "%s changed its argument %d %v: %s", fn, i, m.spec, why)
			*m = *newShadowMode(m.spec, mc.base)
		}
	}
}

// checkMode exercises every single-mode operation of modepb on m.
func checkMode(mc *modeCtx, m *shadowMode) {
	f := m.f
	var ts []int64
	if m.spec.HasST {
		ts = samplePoints(mc.unit, f.breaks(m.spec.STOff))
	} else {
		ts = []int64{0, 1, mc.unit, 5 * mc.unit}
	}
	for _, t := range ts {
		d := int64(0) // no start time: "t will be used as the start time"
		if m.spec.HasST {
			d = t - m.spec.STOff
		}
		what := fmt.Sprintf("(t=%d, %v)", t, m.spec)
		var el time.Duration
		var ix int
		if mc.call("modepb.ActiveAt", func() { el, ix = modepb.ActiveAt(mc.T(t), m.mode) }) {
			checkActiveAt(mc.caseCtx, "modepb.ActiveAt", "ActiveAt"+what, f, d, int64(el), ix)
		}
		var lv float32
		var ok bool
		if mc.call("modepb.MagnitudeAt", func() { lv, ok = modepb.MagnitudeAt(mc.T(t), m.mode) }) {
			checkMagnitudeAt(mc.caseCtx, "modepb.MagnitudeAt", "MagnitudeAt"+what, f, d, lv, ok)
		}
		var ma int
		if mc.call("modepb.MaxSegmentAfter", func() { ma = modepb.MaxSegmentAfter(mc.T(t), m.mode) }) {
			checkMaxIndex(mc.caseCtx, "modepb.MaxSegmentAfter", f, m.spec, d, ma)
		}
		mc.unmutatedModes("modepb.ActiveAt|MagnitudeAt|MaxSegmentAfter", m)
		checkModeCut(mc, m, t)
		if m.spec.HasST {
			mc.r.Count("mode-query-with-start-time", 1)
		} else {
			mc.r.Count("mode-query-without-start-time", 1)
		}
	}
	for _, p := range samplePoints(mc.unit, f.breaks(0)) {
		checkModeShift(mc, m, p)
		if p != 0 {
			checkModeShift(mc, m, -p)
		}
	}
}

// absFn is a mode (possibly nil) read as a function of absolute offset; modes without a start time are taken
// to start at dflt.
type absFn struct {
	f     stepFn
	start int64
	nil_  bool
}

func (a absFn) val(x int64) float32 {
	if a.nil_ {
		return 0
	}
	return a.f.val(x - a.start)
}

func (a absFn) breaks() []int64 {
	if a.nil_ {
		return nil
	}
	return a.f.breaks(a.start)
}

func (mc *modeCtx) readMode(m *mode, dflt int64) (absFn, string) {
	if m == nil {
		return absFn{nil_: true}, ""
	}
	f, problem := readFn(m.Segments)
	a := absFn{f: f, start: dflt}
	if m.StartTime != nil {
		a.start = mc.off(m.StartTime)
	}
	return a, problem
}

func checkModeCut(mc *modeCtx, m *shadowMode, t int64) {
	const fn = "modepb.Cut"
	var before, after *mode
	var outside bool
	if !mc.call(fn, func() { before, after, outside = modepb.Cut(mc.T(t), m.mode) }) {
		return
	}
	mc.unmutatedModes(fn, m)
	what := fmt.Sprintf("Cut(t=%d, %v)", t, m.spec)
	// "If mode has no start time then start time is assumed to be t"
	arg := absFn{f: m.f, start: t}
	if m.spec.HasST {
		arg.start = m.spec.STOff
	}
	bf, p1 := mc.readMode(before, t)
	af, p2 := mc.readMode(after, t)
	if p1+p2 != "" {
		mc.bad(fn, "malformed-result", "%s = (%v, %v): %s%s", what, before, after, p1, p2)
		return
	}
	for _, x := range samplePoints(mc.unit, arg.breaks(), bf.breaks(), af.breaks(), []int64{t}) {
		b, a, want := bf.val(x), af.val(x), arg.val(x)
		if b+a != want {
			mc.bad(fn, "function", "%s = (%v, %v): at T=%d before has %v and after has %v, the mode has %v", what, before, after, x, b, a, want)
			break
		}
		if x < t && a != 0 {
			mc.bad(fn, "position", "%s = (%v, %v): after is %v at T=%d, which is before the cut", what, before, after, a, x)
			break
		}
		if x >= t && b != 0 {
			mc.bad(fn, "position", "%s = (%v, %v): before is %v at T=%d, which is not before the cut", what, before, after, b, x)
			break
		}
	}
	if !m.f.infinite {
		var got int64
		inf := false
		for _, p := range []absFn{bf, af} {
			if !p.nil_ {
				got += p.f.total
				inf = inf || p.f.infinite
			}
		}
		if inf || got != m.f.total {
			mc.bad(fn, "length", "%s = (%v, %v): the parts last (%d, infinite=%v), the mode lasts %d", what, before, after, got, inf, m.f.total)
		}
	}
	d := t - arg.start
	switch {
	case len(m.spec.Segs) == 0:
		mc.r.Count("mode-cut-no-segments", 1)
	case !m.spec.HasST:
		mc.r.Count("mode-cut-no-start-time", 1)
	case d < 0:
		mc.r.Count("mode-cut-before-start", 1)
	case d == 0:
		mc.r.Count("mode-cut-at-start", 1)
	case m.f.cover(d) == nil:
		mc.r.Count("mode-cut-after-end", 1)
	case m.f.cover(d).start == d:
		mc.r.Count("mode-cut-at-breakpoint", 1)
	default:
		mc.r.Count("mode-cut-inside-segment", 1)
	}
	if outside {
		mc.r.Count("mode-cut-outside-flag-true(observed, not judged)", 1)
	}
}

func checkModeShift(mc *modeCtx, m *shadowMode, d int64) {
	const fn = "modepb.Shift"
	var out *mode
	if !mc.call(fn, func() { out = modepb.Shift(dur(d), m.mode) }) {
		return
	}
	mc.unmutatedModes(fn, m)
	what := fmt.Sprintf("Shift(%d, %v)", d, m.spec)
	if out == nil {
		mc.bad(fn, "malformed-result", "%s = nil", what)
		return
	}
	if (out.StartTime != nil) != m.spec.HasST {
		mc.bad(fn, "start-time", "%s = %v: the argument has a start time: %v, the result has one: %v", what, out, m.spec.HasST, out.StartTime != nil)
		return
	}
	// without start times both are functions of relative time; translate the argument by d either way
	arg := absFn{f: m.f, start: m.spec.STOff}
	if !m.spec.HasST {
		arg.start = 0
	}
	g, problem := mc.readMode(out, 0)
	if problem != "" {
		mc.bad(fn, "malformed-result", "%s = %v: %s", what, out, problem)
		return
	}
	shifted := absFn{f: m.f, start: arg.start + d}
	for _, x := range samplePoints(mc.unit, arg.breaks(), shifted.breaks(), g.breaks()) {
		want := arg.val(x - d)
		if !m.spec.HasST && x < 0 {
			want = 0 // relative time: a list has no time before its own start, a shift to the left drops it
		}
		if got := g.val(x); got != want {
			mc.bad(fn, "translation", "%s = %v has value %v at T=%d, the argument has %v at T-d=%d", what, out, got, x, want, x-d)
			break
		}
	}
	if d != 0 && out == m.mode {
		mc.r.Count("mode-shift-returned-argument(observed, not judged)", 1)
	}
	if m.spec.HasST {
		mc.r.Count("mode-shift-with-start-time", 1)
	} else {
		mc.r.Count("mode-shift-without-start-time", 1)
	}
}

// checkModeSum compares modepb.Sum with pointwise addition of the modes as functions of absolute time: a mode
// without a start time starts at the latest start time of those that have one; if none has one, all are relative
// to the same instant.
func checkModeSum(mc *modeCtx, ms []*shadowMode) {
	const fn = "modepb.Sum"
	backing := make([]*mode, len(ms)+1)
	sentinel := &mode{Id: "sentinel"}
	backing[len(ms)] = sentinel
	var specs []modeSpec
	anyST, latest := false, int64(0)
	for i, m := range ms {
		backing[i] = m.mode
		specs = append(specs, m.spec)
		if m.spec.HasST {
			if !anyST || m.spec.STOff > latest {
				latest = m.spec.STOff
			}
			anyST = true
		}
	}
	var out *mode
	if !mc.call(fn, func() { out = modepb.Sum(backing[:len(ms)]...) }) {
		return
	}
	for i, m := range ms {
		if backing[i] != m.mode {
			mc.bad(fn, "mutates-input", "Sum replaced element %d of its variadic argument", i)
		}
	}
	if backing[len(ms)] != sentinel {
		mc.bad(fn, "mutates-input", "Sum wrote beyond the length of its variadic argument")
	}
	mc.unmutatedModes(fn, ms...)
	what := fmt.Sprintf("Sum(%v)", specs)
	if out == nil {
		mc.bad(fn, "malformed-result", "%s = nil", what)
		return
	}
	if (out.StartTime != nil) != anyST {
		mc.bad(fn, "start-time", "%s = %v: some argument has a start time: %v, the result has one: %v", what, out, anyST, out.StartTime != nil)
		return
	}
	g, problem := mc.readMode(out, 0)
	if problem != "" {
		mc.bad(fn, "malformed-result", "%s = %v: %s", what, out, problem)
		return
	}
	args := make([]absFn, len(ms))
	breaks := [][]int64{g.breaks()}
	for i, m := range ms {
		args[i] = absFn{f: m.f}
		if m.spec.HasST {
			args[i].start = m.spec.STOff
		} else if anyST {
			args[i].start = latest
		}
		breaks = append(breaks, args[i].breaks())
	}
	for _, x := range samplePoints(mc.unit, breaks...) {
		var want float32
		for _, a := range args {
			want += a.val(x)
		}
		if got := g.val(x); got != want {
			mc.bad(fn, "pointwise", "%s = %v has value %v at T=%d, the arguments add up to %v there", what, out, got, x, want)
			break
		}
	}
	nST := 0
	for _, m := range ms {
		if m.spec.HasST {
			nST++
		}
	}
	switch {
	case nST == 0:
		mc.r.Count("mode-sum-no-start-times", 1)
	case nST == len(ms):
		mc.r.Count("mode-sum-all-start-times", 1)
	default:
		mc.r.Count("mode-sum-mixed-start-times", 1)
	}
}

// checkMinAt: the magnitude returned is the smallest value any of the modes has at t (absent = 0) and the mode
// returned is one that has it.
func checkMinAt(mc *modeCtx, ms []*shadowMode, t int64) {
	const fn = "modepb.MinAt"
	arg := map[string]*mode{}
	vals := map[*mode]float32{}
	var want float32
	for i, m := range ms {
		arg[fmt.Sprint("m", i)] = m.mode
		v := m.f.val(0)
		if m.spec.HasST {
			v = m.f.val(t - m.spec.STOff)
		}
		vals[m.mode] = v
		if i == 0 || v < want {
			want = v
		}
	}
	var got *mode
	var mag float32
	if !mc.call(fn, func() { got, mag = modepb.MinAt(mc.T(t), arg) }) {
		return
	}
	mc.unmutatedModes(fn, ms...)
	if mag != want {
		mc.bad(fn, "value", "MinAt(t=%d) over %d modes = %v, the smallest value at that instant is %v", t, len(ms), mag, want)
	}
	if v, ok := vals[got]; !ok || v != want {
		mc.bad(fn, "mode", "MinAt(t=%d) over %d modes returned a mode whose value there is %v (member: %v), the smallest is %v", t, len(ms), v, ok, want)
	}
}

// ---- workload -----------------------------------------------------------------------------------------------

var (
	baseUnix  = time.Unix(1_600_000_000, 0).UTC()
	baseCarry = time.Unix(-1, 999_999_998).UTC() // offsets of a few ns cross a seconds boundary and the Unix epoch
	baseZero  = time.Time{}                      // 0001-01-01T00:00:00Z, the smallest valid protobuf timestamp and Go's zero time
)

const zeroStartClass = "zero-start-time"

// classOf returns the discrete input class of a set of modes: whether one of them starts exactly at Go's zero
// time.Time (0001-01-01T00:00:00Z).
func classOf(base time.Time, specs ...modeSpec) string {
	for _, s := range specs {
		if s.HasST && base.Add(time.Duration(s.STOff)).IsZero() {
			return zeroStartClass
		}
	}
	return ""
}

func baseName(b time.Time) string {
	switch b {
	case baseUnix:
		return "unix1.6e9"
	case baseCarry:
		return "unix-1.999999998"
	}
	return "0001-01-01"
}

func modesExhaustive(r *vk.Run) {
	// single-mode operations: every list of <= 2 segments, start time absent / base / base+3ns, every instant
	lists := enumLists(2, 2, 2, 1)
	idx := 0
	for _, base := range []time.Time{baseUnix, baseCarry, baseZero} {
		for _, l := range lists {
			for _, st := range []int64{-1, 0, 3} {
				idx++
				if !r.Mine(idx) {
					continue
				}
				spec := modeSpec{Segs: l, HasST: st >= 0, STOff: max(st, 0), Meta: idx%2 == 0, Voltage: 240}
				c := &caseCtx{r: r, unit: 1, class: classOf(base, spec),
					desc:   fmt.Sprintf("exhaustive mode base=%s %v", baseName(base), spec),
					replay: map[string]any{"stream": "exh-mode", "base": baseName(base), "mode": spec}}
				checkMode(newModeCtx(c, base), newShadowMode(spec, base))
				r.Distinct("exh-mode:" + baseName(base) + spec.String())
				r.Count("exhaustive-modes", 1)
			}
		}
	}
	// Sum: every ordered pair (thorough: triple) of modes over a pool of lists x start {absent, +0, +1, +2 ns}
	pool := enumLists(1, 2, 2, 1)
	pool = append(pool,
		listSpec{{Mag: 1, Len: 1}, {Mag: 2, Len: 2}},
		listSpec{{Mag: 0, Len: 1}, {Mag: 1, Len: 1}},
		listSpec{{Mag: 2, Len: 1}, {Mag: 0, Inf: true}},
		listSpec{{Mag: 1, Len: 0}, {Mag: 1, Len: 2}},
		listSpec{{Mag: 0, Len: 0}, {Mag: 2, Inf: true}},
	)
	var specs []modeSpec
	for _, l := range pool {
		for _, st := range []int64{-1, 0, 1, 2} {
			specs = append(specs, modeSpec{Segs: l, HasST: st >= 0, STOff: max(st, 0)})
		}
	}
	sum := func(base time.Time, group ...modeSpec) {
		idx++
		if !r.Mine(idx) {
			return
		}
		c := &caseCtx{r: r, unit: 1, class: classOf(base, group...),
			desc:   fmt.Sprintf("exhaustive mode sum base=%s %v", baseName(base), group),
			replay: map[string]any{"stream": "exh-mode-sum", "base": baseName(base), "modes": group}}
		mc := newModeCtx(c, base)
		ms := make([]*shadowMode, len(group))
		for i, s := range group {
			ms[i] = newShadowMode(s, base)
		}
		checkModeSum(mc, ms)
		r.Distinct(fmt.Sprintf("exh-mode-sum:%s%v", baseName(base), group))
		r.Count(fmt.Sprintf("exhaustive-mode-sum-%d", len(group)), 1)
	}
	for _, base := range []time.Time{baseUnix, baseZero} {
		for _, a := range specs {
			sum(base, a)
			for _, b := range specs {
				sum(base, a, b)
			}
		}
	}
	if !r.Quick() {
		for _, a := range specs {
			for _, b := range specs {
				for _, d := range specs {
					sum(baseCarry, a, b, d)
				}
			}
		}
	}
	r.Require("exhaustive-modes", 3*3*len(lists))
	r.Require("exhaustive-mode-sum-2", 2*len(specs)*len(specs))
}

// modesRandom turns the lists of a random case into modes and runs the mode-level checks.
func modesRandom(c *caseCtx, rng *vk.Rand, lists []listSpec) {
	base := baseUnix
	switch rng.Intn(8) {
	case 0, 1:
		base = baseCarry
	case 2:
		base = baseZero
	}
	specs := make([]modeSpec, len(lists))
	desc := " modes(base=" + baseName(base) + "):"
	for i, l := range lists {
		specs[i] = modeSpec{Segs: l, HasST: rng.Chance(2, 3), Meta: rng.Bool(), Voltage: rng.Range(0, 3) * 120}
		if specs[i].HasST {
			specs[i].STOff = int64(rng.Range(0, 5)) * c.unit
			if rng.Chance(1, 6) {
				specs[i].STOff += int64(rng.Range(0, 2))
			}
		}
		desc += " " + specs[i].String()
	}
	mcase := *c
	mcase.desc += desc
	mcase.class = classOf(base, specs...)
	mcase.replay = map[string]any{"parent": c.replay, "base": baseName(base), "modes": specs}
	mc := newModeCtx(&mcase, base)
	ms := make([]*shadowMode, len(specs))
	for i, s := range specs {
		ms[i] = newShadowMode(s, base)
	}
	checkMode(mc, ms[rng.Intn(len(ms))])
	for j := 1; j <= len(ms); j++ {
		checkModeSum(mc, ms[:j])
	}
	var breaks [][]int64
	for _, m := range ms {
		breaks = append(breaks, m.f.breaks(m.spec.STOff))
	}
	pts := samplePoints(c.unit, breaks...)
	for k := 0; k < 4; k++ {
		checkMinAt(mc, ms, pts[rng.Intn(len(pts))])
	}
	c.r.Distinct("rnd-modes:" + mcase.desc)
	if mcase.class != "" {
		c.r.Count("random-mode-cases-with-zero-start-time", 1)
	}
}
