package main

// Independent reference for the electric segment/mode algebra: a segment list is read as a step function of
// time f(t) (t in integer nanoseconds from the start of the list, absent = 0), and every library result is
// judged by evaluating such functions point by point. Nothing in this file calls pkg/trait/electricpb.

import (
	"fmt"
	"math"
	"sort"
	"strings"
	"time"

	"github.com/smart-core-os/sc-api/go/traits"
	"google.golang.org/protobuf/proto"
	"google.golang.org/protobuf/types/known/durationpb"
	"google.golang.org/protobuf/types/known/timestamppb"
)

type seg = traits.ElectricMode_Segment

// segSpec is the plain-data description of one generated segment (JSON-able, used for replay and descriptors).
type segSpec struct {
	Mag   int   `json:"m"`
	Len   int64 `json:"len_ns"` // ignored when Inf
	Inf   bool  `json:"inf,omitempty"`
	Fixed bool  `json:"fixed_shape,omitempty"`
}

type listSpec []segSpec

func (l listSpec) String() string {
	if len(l) == 0 {
		return "[]"
	}
	var sb strings.Builder
	sb.WriteByte('[')
	for i, s := range l {
		if i > 0 {
			sb.WriteByte(' ')
		}
		if s.Inf {
			fmt.Fprintf(&sb, "%dxINF", s.Mag)
		} else {
			fmt.Fprintf(&sb, "%dx%d", s.Mag, s.Len)
		}
		if s.Fixed {
			sb.WriteByte('f')
		}
	}
	sb.WriteByte(']')
	return sb.String()
}

func newDuration(ns int64) *durationpb.Duration {
	return &durationpb.Duration{Seconds: ns / 1_000_000_000, Nanos: int32(ns % 1_000_000_000)}
}

func (s segSpec) build() *seg {
	out := &seg{Magnitude: float32(s.Mag)}
	if !s.Inf {
		out.Length = newDuration(s.Len)
	}
	if s.Fixed {
		out.Shape = &traits.ElectricMode_Segment_Fixed{Fixed: float32(s.Mag)}
	}
	return out
}

// piece is one maximal stretch of a segment list: [start, end) or [start, +inf).
type piece struct {
	start, end int64
	inf        bool
	mag        float32
	idx        int // index of the segment in the list
}

func (p piece) positive() bool { return p.inf || p.end > p.start }

func (p piece) covers(t int64) bool { return t >= p.start && (p.inf || t < p.end) }

// stepFn is a segment list read as a function of time.
type stepFn struct {
	pieces   []piece
	total    int64 // summed length up to (not including) the first infinite segment
	infinite bool
	n        int // number of segments in the list it was read from
}

// readFn reads a segment list. Segments after the first one without a length are unreachable and ignored.
// problem is non-empty if the list cannot be read as a function at all.
func readFn(segs []*seg) (f stepFn, problem string) {
	f.n = len(segs)
	var cur int64
	for i, s := range segs {
		if s == nil {
			return f, fmt.Sprintf("element %d is nil", i)
		}
		if s.Length == nil {
			f.pieces = append(f.pieces, piece{start: cur, inf: true, mag: s.Magnitude, idx: i})
			f.infinite = true
			break
		}
		l := s.Length.Seconds*1_000_000_000 + int64(s.Length.Nanos)
		if l < 0 {
			return f, fmt.Sprintf("element %d has negative length %d", i, l)
		}
		f.pieces = append(f.pieces, piece{start: cur, end: cur + l, mag: s.Magnitude, idx: i})
		cur += l
	}
	f.total = cur
	return f, ""
}

// at returns the value of the function at t and whether a segment covers t.
func (f stepFn) at(t int64) (float32, bool) {
	if t < 0 {
		return 0, false
	}
	for _, p := range f.pieces {
		if p.positive() && p.covers(t) {
			return p.mag, true
		}
	}
	return 0, false
}

// val is at with absent = 0.
func (f stepFn) val(t int64) float32 { v, _ := f.at(t); return v }

// cover returns the piece covering t, or nil.
func (f stepFn) cover(t int64) *piece {
	if t < 0 {
		return nil
	}
	for i := range f.pieces {
		if f.pieces[i].positive() && f.pieces[i].covers(t) {
			return &f.pieces[i]
		}
	}
	return nil
}

// breaks returns every breakpoint of the function shifted by off.
func (f stepFn) breaks(off int64) []int64 {
	out := []int64{off}
	for _, p := range f.pieces {
		out = append(out, p.start+off)
		if !p.inf {
			out = append(out, p.end+off)
		}
	}
	return out
}

// samplePoints returns the points at which functions with the given breakpoints are compared: every breakpoint
// and its two neighbours, every midpoint between consecutive breakpoints, one point a unit before the first and
// one a unit beyond the last breakpoint; if the whole range is short, every integer of it.
func samplePoints(unit int64, breakLists ...[]int64) []int64 {
	var bs []int64
	for _, l := range breakLists {
		bs = append(bs, l...)
	}
	if len(bs) == 0 {
		bs = []int64{0}
	}
	sort.Slice(bs, func(i, j int) bool { return bs[i] < bs[j] })
	u := bs[:1]
	for _, b := range bs[1:] {
		if b != u[len(u)-1] {
			u = append(u, b)
		}
	}
	lo, hi := u[0], u[len(u)-1]
	set := map[int64]struct{}{}
	if hi-lo <= 48 {
		for t := lo - 2; t <= hi+2; t++ {
			set[t] = struct{}{}
		}
	}
	for i, b := range u {
		set[b-1], set[b], set[b+1] = struct{}{}, struct{}{}, struct{}{}
		if i > 0 {
			set[u[i-1]+(b-u[i-1])/2] = struct{}{}
		}
	}
	set[lo-unit], set[hi+unit] = struct{}{}, struct{}{}
	out := make([]int64, 0, len(set))
	for t := range set {
		out = append(out, t)
	}
	sort.Slice(out, func(i, j int) bool { return out[i] < out[j] })
	return out
}

// ---- shadow copies ------------------------------------------------------------------------------------------

func sameSeg(a, b *seg) bool {
	if a == nil || b == nil {
		return a == b
	}
	if math.Float32bits(a.Magnitude) != math.Float32bits(b.Magnitude) {
		return false
	}
	if (a.Length == nil) != (b.Length == nil) {
		return false
	}
	if a.Length != nil && (a.Length.Seconds != b.Length.Seconds || a.Length.Nanos != b.Length.Nanos) {
		return false
	}
	as, aok := a.Shape.(*traits.ElectricMode_Segment_Fixed)
	bs, bok := b.Shape.(*traits.ElectricMode_Segment_Fixed)
	if (a.Shape == nil) != (b.Shape == nil) || aok != bok {
		return false
	}
	if aok && (as == nil) != (bs == nil) {
		return false
	}
	if aok && as != nil && math.Float32bits(as.Fixed) != math.Float32bits(bs.Fixed) {
		return false
	}
	return true
}

// shadowList is an argument list handed to the library together with what is needed to notice any change to
// it: the element pointers, deep copies of the elements, and two sentinel elements in the spare capacity of the
// slice (an append by the callee would overwrite them).
type shadowList struct {
	spec    listSpec
	backing []*seg
	n       int
	ptrs    []*seg
	clones  []*seg
	f       stepFn
}

func newShadowList(spec listSpec) *shadowList {
	s := &shadowList{spec: spec, n: len(spec)}
	s.backing = make([]*seg, s.n+2)
	for i, sp := range spec {
		s.backing[i] = sp.build()
	}
	s.backing[s.n] = &seg{Magnitude: 77, Length: newDuration(77)}
	s.backing[s.n+1] = &seg{Magnitude: 78, Length: newDuration(78)}
	s.ptrs = append([]*seg(nil), s.backing...)
	for _, p := range s.backing {
		s.clones = append(s.clones, proto.Clone(p).(*seg))
	}
	s.f, _ = readFn(s.backing[:s.n])
	return s
}

// list returns the argument slice: length n, capacity n+2.
func (s *shadowList) list() []*seg { return s.backing[:s.n] }

// changed returns a description of the first difference from the state at construction, or "".
func (s *shadowList) changed(deep bool) string {
	for i := range s.backing {
		what := fmt.Sprintf("element %d", i)
		if i >= s.n {
			what = fmt.Sprintf("spare capacity slot %d (beyond len)", i-s.n)
		}
		if s.backing[i] != s.ptrs[i] {
			return what + " of the argument slice was replaced"
		}
		if !sameSeg(s.ptrs[i], s.clones[i]) || (deep && !proto.Equal(s.ptrs[i], s.clones[i])) {
			return fmt.Sprintf("%s changed from %v to %v", what, s.clones[i], s.ptrs[i])
		}
	}
	return ""
}

// ---- modes --------------------------------------------------------------------------------------------------

// modeSpec describes a generated mode: a segment list and an optional start time given as an offset (ns) from
// the case's base time.
type modeSpec struct {
	Segs    listSpec `json:"segments"`
	HasST   bool     `json:"has_start_time"`
	STOff   int64    `json:"start_offset_ns"`
	Meta    bool     `json:"metadata,omitempty"`
	Voltage int      `json:"voltage,omitempty"`
}

func (m modeSpec) String() string {
	if m.HasST {
		return fmt.Sprintf("@%d%v", m.STOff, m.Segs)
	}
	return fmt.Sprintf("@-%v", m.Segs)
}

type shadowMode struct {
	spec  modeSpec
	mode  *traits.ElectricMode
	clone *traits.ElectricMode
	segs  []*seg // the element pointers of mode.Segments at construction
	f     stepFn
}

func newShadowMode(spec modeSpec, base time.Time) *shadowMode {
	m := &traits.ElectricMode{}
	for _, sp := range spec.Segs {
		m.Segments = append(m.Segments, sp.build())
	}
	if spec.HasST {
		m.StartTime = timestamppb.New(base.Add(time.Duration(spec.STOff)))
	}
	if spec.Meta {
		m.Id, m.Title, m.Description, m.Normal = "id-1", "a title", "a description", true
		m.Voltage = float32(spec.Voltage)
	}
	s := &shadowMode{spec: spec, mode: m, clone: proto.Clone(m).(*traits.ElectricMode)}
	s.segs = append([]*seg(nil), m.Segments...)
	s.f, _ = readFn(m.Segments)
	return s
}

func (s *shadowMode) changed() string {
	if len(s.mode.Segments) == len(s.segs) {
		for i := range s.segs {
			if s.mode.Segments[i] != s.segs[i] {
				return fmt.Sprintf("Segments[%d] of the argument mode was replaced", i)
			}
		}
	}
	if !proto.Equal(s.mode, s.clone) {
		return fmt.Sprintf("argument mode changed from %v to %v", s.clone, s.mode)
	}
	return ""
}
