package main

// Electric segment part of C18: pkg/trait/electricpb/segmentpb read against the step-function reference of
// stepfn.go. The mode-level part is in modes.go; both are driven from segments() below.

import (
	"fmt"
	"strings"
	"time"

	"github.com/smart-core-os/sc-golang/internal/verif/vk"
	"github.com/smart-core-os/sc-golang/pkg/trait/electricpb/segmentpb"
)

// caseCtx carries what a violation report of the current case needs.
type caseCtx struct {
	r      *vk.Run
	desc   string
	replay any
	unit   int64
	class  string // appended to mode-level keys for a discrete input class (e.g. a start time equal to Go's zero time)
}

func (c *caseCtx) bad(fn, clause, format string, a ...any) {
	key := "C18/" + fn + "/" + clause
	if c.class != "" && strings.HasPrefix(fn, "modepb.") {
		key += "/" + c.class
	}
	c.r.Violation(key, fmt.Sprintf(format, a...)+" | case: "+c.desc, c.replay)
}

// call runs one library call with panic capture and counts it as an evaluation.
func (c *caseCtx) call(fn string, f func()) bool {
	panicked, what := vk.Recover(f)
	c.r.Eval(1)
	c.r.Count("calls:"+fn, 1)
	if panicked {
		c.bad(fn, "panic", "%s panicked: %s", fn, what)
		return false
	}
	return true
}

// unmutated verifies the shadow copies of the list arguments after a call to fn.
func (c *caseCtx) unmutated(fn string, lists ...*shadowList) {
	for i, l := range lists {
		if why := l.changed(false); why != "" {
			c.bad(fn, "mutates-input", "%s changed its argument list %d %v: %s", fn, i, l.spec, why)
			// re-arm so that the same change is attributed only once
			*l = *newShadowList(l.spec)
		}
	}
}

func dur(ns int64) time.Duration { return time.Duration(ns) }

// checkList exercises every single-list operation of segmentpb on one list, at every sample point.
func checkList(c *caseCtx, l *shadowList) {
	r := c.r
	f := l.f
	pts := samplePoints(c.unit, f.breaks(0))

	// Duration
	var gotTotal time.Duration
	var gotInf bool
	if c.call("segmentpb.Duration", func() { gotTotal, gotInf = segmentpb.Duration(l.list()...) }) {
		if int64(gotTotal) != f.total || gotInf != f.infinite {
			c.bad("segmentpb.Duration", "value", "Duration(%v) = (%d, %v), summed lengths are (%d, %v)", l.spec, gotTotal, gotInf, f.total, f.infinite)
		}
	}
	c.unmutated("segmentpb.Duration", l)

	// MaxMagnitude / Max: the largest value the function takes (magnitudes are >= 0, absent = 0)
	var wantMax float32
	for _, t := range pts {
		wantMax = max(wantMax, f.val(t))
	}
	var gotMax float32
	if c.call("segmentpb.MaxMagnitude", func() { gotMax = segmentpb.MaxMagnitude(l.list()...) }) {
		if gotMax != wantMax {
			c.bad("segmentpb.MaxMagnitude", "value", "MaxMagnitude(%v) = %v, the largest value of the step function at %d sample points is %v", l.spec, gotMax, len(pts), wantMax)
		}
	}
	c.unmutated("segmentpb.MaxMagnitude", l)
	var gotIdx int
	if c.call("segmentpb.Max", func() { gotIdx = segmentpb.Max(l.list()...) }) {
		checkMaxIndex(c, "segmentpb.Max", f, l.spec, -1<<62, gotIdx)
	}
	c.unmutated("segmentpb.Max", l)

	// point queries
	for _, d := range pts {
		var el time.Duration
		var ix int
		if c.call("segmentpb.ActiveAt", func() { el, ix = segmentpb.ActiveAt(dur(d), l.list()...) }) {
			checkActiveAt(c, "segmentpb.ActiveAt", fmt.Sprintf("ActiveAt(%d, %v)", d, l.spec), f, d, int64(el), ix)
		}
		var lv float32
		var ok bool
		if c.call("segmentpb.MagnitudeAt", func() { lv, ok = segmentpb.MagnitudeAt(dur(d), l.list()...) }) {
			checkMagnitudeAt(c, "segmentpb.MagnitudeAt", fmt.Sprintf("MagnitudeAt(%d, %v)", d, l.spec), f, d, lv, ok)
		}
		var ma int
		if c.call("segmentpb.MaxAfter", func() { ma = segmentpb.MaxAfter(dur(d), l.list()...) }) {
			checkMaxIndex(c, "segmentpb.MaxAfter", f, l.spec, d, ma)
		}
		c.unmutated("segmentpb.ActiveAt|MagnitudeAt|MaxAfter", l)
		if p := f.cover(d); p != nil {
			if d == p.start {
				r.Count("query-at-breakpoint", 1)
			} else {
				r.Count("query-inside-segment", 1)
			}
		} else if d >= 0 {
			r.Count("query-beyond-end", 1)
		} else {
			r.Count("query-negative", 1)
		}
	}

	// Shift by every sample point, both directions
	for _, p := range pts {
		checkShift(c, l, p)
		if p != 0 {
			checkShift(c, l, -p)
		}
	}

	// Cut of every segment around its own bounds
	for i := range l.spec {
		sp := l.spec[i]
		single, _ := readFn(l.list()[i : i+1])
		for _, d := range samplePoints(c.unit, single.breaks(0)) {
			checkCut(c, l, i, sp, single, d)
		}
	}
}

func checkActiveAt(c *caseCtx, fn, what string, f stepFn, d, el int64, ix int) {
	if d < 0 {
		// documented: "If d<0, (d,0) is returned" / "index will be 0 and elapsed will be negative, indicating how far before"
		if el != d || ix != 0 {
			c.bad(fn, "negative", "%s = (%d, %d), documented result before the start is (%d, 0)", what, el, ix, d)
		}
		return
	}
	wantEl, wantIx := f.total, f.n
	if p := f.cover(d); p != nil {
		wantEl, wantIx = p.start, p.idx
	}
	if ix != wantIx {
		c.bad(fn, "index", "%s = (%d, %d), the segment covering that instant is %d (len(segments) = none)", what, el, ix, wantIx)
	}
	if el != wantEl {
		c.bad(fn, "elapsed", "%s = (%d, %d), time elapsed before that segment is %d", what, el, ix, wantEl)
	}
}

func checkMagnitudeAt(c *caseCtx, fn, what string, f stepFn, d int64, lv float32, ok bool) {
	wantV, wantOK := f.at(d)
	if ok != wantOK {
		c.bad(fn, "ok", "%s = (%v, %v), a segment covers that instant: %v", what, lv, ok, wantOK)
	}
	if lv != wantV {
		c.bad(fn, "value", "%s = (%v, %v), the step function there is %v", what, lv, ok, wantV)
	}
}

// checkMaxIndex judges Max (from = very negative) and MaxAfter(from): the result must be a non-zero-length
// segment that ends after from and has the largest magnitude of all such segments (any of them on a tie), or
// len(segments) if there is none.
func checkMaxIndex(c *caseCtx, fn string, f stepFn, spec fmt.Stringer, from int64, got int) {
	var best float32
	cands := 0
	for _, p := range f.pieces {
		if p.positive() && (p.inf || p.end > from) {
			if cands == 0 || p.mag > best {
				best = p.mag
			}
			cands++
		}
	}
	what := fmt.Sprintf("%s(%v)", fn, spec)
	if from > -1<<62 {
		what = fmt.Sprintf("%s(%d, %v)", fn, from, spec)
	}
	if cands == 0 {
		if got != f.n {
			c.bad(fn, "none", "%s = %d, there is no non-zero-length segment in range so len(segments)=%d is documented", what, got, f.n)
		}
		return
	}
	for _, p := range f.pieces {
		if p.idx == got {
			if !p.positive() || !(p.inf || p.end > from) {
				c.bad(fn, "index", "%s = %d, which is a zero-length segment or one that ended before the instant", what, got)
			} else if p.mag != best {
				c.bad(fn, "index", "%s = %d (magnitude %v), the largest magnitude in range is %v", what, got, p.mag, best)
			}
			return
		}
	}
	c.bad(fn, "index", "%s = %d, not the index of a reachable segment (largest magnitude in range is %v)", what, got, best)
}

func checkShift(c *caseCtx, l *shadowList, d int64) {
	const fn = "segmentpb.Shift"
	var out []*seg
	if !c.call(fn, func() { out = segmentpb.Shift(dur(d), l.list()...) }) {
		return
	}
	c.unmutated(fn, l)
	g, problem := readFn(out)
	what := fmt.Sprintf("Shift(%d, %v)", d, l.spec)
	if problem != "" {
		c.bad(fn, "malformed-result", "%s = %v: %s", what, out, problem)
		return
	}
	f := l.f
	for _, t := range samplePoints(c.unit, f.breaks(0), f.breaks(d), g.breaks(0)) {
		// a list has no time before its own start: a shift to the left drops what moves before 0
		want := f.val(t - d)
		if t < 0 {
			want = 0
		}
		if got := g.val(t); got != want {
			c.bad(fn, "translation", "%s = %v has value %v at t=%d, the argument has %v at t-d=%d", what, out, got, t, want, t-d)
			break
		}
	}
	switch {
	case d > 0 && len(l.spec) > 0 && l.spec[0].Mag == 0:
		c.r.Count("shift-right-extends-first", 1)
	case d > 0:
		c.r.Count("shift-right-prepends", 1)
	case d < 0 && f.cover(-d) != nil && f.cover(-d).start != -d:
		c.r.Count("shift-left-cuts-inside-segment", 1)
	case d < 0 && f.cover(-d) != nil:
		c.r.Count("shift-left-at-breakpoint", 1)
	case d < 0:
		c.r.Count("shift-left-beyond-end", 1)
	}
}

func checkCut(c *caseCtx, l *shadowList, i int, sp segSpec, single stepFn, d int64) {
	const fn = "segmentpb.Cut"
	var before, after *seg
	var outside bool
	s := l.list()[i]
	if !c.call(fn, func() { before, after, outside = segmentpb.Cut(dur(d), s) }) {
		return
	}
	c.unmutated(fn, l)
	what := fmt.Sprintf("Cut(%d, %v)", d, listSpec{sp})
	var parts []*seg
	if before != nil {
		parts = append(parts, before)
	}
	if after != nil {
		parts = append(parts, after)
	}
	bf, p1 := readFn([]*seg{before}[:b2i(before != nil)])
	af, p2 := readFn([]*seg{after}[:b2i(after != nil)])
	g, p3 := readFn(parts)
	if p1+p2+p3 != "" {
		c.bad(fn, "malformed-result", "%s = (%v, %v): %s%s%s", what, before, after, p1, p2, p3)
		return
	}
	// (a) the two parts read one after the other are the same function as the segment
	for _, t := range samplePoints(c.unit, single.breaks(0), g.breaks(0), []int64{d}) {
		if got, want := g.val(t), single.val(t); got != want {
			c.bad(fn, "function", "%s = (%v, %v): before followed by after has value %v at t=%d, the segment has %v", what, before, after, got, t, want)
			break
		}
	}
	// (b) no length is lost or invented
	if !single.infinite && (g.infinite || g.total != single.total) {
		c.bad(fn, "length", "%s = (%v, %v): the parts last (%d, infinite=%v), the segment lasts %d", what, before, after, g.total, g.infinite, single.total)
	}
	if single.infinite && !g.infinite {
		c.bad(fn, "length", "%s = (%v, %v): an infinite segment was cut into finite parts", what, before, after)
	}
	// (c) the split is along d: before holds what lies before d, after what lies at or after d
	wantBefore := min(max(d, 0), single.total)
	if single.infinite {
		wantBefore = max(d, 0)
	}
	if bf.infinite || bf.total != wantBefore {
		c.bad(fn, "position", "%s = (%v, %v): the part before the cut lasts (%d, infinite=%v), expected %d", what, before, after, bf.total, bf.infinite, wantBefore)
	}
	if !single.infinite && !af.infinite && af.total != single.total-wantBefore {
		c.bad(fn, "position", "%s = (%v, %v): the part after the cut lasts %d, expected %d", what, before, after, af.total, single.total-wantBefore)
	}
	switch {
	case d < 0:
		c.r.Count("cut-before-start", 1)
	case d == 0:
		c.r.Count("cut-at-start", 1)
	case single.infinite:
		c.r.Count("cut-infinite-segment", 1)
	case d < single.total:
		c.r.Count("cut-inside", 1)
	case d == single.total:
		c.r.Count("cut-at-end", 1)
	default:
		c.r.Count("cut-beyond-end", 1)
	}
	if outside {
		c.r.Count("cut-outside-flag-true(observed, not judged)", 1)
	}
}

func b2i(b bool) int {
	if b {
		return 1
	}
	return 0
}

// checkSum compares segmentpb.Sum of the given lists with pointwise addition.
func checkSum(c *caseCtx, lists []*shadowList) {
	const fn = "segmentpb.Sum"
	args := make([][]*seg, len(lists), len(lists)+1)
	var specs []listSpec
	breaks := [][]int64{}
	for i, l := range lists {
		args[i] = l.list()
		specs = append(specs, l.spec)
		breaks = append(breaks, l.f.breaks(0))
	}
	argsCopy := append([][]*seg(nil), args...)
	var out []*seg
	if !c.call(fn, func() { out = segmentpb.Sum(args...) }) {
		return
	}
	c.unmutated(fn, lists...)
	for i := range args {
		if len(args[i]) != len(argsCopy[i]) || (len(args[i]) > 0 && &args[i][0] != &argsCopy[i][0]) {
			c.bad(fn, "mutates-input", "Sum replaced element %d of its variadic argument", i)
		}
	}
	what := fmt.Sprintf("Sum(%v)", specs)
	g, problem := readFn(out)
	if problem != "" {
		c.bad(fn, "malformed-result", "%s = %v: %s", what, out, problem)
		return
	}
	breaks = append(breaks, g.breaks(0))
	for _, t := range samplePoints(c.unit, breaks...) {
		var want float32
		for _, l := range lists {
			want += l.f.val(t)
		}
		if got := g.val(t); got != want {
			c.bad(fn, "pointwise", "%s = %v has value %v at t=%d, the arguments add up to %v there", what, out, got, t, want)
			break
		}
	}
	nInf, nZeroLen := 0, 0
	for _, l := range lists {
		if l.f.infinite {
			nInf++
		}
		for _, s := range l.spec {
			if !s.Inf && s.Len == 0 && s.Mag != 0 {
				nZeroLen++
			}
		}
	}
	c.r.Count(fmt.Sprintf("sum-of-%d-lists", min(len(lists), 4)), 1)
	if nInf > 0 {
		c.r.Count("sum-with-infinite-segment", 1)
	}
	if nZeroLen > 0 {
		c.r.Count("sum-with-zero-length-nonzero-magnitude-segment", 1)
	}
}

// ---- workload -----------------------------------------------------------------------------------------------

// enumLists returns every list of at most maxK segments with magnitudes 0..maxMag and lengths 0..maxLen units,
// the final segment optionally infinite.
func enumLists(maxK, maxMag int, maxLen int64, unit int64) []listSpec {
	out := []listSpec{{}}
	var rec func(prefix listSpec)
	rec = func(prefix listSpec) {
		for m := 0; m <= maxMag; m++ {
			inf := append(append(listSpec{}, prefix...), segSpec{Mag: m, Inf: true})
			out = append(out, inf)
			for l := int64(0); l <= maxLen; l++ {
				next := append(append(listSpec{}, prefix...), segSpec{Mag: m, Len: l * unit})
				out = append(out, next)
				if len(next) < maxK {
					rec(next)
				}
			}
		}
	}
	if maxK > 0 {
		rec(nil)
	}
	return out
}

var units = []int64{1, 1, 2, 1_000_000_000, 1_500_000_000, 999_999_999, 3_600_000_000_000}

func genList(rng *vk.Rand, unit int64) listSpec {
	n := rng.Range(0, 6)
	l := make(listSpec, 0, n)
	for i := 0; i < n; i++ {
		s := segSpec{Mag: rng.Range(0, 4), Len: int64(rng.Range(0, 4)) * unit, Fixed: rng.Chance(1, 6)}
		if rng.Chance(1, 3) {
			s.Mag = 0
		}
		if rng.Chance(1, 5) {
			s.Len = 0
		}
		if i == n-1 && rng.Chance(1, 4) {
			s.Inf = true
		}
		l = append(l, s)
	}
	return l
}

func segments(r *vk.Run) {
	// 1. bounded-exhaustive: every list of <= K segments over magnitudes {0,1,2} and lengths {0,1,2} ns (final
	// segment optionally infinite), every operation at every integer instant around it.
	k := r.Pick(3, 4)
	small := enumLists(k, 2, 2, 1)
	for i, spec := range small {
		if !r.Mine(i) {
			continue
		}
		c := &caseCtx{r: r, unit: 1, desc: "exhaustive list " + spec.String(), replay: map[string]any{"stream": "exh-list", "list": spec}}
		l := newShadowList(spec)
		checkList(c, l)
		checkSum(c, []*shadowList{l})
		if why := l.changed(true); why != "" {
			c.bad("segmentpb", "mutates-input", "after all operations: %s", why)
		}
		r.Distinct("exh-list:" + spec.String())
		r.Count("exhaustive-lists", 1)
	}
	// 2. bounded-exhaustive Sum: every ordered pair (thorough: also triples of the <=1-segment lists) of lists
	// with <= 2 segments.
	pairs := enumLists(2, 2, 2, 1)
	idx := 0
	for _, a := range pairs {
		for _, b := range pairs {
			idx++
			if !r.Mine(idx) {
				continue
			}
			c := &caseCtx{r: r, unit: 1, desc: "exhaustive sum " + a.String() + "+" + b.String(), replay: map[string]any{"stream": "exh-sum", "lists": []listSpec{a, b}}}
			checkSum(c, []*shadowList{newShadowList(a), newShadowList(b)})
			r.Distinct("exh-sum:" + a.String() + b.String())
			r.Count("exhaustive-sum-pairs", 1)
		}
	}
	if !r.Quick() {
		singles := enumLists(1, 2, 2, 1)
		for _, a := range singles {
			for _, b := range pairs {
				for _, d := range singles {
					idx++
					if !r.Mine(idx) {
						continue
					}
					c := &caseCtx{r: r, unit: 1, desc: "exhaustive sum " + a.String() + "+" + b.String() + "+" + d.String(), replay: map[string]any{"stream": "exh-sum", "lists": []listSpec{a, b, d}}}
					checkSum(c, []*shadowList{newShadowList(a), newShadowList(b), newShadowList(d)})
					r.Distinct("exh-sum:" + a.String() + b.String() + d.String())
					r.Count("exhaustive-sum-triples", 1)
				}
			}
		}
	}
	// 3. mode level, bounded-exhaustive and random (modes.go)
	modesExhaustive(r)

	// 4. random: 1-4 lists of 0-6 segments in a random time unit; every operation on every list, Sum of every
	// prefix of the lists, and the same lists as modes with and without start times.
	n := r.Pick(20000, 1000000)
	for i := 0; i < n; i++ {
		if !r.Mine(i) {
			continue
		}
		rng := r.CaseRand("segments", i)
		unit := units[rng.Intn(len(units))]
		nl := rng.Range(1, 4)
		specs := make([]listSpec, nl)
		desc := fmt.Sprintf("u=%d", unit)
		for j := range specs {
			specs[j] = genList(rng, unit)
			desc += " " + specs[j].String()
		}
		c := &caseCtx{r: r, unit: unit, desc: fmt.Sprintf("random case %d (seed %d): %s", i, r.Seed, desc),
			replay: map[string]any{"stream": "segments", "case": i, "seed": r.Seed, "unit_ns": unit, "lists": specs}}
		lists := make([]*shadowList, nl)
		nonTrivial := false
		for j, sp := range specs {
			lists[j] = newShadowList(sp)
			if len(sp) > 0 {
				nonTrivial = true
			}
		}
		// single-list operations on one of the lists (all of them would only repeat the same code paths)
		checkList(c, lists[rng.Intn(nl)])
		for j := 1; j <= nl; j++ {
			checkSum(c, lists[:j])
		}
		for j, l := range lists {
			if why := l.changed(true); why != "" {
				c.bad("segmentpb", "mutates-input", "list %d after all operations: %s", j, why)
			}
		}
		modesRandom(c, rng, specs)
		if nonTrivial {
			r.Distinct("rnd:" + desc)
			r.Count("random-cases-nontrivial", 1)
		}
		if r.WantSample("segment-case") {
			var out []*seg
			args := make([][]*seg, nl)
			for j, sp := range specs {
				args[j] = newShadowList(sp).list()
			}
			out = segmentpb.Sum(args...)
			g, _ := readFn(out)
			r.Sample("segment-case", map[string]any{"unit_ns": unit, "lists": fmt.Sprint(specs), "sum_result_pieces": fmt.Sprint(g.pieces)})
		}
	}

	r.Require("exhaustive-lists", len(small))
	r.Require("exhaustive-sum-pairs", len(pairs)*len(pairs))
	r.Require("random-cases-nontrivial", n*9/10)
	for _, k := range []string{
		"query-at-breakpoint", "query-inside-segment", "query-beyond-end", "query-negative",
		"shift-right-extends-first", "shift-right-prepends", "shift-left-cuts-inside-segment", "shift-left-at-breakpoint", "shift-left-beyond-end",
		"cut-before-start", "cut-at-start", "cut-infinite-segment", "cut-inside", "cut-at-end", "cut-beyond-end",
		"sum-of-1-lists", "sum-of-2-lists", "sum-of-3-lists", "sum-of-4-lists", "sum-with-infinite-segment", "sum-with-zero-length-nonzero-magnitude-segment",
	} {
		r.Require(k, 1000)
	}
	for _, fn := range []string{"segmentpb.ActiveAt", "segmentpb.MagnitudeAt", "segmentpb.Duration", "segmentpb.MaxMagnitude", "segmentpb.Max",
		"segmentpb.MaxAfter", "segmentpb.Cut", "segmentpb.Shift", "segmentpb.Sum"} {
		r.Require("calls:"+fn, 10000)
	}
}
