package main

import "github.com/smart-core-os/sc-golang/internal/verif/vk"

func segments(r *vk.Run) {}
