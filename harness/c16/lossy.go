package main

import (
	"context"
	"fmt"
	"strings"
	"sync"
	"time"

	"github.com/smart-core-os/sc-api/go/traits"
	"google.golang.org/protobuf/types/known/timestamppb"

	"google.golang.org/protobuf/proto"

	"github.com/smart-core-os/sc-golang/internal/testproto"
	"github.com/smart-core-os/sc-golang/internal/verif/vk"
	"github.com/smart-core-os/sc-golang/pkg/resource"
)

// streamLossy: a Collection with an exact-equality equivalence (transitive, so no drift question arises) and a
// subscriber WITHOUT backpressure whose consumer is stalled while the writer deletes an item the subscriber holds
// and adds it again with equivalent content (and variations). The lossy stream merges such changes (REMOVE+ADD
// becomes a REPLACE); whatever it delivers after the consumer resumes must never carry a value equivalent to the
// one the subscriber holds for that id, and its fold must still equal the collection.
func streamLossy(r *vk.Run) {
	type step struct {
		op, id string
		v      int32
	}
	scripts := [][]step{
		{{"remove", "x", 0}, {"add", "x", 1}},                                      // re-add the same content
		{{"remove", "x", 0}, {"add", "x", 1}, {"update", "x", 1}},                  // ... and rewrite it
		{{"remove", "x", 0}, {"add", "x", 2}},                                      // re-add different content: must be delivered
		{{"update", "x", 2}, {"update", "x", 1}},                                   // there and back again
		{{"remove", "x", 0}, {"add", "x", 2}, {"remove", "x", 0}, {"add", "x", 1}}, // twice
		{{"update", "x", 1}},                                                       // rewrite with the same content
		{{"remove", "x", 0}, {"add", "x", 1}, {"remove", "x", 0}},                  // ends removed
	}
	mk := func(v int32) *testproto.TestAllTypes {
		return &testproto.TestAllTypes{DefaultInt32: v, DefaultString: fmt.Sprint("v", v)}
	}
	idx := 0
	for si, sc := range scripts {
		for _, padFirst := range []bool{true, false} {
			for _, uo := range []bool{false, true} {
				idx++
				if !r.Mine(idx) {
					continue
				}
				col := resource.NewCollection(resource.WithNoDuplicates(), resource.WithInitialRecord("x", mk(1)), resource.WithInitialRecord("pad", mk(7)))
				ctx, cancel := context.WithCancel(context.Background())
				ch := col.Pull(ctx, resource.WithUpdatesOnly(uo))
				var mu sync.Mutex
				cond := sync.NewCond(&mu)
				allow := 0
				held := map[string]proto.Message{}
				if uo {
					// an updates-only subscriber is told the contents out of band (here: it knows the initial records)
					held["x"], held["pad"] = mk(1), mk(7)
				}
				var delivered []string
				var bad []string
				go func() {
					for {
						mu.Lock()
						for allow == 0 {
							cond.Wait()
						}
						allow--
						mu.Unlock()
						e, ok := <-ch
						if !ok {
							return
						}
						mu.Lock()
						delivered = append(delivered, vk.ChangeJSON(e))
						if e.NewValue != nil {
							if h, ok := held[e.Id]; ok && !e.SeedValue && proto.Equal(h, e.NewValue) {
								bad = append(bad, vk.ChangeJSON(e))
							}
							held[e.Id] = e.NewValue
						} else {
							delete(held, e.Id)
						}
						mu.Unlock()
					}
				}()
				grant := func(n int) {
					mu.Lock()
					allow += n
					cond.Broadcast()
					mu.Unlock()
				}
				if !uo {
					grant(2) // the two seeds
				}
				vk.Quiesce()
				// the consumer is now stalled
				if padFirst {
					col.Update("pad", mk(8)) // occupies the forwarding goroutine, so that the next changes meet in the merge buffer
					vk.Quiesce()
				}
				var trace []string
				for _, s := range sc {
					switch s.op {
					case "remove":
						col.Delete(s.id)
					case "add":
						col.Add(s.id, mk(s.v))
					case "update":
						col.Update(s.id, mk(s.v))
					}
					trace = append(trace, fmt.Sprintf("%s(%s,%d)", s.op, s.id, s.v))
					vk.Quiesce()
				}
				grant(1000)
				if _, ok := r.MustQuiesce("c16-lossy"); !ok {
					cancel()
					return
				}
				r.Eval(1)
				r.Count("stream-lossy-scenarios", 1)
				r.Distinct(fmt.Sprintf("lossy:%d:%v:%v", si, padFirst, uo))
				mu.Lock()
				desc := fmt.Sprintf("script %v (pad first: %v, updates-only: %v); delivered: %v", trace, padFirst, uo, delivered)
				if len(bad) > 0 {
					r.Violation("C16/stream/delivered-equivalent/collection/lossy-merge", fmt.Sprintf("the subscriber already held an equivalent value when it was sent %v\n%s", bad, desc), map[string]any{"script": trace, "padFirst": padFirst, "updatesOnly": uo})
				}
				// and nothing non-equivalent may be suppressed: what the subscriber holds must equal the collection
				want := map[string]proto.Message{}
				for _, m := range col.List() {
					t := m.(*testproto.TestAllTypes)
					id := "x"
					if t.DefaultInt32 >= 7 {
						id = "pad"
					}
					want[id] = m
				}
				same := len(want) == len(held)
				for id, m := range want {
					if h, ok := held[id]; !ok || !proto.Equal(h, m) {
						same = false
					}
				}
				if !same {
					r.Violation("C16/stream/suppressed-different/collection/lossy-merge", fmt.Sprintf("after the consumer drained, the subscriber holds %d items that differ from the collection's %d\n%s", len(held), len(want), desc), map[string]any{"script": trace, "padFirst": padFirst, "updatesOnly": uo})
				}
				mu.Unlock()
				cancel()
				grant(1)
			}
		}
	}
	r.Require("stream-lossy-scenarios", 8)
}

// noDuplicatesOnChangeMessages: WithNoDuplicates is documented as WithMessageEquivalence(cmp.Equal()), and the default
// comparer does not count the change_time of a Pull response's Change message. A resource holding such Change
// messages, configured through the shortcut, therefore does not deliver a write that differs from what the
// subscriber holds in change_time only, and does deliver one that differs in anything else.
func noDuplicatesOnChangeMessages(r *vk.Run) {
	mk := func(sec int64, on traits.OnOff_State) *traits.PullOnOffResponse_Change {
		return &traits.PullOnOffResponse_Change{Name: "dev", ChangeTime: timestamppb.New(time.Unix(sec, 0)), OnOff: &traits.OnOff{State: on}}
	}
	for i, kind := range []string{"value", "collection"} {
		if !r.Mine(i) {
			continue
		}
		ctx, cancel := context.WithCancel(context.Background())
		var mu sync.Mutex
		var got []string
		note := func(m proto.Message) {
			c, _ := m.(*traits.PullOnOffResponse_Change)
			mu.Lock()
			got = append(got, fmt.Sprintf("%s@%d", c.GetOnOff().GetState(), c.GetChangeTime().GetSeconds()))
			mu.Unlock()
		}
		var write func(m proto.Message)
		if kind == "value" {
			v := resource.NewValue(resource.WithNoDuplicates(), resource.WithInitialValue(mk(100, traits.OnOff_ON)))
			ch := v.Pull(ctx, resource.WithBackpressure(true))
			go func() {
				for e := range ch {
					note(e.Value)
				}
			}()
			write = func(m proto.Message) { v.Set(m) }
		} else {
			col := resource.NewCollection(resource.WithNoDuplicates(), resource.WithInitialRecord("x", mk(100, traits.OnOff_ON)))
			ch := col.Pull(ctx, resource.WithBackpressure(true))
			go func() {
				for e := range ch {
					note(e.NewValue)
				}
			}()
			write = func(m proto.Message) { col.Update("x", m) }
		}
		vk.Quiesce()
		for _, w := range []proto.Message{mk(200, traits.OnOff_ON), mk(300, traits.OnOff_ON), mk(400, traits.OnOff_OFF), mk(500, traits.OnOff_OFF)} {
			write(w)
			vk.Quiesce()
		}
		r.Eval(1)
		r.Count("no-duplicates-on-change-messages", 1)
		r.Distinct("nodup-change|" + kind)
		mu.Lock()
		have := strings.Join(got, " ")
		mu.Unlock()
		if want := "ON@100 OFF@400"; have != want {
			r.Violation("C16/stream/no-duplicates-shortcut/change-time/"+kind, fmt.Sprintf("a %s configured with WithNoDuplicates holds Pull-response Change messages; seed ON@100, then writes ON@200, ON@300 (differ in change_time only), OFF@400, OFF@500: the subscriber received [%s], want [%s]", kind, have, want), map[string]any{"kind": kind})
		}
		cancel()
		vk.Quiesce()
	}
}
