package main

import (
	"fmt"
	"math"
	"sort"

	"google.golang.org/protobuf/encoding/protowire"
	"google.golang.org/protobuf/proto"
	pref "google.golang.org/protobuf/reflect/protoreflect"

	"github.com/smart-core-os/sc-golang/internal/verif/vk"
)

// clone is a nil-safe deep copy.
func clone(m proto.Message) proto.Message {
	if m == nil {
		return nil
	}
	return proto.Clone(m)
}

// canon is a canonical byte rendering of a message used for case descriptors and diffing (NaN-safe).
func canon(m proto.Message) string {
	if m == nil {
		return "<nil>"
	}
	if !m.ProtoReflect().IsValid() {
		return "<typed-nil:" + string(m.ProtoReflect().Descriptor().FullName()) + ">"
	}
	b, err := proto.MarshalOptions{Deterministic: true}.Marshal(m)
	if err != nil {
		return "ERR:" + err.Error()
	}
	return string(m.ProtoReflect().Descriptor().FullName()) + ":" + string(b) + "|" + string(m.ProtoReflect().GetUnknown())
}

// canonField renders one field of m canonically ("" when not populated).
func canonField(m pref.Message, fd pref.FieldDescriptor) string {
	if !m.Has(fd) {
		return ""
	}
	tmp := m.New()
	tmp.Set(fd, m.Get(fd))
	b, err := proto.MarshalOptions{Deterministic: true}.Marshal(tmp.Interface())
	if err != nil {
		return "ERR:" + err.Error()
	}
	return "=" + string(b)
}

// setFieldFrom makes dst's field fd a deep copy of src's (cleared when src does not have it).
func setFieldFrom(dst, src pref.Message, fd pref.FieldDescriptor) {
	if !src.Has(fd) {
		dst.Clear(fd)
		return
	}
	tmp := src.New()
	tmp.Set(fd, src.Get(fd))
	cl := proto.Clone(tmp.Interface()).ProtoReflect()
	dst.Set(fd, cl.Get(fd))
}

func isFloatKind(fd pref.FieldDescriptor) bool {
	return fd.Kind() == pref.FloatKind || fd.Kind() == pref.DoubleKind
}

func isChangeTime(fd pref.FieldDescriptor) bool {
	return fd.Name() == "change_time" && fd.ContainingMessage().Name() == "Change"
}

const (
	tsName  = pref.FullName("google.protobuf.Timestamp")
	durName = pref.FullName("google.protobuf.Duration")
)

// sortedKeys returns the keys of a map value in a deterministic order.
func sortedKeys(mp pref.Map) []pref.MapKey {
	var ks []pref.MapKey
	mp.Range(func(k pref.MapKey, _ pref.Value) bool { ks = append(ks, k); return true })
	sort.Slice(ks, func(i, j int) bool {
		a, b := ks[i].Interface(), ks[j].Interface()
		switch av := a.(type) {
		case string:
			return av < b.(string)
		case bool:
			return !av && b.(bool)
		case int32:
			return av < b.(int32)
		case int64:
			return av < b.(int64)
		case uint32:
			return av < b.(uint32)
		case uint64:
			return av < b.(uint64)
		}
		return fmt.Sprint(a) < fmt.Sprint(b)
	})
	return ks
}

// site is a field of a (possibly nested) message of a message tree.
type site struct {
	holder pref.Message
	fd     pref.FieldDescriptor
	path   string
	depth  int
}

// collectSites lists every field (populated or not) of m and of the messages reachable from it through populated
// singular message fields, list elements and map values, down to depth levels.
func collectSites(m pref.Message, prefix string, depth, level int, out *[]site) {
	fds := m.Descriptor().Fields()
	for i := 0; i < fds.Len(); i++ {
		fd := fds.Get(i)
		p := prefix + string(fd.Name())
		*out = append(*out, site{m, fd, p, level})
		if level >= depth || !m.Has(fd) {
			continue
		}
		switch {
		case fd.IsMap():
			if fd.MapValue().Message() == nil {
				continue
			}
			mp := m.Get(fd).Map()
			for _, k := range sortedKeys(mp) {
				collectSites(mp.Get(k).Message(), p+"["+k.String()+"].", depth, level+1, out)
			}
		case fd.IsList():
			if fd.Message() == nil {
				continue
			}
			l := m.Get(fd).List()
			for j := 0; j < l.Len(); j++ {
				collectSites(l.Get(j).Message(), fmt.Sprintf("%s[%d].", p, j), depth, level+1, out)
			}
		case fd.Message() != nil:
			collectSites(m.Mutable(fd).Message(), p+".", depth, level+1, out)
		}
	}
}

func sitesOf(m proto.Message, depth int, pred func(s site) bool) []site {
	var all []site
	collectSites(m.ProtoReflect(), "", depth, 0, &all)
	if pred == nil {
		return all
	}
	var out []site
	for _, s := range all {
		if pred(s) {
			out = append(out, s)
		}
	}
	return out
}

// randScalar returns a random value for a scalar (or list element / map value scalar) field.
// (The kit's randScalar is not exported; this one is used for element-level mutations.)
func randScalar(r *vk.Rand, fd pref.FieldDescriptor, special bool) pref.Value {
	fl := func() float64 {
		if special && r.Chance(1, 3) {
			return r.SpecialFloat()
		}
		return float64(r.Range(-40, 40)) / 4
	}
	switch fd.Kind() {
	case pref.BoolKind:
		return pref.ValueOfBool(r.Bool())
	case pref.EnumKind:
		vs := fd.Enum().Values()
		return pref.ValueOfEnum(vs.Get(r.Intn(vs.Len())).Number())
	case pref.Int32Kind, pref.Sint32Kind, pref.Sfixed32Kind:
		return pref.ValueOfInt32(int32(r.Range(-4, 9)))
	case pref.Int64Kind, pref.Sint64Kind, pref.Sfixed64Kind:
		return pref.ValueOfInt64(int64(r.Range(-4, 9)))
	case pref.Uint32Kind, pref.Fixed32Kind:
		return pref.ValueOfUint32(uint32(r.Range(0, 9)))
	case pref.Uint64Kind, pref.Fixed64Kind:
		return pref.ValueOfUint64(uint64(r.Range(0, 9)))
	case pref.FloatKind:
		return pref.ValueOfFloat32(float32(fl()))
	case pref.DoubleKind:
		return pref.ValueOfFloat64(fl())
	case pref.StringKind:
		return pref.ValueOfString(r.PickStr("", "a", "b", "c", "xy", "Zed", "é"))
	case pref.BytesKind:
		return pref.ValueOfBytes([]byte(r.PickStr("", "a", "b", "\x00\x01", "zz")))
	}
	panic("randScalar: not a scalar: " + string(fd.FullName()))
}

// floatValue builds a Value of the right Go type for a float or double field.
func floatValue(fd pref.FieldDescriptor, f float64) pref.Value {
	if fd.Kind() == pref.FloatKind {
		return pref.ValueOfFloat32(float32(f))
	}
	return pref.ValueOfFloat64(f)
}

func floatClass(f float64) string {
	switch {
	case math.IsNaN(f):
		return "nan"
	case math.IsInf(f, 0):
		return "inf"
	case f == 0 && math.Signbit(f):
		return "negzero"
	case f == 0:
		return "zero"
	}
	return "finite"
}

// unknownByNumber splits raw unknown fields into the concatenated raw bytes per field number; ok is false when the
// bytes are not well-formed wire data.
func unknownByNumber(b pref.RawFields) (map[protowire.Number]string, bool) {
	out := map[protowire.Number]string{}
	for len(b) > 0 {
		num, _, n := protowire.ConsumeField(b)
		if n < 0 {
			return nil, false
		}
		out[num] += string(b[:n])
		b = b[n:]
	}
	return out, true
}

// fieldClass names the structural class of a field for violation keys.
func fieldClass(fd pref.FieldDescriptor) string {
	sc := func(f pref.FieldDescriptor) string {
		switch f.Kind() {
		case pref.BoolKind:
			return "bool"
		case pref.EnumKind:
			return "enum"
		case pref.FloatKind, pref.DoubleKind:
			return "float"
		case pref.StringKind:
			return "string"
		case pref.BytesKind:
			return "bytes"
		case pref.MessageKind, pref.GroupKind:
			switch f.Message().FullName() {
			case tsName:
				return "timestamp"
			case durName:
				return "duration"
			}
			return "message"
		}
		return "int"
	}
	switch {
	case isChangeTime(fd):
		return "change-time"
	case fd.IsMap():
		return "map-" + sc(fd.MapValue())
	case fd.IsList():
		return "list-" + sc(fd)
	case fd.ContainingOneof() != nil && !fd.ContainingOneof().IsSynthetic():
		return "oneof-" + sc(fd)
	case fd.HasPresence() && fd.Message() == nil:
		return "optional-" + sc(fd)
	}
	return sc(fd)
}
