// Monitor for C16: message comparers are sound equivalences.
//
// Clauses (see DESIGN.md section 4, C16):
//
//	equal-vs-proto   cmp.Equal() against protobuf equality on mutation pairs (pairs.go)
//	value level      FloatValueApprox / TimeValueWithin / DurationValueWithin(P) called directly: reflexive, symmetric,
//	                 exact tolerance (big.Float / integer oracle), declines other kinds (tol.go)
//	message level    cmp.Equal(<tolerance comparers and ValueAnd/ValueOr expressions>) against an independent
//	                 reference equivalence (refeq.go, msglevel.go)
//	logic            And / Or / ValueAnd / ValueOr against conjunction / disjunction (logic.go)
//	stream           Value and Collection with an equivalence, backpressured Pull, judged per write (stream.go)
package main

import "github.com/smart-core-os/sc-golang/internal/verif/vk"

func main() { vk.Main("C16", run) }

func run(r *vk.Run) {
	r.Describe("pairs (x,y) are derived from a random common ancestor by 0-3 mutations (generic set/clear/change plus targeted ones: optional set-to-default, NaN/-0/Inf, list and map edits, empty-message presence, oneof arms, unknown fields in other orders, change_time value/presence) over TestAllTypes, real sc-api Pull responses with Change messages, run-time built Change look-alikes, different types, nil and typed nil; "+
		"tolerance cases place the tolerance just below / at / just above the actual difference (dyadic values so that the arithmetic is exact) at top level, nested, in lists and in maps; "+
		"logic operands are enumerated exhaustively up to 4 operands; streams are 8-20 writes against a Value/Collection with one of 6 equivalences, with/without read mask, seed or updates-only, judged at quiescent points. "+
		"A case is distinct by the canonical bytes of its inputs (pairs), its numeric parameters (value level), its operand vector (logic) or its configuration plus delivered/suppressed sequence (streams, counted only when both outcomes occur).",
		"protobuf equality is proto.Equal of the module's protobuf-go version (v1.34.2); an independent reference equality is cross-checked against it on every pair and is the oracle where change_time or a tolerance applies",
		"float tolerance means |x-y| <= max(margin, fraction*min(|x|,|y|)) (doc comment and the package's own tests); NaN~NaN and Inf~Inf follow from reflexivity; +Inf against -Inf, float64-rounding boundary cases, one-sided presence of a tolerance-kind message or of change_time, and zero-versus-unset implicit floats within tolerance are counted as open, not judged",
		"timestamps lie in 1970..2096 with nanos in [0,1e9) where the exact tolerance boundary is judged; pairs anywhere in years 1..9999 that lie more than 292 years apart (beyond what a time.Duration can hold) are judged only as 'not within any tolerance, symmetric, reflexive'; durations within +-4e9 s with consistent signs, tolerances are non-negative (inside the exactly representable range of time.Time / time.Duration)",
		"DurationValueWithinP: reflexivity and symmetry are judged; the tolerance only where every reading of 'within p percent of each other' agrees",
		"stream subscribers use WithBackpressure(true); an updates-only subscriber is taken to hold the value present at subscription for judging suppressions only")

	equalVsProto(r)
	valueLevel(r)
	messageLevel(r)
	logicClause(r)
	streamClause(r)
	streamLossy(r)
	noDuplicatesOnChangeMessages(r)

	q := r.Quick()
	req := func(counter string, quick, thorough int) {
		if q {
			r.Require(counter, quick)
		} else {
			r.Require(counter, thorough)
		}
	}
	req("equal-vs-proto/pairs", 50000, 2000000)
	req("equal-vs-proto/oracle-equal", 5000, 200000)
	req("equal-vs-proto/oracle-unequal", 20000, 800000)
	req("equal-vs-proto/change-time-exception-decides", 300, 10000)
	req("equal-vs-proto/family:nil", 1000, 40000)
	req("equal-vs-proto/family:different-types", 1000, 40000)
	req("equal-vs-proto/mutation:unknown", 2000, 80000)
	req("equal-vs-proto/mutation:optional-default", 2000, 80000)
	req("equal-vs-proto/mutation:float-special", 2000, 80000)
	req("equal-vs-proto/mutation:map", 2000, 80000)
	req("equal-vs-proto/mutation:list", 2000, 80000)
	req("oracle-selfcheck/reference-equality-agrees-with-proto.Equal", 50000, 2000000)
	req("value/FloatValueApprox/judged-tolerance", 8000, 150000)
	req("value/FloatValueApprox/placement:at", 500, 10000)
	req("value/FloatValueApprox/placement:fraction-at", 500, 10000)
	req("value/TimeValueWithin/judged-tolerance", 5000, 100000)
	req("value/DurationValueWithin/judged-tolerance", 5000, 100000)
	req("value/DurationValueWithinP/cases", 600, 600)
	req("value/other-kind-checks", 1000, 1000)
	req("message/judged", 20000, 800000)
	req("message/tolerance-decides", 3000, 100000)
	req("message/oracle-unequal", 5000, 200000)
	req("logic/message-stub-vectors", 31, 31)
	req("logic/value-stub-vectors", 341, 341)
	req("logic/real-message-cases", 2500, 90000)
	req("stream/value/writes-judged", 2000, 40000)
	req("stream/collection/writes-judged", 2000, 40000)
	req("stream/value/delivered", 500, 10000)
	req("stream/value/suppressed", 500, 10000)
	req("stream/collection/delivered", 500, 10000)
	req("stream/collection/suppressed", 300, 6000)
	req("stream/directed/cases", 30, 30)
	req("stream/value/mask", 50, 1000)
	req("stream/collection/mask", 30, 600)
}
