package main

// And / Or / ValueAnd / ValueOr against conjunction and disjunction.
//
// Stub comparers with every combination of fixed outcomes (bounded-exhaustive up to 4 operands) plus combinations of
// real comparers on generated pairs, where the expected verdict is the conjunction / disjunction of the verdicts
// the operands give when called on their own.

import (
	"fmt"
	"strings"
	"time"

	"google.golang.org/protobuf/proto"
	pref "google.golang.org/protobuf/reflect/protoreflect"
	"google.golang.org/protobuf/types/dynamicpb"

	"github.com/smart-core-os/sc-golang/internal/testproto"
	"github.com/smart-core-os/sc-golang/internal/verif/vk"
	"github.com/smart-core-os/sc-golang/pkg/cmp"
)

func nClass(n int) string {
	switch {
	case n == 0:
		return "n0"
	case n == 1:
		return "n1"
	}
	return "n2+"
}

func isDynamic(m proto.Message) bool {
	_, ok := m.(*dynamicpb.Message)
	return ok
}

// observeDynamicTimestamp records (as an observation, not a verdict: the property's inputs are generated message
// types) that the time comparer cannot handle a Timestamp held by a dynamicpb message.
func observeDynamicTimestamp(r *vk.Run) {
	if !r.Mine(0) {
		return
	}
	holder := proto.Clone(dynFamily[0]).ProtoReflect() // verif.c16.Holder
	fd := holder.Descriptor().Fields().ByName("change_time")
	sub := holder.Mutable(fd).Message()
	sub.Set(sub.Descriptor().Fields().ByName("seconds"), pref.ValueOfInt64(5))
	pk, what := vk.Recover(func() { cmp.Equal(cmp.TimeValueWithin(time.Second))(holder.Interface(), holder.Interface()) })
	if pk {
		r.Count("observation/TimeValueWithin-panics-on-dynamicpb-timestamp", 1)
		if i := strings.Index(what, "\n"); i > 0 {
			what = what[:i]
		}
		r.Note("observation (not judged): cmp.Equal(TimeValueWithin) panics on a dynamicpb message holding a Timestamp: %s", what)
	}
}

func logicClause(r *vk.Run) {
	observeDynamicTimestamp(r)
	logicMessageStubs(r)
	logicValueStubs(r)
	logicRealMessages(r)
}

func logicMessageStubs(r *vk.Run) {
	x, y := &testproto.ForeignMessage{C: 1}, &testproto.ForeignMessage{C: 2}
	caseNo := 0
	for n := 0; n <= 4; n++ {
		for bits := 0; bits < 1<<n; bits++ {
			caseNo++
			if !r.Mine(caseNo) {
				continue
			}
			var eqs []cmp.Message
			outcomes := make([]bool, n)
			argsOK := true
			for i := 0; i < n; i++ {
				out := bits&(1<<i) != 0
				outcomes[i] = out
				eqs = append(eqs, func(a, b proto.Message) bool {
					if a != proto.Message(x) || b != proto.Message(y) {
						argsOK = false
					}
					return out
				})
			}
			wantAnd, wantOr := true, false
			for _, o := range outcomes {
				wantAnd = wantAnd && o
				wantOr = wantOr || o
			}
			var gotAnd, gotOr bool
			pk, what := vk.Recover(func() { gotAnd, gotOr = cmp.And(eqs...)(x, y), cmp.Or(eqs...)(x, y) })
			r.Eval(2)
			r.Count("logic/message-stub-vectors", 1)
			r.Distinct(fmt.Sprintf("lm|%d|%d", n, bits))
			replay := map[string]any{"operands": outcomes}
			if r.WantSample("logic-message-stub") && n >= 2 {
				r.Sample("logic-message-stub", map[string]any{"operands": outcomes, "And": gotAnd, "Or": gotOr})
			}
			if pk {
				r.Violation("C16/logic/And-Or/panic/"+nClass(n), what, replay)
				continue
			}
			if gotAnd != wantAnd {
				r.Violation("C16/logic/And/"+nClass(n), fmt.Sprintf("And over operands %v = %v, conjunction is %v", outcomes, gotAnd, wantAnd), replay)
			}
			if gotOr != wantOr {
				r.Violation("C16/logic/Or/"+nClass(n), fmt.Sprintf("Or over operands %v = %v, disjunction is %v", outcomes, gotOr, wantOr), replay)
			}
			if !argsOK {
				r.Violation("C16/logic/And-Or/arguments/"+nClass(n), "an operand was called with other messages than the ones given", replay)
			}
		}
	}
}

// logicValueStubs: each operand either declines (ok=false, with either value of equal) or decides true / false.
// Reference: the combination decides iff some operand decides; if it decides, ValueAnd is the conjunction and
// ValueOr the disjunction of the deciding operands' verdicts. When nothing decides the equal result is ignored.
func logicValueStubs(r *vk.Run) {
	fd := allFields.ByName("default_int32")
	vx, vy := pref.ValueOfInt32(1), pref.ValueOfInt32(2)
	type outcome struct{ equal, ok bool }
	outs := []outcome{{true, true}, {false, true}, {true, false}, {false, false}}
	caseNo := 0
	for n := 0; n <= 4; n++ {
		total := 1
		for i := 0; i < n; i++ {
			total *= len(outs)
		}
		for code := 0; code < total; code++ {
			caseNo++
			if !r.Mine(caseNo) {
				continue
			}
			var eqs []cmp.Value
			var vec []string
			anyOK, wantAnd, wantOr := false, true, false
			argsOK := true
			c := code
			for i := 0; i < n; i++ {
				o := outs[c%len(outs)]
				c /= len(outs)
				vec = append(vec, fmt.Sprintf("(%v,%v)", o.equal, o.ok))
				if o.ok {
					anyOK = true
					wantAnd = wantAnd && o.equal
					wantOr = wantOr || o.equal
				}
				eqs = append(eqs, func(f pref.FieldDescriptor, a, b pref.Value) (bool, bool) {
					if f != fd || a.Int() != 1 || b.Int() != 2 {
						argsOK = false
					}
					return o.equal, o.ok
				})
			}
			var aE, aOK, oE, oOK bool
			pk, what := vk.Recover(func() {
				aE, aOK = cmp.ValueAnd(eqs...)(fd, vx, vy)
				oE, oOK = cmp.ValueOr(eqs...)(fd, vx, vy)
			})
			r.Eval(2)
			r.Count("logic/value-stub-vectors", 1)
			r.Distinct(fmt.Sprintf("lv|%d|%d", n, code))
			replay := map[string]any{"operands(equal,ok)": vec}
			if r.WantSample("logic-value-stub") && n >= 2 {
				r.Sample("logic-value-stub", map[string]any{"operands(equal,ok)": vec, "ValueAnd": []bool{aE, aOK}, "ValueOr": []bool{oE, oOK}})
			}
			if pk {
				r.Violation("C16/logic/ValueAnd-ValueOr/panic/"+nClass(n), what, replay)
				continue
			}
			if aOK != anyOK {
				r.Violation("C16/logic/ValueAnd/ok-flag/"+nClass(n), fmt.Sprintf("ValueAnd over %v: ok=%v, expected %v", vec, aOK, anyOK), replay)
			} else if anyOK && aE != wantAnd {
				r.Violation("C16/logic/ValueAnd/verdict/"+nClass(n), fmt.Sprintf("ValueAnd over %v = %v, conjunction of the deciding operands is %v", vec, aE, wantAnd), replay)
			}
			if oOK != anyOK {
				r.Violation("C16/logic/ValueOr/ok-flag/"+nClass(n), fmt.Sprintf("ValueOr over %v: ok=%v, expected %v", vec, oOK, anyOK), replay)
			} else if anyOK && oE != wantOr {
				r.Violation("C16/logic/ValueOr/verdict/"+nClass(n), fmt.Sprintf("ValueOr over %v = %v, disjunction of the deciding operands is %v", vec, oE, wantOr), replay)
			}
			if !argsOK {
				r.Violation("C16/logic/ValueAnd-ValueOr/arguments/"+nClass(n), "an operand was called with other arguments than the ones given", replay)
			}
		}
	}
}

// logicRealMessages: And / Or over real message comparers on generated pairs.
func logicRealMessages(r *vk.Run) {
	type named struct {
		name string
		eq   cmp.Message
	}
	pool := []named{
		{"Equal()", cmp.Equal()},
		{"Equal(Float(0,0.5))", cmp.Equal(cmp.FloatValueApprox(0, 0.5))},
		{"Equal(Float(0.25,0))", cmp.Equal(cmp.FloatValueApprox(0.25, 0))},
		{"Equal(Time(1s))", cmp.Equal(cmp.TimeValueWithin(time.Second))},
		{"Equal(Dur(1s))", cmp.Equal(cmp.DurationValueWithin(time.Second))},
		{"Equal(Time(1h),Dur(1h))", cmp.Equal(cmp.TimeValueWithin(time.Hour), cmp.DurationValueWithin(time.Hour))},
		{"same-type", func(a, b proto.Message) bool {
			return a != nil && b != nil && a.ProtoReflect().Descriptor() == b.ProtoReflect().Descriptor()
		}},
	}
	n := r.Pick(3000, 100000)
	for i := 0; i < n; i++ {
		if !r.Mine(i) {
			continue
		}
		rng := r.CaseRand("logic-real", i)
		var p *pair
		if rng.Bool() {
			p, _, _, _ = genTolPair(rng)
		} else {
			p = genPair(rng)
		}
		// the time and duration comparers type-assert *timestamppb.Timestamp / *durationpb.Duration and panic on
		// messages built with dynamicpb (see observeDynamicTimestamp); keep them to generated message types
		usable := pool
		if isDynamic(p.x) || isDynamic(p.y) {
			usable = nil
			for _, c := range pool {
				if !strings.Contains(c.name, "Time") && !strings.Contains(c.name, "Dur") {
					usable = append(usable, c)
				}
			}
		}
		k := rng.Range(0, 3)
		var eqs []cmp.Message
		var names []string
		var verdicts []bool
		wantAnd, wantOr := true, false
		pk, what := vk.Recover(func() {
			for j := 0; j < k; j++ {
				c := usable[rng.Intn(len(usable))]
				eqs = append(eqs, c.eq)
				names = append(names, c.name)
				v := c.eq(p.x, p.y)
				verdicts = append(verdicts, v)
				wantAnd = wantAnd && v
				wantOr = wantOr || v
			}
		})
		if pk {
			r.Count("logic/real-operand-panicked", 1)
			_ = what
			continue
		}
		var gotAnd, gotOr bool
		pk, what = vk.Recover(func() { gotAnd, gotOr = cmp.And(eqs...)(p.x, p.y), cmp.Or(eqs...)(p.x, p.y) })
		r.Eval(2)
		r.Count("logic/real-message-cases", 1)
		r.Distinct(fmt.Sprintf("lr|%v|%s|%s", names, canon(p.x), canon(p.y)))
		replay := map[string]any{"pair": p.replay(), "operands": names, "operand_verdicts": verdicts}
		if r.WantSample("logic-real") && k >= 2 {
			r.Sample("logic-real", map[string]any{"case": replay, "And": gotAnd, "Or": gotOr})
		}
		if pk {
			r.Violation("C16/logic/And-Or/panic/real", what, replay)
			continue
		}
		if gotAnd != wantAnd {
			r.Violation("C16/logic/And/real-"+nClass(k), fmt.Sprintf("And(%v) = %v but the operands say %v", names, gotAnd, verdicts), replay)
		}
		if gotOr != wantOr {
			r.Violation("C16/logic/Or/real-"+nClass(k), fmt.Sprintf("Or(%v) = %v but the operands say %v", names, gotOr, verdicts), replay)
		}
	}
}
