package main

import (
	"math"

	"google.golang.org/protobuf/encoding/protowire"
	"google.golang.org/protobuf/proto"
	pref "google.golang.org/protobuf/reflect/protoreflect"

	"github.com/smart-core-os/sc-golang/internal/verif/vk"
)

// mutation kinds; "generic" is the kit's Mutate, the others aim at the corner cases named by the property
// (unset versus default, NaN, maps, lists, unknown fields, presence of empty messages, oneof arms, change_time).
var mutationKinds = []string{
	"generic", "generic", "scalar", "optional-default", "float-special", "list", "map", "empty-message",
	"oneof", "unknown", "nested",
}

func pickSite(rng *vk.Rand, m proto.Message, depth int, pred func(s site) bool) (site, bool) {
	ss := sitesOf(m, depth, pred)
	if len(ss) == 0 {
		return site{}, false
	}
	return ss[rng.Intn(len(ss))], true
}

func isScalarSite(s site) bool { return !s.fd.IsList() && !s.fd.IsMap() && s.fd.Message() == nil }

// applyMutation changes m in one place; ok is false when m offers no place for this kind.
func applyMutation(rng *vk.Rand, m proto.Message, kind string, o vk.GenOpts) (class string, ok bool) {
	switch kind {
	case "generic":
		d, ok := safeMutate(rng, m, o)
		if !ok {
			return "", false
		}
		if len(d) >= 4 && d[:4] == "same" {
			return "generic-same", true
		}
		return "generic", true

	case "nested":
		// change a scalar below the top level
		s, found := pickSite(rng, m, 3, func(s site) bool { return s.depth >= 1 && isScalarSite(s) })
		if !found {
			return "", false
		}
		s.holder.Set(s.fd, randScalar(rng, s.fd, o.Special))
		return "nested", true

	case "scalar":
		s, found := pickSite(rng, m, 2, isScalarSite)
		if !found {
			return "", false
		}
		s.holder.Set(s.fd, randScalar(rng, s.fd, o.Special))
		return "scalar", true

	case "optional-default":
		// explicit presence: toggle between "not set" and "set to the default value"
		s, found := pickSite(rng, m, 2, func(s site) bool { return isScalarSite(s) && s.fd.HasPresence() })
		if !found {
			return "", false
		}
		if s.holder.Has(s.fd) && rng.Bool() {
			s.holder.Clear(s.fd)
		} else {
			s.holder.Set(s.fd, s.fd.Default())
		}
		return "optional-default", true

	case "float-special":
		s, found := pickSite(rng, m, 2, func(s site) bool {
			if s.fd.IsMap() {
				return isFloatKind(s.fd.MapValue())
			}
			return isFloatKind(s.fd)
		})
		if !found {
			return "", false
		}
		specials := []float64{math.NaN(), math.Copysign(0, -1), 0, math.Inf(1), math.Inf(-1), 1.5, -1.5}
		f := specials[rng.Intn(len(specials))]
		switch {
		case s.fd.IsMap():
			mp := s.holder.Mutable(s.fd).Map()
			ks := sortedKeys(mp)
			var k pref.MapKey
			if len(ks) > 0 && rng.Bool() {
				k = ks[rng.Intn(len(ks))]
			} else {
				k = randScalar(rng, s.fd.MapKey(), false).MapKey()
			}
			mp.Set(k, floatValue(s.fd.MapValue(), f))
		case s.fd.IsList():
			l := s.holder.Mutable(s.fd).List()
			if l.Len() > 0 && rng.Bool() {
				l.Set(rng.Intn(l.Len()), floatValue(s.fd, f))
			} else {
				l.Append(floatValue(s.fd, f))
			}
		default:
			s.holder.Set(s.fd, floatValue(s.fd, f))
		}
		return "float-special", true

	case "list":
		s, found := pickSite(rng, m, 2, func(s site) bool { return s.fd.IsList() })
		if !found {
			return "", false
		}
		l := s.holder.Mutable(s.fd).List()
		newElem := func() pref.Value {
			if s.fd.Message() != nil {
				e := l.NewElement()
				if rng.Bool() {
					sub := vk.GenMessage(rng, e.Message().Interface(), vk.GenOpts{Density: 40, MaxDepth: 0, MaxList: 2, Special: o.Special})
					return pref.ValueOfMessage(sub.ProtoReflect())
				}
				return e
			}
			return randScalar(rng, s.fd, o.Special)
		}
		switch op := rng.Intn(4); {
		case l.Len() == 0 || op == 0:
			l.Append(newElem())
		case op == 1:
			l.Truncate(l.Len() - 1)
		case op == 2:
			l.Set(rng.Intn(l.Len()), newElem())
		default:
			if l.Len() >= 2 {
				i, j := 0, l.Len()-1
				vi, vj := l.Get(i), l.Get(j)
				// copy through a scratch list so that message elements are not shared between slots
				tmp := s.holder.New()
				tl := tmp.Mutable(s.fd).List()
				tl.Append(vj)
				tl.Append(vi)
				cl := proto.Clone(tmp.Interface()).ProtoReflect().Get(s.fd).List()
				l.Set(i, cl.Get(0))
				l.Set(j, cl.Get(1))
			} else {
				l.Append(newElem())
			}
		}
		return "list", true

	case "map":
		s, found := pickSite(rng, m, 2, func(s site) bool { return s.fd.IsMap() })
		if !found {
			return "", false
		}
		mp := s.holder.Mutable(s.fd).Map()
		ks := sortedKeys(mp)
		newVal := func(zero bool) pref.Value {
			vd := s.fd.MapValue()
			if vd.Message() != nil {
				v := mp.NewValue()
				if zero {
					return v
				}
				sub := vk.GenMessage(rng, v.Message().Interface(), vk.GenOpts{Density: 40, MaxDepth: 0, MaxList: 2, Special: o.Special})
				return pref.ValueOfMessage(sub.ProtoReflect())
			}
			if zero {
				return vd.Default()
			}
			return randScalar(rng, vd, o.Special)
		}
		switch op := rng.Intn(5); {
		case len(ks) == 0 || op == 0:
			mp.Set(randScalar(rng, s.fd.MapKey(), false).MapKey(), newVal(false))
		case op == 1:
			mp.Clear(ks[rng.Intn(len(ks))])
		case op == 2:
			mp.Set(ks[rng.Intn(len(ks))], newVal(false))
		case op == 3:
			// a key that is present with the zero value versus an absent key
			mp.Set(randScalar(rng, s.fd.MapKey(), false).MapKey(), newVal(true))
		default:
			mp.Set(ks[rng.Intn(len(ks))], newVal(true))
		}
		return "map", true

	case "empty-message":
		// presence of an empty message versus absence
		s, found := pickSite(rng, m, 2, func(s site) bool {
			return !s.fd.IsList() && !s.fd.IsMap() && s.fd.Message() != nil
		})
		if !found {
			return "", false
		}
		if s.holder.Has(s.fd) {
			s.holder.Clear(s.fd)
			if rng.Bool() {
				s.holder.Mutable(s.fd)
			}
		} else {
			s.holder.Mutable(s.fd)
		}
		return "empty-message", true

	case "oneof":
		s, found := pickSite(rng, m, 2, func(s site) bool {
			oo := s.fd.ContainingOneof()
			return oo != nil && !oo.IsSynthetic()
		})
		if !found {
			return "", false
		}
		switch {
		case s.holder.Has(s.fd) && rng.Chance(1, 3):
			s.holder.Clear(s.fd)
		case s.fd.Message() != nil:
			s.holder.Clear(s.fd)
			s.holder.Mutable(s.fd)
		case rng.Bool():
			s.holder.Set(s.fd, s.fd.Default()) // arm selected, default value
		default:
			s.holder.Set(s.fd, randScalar(rng, s.fd, o.Special))
		}
		return "oneof", true

	case "unknown":
		// unknown fields: well-formed wire data for field numbers 1000..1002, possibly the same numbers in
		// another order, on the message or on a nested message
		holder := m.ProtoReflect()
		if rng.Chance(1, 3) {
			if s, found := pickSite(rng, m, 2, func(s site) bool {
				return !s.fd.IsList() && !s.fd.IsMap() && s.fd.Message() != nil && s.holder.Has(s.fd)
			}); found {
				holder = s.holder.Mutable(s.fd).Message()
			}
		}
		cur := holder.GetUnknown()
		switch op := rng.Intn(6); {
		case op >= 4:
			// same field numbers, same lengths, one occurrence (often not the last of its number) carries another value
			holder.SetUnknown(retouchUnknown(rng, cur))
		case len(cur) == 0 || op == 0:
			holder.SetUnknown(genUnknown(rng))
		case op == 1:
			holder.SetUnknown(nil)
		case op == 2:
			holder.SetUnknown(permuteUnknown(rng, cur))
		default:
			holder.SetUnknown(append(append(pref.RawFields{}, cur...), genUnknown(rng)...))
		}
		return "unknown", true

	case "change-time":
		s, found := pickSite(rng, m, 3, func(s site) bool { return isChangeTime(s.fd) })
		if !found {
			return "", false
		}
		if s.holder.Has(s.fd) && rng.Chance(1, 4) {
			s.holder.Clear(s.fd)
			return "change-time-presence", true
		}
		had := s.holder.Has(s.fd)
		if s.fd.Message() != nil {
			sub := s.holder.Mutable(s.fd).Message()
			fs := sub.Descriptor().Fields()
			sub.Set(fs.ByName("seconds"), pref.ValueOfInt64(int64(rng.Range(1, 100000))))
			if rng.Bool() {
				sub.Set(fs.ByName("nanos"), pref.ValueOfInt32(int32(rng.Range(0, 999999999))))
			}
		} else {
			s.holder.Set(s.fd, pref.ValueOfInt64(int64(rng.Range(1, 100000))))
		}
		if !had {
			return "change-time-presence", true
		}
		return "change-time-value", true
	}
	panic("unknown mutation kind " + kind)
}

var unknownPool = func() []pref.RawFields {
	var out []pref.RawFields
	for _, v := range []uint64{0, 1, 7, 300} {
		out = append(out, protowire.AppendVarint(protowire.AppendTag(nil, 1000, protowire.VarintType), v))
		out = append(out, protowire.AppendVarint(protowire.AppendTag(nil, 1001, protowire.VarintType), v))
	}
	out = append(out, protowire.AppendBytes(protowire.AppendTag(nil, 1002, protowire.BytesType), []byte("ab")))
	out = append(out, protowire.AppendBytes(protowire.AppendTag(nil, 1002, protowire.BytesType), nil))
	out = append(out, protowire.AppendFixed32(protowire.AppendTag(nil, 1000, protowire.Fixed32Type), 7))
	return out
}()

func genUnknown(rng *vk.Rand) pref.RawFields {
	n := rng.Range(1, 3)
	var b pref.RawFields
	for i := 0; i < n; i++ {
		b = append(b, unknownPool[rng.Intn(len(unknownPool))]...)
	}
	return b
}

// retouchUnknown gives the message two or three occurrences of one unknown field number and changes the value of
// one of them (same wire length), keeping everything else.
func retouchUnknown(rng *vk.Rand, b pref.RawFields) pref.RawFields {
	num := protowire.Number(1000 + rng.Intn(2))
	vals := []uint64{0, 1, 7}
	n := rng.Range(2, 3)
	out := append(pref.RawFields{}, b...)
	for i := 0; i < n; i++ {
		out = append(out, protowire.AppendVarint(protowire.AppendTag(nil, num, protowire.VarintType), vals[rng.Intn(len(vals))])...)
	}
	return out
}

// permuteUnknown reorders the individual unknown fields (same multiset of fields, other order).
func permuteUnknown(rng *vk.Rand, b pref.RawFields) pref.RawFields {
	var parts []pref.RawFields
	rest := b
	for len(rest) > 0 {
		_, _, n := protowire.ConsumeField(rest)
		if n < 0 {
			return b
		}
		parts = append(parts, rest[:n])
		rest = rest[n:]
	}
	var out pref.RawFields
	for _, i := range rng.Perm(len(parts)) {
		out = append(out, parts[i]...)
	}
	return out
}

// enrich populates the named top-level fields of a TestAllTypes-like message (so that the kinds a clause is
// about are present often).
func enrich(rng *vk.Rand, m proto.Message, o vk.GenOpts, names ...string) {
	mr := m.ProtoReflect()
	fds := mr.Descriptor().Fields()
	o.Density = 80
	for _, n := range names {
		fd := fds.ByName(pref.Name(n))
		if fd == nil {
			continue
		}
		mr.Clear(fd)
		vk.SetRandomField(rng, mr, fd, o, 0)
	}
}

// safeMutate is vk.Mutate guarded against a kit defect: the kit's canonField panics when Mutate picks an unset
// map / list / message field (it copies the read-only empty value). The panic happens before the message is
// touched, so the message is intact and the caller just tries another mutation.
func safeMutate(rng *vk.Rand, m proto.Message, o vk.GenOpts) (desc string, ok bool) {
	if pk, _ := vk.Recover(func() { desc = vk.Mutate(rng, m, o) }); pk {
		return "", false
	}
	return desc, true
}
