package main

// Independent reference for message equality with optional tolerance on floats, timestamps and durations.
// Written from the property statement and the protobuf equality rules; it never calls pkg/cmp.
//
// Verdicts are three-valued: equal, not equal, or "open" - the statement does not fix the answer (for example a
// change_time that is present on one side only, +Inf against -Inf under a relative tolerance, a float computation
// whose float64 rounding decides the outcome). Open pairs are counted, never judged.

import (
	"fmt"
	"math"
	"math/big"
	"strings"
	"time"

	"google.golang.org/protobuf/proto"
	pref "google.golang.org/protobuf/reflect/protoreflect"

	"github.com/smart-core-os/sc-golang/pkg/cmp"
)

// vnode is a value comparer expression: a tolerance leaf or a ValueAnd / ValueOr combination.
type vnode struct {
	Op   string        `json:"op"` // float | time | dur | and | or
	Fr   float64       `json:"fraction,omitempty"`
	Mg   float64       `json:"margin,omitempty"`
	D    time.Duration `json:"d,omitempty"`
	Kids []*vnode      `json:"kids,omitempty"`
}

func (n *vnode) String() string {
	switch n.Op {
	case "float":
		return fmt.Sprintf("FloatValueApprox(%v,%v)", n.Fr, n.Mg)
	case "time":
		return fmt.Sprintf("TimeValueWithin(%dns)", int64(n.D))
	case "dur":
		return fmt.Sprintf("DurationValueWithin(%dns)", int64(n.D))
	}
	var ks []string
	for _, k := range n.Kids {
		ks = append(ks, k.String())
	}
	name := "ValueAnd"
	if n.Op == "or" {
		name = "ValueOr"
	}
	return name + "(" + strings.Join(ks, ",") + ")"
}

// name is the comparer name used in violation keys.
func (n *vnode) name() string {
	switch n.Op {
	case "float":
		return "FloatValueApprox"
	case "time":
		return "TimeValueWithin"
	case "dur":
		return "DurationValueWithin"
	case "and":
		return "ValueAnd"
	}
	return "ValueOr"
}

// real builds the comparer under test.
func (n *vnode) real() cmp.Value {
	switch n.Op {
	case "float":
		return cmp.FloatValueApprox(n.Fr, n.Mg)
	case "time":
		return cmp.TimeValueWithin(n.D)
	case "dur":
		return cmp.DurationValueWithin(n.D)
	}
	var ks []cmp.Value
	for _, k := range n.Kids {
		ks = append(ks, k.real())
	}
	if n.Op == "and" {
		return cmp.ValueAnd(ks...)
	}
	return cmp.ValueOr(ks...)
}

// leaves lists the tolerance leaves of the expression.
func (n *vnode) leaves() []*vnode {
	if len(n.Kids) == 0 && n.Op != "and" && n.Op != "or" {
		return []*vnode{n}
	}
	var out []*vnode
	for _, k := range n.Kids {
		out = append(out, k.leaves()...)
	}
	return out
}

func (n *vnode) has(op string) bool {
	if n == nil {
		return false
	}
	if n.Op == op {
		return true
	}
	for _, k := range n.Kids {
		if k.has(op) {
			return true
		}
	}
	return false
}

// owns reports whether the expression has a leaf whose own kind is fd's kind.
func (n *vnode) owns(fd pref.FieldDescriptor) bool {
	if n == nil {
		return false
	}
	if fd.IsMap() {
		fd = fd.MapValue()
	}
	switch {
	case isFloatKind(fd):
		return n.has("float")
	case fd.Message() != nil && fd.Message().FullName() == tsName:
		return n.has("time")
	case fd.Message() != nil && fd.Message().FullName() == durName:
		return n.has("dur")
	}
	return false
}

// ref is the reference verdict of the expression on one singular value pair: ok tells whether a leaf of fd's own
// kind took part; open is non-empty when the statement does not fix the verdict.
func (n *vnode) ref(fd pref.FieldDescriptor, x, y pref.Value) (equal, ok bool, open string) {
	switch n.Op {
	case "float":
		if !isFloatKind(fd) {
			return false, false, ""
		}
		eq, op := refFloatWithin(x.Float(), y.Float(), n.Fr, n.Mg)
		return eq, true, op
	case "time":
		if fd.Message() == nil || fd.Message().FullName() != tsName {
			return false, false, ""
		}
		tx, okx := wkNanos(x.Message(), false)
		ty, oky := wkNanos(y.Message(), false)
		if !okx || !oky {
			return false, true, "timestamp-out-of-domain"
		}
		return absDiffLE(tx, ty, n.D), true, ""
	case "dur":
		if fd.Message() == nil || fd.Message().FullName() != durName {
			return false, false, ""
		}
		dx, okx := wkNanos(x.Message(), true)
		dy, oky := wkNanos(y.Message(), true)
		if !okx || !oky {
			return false, true, "duration-out-of-domain"
		}
		return absDiffLE(dx, dy, n.D), true, ""
	}
	// conjunction / disjunction over the sub-comparers that apply to this kind
	anyOpen := ""
	allTrue, anyTrue := true, false
	for _, k := range n.Kids {
		e, o, op := k.ref(fd, x, y)
		if !o {
			continue
		}
		ok = true
		if op != "" {
			anyOpen = op
			continue
		}
		if e {
			anyTrue = true
		} else {
			allTrue = false
		}
	}
	if !ok {
		return false, false, ""
	}
	if n.Op == "and" {
		if !allTrue {
			return false, true, ""
		}
		return true, true, anyOpen
	}
	if anyTrue {
		return true, true, ""
	}
	return false, true, anyOpen
}

// wkNanos reads a Timestamp or Duration as whole nanoseconds; ok is false outside the range in which the Go
// time types represent it exactly (the property's arithmetic oracle is only claimed there).
func wkNanos(m pref.Message, duration bool) (*big.Int, bool) {
	fs := m.Descriptor().Fields()
	s := m.Get(fs.ByName("seconds")).Int()
	n := m.Get(fs.ByName("nanos")).Int()
	if len(m.GetUnknown()) > 0 {
		return nil, false
	}
	if duration {
		if s > 4_000_000_000 || s < -4_000_000_000 || n <= -1_000_000_000 || n >= 1_000_000_000 {
			return nil, false
		}
		if (s > 0 && n < 0) || (s < 0 && n > 0) {
			return nil, false
		}
	} else if s < 0 || s > 4_000_000_000 || n < 0 || n >= 1_000_000_000 {
		return nil, false
	}
	v := new(big.Int).Mul(big.NewInt(s), big.NewInt(1_000_000_000))
	return v.Add(v, big.NewInt(n)), true
}

func absDiffLE(a, b *big.Int, d time.Duration) bool {
	diff := new(big.Int).Sub(a, b)
	diff.Abs(diff)
	return diff.Cmp(big.NewInt(int64(d))) <= 0
}

// refFloatWithin decides |x-y| <= max(margin, fraction*min(|x|,|y|)) in exact arithmetic.
// Reflexivity fixes NaN~NaN and Inf~Inf; an infinite value is never within a tolerance of a finite one;
// +Inf against -Inf is left open. When float64 rounding of the difference or the product could decide the
// outcome (operands not exactly representable and the two sides closer than 2^-40 relative) the pair is open.
func refFloatWithin(x, y, fraction, margin float64) (equal bool, open string) {
	xn, yn := math.IsNaN(x), math.IsNaN(y)
	if xn || yn {
		return xn && yn, ""
	}
	xi, yi := math.IsInf(x, 0), math.IsInf(y, 0)
	if xi || yi {
		if xi && yi {
			if x == y {
				return true, ""
			}
			return false, "posinf-vs-neginf"
		}
		return false, ""
	}
	if x == y {
		return true, "" // difference 0 is within any non-negative tolerance
	}
	const prec = 512
	bx := new(big.Float).SetPrec(prec).SetFloat64(x)
	by := new(big.Float).SetPrec(prec).SetFloat64(y)
	diff := new(big.Float).SetPrec(prec).Sub(bx, by)
	diff.Abs(diff)
	ax, ay := math.Abs(x), math.Abs(y)
	mn := ax
	if ay < mn {
		mn = ay
	}
	rel := new(big.Float).SetPrec(prec).Mul(new(big.Float).SetPrec(prec).SetFloat64(fraction), new(big.Float).SetPrec(prec).SetFloat64(mn))
	thr := new(big.Float).SetPrec(prec).SetFloat64(margin)
	if rel.Cmp(thr) > 0 {
		thr = rel
	}
	c := diff.Cmp(thr)
	_, accD := diff.Float64()
	_, accT := thr.Float64()
	if accD == big.Exact && accT == big.Exact {
		return c <= 0, ""
	}
	// not exactly representable: judge only when the outcome is robust against rounding
	gap := new(big.Float).SetPrec(prec).Sub(diff, thr)
	gap.Abs(gap)
	scale := diff
	if thr.Cmp(scale) > 0 {
		scale = thr
	}
	eps := new(big.Float).SetPrec(prec).Mul(scale, new(big.Float).SetPrec(prec).SetMantExp(big.NewFloat(1), -40))
	if gap.Cmp(eps) <= 0 {
		return c <= 0, "float-rounding-boundary"
	}
	return c <= 0, ""
}

// refCtx carries the options and the open marker of one reference comparison.
type refCtx struct {
	tol             *vnode
	changeException bool
	open            string
}

func (c *refCtx) setOpen(why string) {
	if c.open == "" {
		c.open = why
	}
}

// refEqual is the reference message equivalence: protobuf equality, except that change_time inside messages named
// Change is ignored, and that values of the kinds owned by tol are compared with the tolerance oracle.
// equal=false is definite. equal=true with open != "" means "equal apart from something the statement leaves open".
func refEqual(x, y proto.Message, tol *vnode) (equal bool, open string) {
	return refEqualOpt(x, y, tol, true)
}

func refEqualOpt(x, y proto.Message, tol *vnode, changeException bool) (equal bool, open string) {
	if x == nil || y == nil {
		return x == nil && y == nil, ""
	}
	mx, my := x.ProtoReflect(), y.ProtoReflect()
	if mx.IsValid() != my.IsValid() {
		return false, ""
	}
	c := &refCtx{tol: tol, changeException: changeException}
	if !c.msg(mx, my) {
		return false, ""
	}
	return true, c.open
}

func (c *refCtx) msg(mx, my pref.Message) bool {
	if mx.Descriptor() != my.Descriptor() {
		return false
	}
	fds := mx.Descriptor().Fields()
	for i := 0; i < fds.Len(); i++ {
		fd := fds.Get(i)
		hx, hy := mx.Has(fd), my.Has(fd)
		if !hx && !hy {
			continue
		}
		if hx != hy {
			if c.changeException && isChangeTime(fd) {
				c.setOpen("change-time-presence")
				continue
			}
			if c.tol != nil && !fd.IsList() && !fd.IsMap() && c.tol.owns(fd) {
				if fd.Message() != nil {
					// a tolerance-kind message present on one side only: not a pair of values of that kind
					c.setOpen("tolerance-kind-presence")
					continue
				}
				if !fd.HasPresence() {
					// implicit presence: "not populated" is the value zero
					eq, ok, op := c.tol.ref(fd, mx.Get(fd), my.Get(fd))
					if ok && (eq || op != "") {
						c.setOpen("implicit-zero-vs-value-within-tolerance")
						continue
					}
				}
			}
			return false
		}
		if c.changeException && isChangeTime(fd) {
			continue
		}
		vx, vy := mx.Get(fd), my.Get(fd)
		switch {
		case fd.IsList():
			lx, ly := vx.List(), vy.List()
			if lx.Len() != ly.Len() {
				return false
			}
			for j := 0; j < lx.Len(); j++ {
				if !c.val(fd, lx.Get(j), ly.Get(j)) {
					return false
				}
			}
		case fd.IsMap():
			ax, ay := vx.Map(), vy.Map()
			if ax.Len() != ay.Len() {
				return false
			}
			same := true
			ax.Range(func(k pref.MapKey, ex pref.Value) bool {
				if !ay.Has(k) || !c.val(fd.MapValue(), ex, ay.Get(k)) {
					same = false
				}
				return same
			})
			if !same {
				return false
			}
		default:
			if !c.val(fd, vx, vy) {
				return false
			}
		}
	}
	ux, uy := mx.GetUnknown(), my.GetUnknown()
	if len(ux) != len(uy) {
		return false
	}
	px, okx := unknownByNumber(ux)
	py, oky := unknownByNumber(uy)
	if !okx || !oky {
		return string(ux) == string(uy)
	}
	if len(px) != len(py) {
		return false
	}
	for n, b := range px {
		if py[n] != b {
			return false
		}
	}
	return true
}

func (c *refCtx) val(fd pref.FieldDescriptor, x, y pref.Value) bool {
	if c.tol != nil {
		if eq, ok, op := c.tol.ref(fd, x, y); ok {
			if op != "" {
				c.setOpen(op)
				return true
			}
			return eq
		}
	}
	switch fd.Kind() {
	case pref.BoolKind:
		return x.Bool() == y.Bool()
	case pref.EnumKind:
		return x.Enum() == y.Enum()
	case pref.Int32Kind, pref.Sint32Kind, pref.Sfixed32Kind, pref.Int64Kind, pref.Sint64Kind, pref.Sfixed64Kind:
		return x.Int() == y.Int()
	case pref.Uint32Kind, pref.Fixed32Kind, pref.Uint64Kind, pref.Fixed64Kind:
		return x.Uint() == y.Uint()
	case pref.FloatKind, pref.DoubleKind:
		fx, fy := x.Float(), y.Float()
		if math.IsNaN(fx) || math.IsNaN(fy) {
			return math.IsNaN(fx) && math.IsNaN(fy)
		}
		return fx == fy
	case pref.StringKind:
		return x.String() == y.String()
	case pref.BytesKind:
		return string(x.Bytes()) == string(y.Bytes())
	case pref.MessageKind, pref.GroupKind:
		return c.msg(x.Message(), y.Message())
	}
	return false
}

// hasChangeTime reports whether the type of m can reach a change_time field inside a message named Change.
func hasChangeTime(md pref.MessageDescriptor, seen map[pref.FullName]bool) bool {
	if seen[md.FullName()] {
		return false
	}
	seen[md.FullName()] = true
	fds := md.Fields()
	for i := 0; i < fds.Len(); i++ {
		fd := fds.Get(i)
		if isChangeTime(fd) {
			return true
		}
		sub := fd.Message()
		if fd.IsMap() {
			sub = fd.MapValue().Message()
		}
		if sub != nil && hasChangeTime(sub, seen) {
			return true
		}
	}
	return false
}
