package main

// Message types built at run time (dynamicpb) that exercise the change_time exception by name:
// a top-level message named Change with a Timestamp change_time, a nested message named Change whose
// change_time is an int64, messages that carry a change_time but are not named Change, and Change messages in
// singular, repeated and map positions.

import (
	"google.golang.org/protobuf/proto"
	"google.golang.org/protobuf/reflect/protodesc"
	pref "google.golang.org/protobuf/reflect/protoreflect"
	"google.golang.org/protobuf/reflect/protoregistry"
	"google.golang.org/protobuf/types/descriptorpb"
	"google.golang.org/protobuf/types/dynamicpb"
	_ "google.golang.org/protobuf/types/known/timestamppb"
)

func dynTypes() []proto.Message {
	str := proto.String
	lbl := func(l descriptorpb.FieldDescriptorProto_Label) *descriptorpb.FieldDescriptorProto_Label { return &l }
	typ := func(t descriptorpb.FieldDescriptorProto_Type) *descriptorpb.FieldDescriptorProto_Type { return &t }
	opt, rep := descriptorpb.FieldDescriptorProto_LABEL_OPTIONAL, descriptorpb.FieldDescriptorProto_LABEL_REPEATED
	f := func(name string, num int32, l descriptorpb.FieldDescriptorProto_Label, t descriptorpb.FieldDescriptorProto_Type, tn string) *descriptorpb.FieldDescriptorProto {
		fd := &descriptorpb.FieldDescriptorProto{Name: str(name), Number: proto.Int32(num), Label: lbl(l), Type: typ(t), JsonName: str(name)}
		if tn != "" {
			fd.TypeName = str(tn)
		}
		return fd
	}
	const (
		tMsg = descriptorpb.FieldDescriptorProto_TYPE_MESSAGE
		tI32 = descriptorpb.FieldDescriptorProto_TYPE_INT32
		tI64 = descriptorpb.FieldDescriptorProto_TYPE_INT64
		tDbl = descriptorpb.FieldDescriptorProto_TYPE_DOUBLE
		tStr = descriptorpb.FieldDescriptorProto_TYPE_STRING
	)
	ts := ".google.protobuf.Timestamp"
	file := &descriptorpb.FileDescriptorProto{
		Name:       str("verif/c16/dyn.proto"),
		Package:    str("verif.c16"),
		Syntax:     str("proto3"),
		Dependency: []string{"google/protobuf/timestamp.proto"},
		MessageType: []*descriptorpb.DescriptorProto{
			{
				Name: str("Change"),
				Field: []*descriptorpb.FieldDescriptorProto{
					f("change_time", 1, opt, tMsg, ts),
					f("v", 2, opt, tI32, ""),
					f("name", 3, opt, tStr, ""),
				},
			},
			{
				Name: str("NotAChange"),
				Field: []*descriptorpb.FieldDescriptorProto{
					f("change_time", 1, opt, tMsg, ts),
					f("v", 2, opt, tI32, ""),
				},
			},
			{
				Name: str("Holder"),
				Field: []*descriptorpb.FieldDescriptorProto{
					f("top", 1, opt, tMsg, ".verif.c16.Change"),
					f("many", 2, rep, tMsg, ".verif.c16.Change"),
					f("by_key", 3, rep, tMsg, ".verif.c16.Holder.ByKeyEntry"),
					f("inner", 4, opt, tMsg, ".verif.c16.Holder.Change"),
					f("change_time", 5, opt, tMsg, ts),
					f("other", 6, opt, tMsg, ".verif.c16.NotAChange"),
					f("inners", 7, rep, tMsg, ".verif.c16.Holder.Change"),
					f("level", 8, opt, tDbl, ""),
				},
				NestedType: []*descriptorpb.DescriptorProto{
					{
						Name: str("Change"),
						Field: []*descriptorpb.FieldDescriptorProto{
							f("change_time", 1, opt, tI64, ""),
							f("level", 2, opt, tDbl, ""),
							f("created_time", 3, opt, tMsg, ts),
						},
					},
					{
						Name: str("ByKeyEntry"),
						Field: []*descriptorpb.FieldDescriptorProto{
							f("key", 1, opt, tStr, ""),
							f("value", 2, opt, tMsg, ".verif.c16.Change"),
						},
						Options: &descriptorpb.MessageOptions{MapEntry: proto.Bool(true)},
					},
				},
			},
		},
	}
	fd, err := protodesc.NewFile(file, protoregistry.GlobalFiles)
	if err != nil {
		panic("c16: dynamic descriptor: " + err.Error())
	}
	var out []proto.Message
	for _, n := range []pref.Name{"Holder", "Change", "NotAChange"} {
		out = append(out, dynamicpb.NewMessage(fd.Messages().ByName(n)))
	}
	out = append(out, dynamicpb.NewMessage(fd.Messages().ByName("Holder").Messages().ByName("Change")))
	return out
}
