package main

import (
	"fmt"
	"math"
	"math/big"
	"time"

	"google.golang.org/protobuf/proto"
	pref "google.golang.org/protobuf/reflect/protoreflect"
	"google.golang.org/protobuf/types/known/durationpb"
	"google.golang.org/protobuf/types/known/timestamppb"

	"github.com/smart-core-os/sc-golang/internal/testproto"
	"github.com/smart-core-os/sc-golang/internal/verif/vk"
	"github.com/smart-core-os/sc-golang/pkg/cmp"
)

var (
	allFields = (&testproto.TestAllTypes{}).ProtoReflect().Descriptor().Fields()
	wkFields  = (&testproto.WellKnown{}).ProtoReflect().Descriptor().Fields()

	floatFds = []pref.FieldDescriptor{
		allFields.ByName("default_float"), allFields.ByName("default_double"), allFields.ByName("optional_float"),
		allFields.ByName("optional_double"), allFields.ByName("repeated_float"), allFields.ByName("repeated_double"),
		allFields.ByName("map_int32_float").MapValue(), allFields.ByName("map_int32_double").MapValue(),
	}
	tsFds = []pref.FieldDescriptor{wkFields.ByName("default_timestamp")}
	duFds = []pref.FieldDescriptor{wkFields.ByName("default_duration")}
)

// ---------------------------------------------------------------------------------------------------------
// value level: the comparer functions called directly

// callValue runs a value comparer in both directions, recovering panics.
func callValue(c cmp.Value, fd pref.FieldDescriptor, x, y pref.Value) (eqXY, okXY, eqYX, okYX, panicked bool, what string) {
	panicked, what = vk.Recover(func() {
		eqXY, okXY = c(fd, x, y)
		eqYX, okYX = c(fd, y, x)
	})
	return
}

// floatCase generates a float pair and a tolerance placed relative to the actual difference.
// All quantities are dyadic rationals of small magnitude, so every float32/float64 operation involved is exact.
func floatCase(rng *vk.Rand) (x, y, fraction, margin float64, placement string) {
	sign := func(f float64) float64 {
		if rng.Bool() {
			return -f
		}
		return f
	}
	switch mode := rng.Intn(10); {
	case mode < 4: // margin only
		x = sign(float64(rng.Range(0, 320)) / 8)
		diff := []float64{0, 0.125, 0.25, 1, 2.5, float64(rng.Range(1, 80)) / 8, 1.0 / 1024}[rng.Intn(7)]
		y = x + sign(diff)
		diff = math.Abs(x - y) // exact
		switch pl := rng.Intn(6); {
		case pl == 0 || diff == 0:
			margin, placement = diff, "at"
		case pl == 1:
			margin, placement = math.Nextafter(diff, math.Inf(1)), "just-above"
		case pl == 2:
			margin, placement = math.Nextafter(diff, 0), "just-below"
		case pl == 3:
			margin, placement = 2*diff+0.125, "far-above"
		case pl == 4:
			margin, placement = diff/2, "far-below"
		default:
			margin, placement = 0, "zero"
		}
	case mode < 8: // fraction only (margin 0), relative to the smaller magnitude
		m := float64(rng.Range(1, 320)) / 8
		fraction = []float64{1.0 / 16, 0.125, 0.25, 0.5, 1}[rng.Intn(5)]
		thr := fraction * m
		const eps = 1.0 / 4096
		var diff float64
		switch rng.Intn(5) {
		case 0:
			diff, placement = thr, "at"
		case 1:
			diff, placement = thr+eps, "just-below" // tolerance just below the difference
		case 2:
			diff, placement = thr-eps, "just-above"
		case 3:
			diff, placement = thr/2, "far-above"
		default:
			diff, placement = 2*thr+0.125, "far-below"
		}
		s := sign(1)
		x, y = s*m, s*(m+diff)
		if rng.Bool() {
			x, y = y, x
		}
		placement = "fraction-" + placement
	case mode < 9: // both, either may dominate
		m := float64(rng.Range(1, 160)) / 8
		fraction = []float64{0.125, 0.25, 0.5}[rng.Intn(3)]
		thr := fraction * m
		margin = []float64{thr / 2, thr * 2, thr}[rng.Intn(3)]
		top := math.Max(thr, margin)
		diff := []float64{top, top + 1.0/4096, top / 2, 2 * top}[rng.Intn(4)]
		s := sign(1)
		x, y = s*m, s*(m+diff)
		placement = "both"
	default: // opposite signs and zero
		x = float64(rng.Range(0, 40)) / 8
		y = -float64(rng.Range(0, 40)) / 8
		fraction = []float64{0, 0.5, 1}[rng.Intn(3)]
		margin = []float64{0, x - y, (x - y) / 2, x - y + 0.125}[rng.Intn(4)]
		placement = "opposite-signs"
	}
	return
}

func valueLevel(r *vk.Run) {
	valueLevelFloat(r)
	valueLevelTime(r)
	valueLevelTimeFar(r)
	valueLevelDuration(r)
	valueLevelDurationP(r)
	valueLevelOtherKind(r)
}

func valueLevelFloat(r *vk.Run) {
	const name = "FloatValueApprox"
	n := r.Pick(20000, 400000)
	specials := []float64{math.NaN(), math.Inf(1), math.Inf(-1), 0, math.Copysign(0, -1), 1, -1, 100.5}
	for i := 0; i < n; i++ {
		if !r.Mine(i) {
			continue
		}
		rng := r.CaseRand("value-float", i)
		fd := floatFds[rng.Intn(len(floatFds))]
		var x, y, fr, mg float64
		var placement string
		switch c := rng.Intn(10); {
		case c < 6:
			x, y, fr, mg, placement = floatCase(rng)
		case c < 8: // special values
			x, y = specials[rng.Intn(len(specials))], specials[rng.Intn(len(specials))]
			fr = []float64{0, 0.5, 1}[rng.Intn(3)]
			mg = []float64{0, 0.5, 1000}[rng.Intn(3)]
			placement = "special"
		default: // arbitrary values, judged unless rounding could decide
			x = (rng.Float64() - 0.5) * 400
			y = x + (rng.Float64()-0.5)*[]float64{0.001, 1, 100}[rng.Intn(3)]
			fr = []float64{0, 0.01, 0.1}[rng.Intn(3)]
			mg = []float64{0, 0.01, 0.1, math.Abs(x - y)}[rng.Intn(4)]
			placement = "arbitrary"
		}
		if fd.Kind() == pref.FloatKind {
			x, y = float64(float32(x)), float64(float32(y))
			if placement != "special" && placement != "arbitrary" && (float64(float32(x)) != x || float64(float32(y)) != y) {
				placement = "arbitrary"
			}
		}
		c := cmp.FloatValueApprox(fr, mg)
		vx, vy := floatValue(fd, x), floatValue(fd, y)
		eXY, okXY, eYX, okYX, panicked, what := callValue(c, fd, vx, vy)
		replay := map[string]any{"comparer": fmt.Sprintf("FloatValueApprox(%v,%v)", fr, mg), "field": string(fd.FullName()), "x": fmt.Sprint(x), "y": fmt.Sprint(y), "placement": placement}
		r.Eval(2)
		r.Count("value/"+name+"/cases", 1)
		r.Count("value/"+name+"/placement:"+placement, 1)
		r.Distinct(fmt.Sprintf("vf|%s|%x|%x|%x|%x", fd.Name(), math.Float64bits(x), math.Float64bits(y), math.Float64bits(fr), math.Float64bits(mg)))
		if r.WantSample("value-float:" + placement) {
			r.Sample("value-float:"+placement, map[string]any{"case": replay, "equal": eXY, "ok": okXY})
		}
		if panicked {
			r.Violation("C16/"+name+"/panic/"+floatClass(x)+"-"+floatClass(y), what, replay)
			continue
		}
		if !okXY || !okYX {
			r.Violation("C16/"+name+"/own-kind-not-handled/"+fieldClass(fd), "ok=false on a float field", replay)
		}
		// reflexive on both values
		for _, v := range []float64{x, y} {
			vv := floatValue(fd, v)
			var e, ok bool
			if pk, _ := vk.Recover(func() { e, ok = c(fd, vv, vv) }); pk || !e || !ok {
				r.Violation("C16/"+name+"/reflexive/"+floatClass(v), fmt.Sprintf("FloatValueApprox(%v,%v) on (%v,%v) = (%v,%v)", fr, mg, v, v, e, ok), replay)
			}
			r.Eval(1)
			r.Count("value/"+name+"/reflexive-checks:"+floatClass(v), 1)
		}
		pairClass := floatClass(x) + "-vs-" + floatClass(y)
		if eXY != eYX {
			r.Violation("C16/"+name+"/symmetric/"+pairClass, fmt.Sprintf("FloatValueApprox(%v,%v): (%v,%v)=%v but (%v,%v)=%v", fr, mg, x, y, eXY, y, x, eYX), replay)
		}
		want, open := refFloatWithin(x, y, fr, mg)
		if open != "" {
			r.Count("value/"+name+"/open:"+open, 1)
			continue
		}
		if floatClass(x) == "nan" || floatClass(y) == "nan" || floatClass(x) == "inf" || floatClass(y) == "inf" {
			if x != y && !(math.IsNaN(x) && math.IsNaN(y)) && eXY {
				r.Violation("C16/"+name+"/tolerance/outside-"+pairClass, fmt.Sprintf("FloatValueApprox(%v,%v) accepts (%v,%v)", fr, mg, x, y), replay)
			}
			continue // reflexive cases are reported by the reflexivity clause
		}
		r.Count("value/"+name+"/judged-tolerance", 1)
		if eXY != want {
			r.Violation("C16/"+name+"/tolerance/"+inOut(want)+"-"+placement,
				fmt.Sprintf("FloatValueApprox(%v,%v) on (%v,%v) = %v, exact arithmetic says |x-y| <= max(margin, fraction*min(|x|,|y|)) is %v", fr, mg, x, y, eXY, want), replay)
		}
	}
}

func inOut(inside bool) string {
	if inside {
		return "inside"
	}
	return "outside"
}

// deltaCase picks a difference in nanoseconds and a tolerance placed relative to it.
func deltaCase(rng *vk.Rand) (delta int64, d time.Duration, placement string, ok bool) {
	delta = []int64{0, 1, 999_999_999, 1_000_000_000, 1_000_000_001, int64(rng.Range(0, 1_000_000)), int64(rng.Range(0, 1<<40)), 100_000_000_000_000_000}[rng.Intn(8)]
	switch rng.Intn(6) {
	case 0:
		d, placement = time.Duration(delta), "at"
	case 1:
		d, placement = time.Duration(delta+1), "just-above"
	case 2:
		d, placement = time.Duration(delta-1), "just-below"
	case 3:
		d, placement = time.Duration(2*delta+5), "far-above"
	case 4:
		d, placement = time.Duration(delta/2), "far-below"
		if delta/2 == delta {
			placement = "at"
		}
	default:
		d, placement = 0, "zero"
		if delta == 0 {
			placement = "at"
		}
	}
	return delta, d, placement, d >= 0
}

func tsOf(nanos int64) *timestamppb.Timestamp {
	return &timestamppb.Timestamp{Seconds: nanos / 1_000_000_000, Nanos: int32(nanos % 1_000_000_000)}
}

func durOf(nanos int64) *durationpb.Duration {
	return &durationpb.Duration{Seconds: nanos / 1_000_000_000, Nanos: int32(nanos % 1_000_000_000)}
}

func valueLevelTime(r *vk.Run) {
	const name = "TimeValueWithin"
	n := r.Pick(8000, 200000)
	fd := tsFds[0]
	for i := 0; i < n; i++ {
		if !r.Mine(i) {
			continue
		}
		rng := r.CaseRand("value-time", i)
		delta, d, placement, ok := deltaCase(rng)
		if !ok {
			r.Count("value/"+name+"/out-of-domain(negative tolerance)", 1)
			continue
		}
		base := int64(rng.Range(0, 2_000_000_000))*1_000_000_000 + int64(rng.Range(0, 999_999_999))
		if rng.Chance(1, 8) {
			base = 0
		}
		tx, ty := base, base+delta
		if rng.Bool() {
			tx, ty = ty, tx
		}
		x, y := tsOf(tx), tsOf(ty)
		c := cmp.TimeValueWithin(d)
		vx, vy := pref.ValueOfMessage(x.ProtoReflect()), pref.ValueOfMessage(y.ProtoReflect())
		eXY, okXY, eYX, okYX, panicked, what := callValue(c, fd, vx, vy)
		replay := map[string]any{"comparer": fmt.Sprintf("TimeValueWithin(%dns)", int64(d)), "x_nanos": fmt.Sprint(tx), "y_nanos": fmt.Sprint(ty), "placement": placement}
		r.Eval(2)
		r.Count("value/"+name+"/cases", 1)
		r.Count("value/"+name+"/placement:"+placement, 1)
		r.Distinct(fmt.Sprintf("vt|%d|%d|%d", tx, ty, d))
		if r.WantSample("value-time:" + placement) {
			r.Sample("value-time:"+placement, map[string]any{"case": replay, "equal": eXY})
		}
		if panicked {
			r.Violation("C16/"+name+"/panic/value", what, replay)
			continue
		}
		if !okXY || !okYX {
			r.Violation("C16/"+name+"/own-kind-not-handled/timestamp", "ok=false on a Timestamp field", replay)
		}
		for _, v := range []pref.Value{vx, vy} {
			var e, ok2 bool
			cl := "time"
			if v.Message().Interface().(*timestamppb.Timestamp).GetSeconds() == 0 && v.Message().Interface().(*timestamppb.Timestamp).GetNanos() == 0 {
				cl = "epoch"
			}
			if pk, _ := vk.Recover(func() { e, ok2 = c(fd, v, v) }); pk || !e || !ok2 {
				r.Violation("C16/"+name+"/reflexive/"+cl, fmt.Sprintf("%v on (t,t) = (%v,%v)", replay["comparer"], e, ok2), replay)
			}
			r.Eval(1)
		}
		if eXY != eYX {
			r.Violation("C16/"+name+"/symmetric/"+placement, fmt.Sprintf("(x,y)=%v (y,x)=%v", eXY, eYX), replay)
		}
		want := new(big.Int).Abs(new(big.Int).Sub(big.NewInt(tx), big.NewInt(ty))).Cmp(big.NewInt(int64(d))) <= 0
		r.Count("value/"+name+"/judged-tolerance", 1)
		if eXY != want {
			r.Violation("C16/"+name+"/tolerance/"+inOut(want)+"-"+placement, fmt.Sprintf("%v: |x-y| = %dns, comparer says %v", replay["comparer"], delta, eXY), replay)
		}
	}
}

// valueLevelTimeFar: timestamps anywhere in the valid protobuf range (years 1..9999) that lie further apart than a
// time.Duration can express (about 292 years). Their distance exceeds every tolerance, so the comparer must say
// "not within", both ways round, and each must still be within tolerance of itself.
func valueLevelTimeFar(r *vk.Run) {
	const name = "TimeValueWithin"
	const minS, maxS = int64(-62135596800), int64(253402300799)
	const far = int64(9_300_000_000) // > math.MaxInt64 nanoseconds, in seconds
	n := r.Pick(1500, 30000)
	fd := tsFds[0]
	anchors := []int64{minS, 0, maxS, -11644473600 /* 1601 */, 9_300_000_000 /* 2264 */}
	for i := 0; i < n; i++ {
		if !r.Mine(i) {
			continue
		}
		rng := r.CaseRand("value-time-far", i)
		var sx, sy int64
		for {
			pick := func() int64 {
				if rng.Chance(1, 3) {
					return anchors[rng.Intn(len(anchors))]
				}
				return minS + int64(rng.Uint64()%uint64(maxS-minS))
			}
			sx, sy = pick(), pick()
			if sx-sy > far || sy-sx > far {
				break
			}
		}
		x := &timestamppb.Timestamp{Seconds: sx, Nanos: int32(rng.Range(0, 999_999_999))}
		y := &timestamppb.Timestamp{Seconds: sy, Nanos: int32(rng.Range(0, 999_999_999))}
		d := []time.Duration{0, time.Nanosecond, time.Second, time.Hour, 24 * 365 * time.Hour, 200 * 24 * 365 * time.Hour}[rng.Intn(6)]
		c := cmp.TimeValueWithin(d)
		vx, vy := pref.ValueOfMessage(x.ProtoReflect()), pref.ValueOfMessage(y.ProtoReflect())
		eXY, okXY, eYX, okYX, panicked, what := callValue(c, fd, vx, vy)
		replay := map[string]any{"comparer": fmt.Sprintf("TimeValueWithin(%dns)", int64(d)), "x_seconds": fmt.Sprint(sx), "y_seconds": fmt.Sprint(sy), "placement": "far-apart"}
		r.Eval(2)
		r.Count("value/"+name+"/far-apart-cases", 1)
		r.Distinct(fmt.Sprintf("vtf|%d|%d|%d", sx, sy, d))
		if panicked {
			r.Violation("C16/"+name+"/panic/value", what, replay)
			continue
		}
		if !okXY || !okYX {
			r.Violation("C16/"+name+"/own-kind-not-handled/timestamp", "ok=false on a Timestamp field", replay)
		}
		for _, v := range []pref.Value{vx, vy} {
			var e, ok2 bool
			if pk, _ := vk.Recover(func() { e, ok2 = c(fd, v, v) }); pk || !e || !ok2 {
				r.Violation("C16/"+name+"/reflexive/far-range", fmt.Sprintf("%v on (t,t) = (%v,%v)", replay["comparer"], e, ok2), replay)
			}
		}
		if eXY != eYX {
			r.Violation("C16/"+name+"/symmetric/far-apart", fmt.Sprintf("(x,y)=%v (y,x)=%v", eXY, eYX), replay)
		}
		if eXY || eYX {
			r.Violation("C16/"+name+"/tolerance/outside-far-apart", fmt.Sprintf("%v: the timestamps are %d s apart, comparer says within (x,y)=%v (y,x)=%v", replay["comparer"], sx-sy, eXY, eYX), replay)
		}
	}
}

func valueLevelDuration(r *vk.Run) {
	const name = "DurationValueWithin"
	n := r.Pick(8000, 200000)
	fd := duFds[0]
	for i := 0; i < n; i++ {
		if !r.Mine(i) {
			continue
		}
		rng := r.CaseRand("value-dur", i)
		delta, d, placement, ok := deltaCase(rng)
		if !ok {
			r.Count("value/"+name+"/out-of-domain(negative tolerance)", 1)
			continue
		}
		// base durations of either sign; differences may straddle zero
		base := int64(rng.Range(-1_000_000_000, 1_000_000_000))*1_000_000_000 + int64(rng.Range(0, 999_999_999))
		switch rng.Intn(6) {
		case 0:
			base = 0
		case 1:
			base = -delta / 2
		}
		dx, dy := base, base+delta
		if rng.Bool() {
			dx, dy = dy, dx
		}
		x, y := durOf(dx), durOf(dy)
		c := cmp.DurationValueWithin(d)
		vx, vy := pref.ValueOfMessage(x.ProtoReflect()), pref.ValueOfMessage(y.ProtoReflect())
		eXY, okXY, eYX, okYX, panicked, what := callValue(c, fd, vx, vy)
		replay := map[string]any{"comparer": fmt.Sprintf("DurationValueWithin(%dns)", int64(d)), "x_nanos": fmt.Sprint(dx), "y_nanos": fmt.Sprint(dy), "placement": placement}
		r.Eval(2)
		r.Count("value/"+name+"/cases", 1)
		r.Count("value/"+name+"/placement:"+placement, 1)
		r.Distinct(fmt.Sprintf("vd|%d|%d|%d", dx, dy, d))
		if r.WantSample("value-dur:" + placement) {
			r.Sample("value-dur:"+placement, map[string]any{"case": replay, "equal": eXY})
		}
		if panicked {
			r.Violation("C16/"+name+"/panic/value", what, replay)
			continue
		}
		if !okXY || !okYX {
			r.Violation("C16/"+name+"/own-kind-not-handled/duration", "ok=false on a Duration field", replay)
		}
		for k, v := range []pref.Value{vx, vy} {
			var e, ok2 bool
			nanos := []int64{dx, dy}[k]
			if pk, _ := vk.Recover(func() { e, ok2 = c(fd, v, v) }); pk || !e || !ok2 {
				r.Violation("C16/"+name+"/reflexive/"+signClass(nanos), fmt.Sprintf("%v on (d,d) = (%v,%v)", replay["comparer"], e, ok2), replay)
			}
			r.Eval(1)
		}
		if eXY != eYX {
			r.Violation("C16/"+name+"/symmetric/"+placement, fmt.Sprintf("(x,y)=%v (y,x)=%v", eXY, eYX), replay)
		}
		want := new(big.Int).Abs(new(big.Int).Sub(big.NewInt(dx), big.NewInt(dy))).Cmp(big.NewInt(int64(d))) <= 0
		r.Count("value/"+name+"/judged-tolerance", 1)
		if eXY != want {
			r.Violation("C16/"+name+"/tolerance/"+inOut(want)+"-"+placement, fmt.Sprintf("%v: |x-y| = %dns, comparer says %v", replay["comparer"], delta, eXY), replay)
		}
	}
}

func signClass(n int64) string {
	switch {
	case n == 0:
		return "zero"
	case n < 0:
		return "negative"
	}
	return "positive"
}

// valueLevelDurationP: "within p percent of each other". The statement fixes reflexivity and symmetry; for the
// tolerance itself only pairs on which every reading of "p percent of each other" agrees are judged:
// inside when |x-y| <= p/100*min(|x|,|y|), outside when |x-y| > max(p,p/100)*max(|x|,|y|).
func valueLevelDurationP(r *vk.Run) {
	const name = "DurationValueWithinP"
	fd := duFds[0]
	ps := []float32{0, 0.5, 1, 5, 10, 50, 100, 150}
	durs := []int64{0, 1, 1_000_000_000, 1_500_000_000, 60_000_000_000, 100_000_000_000, -1_000_000_000, -90_000_000_000, 3_600_000_000_000}
	k := 0
	for _, p := range ps {
		for _, dx := range durs {
			for _, dy := range durs {
				k++
				if !r.Mine(k) {
					continue
				}
				c := cmp.DurationValueWithinP(p)
				x, y := durOf(dx), durOf(dy)
				vx, vy := pref.ValueOfMessage(x.ProtoReflect()), pref.ValueOfMessage(y.ProtoReflect())
				eXY, okXY, eYX, okYX, panicked, what := callValue(c, fd, vx, vy)
				replay := map[string]any{"comparer": fmt.Sprintf("DurationValueWithinP(%v)", p), "x_nanos": fmt.Sprint(dx), "y_nanos": fmt.Sprint(dy)}
				r.Eval(2)
				r.Count("value/"+name+"/cases", 1)
				r.Distinct(fmt.Sprintf("vp|%v|%d|%d", p, dx, dy))
				if r.WantSample("value-durp") {
					r.Sample("value-durp", map[string]any{"case": replay, "equal": eXY})
				}
				if panicked {
					r.Violation("C16/"+name+"/panic/value", what, replay)
					continue
				}
				if !okXY || !okYX {
					r.Violation("C16/"+name+"/own-kind-not-handled/duration", "ok=false on a Duration field", replay)
				}
				if dx == dy {
					r.Count("value/"+name+"/reflexive-checks", 1)
					if !eXY {
						cl := "nonzero"
						if dx == 0 {
							cl = "zero"
						}
						r.Violation("C16/"+name+"/reflexive/"+cl, fmt.Sprintf("DurationValueWithinP(%v) on (%dns,%dns) = %v", p, dx, dy, eXY), replay)
					}
					continue
				}
				if eXY != eYX {
					cl := "pair"
					r.Violation("C16/"+name+"/symmetric/"+cl, fmt.Sprintf("DurationValueWithinP(%v): (%dns,%dns)=%v but reversed=%v", p, dx, dy, eXY, eYX), replay)
				}
				// tolerance, only where all readings agree
				diff := new(big.Float).SetInt64(dx - dy)
				diff.Abs(diff)
				ax, ay := new(big.Float).SetInt64(dx), new(big.Float).SetInt64(dy)
				ax.Abs(ax)
				ay.Abs(ay)
				mn, mx := ax, ay
				if mn.Cmp(mx) > 0 {
					mn, mx = mx, mn
				}
				pf := new(big.Float).SetFloat64(float64(p))
				inside := diff.Cmp(new(big.Float).Mul(new(big.Float).Quo(pf, big.NewFloat(100)), mn)) <= 0
				loose := pf
				outside := diff.Cmp(new(big.Float).Mul(loose, mx)) > 0 && diff.Cmp(new(big.Float).Mul(new(big.Float).Quo(pf, big.NewFloat(100)), mx)) > 0
				switch {
				case inside:
					r.Count("value/"+name+"/judged-tolerance", 1)
					if !eXY || !eYX {
						r.Violation("C16/"+name+"/tolerance/inside", fmt.Sprintf("DurationValueWithinP(%v) rejects (%dns,%dns) although they differ by no more than p%% of the smaller", p, dx, dy), replay)
					}
				case outside:
					r.Count("value/"+name+"/judged-tolerance", 1)
					if eXY || eYX {
						r.Violation("C16/"+name+"/tolerance/outside", fmt.Sprintf("DurationValueWithinP(%v) accepts (%dns,%dns) although they differ by more than p times the larger", p, dx, dy), replay)
					}
				default:
					r.Count("value/"+name+"/open:reading-of-percent", 1)
				}
			}
		}
	}
}

// valueLevelOtherKind: a tolerance comparer must decline (ok=false) every field that is not of its own kind.
func valueLevelOtherKind(r *vk.Run) {
	type tc struct {
		name string
		c    cmp.Value
		own  func(fd pref.FieldDescriptor) bool
	}
	isMsg := func(n pref.FullName) func(fd pref.FieldDescriptor) bool {
		return func(fd pref.FieldDescriptor) bool { return fd.Message() != nil && fd.Message().FullName() == n }
	}
	comparers := []tc{
		{"FloatValueApprox", cmp.FloatValueApprox(0.5, 1000), isFloatKind},
		{"TimeValueWithin", cmp.TimeValueWithin(time.Hour), isMsg(tsName)},
		{"DurationValueWithin", cmp.DurationValueWithin(time.Hour), isMsg(durName)},
		{"DurationValueWithinP", cmp.DurationValueWithinP(1000), isMsg(durName)},
	}
	rng := r.Rand("other-kind")
	var fds []pref.FieldDescriptor
	for _, fs := range []pref.FieldDescriptors{allFields, wkFields} {
		for i := 0; i < fs.Len(); i++ {
			fd := fs.Get(i)
			if fd.IsMap() {
				fds = append(fds, fd.MapValue())
				continue
			}
			fds = append(fds, fd)
		}
	}
	if !r.Mine(0) {
		return
	}
	for _, t := range comparers {
		for _, fd := range fds {
			if t.own(fd) {
				continue
			}
			for rep := 0; rep < 4; rep++ {
				var vx, vy pref.Value
				if fd.Message() != nil {
					mx := vk.GenMessage(rng, dynamicOrConcrete(fd), vk.GenOpts{Density: 50, MaxDepth: 1, MaxList: 2})
					my := clone(mx)
					if rep%2 == 1 {
						safeMutate(rng, my, vk.DefaultGen)
					}
					vx, vy = pref.ValueOfMessage(mx.ProtoReflect()), pref.ValueOfMessage(my.ProtoReflect())
				} else {
					vx = randScalar(rng, fd, false)
					vy = vx
					if rep%2 == 1 {
						vy = randScalar(rng, fd, false)
					}
				}
				var e, ok bool
				pk, what := vk.Recover(func() { e, ok = t.c(fd, vx, vy) })
				r.Eval(1)
				r.Count("value/other-kind-checks", 1)
				r.Distinct(fmt.Sprintf("ok|%s|%s|%d", t.name, fd.FullName(), rep))
				replay := map[string]any{"comparer": t.name, "field": string(fd.FullName()), "x": fmt.Sprint(vx), "y": fmt.Sprint(vy)}
				if pk {
					r.Violation("C16/"+t.name+"/other-kind/panic-"+fieldClass(fd), what, replay)
					continue
				}
				if ok {
					r.Violation("C16/"+t.name+"/other-kind/"+fieldClass(fd), fmt.Sprintf("%s decides (equal=%v, ok=true) a field of kind %v (%s)", t.name, e, fd.Kind(), fd.FullName()), replay)
				}
			}
		}
	}
}

func dynamicOrConcrete(fd pref.FieldDescriptor) proto.Message {
	switch fd.Message().FullName() {
	case "sc.go.test.TestAllTypes":
		return &testproto.TestAllTypes{}
	case "sc.go.test.TestAllTypes.NestedMessage":
		return &testproto.TestAllTypes_NestedMessage{}
	case "sc.go.test.ForeignMessage":
		return &testproto.ForeignMessage{}
	case "sc.go.test.WellKnown":
		return &testproto.WellKnown{}
	case tsName:
		return &timestamppb.Timestamp{}
	case durName:
		return &durationpb.Duration{}
	}
	panic("no concrete type for " + string(fd.Message().FullName()))
}
