package main

// Message level: cmp.Equal(<tolerance comparers>) against the reference equivalence (refEqual) on mutation pairs
// in which one value of the comparer's own kind - top level, nested, in a list or in a map - differs by an amount
// placed just below, at or just above the tolerance, possibly together with differences in fields of other kinds.

import (
	"fmt"
	"math"
	"strings"
	"time"

	"google.golang.org/protobuf/proto"
	pref "google.golang.org/protobuf/reflect/protoreflect"

	"github.com/smart-core-os/sc-golang/internal/verif/vk"
	"github.com/smart-core-os/sc-golang/pkg/cmp"
)

func isKindSite(kind string) func(s site) bool {
	return func(s site) bool {
		fd := s.fd
		if fd.IsMap() {
			fd = fd.MapValue()
		}
		switch kind {
		case "float":
			return isFloatKind(fd)
		case "time":
			return fd.Message() != nil && fd.Message().FullName() == tsName
		case "dur":
			return fd.Message() != nil && fd.Message().FullName() == durName
		}
		return false
	}
}

// setAt writes v at the site: the singular field, one list slot (appending when the list is empty) or one map entry.
// slot selects the list index / map key; the same slot applied to two structurally identical messages hits the
// same place.
func setAt(s site, slot int, v func(fd pref.FieldDescriptor) pref.Value) string {
	switch {
	case s.fd.IsMap():
		mp := s.holder.Mutable(s.fd).Map()
		ks := sortedKeys(mp)
		var k pref.MapKey
		if len(ks) > 0 {
			k = ks[slot%len(ks)]
		} else {
			k = s.fd.MapKey().Default().MapKey()
			if s.fd.MapKey().Kind() == pref.StringKind {
				k = pref.ValueOfString("k").MapKey()
			}
		}
		mp.Set(k, v(s.fd.MapValue()))
		return "map"
	case s.fd.IsList():
		l := s.holder.Mutable(s.fd).List()
		if l.Len() == 0 {
			l.Append(v(s.fd))
		} else {
			l.Set(slot%l.Len(), v(s.fd))
		}
		return "list"
	}
	s.holder.Set(s.fd, v(s.fd))
	if s.depth > 0 {
		return "nested"
	}
	return "singular"
}

func msgValue(m proto.Message) func(pref.FieldDescriptor) pref.Value {
	return func(pref.FieldDescriptor) pref.Value { return pref.ValueOfMessage(proto.Clone(m).ProtoReflect()) }
}

// genTolPair builds a pair and a comparer expression for the message-level clause.
func genTolPair(rng *vk.Rand) (p *pair, tree *vnode, placement, where string) {
	o := vk.GenOpts{Density: []int{10, 25, 40}[rng.Intn(3)], MaxDepth: 2, Special: rng.Chance(1, 5), Unknown: rng.Chance(1, 6), MaxList: 3}
	anc := vk.GenMessage(rng, likeAll, o)
	if rng.Chance(3, 4) {
		names := []string{"default_well_known", "repeated_well_known", "map_string_well_known", "repeated_double", "map_int32_float", "default_nested_message", "optional_double"}
		k := rng.Range(1, 3)
		var pick []string
		for _, i := range rng.Perm(len(names))[:k] {
			pick = append(pick, names[i])
		}
		enrich(rng, anc, o, pick...)
	}
	kind := []string{"float", "float", "time", "dur"}[rng.Intn(4)]
	if kind != "float" && len(sitesOf(anc, 3, isKindSite(kind))) == 0 {
		enrich(rng, anc, o, "default_well_known")
		anc.ProtoReflect().Mutable(allFields.ByName("default_well_known")) // the holder at least
	}
	p = &pair{family: "tolerance:" + kind, x: clone(anc), y: clone(anc)}

	// the jitter, applied while x and y are still identical
	sx, sy := sitesOf(p.x, 3, isKindSite(kind)), sitesOf(p.y, 3, isKindSite(kind))
	k, slot := rng.Intn(len(sx)), rng.Intn(4)
	var leaf *vnode
	switch kind {
	case "float":
		fx, fy, fr, mg, pl := floatCase(rng)
		placement = pl
		where = setAt(sx[k], slot, func(fd pref.FieldDescriptor) pref.Value { return floatValue(fd, fx) })
		setAt(sy[k], slot, func(fd pref.FieldDescriptor) pref.Value { return floatValue(fd, fy) })
		leaf = &vnode{Op: "float", Fr: fr, Mg: mg}
	case "time":
		var delta int64
		var d time.Duration
		for {
			var ok bool
			if delta, d, placement, ok = deltaCase(rng); ok {
				break
			}
		}
		base := int64(rng.Range(1, 2_000_000_000))*1_000_000_000 + int64(rng.Range(0, 999_999_999))
		tx, ty := base, base+delta
		if rng.Bool() {
			tx, ty = ty, tx
		}
		where = setAt(sx[k], slot, msgValue(tsOf(tx)))
		setAt(sy[k], slot, msgValue(tsOf(ty)))
		leaf = &vnode{Op: "time", D: d}
	default:
		var delta int64
		var d time.Duration
		for {
			var ok bool
			if delta, d, placement, ok = deltaCase(rng); ok {
				break
			}
		}
		base := int64(rng.Range(-1_000_000, 1_000_000))*1_000_000_000 + int64(rng.Range(0, 999_999_999))
		if rng.Chance(1, 5) {
			base = -delta / 2
		}
		dx, dy := base, base+delta
		if rng.Bool() {
			dx, dy = dy, dx
		}
		where = setAt(sx[k], slot, msgValue(durOf(dx)))
		setAt(sy[k], slot, msgValue(durOf(dy)))
		leaf = &vnode{Op: "dur", D: d}
	}
	p.classes = []string{"jitter-" + kind + "-" + where}

	// further differences, mostly in fields of other kinds
	if rng.Chance(2, 5) {
		n := rng.Range(1, 2)
		for i := 0; i < n; i++ {
			target := p.y
			if rng.Chance(1, 4) {
				target = p.x
			}
			if cl, ok := applyMutation(rng, target, mutationKinds[rng.Intn(len(mutationKinds))], o); ok {
				p.classes = append(p.classes, cl)
			}
		}
	}

	// the comparer expression: the leaf alone, or combined with other tolerance comparers
	tree = leaf
	if rng.Chance(1, 3) {
		tree = &vnode{Op: []string{"and", "or"}[rng.Intn(2)], Kids: []*vnode{leaf}}
		for i, n := 0, rng.Range(1, 2); i < n; i++ {
			tree.Kids = append(tree.Kids, randLeaf(rng, leaf))
		}
		if rng.Chance(1, 3) {
			tree = &vnode{Op: []string{"and", "or"}[rng.Intn(2)], Kids: []*vnode{tree, randLeaf(rng, leaf)}}
		}
		perm := rng.Perm(len(tree.Kids))
		ks := make([]*vnode, len(perm))
		for i, j := range perm {
			ks[i] = tree.Kids[j]
		}
		tree.Kids = ks
	}
	return
}

// randLeaf returns another tolerance leaf; when it is of the same kind as like its tolerance is a simple multiple
// so that combinations tighten or loosen the comparison.
func randLeaf(rng *vk.Rand, like *vnode) *vnode {
	switch rng.Intn(4) {
	case 0:
		switch like.Op {
		case "float":
			return &vnode{Op: "float", Fr: like.Fr, Mg: like.Mg * []float64{0, 0.5, 2}[rng.Intn(3)]}
		default:
			return &vnode{Op: like.Op, D: time.Duration(float64(like.D) * []float64{0, 0.5, 2}[rng.Intn(3)])}
		}
	case 1:
		return &vnode{Op: "float", Fr: []float64{0, 0.25}[rng.Intn(2)], Mg: []float64{0, 0.5, 4}[rng.Intn(3)]}
	case 2:
		return &vnode{Op: "time", D: time.Duration(rng.Range(0, 3)) * time.Second}
	}
	return &vnode{Op: "dur", D: time.Duration(rng.Range(0, 3)) * time.Second}
}

// specialContent classifies the float content of a message (for reflexivity keys).
func specialContent(m proto.Message) string {
	res := "finite"
	var walk func(m pref.Message)
	note := func(f float64) {
		switch {
		case math.IsNaN(f):
			res = "nan"
		case math.IsInf(f, 0) && res != "nan":
			res = "inf"
		}
	}
	walk = func(m pref.Message) {
		m.Range(func(fd pref.FieldDescriptor, v pref.Value) bool {
			switch {
			case fd.IsMap():
				v.Map().Range(func(_ pref.MapKey, e pref.Value) bool {
					if isFloatKind(fd.MapValue()) {
						note(e.Float())
					} else if fd.MapValue().Message() != nil {
						walk(e.Message())
					}
					return true
				})
			case fd.IsList():
				for i := 0; i < v.List().Len(); i++ {
					if isFloatKind(fd) {
						note(v.List().Get(i).Float())
					} else if fd.Message() != nil {
						walk(v.List().Get(i).Message())
					}
				}
			case isFloatKind(fd):
				note(v.Float())
			case fd.Message() != nil:
				walk(v.Message())
			}
			return true
		})
	}
	walk(m.ProtoReflect())
	return res
}

func messageLevel(r *vk.Run) {
	n := r.Pick(30000, 1200000)
	for i := 0; i < n; i++ {
		if !r.Mine(i) {
			continue
		}
		rng := r.CaseRand("message-level", i)
		p, tree, placement, _ := genTolPair(rng)
		viaEqualArgs := tree.Op == "and" && rng.Bool()
		var real cmp.Message
		if viaEqualArgs {
			var ks []cmp.Value
			for _, k := range tree.Kids {
				ks = append(ks, k.real())
			}
			real = cmp.Equal(ks...) // Equal combines its arguments as a conjunction
		} else {
			real = cmp.Equal(tree.real())
		}
		checkTolPair(r, p, tree, real, placement)
	}
	messageLevelDurationP(r)
}

func keyPrefix(tree *vnode) string {
	if tree.Op == "and" || tree.Op == "or" {
		return "C16/logic/" + tree.name() + "/message-"
	}
	return "C16/" + tree.name() + "/"
}

func checkTolPair(r *vk.Run, p *pair, tree *vnode, real cmp.Message, placement string) {
	x, y := p.x, p.y
	cx, cy := canon(x), canon(y)
	name := tree.name()
	replay := map[string]any{"pair": p.replay(), "comparer": "cmp.Equal(" + tree.String() + ")", "tree": tree, "placement": placement}
	var gXY, gYX, gXX, gYY bool
	panicked, what := vk.Recover(func() {
		gXY, gYX = real(x, y), real(y, x)
		gXX, gYY = real(x, x), real(y, y)
	})
	r.Eval(4)
	r.Count("message/pairs", 1)
	r.Count("message/comparer:"+name, 1)
	r.Count("message/placement:"+placement, 1)
	for _, c := range p.classes {
		r.Count("message/mutation:"+c, 1)
	}
	r.Distinct("msg|" + tree.String() + "|" + cx + "|" + cy)
	if r.WantSample("message-level:" + name) {
		r.Sample("message-level:"+name, map[string]any{"case": replay, "equal": gXY})
	}
	pre := keyPrefix(tree)
	if panicked {
		r.Violation(pre+"panic", what, replay)
		return
	}
	if canon(x) != cx || canon(y) != cy {
		r.Violation(pre+"mutates-input", "the comparer changed an argument", replay)
	}
	// reflexive (a message against itself: proto.Clone is not faithful for -0 in implicit-presence fields, so a
	// deep copy is not used here)
	nonReflexive := false
	for k, g := range []bool{gXX, gYY} {
		if !g {
			m := []proto.Message{x, y}[k]
			nonReflexive = true
			// attribute to the tolerance leaf that is not reflexive on its own, if there is one
			attributed := false
			for _, leaf := range tree.leaves() {
				var gl bool
				if pk, _ := vk.Recover(func() { gl = cmp.Equal(leaf.real())(m, m) }); !pk && !gl {
					attributed = true
					r.Violation("C16/"+leaf.name()+"/reflexive/msg-"+specialContent(m), fmt.Sprintf("cmp.Equal(%s)(m, m) = false for m=%s", leaf, vk.JSON(m)), replay)
				}
			}
			if !attributed {
				r.Violation(pre+"reflexive/msg-"+specialContent(m), fmt.Sprintf("cmp.Equal(%s)(m, m) = false for m=%s", tree, vk.JSON(m)), replay)
			}
		}
	}
	if gXY != gYX {
		_, class := shrinkPair(x, y, func(a, b proto.Message) bool {
			var g1, g2 bool
			if pk, _ := vk.Recover(func() { g1, g2 = real(a, b), real(b, a) }); pk {
				return false
			}
			return g1 != g2
		})
		skey := pre + "symmetric/msg-" + class
		var dXY, dYX bool
		if pk, _ := vk.Recover(func() { dXY, dYX = cmp.Equal()(x, y), cmp.Equal()(y, x) }); !pk && dXY != dYX {
			skey = "C16/equal-vs-proto/asymmetric/" + class // the default comparer is asymmetric on this pair too
		}
		r.Violation(skey, fmt.Sprintf("cmp.Equal(%s)(x,y)=%v but (y,x)=%v\nx=%s\ny=%s", tree, gXY, gYX, vk.JSON(x), vk.JSON(y)), replay)
	}
	if nonReflexive {
		r.Count("message/not-judged(non-reflexive content)", 1)
		return
	}
	want, open := refEqual(x, y, tree)
	if !want {
		open = ""
	}
	if open != "" {
		r.Count("message/open:"+open, 1)
		return
	}
	r.Count("message/judged", 1)
	if want {
		r.Count("message/oracle-equal", 1)
	} else {
		r.Count("message/oracle-unequal", 1)
	}
	if exact := proto.Equal(x, y); exact != want {
		r.Count("message/tolerance-decides", 1)
	}
	if gXY == want && gYX == want {
		return
	}
	got := gXY
	if gXY == want {
		got = gYX
	}
	fails := func(a, b proto.Message) bool {
		w, op := refEqual(a, b, tree)
		if w && op != "" {
			return false
		}
		var g1, g2, ga, gb bool
		if pk, _ := vk.Recover(func() { g1, g2, ga, gb = real(a, b), real(b, a), real(a, a), real(b, b) }); pk || !ga || !gb {
			return false
		}
		return g1 != w || g2 != w
	}
	y2, class := shrinkPair(x, y, fails)
	clause := "other-kind"
	own := map[string]string{"float": "float", "time": "timestamp", "dur": "duration"}
	for op, word := range own {
		if tree.has(op) && strings.Contains(class, word) {
			clause = "tolerance"
		}
	}
	key := pre + clause + "/msg-" + class + "/" + verdictName(got)
	if clause == "other-kind" {
		// when the default comparer is wrong on the reduced pair as well, the defect is in the shared comparison
		// skeleton, not in this comparer: report it under the first clause's key
		var dgXY, dgYX bool
		if pk, _ := vk.Recover(func() { dgXY, dgYX = cmp.Equal()(x, y2), cmp.Equal()(y2, x) }); !pk {
			if w, op := refEqual(x, y2, nil); op == "" {
				switch {
				case dgXY != w:
					key = "C16/equal-vs-proto/" + class + "/" + verdictName(dgXY)
				case dgYX != w:
					key = "C16/equal-vs-proto/" + class + "/" + verdictName(dgYX)
				}
			}
		}
	}
	r.Violation(key,
		fmt.Sprintf("cmp.Equal(%s)(x,y)=%v (y,x)=%v, reference equivalence says %v (placement %s)\nreduced pair:\nx=%s\ny=%s\noriginal y=%s",
			tree, gXY, gYX, want, placement, vk.JSON(x), vk.JSON(y2), vk.JSON(y)),
		map[string]any{"case": replay, "reduced_y": vk.JSON(y2)})
}

// messageLevelDurationP: reflexivity and symmetry of cmp.Equal(DurationValueWithinP(p)) on messages with durations.
func messageLevelDurationP(r *vk.Run) {
	const name = "DurationValueWithinP"
	n := r.Pick(600, 20000)
	for i := 0; i < n; i++ {
		if !r.Mine(i) {
			continue
		}
		rng := r.CaseRand("message-durp", i)
		o := vk.GenOpts{Density: 15, MaxDepth: 2, MaxList: 2}
		x := vk.GenMessage(rng, likeAll, o)
		enrich(rng, x, o, "default_well_known")
		x.ProtoReflect().Mutable(allFields.ByName("default_well_known"))
		y := clone(x)
		ss, sy := sitesOf(x, 3, isKindSite("dur")), sitesOf(y, 3, isKindSite("dur"))
		k := rng.Intn(len(ss))
		dx := int64(rng.Range(-100, 100)) * 500_000_000
		dy := dx
		if rng.Bool() {
			dy = int64(rng.Range(-100, 100)) * 500_000_000
		}
		setAt(ss[k], 0, msgValue(durOf(dx)))
		setAt(sy[k], 0, msgValue(durOf(dy)))
		pc := []float32{0, 0.5, 1, 10, 50, 100, 200}[rng.Intn(7)]
		real := cmp.Equal(cmp.DurationValueWithinP(pc))
		var gXY, gYX, gXX bool
		replay := map[string]any{"comparer": fmt.Sprintf("cmp.Equal(DurationValueWithinP(%v))", pc), "x": vk.JSON(x), "y": vk.JSON(y)}
		pk, what := vk.Recover(func() { gXY, gYX, gXX = real(x, y), real(y, x), real(x, x) })
		r.Eval(3)
		r.Count("message/"+name+"/cases", 1)
		r.Distinct("mdp|" + fmt.Sprint(pc) + canon(x) + canon(y))
		if pk {
			r.Violation("C16/"+name+"/panic/msg", what, replay)
			continue
		}
		if !gXX {
			r.Violation("C16/"+name+"/reflexive/msg", fmt.Sprintf("cmp.Equal(DurationValueWithinP(%v))(m, m) = false for m=%s", pc, vk.JSON(x)), replay)
		}
		if gXY != gYX {
			r.Violation("C16/"+name+"/symmetric/msg", fmt.Sprintf("cmp.Equal(DurationValueWithinP(%v))(x,y)=%v but (y,x)=%v\nx=%s\ny=%s", pc, gXY, gYX, vk.JSON(x), vk.JSON(y)), replay)
		}
	}
}
