package main

import (
	"fmt"
	"sort"
	"strings"

	"github.com/smart-core-os/sc-api/go/traits"
	"google.golang.org/protobuf/proto"
	pref "google.golang.org/protobuf/reflect/protoreflect"

	"github.com/smart-core-os/sc-golang/internal/testproto"
	"github.com/smart-core-os/sc-golang/internal/verif/vk"
	"github.com/smart-core-os/sc-golang/pkg/cmp"
)

var (
	likeAll = proto.Message(&testproto.TestAllTypes{})

	// real messages that contain Change messages (change_time ignored) or a change_time outside a message named
	// Change (types.AudioLevelChange inside PullSpeakerVolumeResponse: compared)
	changeFamily = []proto.Message{
		&traits.PullOnOffResponse{}, &traits.PullBrightnessResponse{}, &traits.PullAirTemperatureResponse{},
		&traits.PullSpeakerVolumeResponse{}, &traits.PullOnOffResponse_Change{}, &traits.PullFanSpeedResponse{},
		&traits.PullEnergyLevelResponse{},
	}
	// other real messages (floats, durations, timestamps, oneofs, field masks)
	otherFamily = []proto.Message{
		&traits.Brightness{}, &traits.AirTemperature{}, &traits.FanSpeed{}, &traits.EnergyLevel{},
		&testproto.WellKnown{}, &testproto.ForeignMessage{}, &testproto.TestAllTypes_NestedMessage{},
	}
	dynFamily = dynTypes()
)

// pair is one generated case of the message-level clauses.
type pair struct {
	family  string
	x, y    proto.Message
	classes []string // mutation classes applied
}

func (p *pair) replay() map[string]any {
	return map[string]any{"family": p.family, "mutations": p.classes, "x": vk.JSON(p.x), "y": vk.JSON(p.y), "x_type": typeName(p.x), "y_type": typeName(p.y)}
}

func typeName(m proto.Message) string {
	if m == nil {
		return "<nil>"
	}
	return string(m.ProtoReflect().Descriptor().FullName())
}

func genOptsFor(rng *vk.Rand) vk.GenOpts {
	return vk.GenOpts{
		Density:  []int{8, 20, 35, 60}[rng.Intn(4)],
		MaxDepth: rng.Range(1, 2),
		Special:  rng.Chance(2, 3),
		Unknown:  rng.Chance(1, 3),
		MaxList:  3,
	}
}

// genPair derives x and y from a common ancestor by 0-3 mutations.
func genPair(rng *vk.Rand) *pair {
	o := genOptsFor(rng)
	p := &pair{}
	var like proto.Message
	kinds := mutationKinds
	switch c := rng.Intn(100); {
	case c < 62:
		p.family, like = "all-types", likeAll
	case c < 74:
		p.family, like = "change-real", changeFamily[rng.Intn(len(changeFamily))]
		o.Density = []int{35, 60, 90}[rng.Intn(3)]
		kinds = append([]string{"change-time", "change-time", "change-time", "change-time"}, mutationKinds...)
	case c < 84:
		p.family, like = "change-dynamic", dynFamily[rng.Intn(len(dynFamily))]
		o.Density = []int{35, 60, 90}[rng.Intn(3)]
		kinds = append([]string{"change-time", "change-time", "change-time", "change-time"}, mutationKinds...)
	case c < 92:
		p.family, like = "other-real", otherFamily[rng.Intn(len(otherFamily))]
		o.Density = []int{35, 60, 90}[rng.Intn(3)]
	case c < 96:
		return genDifferentTypes(rng, o)
	default:
		return genNilPair(rng, o)
	}
	anc := vk.GenMessage(rng, like, o)
	p.x, p.y = clone(anc), clone(anc)
	n := rng.Intn(4)
	for i := 0; i < n; i++ {
		target := p.y
		if rng.Chance(1, 4) {
			target = p.x
		}
		for try := 0; try < 4; try++ {
			if cl, ok := applyMutation(rng, target, kinds[rng.Intn(len(kinds))], o); ok {
				p.classes = append(p.classes, cl)
				break
			}
		}
	}
	if len(p.classes) == 0 {
		p.classes = []string{"none"}
	}
	return p
}

// genDifferentTypes pairs messages of different types, including ones with identical wire content.
func genDifferentTypes(rng *vk.Rand, o vk.GenOpts) *pair {
	p := &pair{family: "different-types", classes: []string{"different-type"}}
	switch rng.Intn(4) {
	case 0: // same field numbers and wire types, other message type
		a, c := int32(rng.Range(0, 3)), int32(rng.Range(0, 3))
		p.x = &testproto.ForeignMessage{C: a, D: c}
		p.y = &testproto.TestAllTypes{DefaultInt32: a, DefaultInt64: int64(c)}
	case 1: // both empty
		p.x, p.y = &testproto.ForeignMessage{}, &testproto.WellKnown{}
	case 2:
		p.x = &testproto.TestAllTypes_NestedMessage{A: 1}
		p.y = &testproto.ForeignMessage{C: 1}
	default:
		all := append(append([]proto.Message{likeAll}, otherFamily...), dynFamily...)
		i, j := rng.Intn(len(all)), rng.Intn(len(all))
		if i == j {
			j = (j + 1) % len(all)
		}
		p.x, p.y = vk.GenMessage(rng, all[i], o), vk.GenMessage(rng, all[j], o)
	}
	if rng.Bool() {
		p.x, p.y = p.y, p.x
	}
	return p
}

// genNilPair covers nil interfaces and typed nil pointers against each other and against (empty) messages.
func genNilPair(rng *vk.Rand, o vk.GenOpts) *pair {
	p := &pair{family: "nil"}
	vals := []proto.Message{
		nil, (*testproto.TestAllTypes)(nil), (*testproto.ForeignMessage)(nil), &testproto.TestAllTypes{}, &testproto.ForeignMessage{},
		vk.GenMessage(rng, likeAll, o),
	}
	names := []string{"nil", "typed-nil", "typed-nil-other", "empty", "empty-other", "message"}
	i, j := rng.Intn(len(vals)), rng.Intn(len(vals))
	p.x, p.y = vals[i], vals[j]
	if i == j && i == 5 {
		p.y = clone(p.x)
	}
	p.classes = []string{names[i] + "-vs-" + names[j]}
	return p
}

// ---------------------------------------------------------------------------------------------------------

// diffLeaf is one place where x and y differ.
type diffLeaf struct {
	path  []pref.FieldDescriptor // through singular messages; the last element is the differing field (nil = unknown fields)
	class string
}

// diffLeaves lists the differing places of two messages of the same type, descending through singular messages
// present on both sides. With coarse set, the singular message fields on the way are listed too.
func diffLeaves(mx, my pref.Message, prefix []pref.FieldDescriptor, coarse bool, out *[]diffLeaf) {
	fds := mx.Descriptor().Fields()
	for i := 0; i < fds.Len(); i++ {
		fd := fds.Get(i)
		if canonField(mx, fd) == canonField(my, fd) {
			continue
		}
		path := append(append([]pref.FieldDescriptor{}, prefix...), fd)
		if fd.Message() != nil && !fd.IsList() && !fd.IsMap() && mx.Has(fd) && my.Has(fd) {
			if coarse {
				*out = append(*out, diffLeaf{path: path, class: fieldClass(fd) + ".value"})
			}
			diffLeaves(mx.Get(fd).Message(), my.Get(fd).Message(), path, coarse, out)
			continue
		}
		*out = append(*out, diffLeaf{path: path, class: leafClass(mx, my, fd, len(prefix) > 0)})
	}
	if string(mx.GetUnknown()) != string(my.GetUnknown()) {
		path := append(append([]pref.FieldDescriptor{}, prefix...), nil)
		cl := "unknown"
		if len(prefix) > 0 {
			cl = "nested-unknown"
		}
		*out = append(*out, diffLeaf{path: path, class: cl})
	}
}

func leafClass(mx, my pref.Message, fd pref.FieldDescriptor, nested bool) string {
	cl := fieldClass(fd)
	if nested {
		cl = "nested-" + cl
	}
	if mx.Has(fd) != my.Has(fd) {
		return cl + ".presence"
	}
	if isFloatKind(fd) && !fd.IsList() && !fd.IsMap() {
		cx, cy := floatClass(mx.Get(fd).Float()), floatClass(my.Get(fd).Float())
		for _, want := range []string{"nan", "inf", "negzero"} {
			if cx == want || cy == want {
				return cl + ".value-" + want
			}
		}
	}
	if fd.IsList() && mx.Get(fd).List().Len() != my.Get(fd).List().Len() {
		return cl + ".len"
	}
	if fd.IsMap() && mx.Get(fd).Map().Len() != my.Get(fd).Map().Len() {
		return cl + ".len"
	}
	return cl + ".value"
}

// revert makes y agree with x at the place described by path (y is modified).
func revert(x, y pref.Message, path []pref.FieldDescriptor) {
	for _, fd := range path[:len(path)-1] {
		x, y = x.Get(fd).Message(), y.Mutable(fd).Message()
	}
	last := path[len(path)-1]
	if last == nil {
		y.SetUnknown(append(pref.RawFields{}, x.GetUnknown()...))
		return
	}
	setFieldFrom(y, x, last)
}

// shrinkPair removes differences between x and y one at a time as long as the pair keeps failing, and returns
// the reduced y together with the classes of the differences that remain.
func shrinkPair(x, y proto.Message, fails func(x, y proto.Message) bool) (proto.Message, string) {
	if x == nil || y == nil || !x.ProtoReflect().IsValid() || !y.ProtoReflect().IsValid() {
		return y, "nil"
	}
	if x.ProtoReflect().Descriptor() != y.ProtoReflect().Descriptor() {
		return y, "different-type"
	}
	for round := 0; round < 200; round++ {
		var leaves []diffLeaf
		diffLeaves(x.ProtoReflect(), y.ProtoReflect(), nil, true, &leaves)
		progressed := false
		for _, l := range leaves {
			y2 := proto.Clone(y)
			revert(x.ProtoReflect(), y2.ProtoReflect(), l.path)
			if fails(x, y2) {
				y = y2
				progressed = true
				break
			}
		}
		if !progressed {
			break
		}
	}
	var leaves []diffLeaf
	diffLeaves(x.ProtoReflect(), y.ProtoReflect(), nil, false, &leaves)
	if len(leaves) == 0 {
		return y, "identical"
	}
	seen := map[string]bool{}
	var cls []string
	for _, l := range leaves {
		if !seen[l.class] {
			seen[l.class] = true
			cls = append(cls, l.class)
		}
	}
	sort.Strings(cls)
	if len(cls) > 2 {
		cls = append(cls[:2], "more")
	}
	return y, strings.Join(cls, "+")
}

// ---------------------------------------------------------------------------------------------------------

func verdictName(saysEqual bool) string {
	if saysEqual {
		return "says-equal"
	}
	return "says-unequal"
}

// equalVsProto is the first clause: cmp.Equal() against protobuf equality (with the change_time exception).
func equalVsProto(r *vk.Run) {
	eq := cmp.Equal()
	n := r.Pick(60000, 2400000)
	for i := 0; i < n; i++ {
		if !r.Mine(i) {
			continue
		}
		rng := r.CaseRand("equal-vs-proto", i)
		p := genPair(rng)
		checkDefaultPair(r, eq, p)
	}
	// a fixed list of nil / typed-nil / different-type pairs, every ordered combination
	fixed := []proto.Message{
		nil, (*testproto.TestAllTypes)(nil), (*testproto.ForeignMessage)(nil), &testproto.TestAllTypes{}, &testproto.ForeignMessage{},
		&testproto.TestAllTypes{DefaultInt32: 1}, &testproto.ForeignMessage{C: 1}, &testproto.TestAllTypes_NestedMessage{A: 1},
		dynFamily[0], dynFamily[1],
	}
	names := []string{"nil", "typed-nil", "typed-nil-other", "empty", "empty-other", "message", "message-other", "message-third", "dynamic-empty", "dynamic-empty-other"}
	k := 0
	for i, a := range fixed {
		for j, b := range fixed {
			k++
			if !r.Mine(k) {
				continue
			}
			checkDefaultPair(r, eq, &pair{family: "nil", x: a, y: b, classes: []string{names[i] + "-vs-" + names[j]}})
			r.Count("equal-vs-proto/fixed-nil-and-type-pairs", 1)
		}
	}
}

func checkDefaultPair(r *vk.Run, eq cmp.Message, p *pair) {
	x, y := p.x, p.y
	cx, cy := canon(x), canon(y)

	// the oracle: protobuf equality; on types that can hold a Change.change_time the reference equality with the
	// exception (and the reference without the exception is cross-checked against proto.Equal on every pair)
	want := proto.Equal(x, y)
	refExact, _ := refEqualOpt(x, y, nil, false)
	if refExact != want {
		r.Inconclusive("oracle-selfcheck/reference-equality-vs-proto.Equal", fmt.Sprintf("reference says %v, proto.Equal says %v on %v", refExact, want, p.replay()))
		return
	}
	r.Count("oracle-selfcheck/reference-equality-agrees-with-proto.Equal", 1)
	open := ""
	changeAware := x != nil && y != nil && hasChangeTime(x.ProtoReflect().Descriptor(), map[pref.FullName]bool{})
	if changeAware {
		w, op := refEqual(x, y, nil)
		if w != want {
			r.Count("equal-vs-proto/change-time-exception-decides", 1)
		}
		want, open = w, op
	}

	var gotXY, gotYX bool
	panicked, what := vk.Recover(func() { gotXY = eq(x, y); gotYX = eq(y, x) })
	r.Eval(2)
	r.Count("equal-vs-proto/pairs", 1)
	r.Count("equal-vs-proto/family:"+p.family, 1)
	for _, c := range p.classes {
		if p.family == "nil" {
			c = "nil-or-typed-nil"
		}
		r.Count("equal-vs-proto/mutation:"+c, 1)
	}
	if want {
		r.Count("equal-vs-proto/oracle-equal", 1)
	} else {
		r.Count("equal-vs-proto/oracle-unequal", 1)
	}
	r.Distinct("evp|" + cx + "|" + cy)
	if r.WantSample("equal-vs-proto:" + p.family) {
		r.Sample("equal-vs-proto:"+p.family, map[string]any{"pair": p.replay(), "oracle": want, "open": open, "cmp.Equal": gotXY})
	}
	if panicked {
		r.Violation("C16/equal-vs-proto/panic/"+p.family, "cmp.Equal() panicked: "+what+"\n"+vk.JSON(x)+"\n"+vk.JSON(y), p.replay())
		return
	}
	if canon(x) != cx || canon(y) != cy {
		r.Violation("C16/equal-vs-proto/mutates-input/"+p.family, "cmp.Equal() changed an argument", p.replay())
	}
	if open != "" {
		r.Count("equal-vs-proto/open:"+open, 1)
		if gotXY != gotYX {
			r.Violation("C16/equal-vs-proto/asymmetric/"+open, fmt.Sprintf("cmp.Equal()(x,y)=%v but (y,x)=%v\nx=%s\ny=%s", gotXY, gotYX, vk.JSON(x), vk.JSON(y)), p.replay())
		}
		return
	}
	fails := func(a, b proto.Message) bool {
		w := proto.Equal(a, b)
		if changeAware {
			var op string
			w, op = refEqual(a, b, nil)
			if op != "" {
				return false
			}
		}
		var g1, g2 bool
		if pk, _ := vk.Recover(func() { g1, g2 = eq(a, b), eq(b, a) }); pk {
			return false
		}
		return g1 != w || g2 != w
	}
	if gotXY != want || gotYX != want {
		got := gotXY
		if gotXY == want {
			got = gotYX
		}
		y2, class := y, p.classes[0]
		if p.family != "nil" && p.family != "different-types" {
			y2, class = shrinkPair(x, y, fails)
		}
		r.Violation("C16/equal-vs-proto/"+class+"/"+verdictName(got),
			fmt.Sprintf("cmp.Equal()(x,y)=%v (y,x)=%v, protobuf equality%s says %v\nreduced pair:\nx=%s\ny=%s\noriginal y=%s",
				gotXY, gotYX, map[bool]string{true: " (ignoring Change.change_time)", false: ""}[changeAware], want, vk.JSON(x), vk.JSON(y2), vk.JSON(y)),
			map[string]any{"pair": p.replay(), "reduced_y": vk.JSON(y2)})
	}
}
