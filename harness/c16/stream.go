package main

// End to end: a resource configured with an equivalence, one backpressured subscriber, a generated sequence of
// writes. After every write the process is brought to a quiescent point (every other goroutine blocked), so
// "an event is waiting on the channel" / "no event will come" is decided on goroutine state, not on time.
//
// The oracle tracks the value the subscriber holds (what it was actually sent last, per id for a collection) and
// judges each write with the reference equivalence (refeq.go, or the harness' own comparer for the custom one):
//   delivered  and reference says equivalent to the held value      -> delivered-equivalent
//   suppressed and reference says not equivalent to the held value  -> suppressed-different
// The candidate value of a suppressed write is read back with Get and the same read mask.

import (
	"context"
	"fmt"
	"strings"
	"time"

	"github.com/smart-core-os/sc-api/go/types"
	"google.golang.org/protobuf/proto"
	pref "google.golang.org/protobuf/reflect/protoreflect"

	"github.com/smart-core-os/sc-golang/internal/testproto"
	"github.com/smart-core-os/sc-golang/internal/verif/vk"
	"github.com/smart-core-os/sc-golang/pkg/cmp"
	"github.com/smart-core-os/sc-golang/pkg/resource"
)

type eqKind struct {
	name   string
	opt    func() resource.Option
	ref    func(a, b proto.Message) (equal bool, open string)
	jitter string // which kind of small change makes interesting writes
}

// classComparer is a caller-supplied resource.Comparer: messages are equivalent when default_string and
// default_int32 modulo 3 agree (a true equivalence relation); nil is only equivalent to nil.
type classComparer struct{}

func classOf(m proto.Message) (string, bool) {
	if m == nil {
		return "", false
	}
	t, ok := m.(*testproto.TestAllTypes)
	if !ok || t == nil {
		return "", false
	}
	return fmt.Sprintf("%s/%d", t.GetDefaultString(), ((t.GetDefaultInt32()%3)+3)%3), true
}

func (classComparer) Compare(x, y proto.Message) bool {
	cx, okx := classOf(x)
	cy, oky := classOf(y)
	if !okx || !oky {
		return x == nil && y == nil
	}
	return cx == cy
}

var eqKinds = []eqKind{
	{
		name: "no-duplicates",
		opt:  func() resource.Option { return resource.WithNoDuplicates() },
		ref:  func(a, b proto.Message) (bool, string) { return refEqual(a, b, nil) },
	},
	{
		name: "equal",
		opt:  func() resource.Option { return resource.WithMessageEquivalence(cmp.Equal()) },
		ref:  func(a, b proto.Message) (bool, string) { return refEqual(a, b, nil) },
	},
	{
		name: "float-margin",
		opt: func() resource.Option {
			return resource.WithMessageEquivalence(cmp.Equal(cmp.FloatValueApprox(0, 0.5)))
		},
		ref:    func(a, b proto.Message) (bool, string) { return refEqual(a, b, &vnode{Op: "float", Mg: 0.5}) },
		jitter: "float",
	},
	{
		name: "float-fraction",
		opt: func() resource.Option {
			return resource.WithMessageEquivalence(cmp.Equal(cmp.FloatValueApprox(0.25, 0)))
		},
		ref:    func(a, b proto.Message) (bool, string) { return refEqual(a, b, &vnode{Op: "float", Fr: 0.25}) },
		jitter: "float",
	},
	{
		name: "time-duration",
		opt: func() resource.Option {
			return resource.WithMessageEquivalence(cmp.Equal(cmp.TimeValueWithin(2*time.Second), cmp.DurationValueWithin(time.Second)))
		},
		ref: func(a, b proto.Message) (bool, string) {
			return refEqual(a, b, &vnode{Op: "and", Kids: []*vnode{{Op: "time", D: 2 * time.Second}, {Op: "dur", D: time.Second}}})
		},
		jitter: "time",
	},
	{
		name: "custom-comparer",
		opt:  func() resource.Option { return resource.WithEquivalence(classComparer{}) },
		ref:  func(a, b proto.Message) (bool, string) { return classComparer{}.Compare(a, b), "" },
	},
}

var maskPool = [][]string{
	{"default_double"},
	{"default_int32", "default_string"},
	{"default_double", "default_float", "repeated_double"},
	{"default_well_known"},
	{"default_well_known.default_timestamp", "default_int32"},
	{"default_nested_message.a", "default_double"},
	{"default_string", "default_int32", "default_double", "default_well_known"},
	{"optional_double", "map_int32_double", "default_int64"},
}

var streamFieldNames = []string{"default_double", "default_float", "default_int32", "default_string", "default_well_known", "repeated_double", "default_int64", "default_nested_message", "optional_double", "map_int32_double"}

func genStreamMsg(rng *vk.Rand, ek *eqKind) proto.Message {
	o := vk.GenOpts{Density: 6, MaxDepth: 1, MaxList: 2, Special: ek.jitter == "" && rng.Chance(1, 3)}
	m := vk.GenMessage(rng, likeAll, o)
	var pick []string
	for _, i := range rng.Perm(len(streamFieldNames))[:rng.Range(2, 6)] {
		pick = append(pick, streamFieldNames[i])
	}
	enrich(rng, m, vk.GenOpts{MaxDepth: 1, MaxList: 2}, pick...)
	t := m.(*testproto.TestAllTypes)
	// values of the tolerance kinds on an exact grid
	if t.DefaultDouble != 0 {
		t.DefaultDouble = float64(rng.Range(-40, 40)) / 4
	}
	if t.DefaultFloat != 0 {
		t.DefaultFloat = float32(rng.Range(-40, 40)) / 4
	}
	return m
}

func underMask(mask []string, top string) bool {
	for _, p := range mask {
		if p == top || strings.HasPrefix(p, top+".") {
			return true
		}
	}
	return false
}

// nextWrite derives the next value to write from the stored one.
func nextWrite(rng *vk.Rand, cur, held proto.Message, mask []string, ek *eqKind) (proto.Message, string) {
	next := clone(cur).(*testproto.TestAllTypes)
	o := vk.GenOpts{Density: 6, MaxDepth: 1, MaxList: 2, Special: ek.jitter == "" && rng.Chance(1, 4)}
	switch c := rng.Intn(100); {
	case c < 18:
		return next, "same"
	case c < 40 && mask != nil:
		// change only fields outside the read mask
		var outside []pref.FieldDescriptor
		for i := 0; i < allFields.Len(); i++ {
			fd := allFields.Get(i)
			if !underMask(mask, string(fd.Name())) && (fd.Message() == nil || (!fd.IsMap() && !fd.IsList())) {
				outside = append(outside, fd)
			}
		}
		fd := outside[rng.Intn(len(outside))]
		next.ProtoReflect().Clear(fd)
		if rng.Chance(4, 5) {
			vk.SetRandomField(rng, next.ProtoReflect(), fd, o, 0)
		}
		return next, "outside-mask"
	case c < 62 && ek.jitter == "float":
		step := []float64{0.25, 0.25, 0.5, 0.75, -0.25, -0.5, 2}[rng.Intn(7)]
		switch rng.Intn(4) {
		case 0:
			next.DefaultFloat += float32(step)
		case 1:
			if len(next.RepeatedDouble) > 0 {
				next.RepeatedDouble = append([]float64{}, next.RepeatedDouble...)
				next.RepeatedDouble[rng.Intn(len(next.RepeatedDouble))] += step
			} else {
				next.DefaultDouble += step
			}
		default:
			next.DefaultDouble += step
		}
		return next, "jitter"
	case c < 62 && ek.jitter == "time":
		wk := next.DefaultWellKnown
		if wk == nil {
			wk = &testproto.WellKnown{}
			next.DefaultWellKnown = wk
		}
		if rng.Bool() {
			base := int64(1000)
			if wk.DefaultTimestamp != nil {
				base = wk.DefaultTimestamp.Seconds
			}
			wk.DefaultTimestamp = tsOf((base+int64(rng.Range(0, 3)))*1_000_000_000 + int64(rng.Range(0, 1))*500_000_000)
		} else {
			base := int64(0)
			if wk.DefaultDuration != nil {
				base = wk.DefaultDuration.Seconds
			}
			wk.DefaultDuration = durOf((base + int64(rng.Range(0, 2))) * 1_000_000_000)
			if wk.DefaultDuration.Seconds == 0 && wk.DefaultDuration.Nanos == 0 && rng.Bool() {
				wk.DefaultDuration = durOf(500_000_000)
			}
		}
		return next, "jitter"
	case c < 70 && held != nil:
		// write back exactly what the subscriber holds (under a mask: the projection)
		if h, ok := held.(*testproto.TestAllTypes); ok && h != nil {
			return clone(h).(*testproto.TestAllTypes), "write-held"
		}
		return next, "same"
	case c < 80:
		next.DefaultInt32 += int32(rng.Range(1, 4)) // moves between the custom comparer's classes (or not: +3)
		return next, "int-step"
	default:
		n := rng.Range(1, 2)
		for i := 0; i < n; i++ {
			if rng.Bool() {
				name := streamFieldNames[rng.Intn(len(streamFieldNames))]
				fd := allFields.ByName(pref.Name(name))
				next.ProtoReflect().Clear(fd)
				if rng.Chance(3, 4) {
					vk.SetRandomField(rng, next.ProtoReflect(), fd, vk.GenOpts{MaxDepth: 1, MaxList: 2}, 0)
				}
			} else {
				safeMutate(rng, next, o)
			}
		}
		return next, "mutate"
	}
}

// pollValue brings the process to a quiescent point and takes the event that is waiting on ch, if any.
func pollValue(r *vk.Run, ch <-chan *resource.ValueChange) (ev *resource.ValueChange, closed, ok bool) {
	if _, ok := r.MustQuiesce("stream/value"); !ok {
		return nil, false, false
	}
	select {
	case e, open := <-ch:
		if !open {
			return nil, true, true
		}
		return e, false, true
	default:
		return nil, false, true
	}
}

func pollCollection(r *vk.Run, ch <-chan *resource.CollectionChange) (ev *resource.CollectionChange, closed, ok bool) {
	if _, ok := r.MustQuiesce("stream/collection"); !ok {
		return nil, false, false
	}
	select {
	case e, open := <-ch:
		if !open {
			return nil, true, true
		}
		return e, false, true
	default:
		return nil, false, true
	}
}

// heldState is what the oracle knows about the value a subscriber holds.
type heldState struct {
	value  proto.Message // nil: holds nothing
	origin string        // held-none | held-seed | held-update | held-implicit
	drift  bool          // at least one write was suppressed since the held value was delivered
	// implicit: an updates-only subscriber was never sent the value that existed when it subscribed. Whether the
	// first update must be delivered even when it is equivalent to that value is left open by the statement
	// (Value delivers it, Collection does not), so only suppressions are judged against an implicit value.
	implicit bool
}

// class is the key segment: where the held value came from, or "drift" when writes were suppressed since it was
// delivered (the stored value has moved away from the held one).
func (h *heldState) class() string {
	if h.drift {
		return "drift"
	}
	return h.origin
}

func maskClass(mask []string) string {
	if mask == nil {
		return "nomask"
	}
	return "mask"
}

// judge decides one write. delivered is the value that arrived (nil: nothing arrived); candidate is the value the
// subscriber would have been sent (the stored value under the read mask).
func judge(r *vk.Run, res string, ek *eqKind, mask []string, h *heldState, delivered, candidate proto.Message, detail func() (string, any)) (outcome byte) {
	r.Eval(1)
	r.Count("stream/"+res+"/writes-judged", 1)
	key := func(clause string) string {
		return "C16/stream/" + clause + "/" + res + "/" + maskClass(mask) + "/" + h.class()
	}
	if delivered != nil {
		r.Count("stream/"+res+"/delivered", 1)
		if h.implicit {
			r.Count("stream/"+res+"/delivered-to-updates-only-subscriber(not judged)", 1)
		} else if h.value != nil {
			eq, open := ek.ref(h.value, delivered)
			switch {
			case eq && open != "":
				r.Count("stream/open:"+open, 1)
			case eq:
				d, rp := detail()
				r.Violation(key("delivered-equivalent"), fmt.Sprintf("equivalence %s: the subscriber holds %s and was sent the equivalent %s\n%s", ek.name, vk.JSON(h.value), vk.JSON(delivered), d), rp)
			default:
				r.Count("stream/"+res+"/delivered-different(ok)", 1)
			}
		} else {
			r.Count("stream/"+res+"/delivered-first(ok)", 1)
		}
		h.value, h.origin, h.drift, h.implicit = delivered, "held-update", false, false
		return 'D'
	}
	r.Count("stream/"+res+"/suppressed", 1)
	if h.value == nil {
		d, rp := detail()
		r.Violation(key("suppressed-different"), fmt.Sprintf("equivalence %s: the subscriber holds nothing, the write of %s was not delivered\n%s", ek.name, vk.JSON(candidate), d), rp)
		return 'S'
	}
	eq, open := ek.ref(h.value, candidate)
	switch {
	case eq && open != "":
		r.Count("stream/open:"+open, 1)
	case !eq:
		d, rp := detail()
		r.Violation(key("suppressed-different"), fmt.Sprintf("equivalence %s: the subscriber holds %s, the non-equivalent %s was not delivered\n%s", ek.name, vk.JSON(h.value), vk.JSON(candidate), d), rp)
	default:
		r.Count("stream/"+res+"/suppressed-equivalent(ok)", 1)
	}
	h.drift = true
	return 'S'
}

func readOpts(mask []string, updatesOnly bool) (pull []resource.ReadOption, get []resource.ReadOption) {
	pull = []resource.ReadOption{resource.WithBackpressure(true), resource.WithUpdatesOnly(updatesOnly)}
	if mask != nil {
		o := resource.WithReadPaths(&testproto.TestAllTypes{}, mask...)
		pull = append(pull, o)
		get = append(get, o)
	}
	return
}

func streamClause(r *vk.Run) {
	nv := r.Pick(260, 5000)
	// the equivalence runs on the goroutine started by Pull: a panic there kills the worker, so the cases are
	// guarded (the driver reports the death under the guard key and restarts the worker without these cases)
	for i := 0; i < nv; i++ {
		if r.Mine(i) && r.Guard("C16/stream/crash/value", map[string]any{"stream": "stream-value", "case": i}) {
			streamValueCase(r, i)
			r.Unguard()
		}
	}
	nc := r.Pick(200, 4000)
	for i := 0; i < nc; i++ {
		if r.Mine(i) && r.Guard("C16/stream/crash/collection", map[string]any{"stream": "stream-collection", "case": i}) {
			streamCollectionCase(r, i)
			r.Unguard()
		}
	}
	streamDirected(r)
}

// streamDirected runs scripted slow-drift sequences: every step stays within the tolerance of the previous stored
// value while the stored value moves away from (and back to) the value the subscriber holds. Every combination of
// resource x read mask x subscription mode x tolerance equivalence is run, so the outcome classes these sequences
// can produce are reached in every run (the random streams reach them only now and then).
func streamDirected(r *vk.Run) {
	type step struct {
		d    float64 // default_double
		ts   int64   // default_well_known.default_timestamp.seconds
		note int64   // default_int64: noise outside the masks used here
	}
	script := []step{{1.25, 1001, 1}, {1.5, 1002, 2}, {1.75, 1003, 3}, {1.0, 1000, 4}, {1.5, 1002, 5}, {0.75, 999, 6}, {0.75, 999, 7}, {3.0, 1010, 8}, {3.0, 1010, 9}}
	// only the kind the equivalence tolerates drifts; the noise field changes only when a mask hides it
	build := func(st step, ekName string, masked bool) *testproto.TestAllTypes {
		switch ekName {
		case "float-margin":
			st.ts = 1000
		case "time-duration":
			st.d = 1
		}
		if !masked {
			st.note = 0
		}
		return &testproto.TestAllTypes{DefaultDouble: st.d, DefaultInt64: st.note, DefaultString: "s",
			DefaultWellKnown: &testproto.WellKnown{DefaultTimestamp: tsOf(st.ts * 1_000_000_000)}}
	}
	caseNo := 0
	for _, res := range []string{"value", "collection"} {
		for _, ekName := range []string{"float-margin", "time-duration", "no-duplicates"} {
			for _, mask := range [][]string{nil, {"default_double", "default_well_known"}} {
				for _, mode := range []string{"seed", "updates-only", "added-later"} {
					if res == "value" && mode == "added-later" {
						continue
					}
					caseNo++
					if !r.Mine(caseNo) || !r.Guard("C16/stream/crash/"+res, map[string]any{"stream": "directed", "case": caseNo}) {
						continue
					}
					var ek *eqKind
					for i := range eqKinds {
						if eqKinds[i].name == ekName {
							ek = &eqKinds[i]
						}
					}
					runDirected(r, res, ek, mask, mode, build(step{1.0, 1000, 0}, ekName, mask != nil), func(i int) proto.Message {
						if i >= len(script) {
							return nil
						}
						return build(script[i], ekName, mask != nil)
					})
					r.Unguard()
				}
			}
		}
	}
}

func runDirected(r *vk.Run, res string, ek *eqKind, mask []string, mode string, initial proto.Message, next func(i int) proto.Message) {
	updatesOnly := mode == "updates-only"
	pullOpts, getOpts := readOpts(mask, updatesOnly)
	ctx, cancel := context.WithCancel(context.Background())
	defer func() {
		cancel()
		r.MustQuiesce("stream/directed/teardown")
	}()
	var log []string
	logf := func(f string, a ...any) { log = append(log, fmt.Sprintf(f, a...)) }
	cfg := map[string]any{"resource": res, "equivalence": ek.name, "mask": mask, "mode": mode, "directed": true}
	detail := func() (string, any) {
		return fmt.Sprintf("config %v\n%s", cfg, strings.Join(log, "\n")), map[string]any{"config": cfg, "log": log}
	}
	var (
		write func(m proto.Message) (proto.Message, error)
		get   func() proto.Message
		poll  func() (delivered proto.Message, got, ok bool)
	)
	h := &heldState{origin: "held-none"}
	switch res {
	case "value":
		v := resource.NewValue(resource.WithInitialValue(clone(initial)), ek.opt())
		write = func(m proto.Message) (proto.Message, error) { return v.Set(m) }
		get = func() proto.Message { return v.Get(getOpts...) }
		at := get()
		ch := v.Pull(ctx, pullOpts...)
		poll = func() (proto.Message, bool, bool) {
			ev, closed, ok := pollValue(r, ch)
			if !ok || closed {
				return nil, false, false
			}
			if ev == nil {
				return nil, false, true
			}
			return ev.Value, true, true
		}
		if updatesOnly {
			h.value, h.origin, h.implicit = at, "held-implicit", true
		}
	default:
		c := resource.NewCollection(ek.opt())
		if mode != "added-later" {
			if _, err := c.Add("a", clone(initial)); err != nil {
				return
			}
		}
		write = func(m proto.Message) (proto.Message, error) {
			if _, exists := c.Get("a"); !exists {
				return c.Add("a", m)
			}
			return c.Update("a", m)
		}
		get = func() proto.Message { m, _ := c.Get("a", getOpts...); return m }
		at := get()
		ch := c.Pull(ctx, pullOpts...)
		poll = func() (proto.Message, bool, bool) {
			ev, closed, ok := pollCollection(r, ch)
			if !ok || closed {
				return nil, false, false
			}
			if ev == nil {
				return nil, false, true
			}
			return ev.NewValue, true, true
		}
		if updatesOnly {
			h.value, h.origin, h.implicit = at, "held-implicit", true
		}
	}
	logf("initial %s", vk.JSON(initial))
	// seed
	if d, got, ok := poll(); !ok {
		return
	} else if got {
		h.value, h.origin, h.implicit = d, "held-seed", false
		logf("seed -> %s", vk.JSON(d))
	}
	outcomes := ""
	if mode == "added-later" {
		stored, err := write(clone(initial))
		if err != nil {
			return
		}
		d, got, ok := poll()
		if !ok {
			return
		}
		logf("add stored %s -> delivered=%v", vk.JSON(stored), got)
		var delivered proto.Message
		if got {
			delivered = d
		}
		outcomes += string(judge(r, res, ek, mask, h, delivered, get(), detail))
	}
	for i := 0; ; i++ {
		m := next(i)
		if m == nil {
			break
		}
		stored, err := write(clone(m))
		if err != nil {
			r.Count("stream/directed/write-error", 1)
			return
		}
		candidate := get()
		d, got, ok := poll()
		if !ok {
			return
		}
		var delivered proto.Message
		if got {
			delivered = d
			if extra, gotExtra, ok := poll(); ok && gotExtra {
				_ = extra
				r.Count("stream/"+res+"/second-event-for-one-write(C04)", 1)
			}
			logf("write %d stored %s -> delivered %s", i, vk.JSON(stored), vk.JSON(d))
		} else {
			logf("write %d stored %s -> nothing delivered; masked candidate %s", i, vk.JSON(stored), vk.JSON(candidate))
		}
		outcomes += string(judge(r, res, ek, mask, h, delivered, candidate, detail))
	}
	r.Count("stream/directed/cases", 1)
	r.Distinct(fmt.Sprintf("sd|%s|%s|%v|%s|%s", res, ek.name, mask, mode, outcomes))
	if r.WantSample("stream-directed:" + res) {
		r.Sample("stream-directed:"+res, map[string]any{"config": cfg, "outcomes(D=delivered,S=suppressed)": outcomes, "log": log})
	}
}

func streamValueCase(r *vk.Run, caseNo int) {
	rng := r.CaseRand("stream-value", caseNo)
	ek := &eqKinds[rng.Intn(len(eqKinds))]
	var mask []string
	if rng.Chance(3, 5) {
		mask = maskPool[rng.Intn(len(maskPool))]
	}
	updatesOnly := rng.Chance(1, 4)
	initial := genStreamMsg(rng, ek)
	v := resource.NewValue(resource.WithInitialValue(clone(initial)), ek.opt())
	ctx, cancel := context.WithCancel(context.Background())
	defer func() {
		cancel()
		r.MustQuiesce("stream/value/teardown")
	}()
	pullOpts, getOpts := readOpts(mask, updatesOnly)
	atSubscribe := v.Get(getOpts...)
	ch := v.Pull(ctx, pullOpts...)

	var log []string
	logf := func(f string, a ...any) { log = append(log, fmt.Sprintf(f, a...)) }
	cfg := map[string]any{"resource": "value", "equivalence": ek.name, "mask": mask, "updates_only": updatesOnly, "case": caseNo}
	detail := func() (string, any) {
		return fmt.Sprintf("config %v\n%s", cfg, strings.Join(log, "\n")), map[string]any{"config": cfg, "log": log}
	}
	logf("initial %s", vk.JSON(initial))

	h := &heldState{origin: "held-none"}
	ev, closed, ok := pollValue(r, ch)
	if !ok || closed {
		return
	}
	switch {
	case updatesOnly && ev != nil:
		r.Count("stream/value/unexpected-seed-with-updates-only(C04)", 1)
		h.value, h.origin = ev.Value, "held-seed"
	case updatesOnly:
		h.value, h.origin, h.implicit = atSubscribe, "held-implicit", true
	case !updatesOnly && ev == nil:
		r.Count("stream/value/missing-seed(C04)", 1)
	case ev != nil:
		h.value, h.origin = ev.Value, "held-seed"
		logf("seed -> %s", vk.JSON(ev.Value))
	}
	outcomes := ""
	cur := initial
	nw := rng.Range(8, 16)
	for w := 0; w < nw; w++ {
		next, how := nextWrite(rng, cur, h.value, mask, ek)
		stored, err := v.Set(clone(next))
		if err != nil {
			r.Count("stream/value/set-error", 1)
			logf("write %d (%s) %s -> error %v", w, how, vk.JSON(next), err)
			break
		}
		cur = clone(stored)
		candidate := v.Get(getOpts...)
		if want := vk.RefProject(cur, mask, mask == nil); !vk.SameMessage(want, candidate) {
			r.Count("stream/value/get-differs-from-reference-projection(C06)", 1)
		}
		ev, closed, ok := pollValue(r, ch)
		if !ok || closed {
			return
		}
		var delivered proto.Message
		if ev != nil {
			delivered = ev.Value
			if !vk.SameMessage(delivered, candidate) {
				r.Count("stream/value/delivered-differs-from-get(C04)", 1)
			}
			if extra, _, ok := pollValue(r, ch); ok && extra != nil {
				r.Count("stream/value/second-event-for-one-write(C04)", 1)
			}
		}
		logf("write %d (%s) stored %s -> %s", w, how, vk.JSON(cur), map[bool]string{true: "delivered " + vk.JSON(delivered), false: "nothing delivered; masked candidate " + vk.JSON(candidate)}[ev != nil])
		r.Count("stream/value/write:"+how, 1)
		outcomes += string(judge(r, "value", ek, mask, h, delivered, candidate, detail))
	}
	r.Count("stream/value/cases", 1)
	r.Count("stream/value/equivalence:"+ek.name, 1)
	r.Count("stream/value/"+maskClass(mask), 1)
	if updatesOnly {
		r.Count("stream/value/updates-only", 1)
	}
	if strings.Contains(outcomes, "D") && strings.Contains(outcomes, "S") {
		r.Distinct(fmt.Sprintf("sv|%s|%v|%v|%s|%s", ek.name, mask, updatesOnly, outcomes, canon(initial)))
	}
	if r.WantSample("stream-value:" + ek.name) {
		r.Sample("stream-value:"+ek.name, map[string]any{"config": cfg, "outcomes(D=delivered,S=suppressed)": outcomes, "log": log})
	}
}

func streamCollectionCase(r *vk.Run, caseNo int) {
	rng := r.CaseRand("stream-collection", caseNo)
	ek := &eqKinds[rng.Intn(len(eqKinds))]
	var mask []string
	if rng.Chance(1, 2) {
		mask = maskPool[rng.Intn(len(maskPool))]
	}
	updatesOnly := rng.Chance(1, 4)
	c := resource.NewCollection(ek.opt())
	ids := []string{"a", "b", "c"}
	stored := map[string]proto.Message{}
	var log []string
	logf := func(f string, a ...any) { log = append(log, fmt.Sprintf(f, a...)) }
	cfg := map[string]any{"resource": "collection", "equivalence": ek.name, "mask": mask, "updates_only": updatesOnly, "case": caseNo}
	detail := func() (string, any) {
		return fmt.Sprintf("config %v\n%s", cfg, strings.Join(log, "\n")), map[string]any{"config": cfg, "log": log}
	}
	for _, id := range ids[:rng.Range(0, 2)] {
		m := genStreamMsg(rng, ek)
		got, err := c.Add(id, clone(m))
		if err != nil {
			r.Count("stream/collection/add-error", 1)
			return
		}
		stored[id] = clone(got)
		logf("initial %s = %s", id, vk.JSON(got))
	}
	ctx, cancel := context.WithCancel(context.Background())
	defer func() {
		cancel()
		r.MustQuiesce("stream/collection/teardown")
	}()
	pullOpts, getOpts := readOpts(mask, updatesOnly)
	ch := c.Pull(ctx, pullOpts...)

	held := map[string]*heldState{}
	hs := func(id string) *heldState {
		if held[id] == nil {
			held[id] = &heldState{origin: "held-none"}
		}
		return held[id]
	}
	// seed
	for {
		ev, closed, ok := pollCollection(r, ch)
		if !ok || closed {
			return
		}
		if ev == nil {
			break
		}
		if updatesOnly {
			r.Count("stream/collection/unexpected-seed-with-updates-only(C04)", 1)
		}
		h := hs(ev.Id)
		h.value, h.origin = ev.NewValue, "held-seed"
		logf("seed %s -> %s", ev.Id, vk.JSON(ev.NewValue))
	}
	if !updatesOnly && len(held) != len(stored) {
		r.Count("stream/collection/seed-count-mismatch(C04)", 1)
	}
	if updatesOnly {
		for id := range stored {
			if h := hs(id); h.value == nil {
				h.value, _ = c.Get(id, getOpts...)
				h.origin, h.implicit = "held-implicit", true
			}
		}
	}
	outcomes := ""
	nw := rng.Range(10, 20)
	for w := 0; w < nw; w++ {
		id := ids[rng.Intn(len(ids))]
		cur, exists := stored[id]
		h := hs(id)
		switch {
		case !exists:
			m := genStreamMsg(rng, ek)
			if h.value != nil && rng.Bool() {
				m = clone(h.value) // re-add what the subscriber last saw for this id
			}
			got, err := c.Add(id, clone(m))
			if err != nil {
				r.Count("stream/collection/add-error", 1)
				return
			}
			stored[id] = clone(got)
			logf("write %d add %s = %s", w, id, vk.JSON(got))
		case rng.Chance(1, 7):
			if _, err := c.Delete(id); err != nil {
				r.Count("stream/collection/delete-error", 1)
				return
			}
			delete(stored, id)
			ev, closed, ok := pollCollection(r, ch)
			if !ok || closed {
				return
			}
			logf("write %d delete %s -> %s", w, id, vk.ChangeJSON(ev))
			r.Count("stream/collection/deletes", 1)
			switch {
			case ev == nil && h.value != nil:
				r.Count("stream/collection/remove-not-delivered(C04)", 1)
			case ev != nil && ev.ChangeType != types.ChangeType_REMOVE:
				r.Count("stream/collection/delete-delivered-as-other-kind(C04)", 1)
			}
			// whether or not the subscriber was told, nothing is held for the id afterwards
			h.value, h.origin, h.drift, h.implicit = nil, "held-none", false, false
			outcomes += "R"
			continue
		default:
			next, how := nextWrite(rng, cur, h.value, mask, ek)
			got, err := c.Update(id, clone(next))
			if err != nil {
				r.Count("stream/collection/update-error", 1)
				logf("write %d update %s (%s) -> error %v", w, id, how, err)
				return
			}
			stored[id] = clone(got)
			r.Count("stream/collection/write:"+how, 1)
			logf("write %d update %s (%s) stored %s", w, id, how, vk.JSON(got))
		}
		candidate, found := c.Get(id, getOpts...)
		if !found {
			r.Count("stream/collection/get-after-write-missing", 1)
			return
		}
		if want := vk.RefProject(stored[id], mask, mask == nil); !vk.SameMessage(want, candidate) {
			r.Count("stream/collection/get-differs-from-reference-projection(C06)", 1)
		}
		ev, closed, ok := pollCollection(r, ch)
		if !ok || closed {
			return
		}
		var delivered proto.Message
		if ev != nil {
			if ev.Id != id {
				r.Count("stream/collection/event-for-other-id(C04)", 1)
				return
			}
			delivered = ev.NewValue
			if !vk.SameMessage(delivered, candidate) {
				r.Count("stream/collection/delivered-differs-from-get(C04)", 1)
			}
			if delivered == nil {
				r.Count("stream/collection/event-without-new-value(C04)", 1)
				return
			}
			if extra, _, ok := pollCollection(r, ch); ok && extra != nil {
				r.Count("stream/collection/second-event-for-one-write(C04)", 1)
			}
			logf("   -> delivered %s", vk.ChangeJSON(ev))
		} else {
			logf("   -> nothing delivered; masked candidate %s", vk.JSON(candidate))
		}
		outcomes += string(judge(r, "collection", ek, mask, h, delivered, candidate, detail))
	}
	r.Count("stream/collection/cases", 1)
	r.Count("stream/collection/equivalence:"+ek.name, 1)
	r.Count("stream/collection/"+maskClass(mask), 1)
	if updatesOnly {
		r.Count("stream/collection/updates-only", 1)
	}
	if strings.Contains(outcomes, "D") && strings.Contains(outcomes, "S") {
		r.Distinct(fmt.Sprintf("sc|%s|%v|%v|%s|%s", ek.name, mask, updatesOnly, outcomes, strings.Join(log[:1], "")))
	}
	if r.WantSample("stream-collection:" + ek.name) {
		r.Sample("stream-collection:"+ek.name, map[string]any{"config": cfg, "outcomes(D=delivered,S=suppressed,R=removed)": outcomes, "log": log})
	}
}
