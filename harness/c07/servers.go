package main

import (
	"context"
	"fmt"
	"os"
	"sort"
	"strings"
	"sync"

	"google.golang.org/grpc"
	"google.golang.org/protobuf/proto"
	"google.golang.org/protobuf/reflect/protoreflect"

	"github.com/smart-core-os/sc-golang/internal/verif/srvkit"
	"github.com/smart-core-os/sc-golang/internal/verif/vk"
)

func servers(r *vk.Run) {
	table := srvkit.ServerTable()
	nSeq := r.Pick(4, 300)
	steps := r.Pick(100, 200)
	caseNo := 0
	for _, ent := range table {
		for q := 0; q < nSeq; q++ {
			caseNo++
			if !r.Mine(caseNo) {
				continue
			}
			rng := r.CaseRand("c07-srv", caseNo)
			serverSequence(r, ent, rng, steps, caseNo)
		}
	}
	r.Count("servers-in-table", len(table))
}

func serverSequence(r *vk.Run, ent srvkit.ServerEntry, rng *vk.Rand, steps int, caseNo int) {
	svcs := ent.Mk()
	sh := vk.NewShadow()
	pool := &srvkit.IDPool{Masks: true}
	var obsMu sync.Mutex
	stepNo := 0
	observe := func(label string, m proto.Message) {
		if m == nil || !m.ProtoReflect().IsValid() {
			return
		}
		obsMu.Lock()
		s := stepNo
		obsMu.Unlock()
		sh.Observe(label, s, m)
		// also retain nested messages individually: aliasing often concerns a sub-message
		pool.Harvest(m.ProtoReflect(), 0)
	}
	type meth struct {
		s      srvkit.Svc
		unary  *grpc.MethodDesc
		stream *grpc.StreamDesc
		name   string
	}
	var ms []meth
	for _, s := range svcs {
		for i := range s.Desc.Methods {
			ms = append(ms, meth{s: s, unary: &s.Desc.Methods[i], name: s.Desc.Methods[i].MethodName})
		}
		for i := range s.Desc.Streams {
			if s.Desc.Streams[i].ServerStreams && !s.Desc.Streams[i].ClientStreams {
				ms = append(ms, meth{s: s, stream: &s.Desc.Streams[i], name: s.Desc.Streams[i].StreamName})
			}
		}
	}
	sort.Slice(ms, func(i, j int) bool { return ms[i].name < ms[j].name })
	if len(ms) == 0 {
		r.Inconclusive("c07-no-methods/"+ent.Name, "server registered no service")
		return
	}
	var cancels []context.CancelFunc
	defer func() {
		for _, c := range cancels {
			c()
		}
	}()
	streams := 0
	verify := func(blame, what string) bool {
		if _, ok := r.MustQuiesce("c07-srv"); !ok {
			return false
		}
		diffs := sh.VerifyAll()
		for _, d := range diffs {
			r.Violation(fmt.Sprintf("C07/%s/%s.%s", d.Label, ent.Name, blame), fmt.Sprintf("server case %d step %d (%s): %v", caseNo, stepNo, what, d), map[string]any{"server": ent.Name, "case": caseNo})
		}
		return len(diffs) == 0
	}
	// probe calls every read-only unary RPC (Describe*, or a request with a read_mask) with a plain request and
	// renders the answers
	probe := func() map[string]string {
		out := map[string]string{}
		for _, pm := range ms {
			if pm.unary == nil {
				continue
			}
			var reqd proto.Message
			dec := func(x any) error {
				reqd = x.(proto.Message)
				if fd := reqd.ProtoReflect().Descriptor().Fields().ByName("name"); fd != nil && fd.Kind() == protoreflect.StringKind && !fd.IsList() {
					reqd.ProtoReflect().Set(fd, protoreflect.ValueOfString("dev"))
				}
				if !strings.HasPrefix(pm.name, "Describe") && reqd.ProtoReflect().Descriptor().Fields().ByName("read_mask") == nil {
					return errNotAReader
				}
				return nil
			}
			var resp any
			var err error
			if p, what := vk.Recover(func() { resp, err = pm.unary.Handler(pm.s.Impl, context.Background(), dec, nil) }); p {
				out[pm.name] = "panic: " + what
				continue
			}
			if err == errNotAReader {
				continue
			}
			if err != nil {
				out[pm.name] = "error: " + err.Error()
			} else if m, ok := resp.(proto.Message); ok {
				out[pm.name] = vk.JSON(m)
			}
		}
		return out
	}
	// what the server describes about itself (preset names, mode names, ...) is known from the start
	for _, pm := range ms {
		if pm.unary != nil && strings.HasPrefix(pm.name, "Describe") {
			dec := func(x any) error {
				if fd := x.(proto.Message).ProtoReflect().Descriptor().Fields().ByName("name"); fd != nil && fd.Kind() == protoreflect.StringKind && !fd.IsList() {
					x.(proto.Message).ProtoReflect().Set(fd, protoreflect.ValueOfString("dev"))
				}
				return nil
			}
			vk.Recover(func() {
				if resp, err := pm.unary.Handler(pm.s.Impl, context.Background(), dec, nil); err == nil {
					if m, ok := resp.(proto.Message); ok {
						observe("response:"+pm.name, m)
					}
				}
			})
		}
	}
	for st := 0; st < steps; st++ {
		obsMu.Lock()
		stepNo = st
		obsMu.Unlock()
		m := ms[rng.Intn(len(ms))]
		if m.stream != nil {
			if streams >= 2 {
				continue
			}
			streams++
			ctx, cancel := context.WithCancel(context.Background())
			cancels = append(cancels, cancel)
			fs := &srvkit.FakeStream{Ctx: ctx, Send: func(pm proto.Message) { observe("stream-message:"+m.name, pm) }}
			// request: built lazily from the type the handler asks for
			reqFill := func(req proto.Message) {
				g := vk.GenMessage(rng.Fork(), req, vk.GenOpts{Density: 20, MaxDepth: 1, MaxList: 1})
				proto.Merge(req, g)
				pool.Apply(rng, req.ProtoReflect(), 0)
			}
			fs.Req = nil
			h := m.stream.Handler
			go func() {
				vk.Recover(func() {
					_ = h(m.s.Impl, &srvkit.LazyStream{FakeStream: fs, Fill: reqFill})
				})
			}()
			r.Count("server-streams-opened", 1)
			if !verify(m.name, "open "+m.name) {
				return
			}
			continue
		}
		var captured proto.Message
		dec := func(x any) error {
			req := x.(proto.Message)
			g := vk.GenMessage(rng, req, vk.GenOpts{Density: 35, MaxDepth: 2, MaxList: 2})
			proto.Merge(req, g)
			if rng.Bool() {
				// half of the requests carry their payload message whatever the generator's density left out
				fds := req.ProtoReflect().Descriptor().Fields()
				for i := 0; i < fds.Len(); i++ {
					fd := fds.Get(i)
					if fd.Message() != nil && !fd.IsList() && !fd.IsMap() && !req.ProtoReflect().Has(fd) && fd.Message().FullName() != "google.protobuf.FieldMask" {
						sub := req.ProtoReflect().Mutable(fd).Message().Interface()
						proto.Merge(sub, vk.GenMessage(rng, sub, vk.GenOpts{Density: 60, MaxDepth: 2, MaxList: 2}))
					}
				}
			}
			pool.Apply(rng, req.ProtoReflect(), 0)
			captured = req
			return nil
		}
		var resp any
		var err error
		panicked, what := vk.Recover(func() { resp, err = m.unary.Handler(m.s.Impl, context.Background(), dec, nil) })
		r.Eval(1)
		r.Count("server-calls", 1)
		outcome := "ok"
		if panicked {
			outcome = "panic"
			r.Count("server-panics(not judged here)", 1)
			_ = what
		} else if err != nil {
			outcome = "error"
		}
		r.Distinct(ent.Name + "." + m.name + ":" + outcome)
		if captured != nil {
			r.Distinct(ent.Name + "." + m.name + ":" + vk.JSON(captured)) // distinct requests
		}
		if pm, ok := resp.(proto.Message); ok && err == nil {
			observe("response:"+m.name, pm)
		}
		if !verify(m.name, "call "+m.name+" "+vk.JSON(captured)) {
			return
		}
		if captured != nil {
			// what the read-only RPCs answer must not depend on what the caller does to its request afterwards either
			// (the request may alias state that no retained message shares)
			var before1, before2 map[string]string
			doProbe := true
			if os.Getenv("VERIF_DEBUG") != "" && m.name == "UpdateBrightness" {
				fmt.Fprintf(os.Stderr, "DEBUG %s probe=%v err=%v req=%s\n", ent.Name, doProbe, err, vk.JSON(captured))
			}
			if doProbe {
				before1, before2 = probe(), probe()
			}
			// first through the pointers and byte slices the request already has (optional scalars, bytes), then field by field
			r.Count("server-scribbles-through-pointers", vk.PokeThroughPointers(captured))
			for k := 0; k < 4; k++ {
				vk.Mutate(rng, captured, vk.GenOpts{Density: 35, MaxDepth: 2, MaxList: 2})
			}
			scribbleStrings(captured.ProtoReflect(), 0)
			if _, ok := r.MustQuiesce("c07-srv-scribble"); !ok {
				return
			}
			if doProbe {
				after := probe()
				for name, b := range before1 {
					if before2[name] != b {
						r.Count("server-probe-skipped-call-dependent-reader", 1)
						continue
					}
					r.Count("server-probes-compared", 1)
					if after[name] != b {
						r.Violation(fmt.Sprintf("C07/input-aliased/%s.%s", ent.Name, m.name), fmt.Sprintf("server case %d step %d: after the caller modified the request it had passed to %s, the read-only %s answers %s; before the modification it answered %s", caseNo, st, m.name, name, after[name], b), map[string]any{"server": ent.Name, "case": caseNo})
						return
					}
				}
			}
			diffs := sh.VerifyAll()
			for _, d := range diffs {
				cls := "input-aliased"
				if strings.HasPrefix(d.Label, "response:"+m.name) && d.Step == st {
					cls = "result-aliases-input"
				}
				r.Violation(fmt.Sprintf("C07/%s/%s.%s", cls, ent.Name, m.name), fmt.Sprintf("server case %d step %d: after the caller modified the request it had passed to %s a retained message changed: %v", caseNo, st, m.name, d), map[string]any{"server": ent.Name, "case": caseNo})
			}
			if len(diffs) > 0 {
				return
			}
		}
	}
	r.Count("server-retained-messages", sh.Len())
	if r.WantSample("server") {
		r.Sample("server", map[string]any{"server": ent.Name, "methods": len(ms), "retained": sh.Len()})
	}
}

var errNotAReader = fmt.Errorf("not a read-only method")

// scribbleStrings overwrites every string and nested message scalar reachable from m, so that aliasing of any
// sub-message of the request shows.
func scribbleStrings(m protoreflect.Message, depth int) {
	if depth > 4 {
		return
	}
	m.Range(func(fd protoreflect.FieldDescriptor, v protoreflect.Value) bool {
		switch {
		case fd.IsMap():
			if fd.MapValue().Message() != nil {
				v.Map().Range(func(k protoreflect.MapKey, mv protoreflect.Value) bool {
					scribbleStrings(mv.Message(), depth+1)
					return true
				})
			}
		case fd.IsList():
			if fd.Message() != nil {
				l := v.List()
				for i := 0; i < l.Len(); i++ {
					scribbleStrings(l.Get(i).Message(), depth+1)
				}
			}
		case fd.Message() != nil:
			scribbleStrings(v.Message(), depth+1)
		case fd.Kind() == protoreflect.StringKind:
			m.Set(fd, protoreflect.ValueOfString(v.String()+"~scribbled"))
		}
		return true
	})
}
