package main

import (
	"context"
	"fmt"
	"sort"
	"strings"
	"sync"

	"github.com/smart-core-os/sc-api/go/traits"
	"github.com/smart-core-os/sc-api/go/types"
	"google.golang.org/grpc"
	"google.golang.org/grpc/metadata"
	"google.golang.org/protobuf/proto"
	"google.golang.org/protobuf/reflect/protoreflect"

	"github.com/smart-core-os/sc-golang/internal/verif/vk"
	"github.com/smart-core-os/sc-golang/pkg/trait/accesspb"
	"github.com/smart-core-os/sc-golang/pkg/trait/airqualitysensorpb"
	"github.com/smart-core-os/sc-golang/pkg/trait/airtemperaturepb"
	"github.com/smart-core-os/sc-golang/pkg/trait/bookingpb"
	"github.com/smart-core-os/sc-golang/pkg/trait/countpb"
	"github.com/smart-core-os/sc-golang/pkg/trait/electricpb"
	"github.com/smart-core-os/sc-golang/pkg/trait/emergencypb"
	"github.com/smart-core-os/sc-golang/pkg/trait/energystoragepb"
	"github.com/smart-core-os/sc-golang/pkg/trait/enterleavesensorpb"
	"github.com/smart-core-os/sc-golang/pkg/trait/fanspeedpb"
	"github.com/smart-core-os/sc-golang/pkg/trait/hailpb"
	"github.com/smart-core-os/sc-golang/pkg/trait/lightpb"
	"github.com/smart-core-os/sc-golang/pkg/trait/metadatapb"
	"github.com/smart-core-os/sc-golang/pkg/trait/meterpb"
	"github.com/smart-core-os/sc-golang/pkg/trait/modepb"
	"github.com/smart-core-os/sc-golang/pkg/trait/occupancysensorpb"
	"github.com/smart-core-os/sc-golang/pkg/trait/onoffpb"
	"github.com/smart-core-os/sc-golang/pkg/trait/openclosepb"
	"github.com/smart-core-os/sc-golang/pkg/trait/parentpb"
	"github.com/smart-core-os/sc-golang/pkg/trait/publicationpb"
	"github.com/smart-core-os/sc-golang/pkg/trait/speakerpb"
	"github.com/smart-core-os/sc-golang/pkg/trait/vendingpb"
	"github.com/smart-core-os/sc-golang/pkg/trait/wastepb"
)

// registrar captures what a server registers.
type registrar struct{ svcs []svc }

type svc struct {
	desc *grpc.ServiceDesc
	impl any
}

func (g *registrar) RegisterService(desc *grpc.ServiceDesc, impl any) {
	g.svcs = append(g.svcs, svc{desc, impl})
}

type registerer interface{ Register(grpc.ServiceRegistrar) }

type serverEntry struct {
	name string
	mk   func() []svc
}

func viaRegister(f func() registerer) func() []svc {
	return func() []svc {
		var g registrar
		f().Register(&g)
		return g.svcs
	}
}

func serverTable() []serverEntry {
	return []serverEntry{
		{"accesspb.ModelServer", func() []svc { return []svc{{&traits.AccessApi_ServiceDesc, accesspb.NewModelServer(accesspb.NewModel())}} }},
		{"airqualitysensorpb.ModelServer", viaRegister(func() registerer { return airqualitysensorpb.NewModelServer(airqualitysensorpb.NewModel()) })},
		{"airtemperaturepb.ModelServer", viaRegister(func() registerer { return airtemperaturepb.NewModelServer(airtemperaturepb.NewModel()) })},
		{"airtemperaturepb.MemoryDevice", viaRegister(func() registerer { return airtemperaturepb.NewMemoryDevice() })},
		{"bookingpb.ModelServer", viaRegister(func() registerer { return bookingpb.NewModelServer(bookingpb.NewModel()) })},
		{"countpb.MemoryDevice", func() []svc { return []svc{{&traits.CountApi_ServiceDesc, countpb.NewMemoryDevice()}} }},
		{"electricpb.ModelServer", viaRegister(func() registerer { return electricpb.NewModelServer(electricpb.NewModel()) })},
		{"emergencypb.MemoryDevice", viaRegister(func() registerer { return emergencypb.NewMemoryDevice() })},
		{"energystoragepb.ModelServer", viaRegister(func() registerer { return energystoragepb.NewModelServer(energystoragepb.NewModel()) })},
		{"enterleavesensorpb.ModelServer", viaRegister(func() registerer { return enterleavesensorpb.NewModelServer(enterleavesensorpb.NewModel()) })},
		{"fanspeedpb.ModelServer", viaRegister(func() registerer { return fanspeedpb.NewModelServer(fanspeedpb.NewModel()) })},
		{"hailpb.ModelServer", viaRegister(func() registerer { return hailpb.NewModelServer(hailpb.NewModel()) })},
		{"lightpb.ModelServer", viaRegister(func() registerer { return lightpb.NewModelServer(lightpb.NewModel()) })},
		{"metadatapb.ModelServer", viaRegister(func() registerer { return metadatapb.NewModelServer(metadatapb.NewModel()) })},
		{"meterpb.ModelServer", func() []svc { return []svc{{&traits.MeterApi_ServiceDesc, meterpb.NewModelServer(meterpb.NewModel())}} }},
		{"modepb.ModelServer", viaRegister(func() registerer { return modepb.NewModelServer(modepb.NewModel()) })},
		{"occupancysensorpb.ModelServer", viaRegister(func() registerer { return occupancysensorpb.NewModelServer(occupancysensorpb.NewModel()) })},
		{"onoffpb.ModelServer", viaRegister(func() registerer { return onoffpb.NewModelServer(onoffpb.NewModel()) })},
		{"openclosepb.ModelServer", viaRegister(func() registerer { return openclosepb.NewModelServer(openclosepb.NewModel()) })},
		{"parentpb.ModelServer", func() []svc { return []svc{{&traits.ParentApi_ServiceDesc, parentpb.NewModelServer(parentpb.NewModel())}} }},
		{"publicationpb.ModelServer", viaRegister(func() registerer { return publicationpb.NewModelServer(publicationpb.NewModel()) })},
		{"speakerpb.MemoryDevice", viaRegister(func() registerer { return speakerpb.NewMemoryDevice(&types.AudioLevel{Gain: 10}) })},
		{"vendingpb.ModelServer", viaRegister(func() registerer { return vendingpb.NewModelServer(vendingpb.NewModel()) })},
		{"wastepb.ModelServer", func() []svc { return []svc{{&traits.WasteApi_ServiceDesc, wastepb.NewModelServer(wastepb.NewModel())}} }},
	}
}

// fakeStream is the grpc.ServerStream handed to streaming handlers: it gives the request to the handler and retains
// what the server sends, without copying (so the real pointers are seen).
type fakeStream struct {
	ctx  context.Context
	req  proto.Message
	took bool
	send func(m proto.Message)
}

func (f *fakeStream) SetHeader(metadata.MD) error  { return nil }
func (f *fakeStream) SendHeader(metadata.MD) error { return nil }
func (f *fakeStream) SetTrailer(metadata.MD)       {}
func (f *fakeStream) Context() context.Context     { return f.ctx }
func (f *fakeStream) SendMsg(m any) error {
	if pm, ok := m.(proto.Message); ok {
		f.send(pm)
	}
	return nil
}
func (f *fakeStream) RecvMsg(m any) error {
	if f.took {
		<-f.ctx.Done()
		return f.ctx.Err()
	}
	f.took = true
	proto.Merge(m.(proto.Message), f.req)
	return nil
}

// idPool remembers id-like strings seen in responses so that later requests address existing items.
type idPool struct {
	mu  sync.Mutex
	ids []string
}

func (p *idPool) harvest(m protoreflect.Message, depth int) {
	if depth > 3 {
		return
	}
	m.Range(func(fd protoreflect.FieldDescriptor, v protoreflect.Value) bool {
		switch {
		case fd.Kind() == protoreflect.StringKind && !fd.IsList() && !fd.IsMap():
			n := string(fd.Name())
			if n == "id" || strings.HasSuffix(n, "_id") || n == "name" || n == "consumable" || n == "version" {
				if s := v.String(); s != "" {
					p.mu.Lock()
					if len(p.ids) < 64 {
						p.ids = append(p.ids, s)
					}
					p.mu.Unlock()
				}
			}
		case fd.Message() != nil && fd.IsList():
			l := v.List()
			for i := 0; i < l.Len() && i < 4; i++ {
				p.harvest(l.Get(i).Message(), depth+1)
			}
		case fd.Message() != nil && !fd.IsMap():
			p.harvest(v.Message(), depth+1)
		}
		return true
	})
}

func (p *idPool) apply(rng *vk.Rand, m protoreflect.Message, depth int) {
	if depth > 3 {
		return
	}
	p.mu.Lock()
	ids := append([]string{}, p.ids...)
	p.mu.Unlock()
	fds := m.Descriptor().Fields()
	for i := 0; i < fds.Len(); i++ {
		fd := fds.Get(i)
		n := string(fd.Name())
		switch {
		case fd.Kind() == protoreflect.StringKind && !fd.IsList() && !fd.IsMap() && (n == "id" || strings.HasSuffix(n, "_id") || n == "consumable" || n == "version"):
			if len(ids) > 0 && rng.Chance(3, 4) {
				m.Set(fd, protoreflect.ValueOfString(ids[rng.Intn(len(ids))]))
			}
		case n == "name" && fd.Kind() == protoreflect.StringKind && depth == 0:
			m.Set(fd, protoreflect.ValueOfString("dev"))
		case n == "update_mask" || n == "read_mask":
			if rng.Chance(3, 4) {
				m.Clear(fd) // mostly unmasked requests; masks are C05/C06's subject
			} else {
				m.Clear(fd)
			}
		case n == "page_size" || n == "page_token":
			m.Clear(fd)
		case fd.Message() != nil && !fd.IsList() && !fd.IsMap() && m.Has(fd):
			p.apply(rng, m.Mutable(fd).Message(), depth+1)
		}
	}
}

func servers(r *vk.Run) {
	table := serverTable()
	nSeq := r.Pick(4, 300)
	steps := r.Pick(100, 200)
	caseNo := 0
	for _, ent := range table {
		for q := 0; q < nSeq; q++ {
			caseNo++
			if !r.Mine(caseNo) {
				continue
			}
			rng := r.CaseRand("c07-srv", caseNo)
			serverSequence(r, ent, rng, steps, caseNo)
		}
	}
	r.Count("servers-in-table", len(table))
}

func serverSequence(r *vk.Run, ent serverEntry, rng *vk.Rand, steps int, caseNo int) {
	svcs := ent.mk()
	sh := vk.NewShadow()
	pool := &idPool{}
	var obsMu sync.Mutex
	stepNo := 0
	observe := func(label string, m proto.Message) {
		if m == nil || !m.ProtoReflect().IsValid() {
			return
		}
		obsMu.Lock()
		s := stepNo
		obsMu.Unlock()
		sh.Observe(label, s, m)
		// also retain nested messages individually: aliasing often concerns a sub-message
		pool.harvest(m.ProtoReflect(), 0)
	}
	type meth struct {
		s      svc
		unary  *grpc.MethodDesc
		stream *grpc.StreamDesc
		name   string
	}
	var ms []meth
	for _, s := range svcs {
		for i := range s.desc.Methods {
			ms = append(ms, meth{s: s, unary: &s.desc.Methods[i], name: s.desc.Methods[i].MethodName})
		}
		for i := range s.desc.Streams {
			if s.desc.Streams[i].ServerStreams && !s.desc.Streams[i].ClientStreams {
				ms = append(ms, meth{s: s, stream: &s.desc.Streams[i], name: s.desc.Streams[i].StreamName})
			}
		}
	}
	sort.Slice(ms, func(i, j int) bool { return ms[i].name < ms[j].name })
	if len(ms) == 0 {
		r.Inconclusive("c07-no-methods/"+ent.name, "server registered no service")
		return
	}
	var cancels []context.CancelFunc
	defer func() {
		for _, c := range cancels {
			c()
		}
	}()
	streams := 0
	verify := func(blame, what string) bool {
		if _, ok := r.MustQuiesce("c07-srv"); !ok {
			return false
		}
		diffs := sh.VerifyAll()
		for _, d := range diffs {
			r.Violation(fmt.Sprintf("C07/%s/%s.%s", d.Label, ent.name, blame), fmt.Sprintf("server case %d step %d (%s): %v", caseNo, stepNo, what, d), map[string]any{"server": ent.name, "case": caseNo})
		}
		return len(diffs) == 0
	}
	for st := 0; st < steps; st++ {
		obsMu.Lock()
		stepNo = st
		obsMu.Unlock()
		m := ms[rng.Intn(len(ms))]
		if m.stream != nil {
			if streams >= 2 {
				continue
			}
			streams++
			ctx, cancel := context.WithCancel(context.Background())
			cancels = append(cancels, cancel)
			fs := &fakeStream{ctx: ctx, send: func(pm proto.Message) { observe("stream-message:"+m.name, pm) }}
			// request: built lazily from the type the handler asks for
			reqFill := func(req proto.Message) {
				g := vk.GenMessage(rng.Fork(), req, vk.GenOpts{Density: 20, MaxDepth: 1, MaxList: 1})
				proto.Merge(req, g)
				pool.apply(rng, req.ProtoReflect(), 0)
			}
			fs.req = nil
			h := m.stream.Handler
			go func() {
				vk.Recover(func() {
					_ = h(m.s.impl, &lazyStream{fakeStream: fs, fill: reqFill})
				})
			}()
			r.Count("server-streams-opened", 1)
			if !verify(m.name, "open "+m.name) {
				return
			}
			continue
		}
		var captured proto.Message
		dec := func(x any) error {
			req := x.(proto.Message)
			g := vk.GenMessage(rng, req, vk.GenOpts{Density: 35, MaxDepth: 2, MaxList: 2})
			proto.Merge(req, g)
			pool.apply(rng, req.ProtoReflect(), 0)
			captured = req
			return nil
		}
		var resp any
		var err error
		panicked, what := vk.Recover(func() { resp, err = m.unary.Handler(m.s.impl, context.Background(), dec, nil) })
		r.Eval(1)
		r.Count("server-calls", 1)
		outcome := "ok"
		if panicked {
			outcome = "panic"
			r.Count("server-panics(not judged here)", 1)
			_ = what
		} else if err != nil {
			outcome = "error"
		}
		r.Distinct(ent.name + "." + m.name + ":" + outcome)
		if captured != nil {
			r.Distinct(ent.name + "." + m.name + ":" + vk.JSON(captured)) // distinct requests
		}
		if pm, ok := resp.(proto.Message); ok && err == nil {
			observe("response:"+m.name, pm)
		}
		if !verify(m.name, "call "+m.name+" "+vk.JSON(captured)) {
			return
		}
		if captured != nil {
			for k := 0; k < 4; k++ {
				vk.Mutate(rng, captured, vk.GenOpts{Density: 35, MaxDepth: 2, MaxList: 2})
			}
			scribbleStrings(captured.ProtoReflect(), 0)
			if _, ok := r.MustQuiesce("c07-srv-scribble"); !ok {
				return
			}
			diffs := sh.VerifyAll()
			for _, d := range diffs {
				cls := "input-aliased"
				if strings.HasPrefix(d.Label, "response:"+m.name) && d.Step == st {
					cls = "result-aliases-input"
				}
				r.Violation(fmt.Sprintf("C07/%s/%s.%s", cls, ent.name, m.name), fmt.Sprintf("server case %d step %d: after the caller modified the request it had passed to %s a retained message changed: %v", caseNo, st, m.name, d), map[string]any{"server": ent.name, "case": caseNo})
			}
			if len(diffs) > 0 {
				return
			}
		}
	}
	r.Count("server-retained-messages", sh.Len())
	if r.WantSample("server") {
		r.Sample("server", map[string]any{"server": ent.name, "methods": len(ms), "retained": sh.Len()})
	}
}

// lazyStream fills the request when the handler asks for it (the request type is only known then).
type lazyStream struct {
	*fakeStream
	fill func(proto.Message)
}

func (l *lazyStream) RecvMsg(m any) error {
	if l.took {
		<-l.ctx.Done()
		return l.ctx.Err()
	}
	l.took = true
	l.fill(m.(proto.Message))
	return nil
}

// scribbleStrings overwrites every string and nested message scalar reachable from m, so that aliasing of any
// sub-message of the request shows.
func scribbleStrings(m protoreflect.Message, depth int) {
	if depth > 4 {
		return
	}
	m.Range(func(fd protoreflect.FieldDescriptor, v protoreflect.Value) bool {
		switch {
		case fd.IsMap():
			if fd.MapValue().Message() != nil {
				v.Map().Range(func(k protoreflect.MapKey, mv protoreflect.Value) bool {
					scribbleStrings(mv.Message(), depth+1)
					return true
				})
			}
		case fd.IsList():
			if fd.Message() != nil {
				l := v.List()
				for i := 0; i < l.Len(); i++ {
					scribbleStrings(l.Get(i).Message(), depth+1)
				}
			}
		case fd.Message() != nil:
			scribbleStrings(v.Message(), depth+1)
		case fd.Kind() == protoreflect.StringKind:
			m.Set(fd, protoreflect.ValueOfString(v.String()+"~scribbled"))
		}
		return true
	})
}
