// Monitor for C07: messages are isolated - no aliasing between callers and stored state.
//
// Every message that crosses an API boundary (write results, read results, event values, seeds) is retained
// together with a deep copy taken at that moment (vk.Shadow) and re-compared after every later operation; every
// message the harness handed to a write is scribbled over after the call. Part A drives resource.Value /
// resource.Collection, part B drives every trait model server found through its Register method by calling the
// gRPC handlers directly (no wrapper in between, so the real pointers flow), part C drives the model-level
// methods that have no RPC (parent, metadata, enter/leave, electric).
package main

import (
	"context"
	"fmt"
	"strings"
	"sync"

	"github.com/smart-core-os/sc-api/go/types"
	"time"

	"google.golang.org/protobuf/proto"
	"google.golang.org/protobuf/types/known/fieldmaskpb"

	"github.com/smart-core-os/sc-golang/internal/testproto"
	"github.com/smart-core-os/sc-golang/internal/verif/vk"
	"github.com/smart-core-os/sc-golang/pkg/resource"
)

func main() { vk.Main("C07", run) }

type tat = testproto.TestAllTypes
type nested = testproto.TestAllTypes_NestedMessage

type clk struct {
	mu sync.Mutex
	n  int64
}

func (c *clk) Now() time.Time { c.mu.Lock(); defer c.mu.Unlock(); c.n++; return time.Unix(100, c.n) }

func run(r *vk.Run) {
	r.Describe("random operation sequences on resource.Value / resource.Collection (all write options that pass messages, Get/List with and without masks, 0-2 open Pull/PullID subscriptions whose seeds and events are retained), on every trait model server reachable through its Register method (every unary and server-streaming RPC called through the generated handlers with generated requests, ids harvested from earlier responses) and on model-level methods without an RPC (parent, metadata model and collection, enter/leave, electric). Every message crossing the boundary is deep-copied when it crosses and re-compared after every later operation; every message handed to a write is scribbled over afterwards. Distinct = (component, method, outcome class) plus distinct retained-message labels.",
		"the harness never mutates a message it obtained from a read (the property promises nothing in that direction)",
		"a result that merely aliases the caller's own input without the store being affected is reported under a separate key class (result-aliases-input) and judged case by case",
		"initial values given to constructors are not 'messages handed to a write' and are cloned by the harness")
	core(r)
	servers(r)
	models(r)
	concurrentSubscribe(r)
	sharedChangeEvents(r)
	conflictingWriters(r)
	r.Require("core-ops", 1000)
	r.Require("server-calls", 1000)
	r.Require("model-ops", 500)
}

// ---------------------------------------------------------------------------------------------------------
// part A: core resources

// heldEvent is a received collection change together with what it said when it was received.
type heldEvent struct {
	e        *resource.CollectionChange
	typ      types.ChangeType
	id       string
	old, new proto.Message
	at       int
}

// corePaths picks a read mask: top-level paths, paths into a singular and a repeated sub-message, a two-level path.
func corePaths(rng *vk.Rand) []string {
	switch rng.Intn(5) {
	case 0:
		return []string{"default_string", "default_nested_message"}
	case 1:
		return []string{"default_string", "default_nested_message.a"}
	case 2:
		return []string{"repeated_nested_message.a", "default_int32"}
	case 3:
		return []string{"default_nested_message.corecursive.default_string"}
	default:
		return []string{"default_foreign_message.c", "repeated_foreign_message.c"}
	}
}

var gen = vk.GenOpts{Density: 30, MaxDepth: 2, MaxList: 2}

type coreSub struct {
	cancel context.CancelFunc
}

func core(r *vk.Run) {
	n := r.Pick(120, 6000)
	steps := r.Pick(200, 300)
	for i := 0; i < n; i++ {
		if !r.Mine(i) {
			continue
		}
		rng := r.CaseRand("c07-core", i)
		sh := vk.NewShadow()
		var smu sync.Mutex // guards step (read by consumer goroutines)
		step := 0
		isValue := rng.Bool()
		var val *resource.Value
		var col *resource.Collection
		if isValue && rng.Chance(1, 3) {
			val = resource.NewValue(resource.WithClock(&clk{})) // no initial value: the first Set creates the register's content
		} else if isValue {
			val = resource.NewValue(resource.WithClock(&clk{}), resource.WithInitialValue(vk.GenMessage(rng, &tat{}, gen)))
		} else {
			col = resource.NewCollection(resource.WithClock(&clk{}), resource.WithInitialRecord("a", vk.GenMessage(rng, &tat{}, gen)))
		}
		kind := "collection"
		if isValue {
			kind = "value"
		}
		var subs []coreSub
		var emu sync.Mutex
		var held []heldEvent
		observe := func(label string, m proto.Message) {
			smu.Lock()
			s := step
			smu.Unlock()
			sh.Observe(label, s, m)
		}
		openSub := func() {
			ctx, cancel := context.WithCancel(context.Background())
			ro := []resource.ReadOption{resource.WithBackpressure(rng.Bool()), resource.WithUpdatesOnly(rng.Chance(1, 3))}
			if rng.Chance(1, 3) {
				ro = append(ro, resource.WithReadMask(&fieldmaskpb.FieldMask{Paths: corePaths(rng)}))
			}
			switch {
			case isValue:
				ch := val.Pull(ctx, ro...)
				go func() {
					for e := range ch {
						lbl := "event-value"
						if e.SeedValue {
							lbl = "seed-value"
						}
						observe(lbl, e.Value)
					}
				}()
			case rng.Bool():
				if rng.Chance(1, 3) {
					// an include predicate on some subscribers: what they do with a change must stay private to them
					odd := rng.Bool()
					ro = append(ro, resource.WithInclude(func(_ string, m proto.Message) bool {
						t, _ := m.(*tat)
						return t != nil && (t.DefaultInt32%2 != 0) == odd
					}))
				}
				ch := col.Pull(ctx, ro...)
				go func() {
					for e := range ch {
						lbl := "event"
						if e.SeedValue {
							lbl = "seed"
						}
						observe(lbl+"-new", e.NewValue)
						observe(lbl+"-old", e.OldValue)
						// the change itself is retained too: kind, id and which values it points to must stay as received
						emu.Lock()
						held = append(held, heldEvent{e: e, typ: e.ChangeType, id: e.Id, old: e.OldValue, new: e.NewValue, at: len(held)})
						emu.Unlock()
					}
				}()
			default:
				ch := col.PullID(ctx, []string{"a", "b"}[rng.Intn(2)], ro...)
				go func() {
					for e := range ch {
						observe("pullid-value", e.Value)
					}
				}()
			}
			subs = append(subs, coreSub{cancel})
		}
		ids := []string{"a", "b", "c"}
		var lastOp string
		verify := func(blame string) bool {
			// events are delivered asynchronously: settle before looking
			if _, ok := r.MustQuiesce("c07-core"); !ok {
				return false
			}
			diffs := sh.VerifyAll()
			for _, d := range diffs {
				r.Violation(fmt.Sprintf("C07/%s/%s.%s", d.Label, kind, blame), fmt.Sprintf("core case %d step %d (%s): %v", i, step, lastOp, d), map[string]any{"case": i, "step": step})
			}
			emu.Lock()
			for _, h := range held {
				if h.e.ChangeType != h.typ || h.e.Id != h.id || h.e.OldValue != h.old || h.e.NewValue != h.new {
					r.Violation(fmt.Sprintf("C07/event-struct/%s.%s", kind, blame), fmt.Sprintf("core case %d step %d (%s): a change event received earlier as {%s %q old=%v new=%v} now reads {%s %q old=%v new=%v}", i, step, lastOp, h.typ, h.id, h.old != nil, h.new != nil, h.e.ChangeType, h.e.Id, h.e.OldValue != nil, h.e.NewValue != nil), map[string]any{"case": i, "step": step})
					diffs = append(diffs, vk.ShadowDiff{})
					break
				}
			}
			r.Count("retained-change-events-verified", len(held))
			emu.Unlock()
			return len(diffs) == 0
		}
		var stampN int64
		for st := 0; st < steps; st++ {
			smu.Lock()
			step = st
			smu.Unlock()
			if len(subs) < 2 && rng.Chance(1, 20) {
				openSub()
				lastOp = "open-subscription"
				if !verify("Pull") {
					break
				}
				continue
			}
			if len(subs) > 0 && rng.Chance(1, 40) {
				subs[0].cancel()
				subs = subs[1:]
			}
			var in proto.Message // message handed to a write, scribbled afterwards
			var expectStored proto.Message
			var expectID string
			op := rng.Intn(10)
			method := ""
			var wopts []resource.WriteOption
			switch rng.Intn(8) {
			case 0, 1:
				wopts = append(wopts, resource.WithUpdatePaths("default_string", "default_nested_message", "repeated_nested_message", "map_string_nested_message"))
			case 2:
				wopts = append(wopts, resource.WithUpdatePaths()) // present but empty: a "touch" that writes nothing of the message
			case 3:
				wopts = append(wopts, resource.WithUpdatePaths("default_nested_message.a"))
			}
			if rng.Chance(1, 8) {
				wopts = append(wopts, resource.WithResetPaths("default_int32"))
			}
			if rng.Chance(1, 4) {
				// interceptors write into the message they are given as "new" (that is what they are for): a stamp
				stampN++
				stamp := stampN
				wopts = append(wopts, resource.InterceptAfter(func(_, new proto.Message) {
					if t, ok := new.(*tat); ok && t != nil {
						t.DefaultInt64 = stamp
					}
				}))
			}
			if rng.Chance(1, 6) {
				wopts = append(wopts, resource.InterceptBefore(func(_, new proto.Message) {
					if t, ok := new.(*tat); ok && t != nil {
						t.DefaultFloat += 1
					}
				}))
			}
			if rng.Chance(1, 6) {
				ev := vk.GenMessage(rng, &tat{}, gen)
				if rng.Bool() {
					if isValue {
						ev = proto.Clone(val.Get())
					} else if m, ok := col.Get("a"); ok {
						ev = proto.Clone(m)
					}
				}
				wopts = append(wopts, resource.WithExpectedValue(ev))
			}
			switch {
			case isValue && op < 6:
				method = "Set"
				in = vk.GenMessage(rng, &tat{}, gen)
				res, err := val.Set(in, wopts...)
				if err == nil {
					observe("write-result", res)
					expectStored = proto.Clone(res)
				}
			case isValue && op < 8:
				method = "Get"
				observe("get-result", val.Get())
			case isValue:
				method = "Get(mask)"
				observe("get-result", val.Get(resource.WithReadMask(&fieldmaskpb.FieldMask{Paths: corePaths(rng)})))
			case op < 2:
				method = "Add"
				in = vk.GenMessage(rng, &tat{}, gen)
				expectID = ids[rng.Intn(3)]
				res, err := col.Add(expectID, in, wopts...)
				if err == nil {
					observe("write-result", res)
					expectStored = proto.Clone(res)
				}
			case op < 5:
				method = "Update"
				in = vk.GenMessage(rng, &tat{}, gen)
				expectID = ids[rng.Intn(3)]
				res, err := col.Update(expectID, in, append(wopts, resource.WithCreateIfAbsent())...)
				if err == nil {
					observe("write-result", res)
					expectStored = proto.Clone(res)
				}
			case op < 6:
				method = "Delete"
				res, err := col.Delete(ids[rng.Intn(3)], resource.WithAllowMissing(true))
				if err == nil {
					observe("delete-result", res)
				}
			case op < 8:
				method = "Get"
				m, _ := col.Get(ids[rng.Intn(3)])
				observe("get-result", m)
			case op < 9:
				method = "List"
				for _, m := range col.List() {
					observe("list-result", m)
				}
			default:
				method = "List(mask)"
				for _, m := range col.List(resource.WithReadMask(&fieldmaskpb.FieldMask{Paths: corePaths(rng)})) {
					observe("list-result", m)
				}
			}
			lastOp = method
			r.Eval(1)
			r.Count("core-ops", 1)
			r.Distinct(kind + "." + method)
			if in != nil {
				r.Distinct(kind + "." + method + ":" + vk.JSON(in)) // distinct written messages
			}
			if !verify(method) {
				break
			}
			if in != nil {
				// the caller is free to reuse its message: through the pointers and byte slices it holds, then field by field
				r.Count("core-scribbles-through-pointers", vk.PokeThroughPointers(in))
				for k := 0; k < 3; k++ {
					vk.Mutate(rng, in, gen)
				}
				if t, ok := in.(*tat); ok {
					t.DefaultString = "scribbled"
					if t.DefaultNestedMessage != nil {
						t.DefaultNestedMessage.A = 424242
					}
					for _, e := range t.RepeatedNestedMessage {
						e.A = 424242
					}
					for _, e := range t.MapStringNestedMessage {
						e.A = 424242
					}
				}
				lastOp = "scribble after " + method
				if !verify("input-aliased/" + method) {
					break
				}
				if expectStored != nil {
					var now proto.Message
					if isValue {
						now = val.Get()
					} else {
						now, _ = col.Get(expectID)
					}
					if !vk.SameMessage(now, expectStored) {
						r.Violation(fmt.Sprintf("C07/input-aliased/%s.%s", kind, method), fmt.Sprintf("core case %d step %d: after the caller modified the message it had passed to %s the stored value is %s, the write had returned %s", i, step, method, vk.JSON(now), vk.JSON(expectStored)), map[string]any{"case": i, "step": step})
						break
					}
				}
			}
		}
		for _, s := range subs {
			s.cancel()
		}
		r.Count("core-retained-messages", sh.Len())
		if r.WantSample("core") {
			r.Sample("core", map[string]any{"case": i, "resource": kind, "steps": step, "retained": sh.Len()})
		}
	}
}

func short(s string) string {
	if i := strings.LastIndexByte(s, '.'); i >= 0 {
		return s[i+1:]
	}
	return s
}
