package main

import (
	"context"
	"fmt"
	"sync"

	"github.com/smart-core-os/sc-api/go/traits"
	"google.golang.org/protobuf/proto"

	"github.com/smart-core-os/sc-golang/internal/verif/vk"
	"github.com/smart-core-os/sc-golang/pkg/resource"
	"github.com/smart-core-os/sc-golang/pkg/trait"
	"github.com/smart-core-os/sc-golang/pkg/trait/electricpb"
	"github.com/smart-core-os/sc-golang/pkg/trait/enterleavesensorpb"
	"github.com/smart-core-os/sc-golang/pkg/trait/metadatapb"
	"github.com/smart-core-os/sc-golang/pkg/trait/openclosepb"
	"github.com/smart-core-os/sc-golang/pkg/trait/parentpb"
)

// part C: model-level methods that have no RPC of their own.

type modelRig struct {
	r     *vk.Run
	name  string
	sh    *vk.Shadow
	mu    sync.Mutex
	step  int
	caseN int
	last  string
	ok    bool
}

func (g *modelRig) observe(label string, m proto.Message) {
	if m == nil || !m.ProtoReflect().IsValid() {
		return
	}
	g.mu.Lock()
	s := g.step
	g.mu.Unlock()
	g.sh.Observe(label, s, m)
}

func (g *modelRig) setStep(s int, op string) {
	g.mu.Lock()
	g.step, g.last = s, op
	g.mu.Unlock()
}

// verify settles asynchronous deliveries and re-compares everything retained; blame is the method just called.
func (g *modelRig) verify(blame string) bool {
	if _, ok := g.r.MustQuiesce("c07-model"); !ok {
		g.ok = false
		return false
	}
	diffs := g.sh.VerifyAll()
	for _, d := range diffs {
		g.r.Violation(fmt.Sprintf("C07/%s/%s.%s", d.Label, g.name, blame), fmt.Sprintf("model case %d step %d (%s): %v", g.caseN, g.step, g.last, d), map[string]any{"model": g.name, "case": g.caseN})
	}
	if len(diffs) > 0 {
		g.ok = false
	}
	return len(diffs) == 0
}

func models(r *vk.Run) {
	n := r.Pick(40, 3000)
	drivers := []struct {
		name string
		f    func(g *modelRig, rng *vk.Rand, steps int)
	}{
		{"parentpb.Model", parentDriver},
		{"metadatapb.Model", metadataDriver},
		{"metadatapb.Collection", metadataCollectionDriver},
		{"enterleavesensorpb.Model", enterLeaveDriver},
		{"electricpb.Model", electricDriver},
		{"openclosepb.Model", openCloseDriver},
	}
	caseN := 0
	for _, d := range drivers {
		for i := 0; i < n; i++ {
			caseN++
			if !r.Mine(caseN) {
				continue
			}
			g := &modelRig{r: r, name: d.name, sh: vk.NewShadow(), caseN: caseN, ok: true}
			d.f(g, r.CaseRand("c07-model", caseN), 150)
			r.Count("model-retained-messages", g.sh.Len())
			if r.WantSample("model:" + d.name) {
				r.Sample("model:"+d.name, map[string]any{"model": d.name, "case": caseN, "retained": g.sh.Len()})
			}
		}
	}
}

func (g *modelRig) op(s int, method string) {
	g.setStep(s, method)
	g.r.Eval(1)
	g.r.Count("model-ops", 1)
	g.r.Distinct(g.name + "." + method)
}

var traitNames = []trait.Name{"a.A", "b.B", "c.C", "m.M", "x.X", "z.Z"}

func parentDriver(g *modelRig, rng *vk.Rand, steps int) {
	m := parentpb.NewModel()
	ctx, cancel := context.WithCancel(context.Background())
	defer cancel()
	if rng.Bool() {
		ch := m.PullChildren(ctx, resource.WithBackpressure(rng.Bool()))
		go func() {
			for c := range ch {
				g.observe("event-new:PullChildren", c.NewValue)
				g.observe("event-old:PullChildren", c.OldValue)
			}
		}()
	}
	kids := []string{"k1", "k2", "k3"}
	for s := 0; s < steps && g.ok; s++ {
		kid := kids[rng.Intn(3)]
		switch rng.Intn(6) {
		case 0:
			g.op(s, "AddChild")
			c := &traits.Child{Name: kid, Traits: []*traits.Trait{{Name: "a.A"}, {Name: "m.M"}}}
			m.AddChild(c)
			g.verify("AddChild")
			c.Traits[0].Name = "scribbled"
			c.Name = "scribbled"
			g.verify("input-aliased/AddChild")
		case 1, 2:
			g.op(s, "AddChildTrait")
			k := rng.Range(1, 2)
			var ts []trait.Name
			for i := 0; i < k; i++ {
				ts = append(ts, traitNames[rng.Intn(len(traitNames))])
			}
			c, _ := m.AddChildTrait(kid, ts...)
			g.observe("result:AddChildTrait", c)
			g.verify("AddChildTrait")
		case 3:
			g.op(s, "RemoveChildTrait")
			// one to three names in one call, in any order (the child's last trait may be named before an earlier one)
			var ts []trait.Name
			for i, k := 0, rng.Range(1, 3); i < k; i++ {
				ts = append(ts, traitNames[rng.Intn(len(traitNames))])
			}
			c := m.RemoveChildTrait(kid, ts...)
			if c != nil {
				g.observe("result:RemoveChildTrait", c)
			}
			g.verify("RemoveChildTrait")
		case 4:
			g.op(s, "ListChildren")
			for _, c := range m.ListChildren() {
				g.observe("result:ListChildren", c)
			}
			g.verify("ListChildren")
		default:
			g.op(s, "RemoveChildByName")
			c, _ := m.RemoveChildByName(kid, resource.WithAllowMissing(true))
			if c != nil {
				g.observe("result:RemoveChildByName", c)
			}
			g.verify("RemoveChildByName")
		}
	}
}

func genMetadata(rng *vk.Rand) *traits.Metadata {
	md := &traits.Metadata{Name: rng.PickStr("dev", "dev2"), Appearance: &traits.Metadata_Appearance{Title: rng.PickStr("t1", "t2", "")}}
	if rng.Bool() {
		md.Membership = &traits.Metadata_Membership{Group: rng.PickStr("g1", "g2")}
	}
	for k := rng.Intn(3); k > 0; k-- {
		md.Traits = append(md.Traits, genTraitMetadata(rng))
	}
	if rng.Chance(1, 3) {
		md.More = map[string]string{rng.PickStr("k1", "k2"): rng.PickStr("v1", "v2")}
	}
	return md
}

func genTraitMetadata(rng *vk.Rand) *traits.TraitMetadata {
	return &traits.TraitMetadata{Name: rng.PickStr("tr.A", "tr.B", "tr.C"), More: map[string]string{rng.PickStr("m1", "m2"): rng.PickStr("x", "y", "z")}}
}

func scribbleMetadata(md *traits.Metadata) {
	vk.PokeThroughPointers(md)
	md.Name = "scribbled"
	if md.Appearance != nil {
		md.Appearance.Title = "scribbled"
	}
	if md.Membership != nil {
		md.Membership.Group = "scribbled"
	}
	for _, t := range md.Traits {
		t.Name = "scribbled"
		for k := range t.More {
			t.More[k] = "scribbled"
		}
	}
	for k := range md.More {
		md.More[k] = "scribbled"
	}
}

func metadataDriver(g *modelRig, rng *vk.Rand, steps int) {
	m := metadatapb.NewModel()
	ctx, cancel := context.WithCancel(context.Background())
	defer cancel()
	if rng.Bool() {
		ch := m.PullMetadata(ctx, resource.WithBackpressure(rng.Bool()))
		go func() {
			for c := range ch {
				g.observe("event:PullMetadata", c.Metadata)
			}
		}()
	}
	for s := 0; s < steps && g.ok; s++ {
		switch rng.Intn(5) {
		case 0:
			g.op(s, "GetMetadata")
			md, _ := m.GetMetadata()
			g.observe("result:GetMetadata", md)
			g.verify("GetMetadata")
		case 1:
			g.op(s, "UpdateMetadata")
			in := genMetadata(rng)
			md, err := m.UpdateMetadata(in)
			if err == nil {
				g.observe("result:UpdateMetadata", md)
			}
			g.verify("UpdateMetadata")
			scribbleMetadata(in)
			g.verify("input-aliased/UpdateMetadata")
		case 2, 3:
			g.op(s, "MergeMetadata")
			in := genMetadata(rng)
			md, err := m.MergeMetadata(in)
			if err == nil {
				g.observe("result:MergeMetadata", md)
			}
			g.verify("MergeMetadata")
			scribbleMetadata(in)
			g.verify("input-aliased/MergeMetadata")
		default:
			g.op(s, "UpdateTraitMetadata")
			in := genTraitMetadata(rng)
			md, err := m.UpdateTraitMetadata(in)
			if err == nil {
				g.observe("result:UpdateTraitMetadata", md)
			}
			g.verify("UpdateTraitMetadata")
			in.Name = "scribbled"
			for k := range in.More {
				in.More[k] = "scribbled"
			}
			g.verify("input-aliased/UpdateTraitMetadata")
		}
	}
}

func metadataCollectionDriver(g *modelRig, rng *vk.Rand, steps int) {
	m := metadatapb.NewCollection()
	ctx, cancel := context.WithCancel(context.Background())
	defer cancel()
	if rng.Bool() {
		ch := m.PullAllMetadata(ctx, resource.WithBackpressure(rng.Bool()))
		go func() {
			for c := range ch {
				g.observe("event-new:PullAllMetadata", c.NewValue)
				g.observe("event-old:PullAllMetadata", c.OldValue)
			}
		}()
	}
	names := []string{"n1", "n2"}
	for s := 0; s < steps && g.ok; s++ {
		name := names[rng.Intn(2)]
		switch rng.Intn(6) {
		case 0:
			g.op(s, "GetMetadata")
			md, err := m.GetMetadata(name)
			if err == nil {
				g.observe("result:GetMetadata", md)
			}
			g.verify("GetMetadata")
		case 1:
			g.op(s, "UpdateMetadata")
			in := genMetadata(rng)
			md, err := m.UpdateMetadata(name, in, resource.WithCreateIfAbsent())
			if err == nil {
				g.observe("result:UpdateMetadata", md)
			}
			g.verify("UpdateMetadata")
			scribbleMetadata(in)
			g.verify("input-aliased/UpdateMetadata")
		case 2, 3:
			g.op(s, "MergeMetadata")
			in := genMetadata(rng)
			md, err := m.MergeMetadata(name, in, resource.WithCreateIfAbsent())
			if err == nil {
				g.observe("result:MergeMetadata", md)
			}
			g.verify("MergeMetadata")
			scribbleMetadata(in)
			g.verify("input-aliased/MergeMetadata")
		case 4:
			g.op(s, "ListMetadata")
			for _, md := range m.ListMetadata() {
				g.observe("result:ListMetadata", md)
			}
			g.verify("ListMetadata")
		default:
			g.op(s, "UpdateTraitMetadata")
			in := genTraitMetadata(rng)
			md, err := m.UpdateTraitMetadata(name, in, resource.WithCreateIfAbsent())
			if err == nil {
				g.observe("result:UpdateTraitMetadata", md)
			}
			g.verify("UpdateTraitMetadata")
			in.Name = "scribbled"
			g.verify("input-aliased/UpdateTraitMetadata")
		}
	}
}

func enterLeaveDriver(g *modelRig, rng *vk.Rand, steps int) {
	m := enterleavesensorpb.NewModel()
	ctx, cancel := context.WithCancel(context.Background())
	defer cancel()
	var cancels []context.CancelFunc
	defer func() {
		for _, c := range cancels {
			c()
		}
	}()
	for s := 0; s < steps && g.ok; s++ {
		switch rng.Intn(5) {
		case 0:
			g.op(s, "GetEnterLeaveEvent")
			e, _ := m.GetEnterLeaveEvent()
			g.observe("result:GetEnterLeaveEvent", e)
			g.verify("GetEnterLeaveEvent")
		case 1, 2:
			g.op(s, "CreateEnterLeaveEvent")
			in := &traits.EnterLeaveEvent{Direction: traits.EnterLeaveEvent_Direction(rng.Range(0, 2)), Occupant: &traits.EnterLeaveEvent_Occupant{Name: rng.PickStr("o1", "o2")}}
			_ = m.CreateEnterLeaveEvent(in)
			g.verify("CreateEnterLeaveEvent")
			vk.PokeThroughPointers(in) // the totals are optional scalars: written through the pointers the event now carries
			in.Occupant.Name = "scribbled"
			g.verify("input-aliased/CreateEnterLeaveEvent")
		case 3:
			if len(cancels) >= 2 {
				continue
			}
			g.op(s, "PullEnterLeaveEvents")
			c2, cancel2 := context.WithCancel(ctx)
			cancels = append(cancels, cancel2)
			ch := m.PullEnterLeaveEvents(c2, resource.WithBackpressure(rng.Bool()), resource.WithUpdatesOnly(rng.Chance(1, 3)))
			go func() {
				for c := range ch {
					g.observe("event:PullEnterLeaveEvents", c.Value)
				}
			}()
			g.verify("PullEnterLeaveEvents")
		default:
			g.op(s, "ResetTotals")
			_ = m.ResetTotals()
			g.verify("ResetTotals")
		}
	}
}

func electricDriver(g *modelRig, rng *vk.Rand, steps int) {
	m := electricpb.NewModel()
	ctx, cancel := context.WithCancel(context.Background())
	defer cancel()
	if rng.Bool() {
		ch := m.PullModes(ctx, resource.WithBackpressure(rng.Bool()))
		go func() {
			for c := range ch {
				g.observe("event-new:PullModes", c.NewValue)
				g.observe("event-old:PullModes", c.OldValue)
			}
		}()
	}
	if rng.Bool() {
		ch := m.PullActiveMode(ctx, resource.WithBackpressure(rng.Bool()))
		go func() {
			for c := range ch {
				g.observe("event:PullActiveMode", c.ActiveMode)
			}
		}()
	}
	var ids []string
	mkMode := func() *traits.ElectricMode {
		return &traits.ElectricMode{Title: rng.PickStr("t1", "t2"), Segments: []*traits.ElectricMode_Segment{{Magnitude: float32(rng.Range(1, 5))}}}
	}
	pick := func() string {
		if len(ids) == 0 {
			return "none"
		}
		return ids[rng.Intn(len(ids))]
	}
	for s := 0; s < steps && g.ok; s++ {
		switch rng.Intn(9) {
		case 0:
			g.op(s, "CreateMode")
			in := mkMode()
			md, err := m.CreateMode(in)
			if err == nil {
				ids = append(ids, md.Id)
				g.observe("result:CreateMode", md)
			}
			g.verify("CreateMode")
			vk.PokeThroughPointers(in)
			in.Title = "scribbled"
			in.Segments[0].Magnitude = 4242
			g.verify("input-aliased/CreateMode")
		case 1:
			g.op(s, "Modes")
			for _, md := range m.Modes() {
				g.observe("result:Modes", md)
			}
			g.verify("Modes")
		case 2:
			g.op(s, "ActiveMode")
			g.observe("result:ActiveMode", m.ActiveMode())
			g.verify("ActiveMode")
		case 3:
			g.op(s, "UpdateMode")
			in := mkMode()
			in.Id = pick()
			md, err := m.UpdateMode(in)
			if err == nil {
				g.observe("result:UpdateMode", md)
			}
			g.verify("UpdateMode")
			vk.PokeThroughPointers(in)
			in.Title = "scribbled"
			in.Segments[0].Magnitude = 4242
			g.verify("input-aliased/UpdateMode")
		case 4:
			g.op(s, "ChangeActiveMode")
			md, err := m.ChangeActiveMode(pick())
			if err == nil {
				g.observe("result:ChangeActiveMode", md)
			}
			g.verify("ChangeActiveMode")
		case 5:
			g.op(s, "DeleteMode")
			_ = m.DeleteMode(pick(), resource.WithAllowMissing(true))
			g.verify("DeleteMode")
		case 6:
			g.op(s, "FindMode")
			if md, ok := m.FindMode(pick()); ok {
				g.observe("result:FindMode", md)
			}
			g.verify("FindMode")
		case 7:
			g.op(s, "UpdateDemand")
			in := &traits.ElectricDemand{Current: float32(rng.Range(1, 9))}
			d, err := m.UpdateDemand(in)
			if err == nil {
				g.observe("result:UpdateDemand", d)
			}
			g.verify("UpdateDemand")
		default:
			g.op(s, "ChangeToNormalMode")
			md, err := m.ChangeToNormalMode()
			if err == nil {
				g.observe("result:ChangeToNormalMode", md)
			}
			g.verify("ChangeToNormalMode")
		}
	}
}

// openCloseDriver: the model-level methods of the open/close model that have no RPC of their own (GetPosition,
// UpdatePosition, UpdatePositionN: positions written one direction at a time, possibly under a key that differs from
// the direction they carry, or under a mask that leaves the direction out) next to the aggregate ones.
func openCloseDriver(g *modelRig, rng *vk.Rand, steps int) {
	m := openclosepb.NewModel(openclosepb.WithPreset(&traits.OpenClosePositions_Preset{Name: "closed", Title: "Closed"}, &traits.OpenClosePosition{OpenPercent: 0}))
	ctx, cancel := context.WithCancel(context.Background())
	defer cancel()
	subs := 0
	dirs := []traits.OpenClosePosition_Direction{traits.OpenClosePosition_DIRECTION_UNSPECIFIED, traits.OpenClosePosition_UP, traits.OpenClosePosition_DOWN}
	for s := 0; s < steps && g.ok; s++ {
		dir := dirs[rng.Intn(len(dirs))]
		switch rng.Intn(8) {
		case 0:
			g.op(s, "GetPositions")
			if rng.Bool() {
				p, _ := m.GetPositions()
				g.observe("result:GetPositions", p)
			} else {
				p, _ := m.GetPositions(resource.WithReadPaths(&traits.OpenClosePositions{}, "states"))
				g.observe("result:GetPositions(mask)", p)
			}
			g.verify("GetPositions")
		case 1, 2:
			g.op(s, "GetPosition")
			if p, err := m.GetPosition(dir); err == nil {
				g.observe("result:GetPosition", p)
			}
			g.verify("GetPosition")
		case 3:
			g.op(s, "UpdatePosition")
			in := &traits.OpenClosePosition{Direction: dir, OpenPercent: float32(rng.Intn(101))}
			var opts []resource.WriteOption
			if rng.Bool() {
				opts = append(opts, resource.WithCreateIfAbsent())
			}
			if p, err := m.UpdatePosition(in, opts...); err == nil {
				g.observe("result:UpdatePosition", p)
			}
			g.verify("UpdatePosition")
			in.OpenPercent = 4242
			g.verify("input-aliased/UpdatePosition")
		case 4, 5:
			g.op(s, "UpdatePositionN")
			// the key and the direction carried by the message may differ, the direction may be left out, or a mask may
			// write the percentage only
			in := &traits.OpenClosePosition{OpenPercent: float32(rng.Intn(101))}
			if rng.Bool() {
				in.Direction = dirs[rng.Intn(len(dirs))]
			}
			opts := []resource.WriteOption{resource.WithCreateIfAbsent()}
			if rng.Chance(1, 3) {
				opts = append(opts, resource.WithUpdatePaths("open_percent"))
			}
			if p, err := m.UpdatePositionN(dir, in, opts...); err == nil {
				g.observe("result:UpdatePositionN", p)
			}
			g.verify("UpdatePositionN")
			in.OpenPercent = 4242
			g.verify("input-aliased/UpdatePositionN")
		case 6:
			g.op(s, "UpdatePositions")
			in := &traits.OpenClosePositions{States: []*traits.OpenClosePosition{{Direction: dir, OpenPercent: float32(rng.Intn(101))}}}
			if p, err := m.UpdatePositions(in); err == nil {
				g.observe("result:UpdatePositions", p)
			}
			g.verify("UpdatePositions")
		default:
			if subs >= 2 {
				continue
			}
			subs++
			g.op(s, "PullPositions")
			ch := m.PullPositions(ctx, resource.WithBackpressure(rng.Bool()), resource.WithUpdatesOnly(rng.Chance(1, 3)))
			go func() {
				for c := range ch {
					g.observe("event:PullPositions", c.Positions)
				}
			}()
			g.verify("PullPositions")
		}
	}
}
