package main

import (
	"context"
	"fmt"
	"sync"

	"github.com/smart-core-os/sc-api/go/traits"
	"google.golang.org/protobuf/proto"
	"google.golang.org/protobuf/types/known/fieldmaskpb"

	"github.com/smart-core-os/sc-golang/internal/verif/vk"
	"github.com/smart-core-os/sc-golang/pkg/resource"
	"github.com/smart-core-os/sc-golang/pkg/trait/enterleavesensorpb"
	"github.com/smart-core-os/sc-golang/pkg/trait/metadatapb"
	"github.com/smart-core-os/sc-golang/pkg/trait/parentpb"
)

// concurrentSubscribe: a subscription is opened WHILE a write is pending: the subscribing goroutine is parked (hook
// value.sub.afterSnapshot / col.sub.afterSnapshot) right after it captured the seed, a write is started (it waits for
// the lock the subscriber holds), the subscriber is released and both race to completion. Everything handed out
// before (Get results, earlier events, write results) and everything the new subscription delivers is retained and
// re-compared: a seed that is edited after the check "is this still the stored message?" was made too early shows
// up here and nowhere in sequential use.
func concurrentSubscribe(r *vk.Run) {
	sched := vk.NewSched()
	defer sched.Close()
	n := r.Pick(300, 20000)
	for i := 0; i < n; i++ {
		if !r.Mine(i) {
			continue
		}
		rng := r.CaseRand("c07-conc", i)
		g := &modelRig{r: r, sh: vk.NewShadow(), caseN: i, ok: true}
		ctx, cancel := context.WithCancel(context.Background())
		var point string
		var openSub, write func()
		var observeState func(label string)
		switch rng.Intn(3) {
		case 0:
			g.name = "enterleavesensorpb.Model"
			point = "value.sub.afterSnapshot"
			m := enterleavesensorpb.NewModel()
			_ = m.CreateEnterLeaveEvent(&traits.EnterLeaveEvent{Direction: traits.EnterLeaveEvent_ENTER, Occupant: &traits.EnterLeaveEvent_Occupant{Name: "first"}})
			observeState = func(label string) {
				e, _ := m.GetEnterLeaveEvent()
				g.observe(label+":GetEnterLeaveEvent", e)
			}
			openSub = func() {
				ch := m.PullEnterLeaveEvents(ctx, resource.WithBackpressure(rng.Bool()))
				go func() {
					for c := range ch {
						g.observe("event:PullEnterLeaveEvents", c.Value)
					}
				}()
			}
			write = func() {
				_ = m.CreateEnterLeaveEvent(&traits.EnterLeaveEvent{Direction: traits.EnterLeaveEvent_LEAVE, Occupant: &traits.EnterLeaveEvent_Occupant{Name: "second"}})
			}
		case 1:
			g.name = "metadatapb.Model"
			point = "value.sub.afterSnapshot"
			m := metadatapb.NewModel()
			_, _ = m.UpdateMetadata(genMetadata(rng))
			observeState = func(label string) {
				md, _ := m.GetMetadata()
				g.observe(label+":GetMetadata", md)
			}
			openSub = func() {
				ch := m.PullMetadata(ctx, resource.WithBackpressure(rng.Bool()))
				go func() {
					for c := range ch {
						g.observe("event:PullMetadata", c.Metadata)
					}
				}()
			}
			write = func() { _, _ = m.MergeMetadata(genMetadata(rng)) }
		default:
			g.name = "parentpb.Model"
			point = "col.sub.afterSnapshot"
			m := parentpb.NewModel()
			m.AddChildTrait("k1", "a.A", "m.M", "x.X")
			observeState = func(label string) {
				for _, c := range m.ListChildren() {
					g.observe(label+":ListChildren", c)
				}
			}
			openSub = func() {
				ch := m.PullChildren(ctx, resource.WithBackpressure(rng.Bool()))
				go func() {
					for c := range ch {
						g.observe("event-new:PullChildren", c.NewValue)
						g.observe("event-old:PullChildren", c.OldValue)
					}
				}()
			}
			write = func() { m.AddChildTrait("k1", traitNames[rng.Intn(len(traitNames))]) }
		}
		g.setStep(0, "before")
		observeState("result")
		park := sched.ParkAt(point, nil)
		ts := vk.Go(openSub)
		vk.Quiesce()
		reached := park.Arrived()
		tw := vk.Go(write)
		vk.Quiesce()
		g.setStep(1, "subscribe racing with a pending write")
		park.Release()
		ts.Wait()
		tw.Wait()
		g.verify("Pull-racing-with-write")
		g.setStep(2, "after")
		observeState("result")
		write()
		g.verify("write-after-racing-Pull")
		observeState("result")
		g.verify("read-after-racing-Pull")
		r.Eval(1)
		r.Count("concurrent-subscribe-scenarios", 1)
		if reached {
			r.Distinct(fmt.Sprintf("conc-sub:%s:%d", g.name, i%50))
		} else {
			r.Count("concurrent-subscribe-window-not-reached", 1)
		}
		cancel()
	}
	r.Require("concurrent-subscribe-scenarios", 100)
}

var _ = proto.Clone

// sharedChangeEvents: two backpressured subscribers on one collection, one of them with an include predicate (and,
// in other cases, a read mask). An update that moves the item across the predicate makes the filtering subscriber
// see an ADD or REMOVE; the plain subscriber must still be given, and keep, the change exactly as the writer made
// it: an UPDATE carrying both values. Checked for both registration orders.
func sharedChangeEvents(r *vk.Run) {
	n := r.Pick(60, 3000)
	for i := 0; i < n; i++ {
		if !r.Mine(i) {
			continue
		}
		rng := r.CaseRand("c07-shared", i)
		from := int32(rng.Range(1, 2))
		col := resource.NewCollection(resource.WithInitialRecord("a", &tat{DefaultInt32: from, DefaultString: "v0"}))
		ctx, cancel := context.WithCancel(context.Background())
		type rec struct {
			e        *resource.CollectionChange
			typ      string
			old, new proto.Message
		}
		var mu sync.Mutex
		var plain []rec
		odd := func(_ string, m proto.Message) bool { t, _ := m.(*tat); return t != nil && t.DefaultInt32%2 == 1 }
		openPlain := func() {
			ch := col.Pull(ctx, resource.WithBackpressure(true), resource.WithUpdatesOnly(true))
			go func() {
				for e := range ch {
					mu.Lock()
					plain = append(plain, rec{e, e.ChangeType.String(), e.OldValue, e.NewValue})
					mu.Unlock()
				}
			}()
		}
		openFiltering := func() {
			ro := []resource.ReadOption{resource.WithBackpressure(true), resource.WithInclude(odd)}
			if rng.Bool() {
				ro = append(ro, resource.WithReadMask(&fieldmaskpb.FieldMask{Paths: []string{"default_int32"}}))
			}
			ch := col.Pull(ctx, ro...)
			go func() {
				for range ch {
				}
			}()
		}
		// in a third of the cases the other subscriber is not a filtering one but a lossy one that never receives: what
		// its merger does with the changes it is holding back must stay private to it just the same
		idleLossy := rng.Chance(1, 3)
		openOther := openFiltering
		if idleLossy {
			openOther = func() { _ = col.Pull(ctx, resource.WithBackpressure(false), resource.WithUpdatesOnly(rng.Bool())) }
		}
		first := rng.Bool()
		if first {
			openPlain()
			openOther()
		} else {
			openOther()
			openPlain()
		}
		if _, ok := r.MustQuiesce("c07-shared-open"); !ok {
			cancel()
			return
		}
		steps := rng.Range(1, 4)
		if idleLossy {
			steps = rng.Range(3, 6) // the merger only merges from the third change on (one is with the forwarder, one pending)
		}
		cur := from
		type wrote struct{ old, new int32 }
		var log []wrote
		for s := 0; s < steps; s++ {
			next := cur%2 + 1 // 1 <-> 2: every update crosses the predicate
			if rng.Chance(1, 4) {
				next = cur
			}
			if _, err := col.Update("a", &tat{DefaultInt32: next, DefaultString: fmt.Sprintf("v%d", s+1)}); err != nil {
				break
			}
			log = append(log, wrote{cur, next})
			cur = next
			if _, ok := r.MustQuiesce("c07-shared-write"); !ok {
				cancel()
				return
			}
		}
		r.Eval(1)
		r.Count("shared-change-scenarios", 1)
		r.Distinct(fmt.Sprintf("shared|%v|%d|%v", first, from, log))
		mu.Lock()
		bad := ""
		if len(plain) != len(log) {
			bad = fmt.Sprintf("the plain subscriber received %d events for %d updates", len(plain), len(log))
		}
		for k := 0; bad == "" && k < len(plain); k++ {
			p, w := plain[k], log[k]
			o, _ := p.e.OldValue.(*tat)
			nw, _ := p.e.NewValue.(*tat)
			switch {
			case p.typ != "UPDATE" || p.old == nil || p.new == nil:
				bad = fmt.Sprintf("event #%d arrived as {%s old=%v new=%v}, the write was an UPDATE %d -> %d", k, p.typ, p.old != nil, p.new != nil, w.old, w.new)
			case p.e.ChangeType.String() != p.typ || p.e.OldValue != p.old || p.e.NewValue != p.new:
				bad = fmt.Sprintf("event #%d arrived as {%s old=%v new=%v} and now reads {%s old=%v new=%v}", k, p.typ, p.old != nil, p.new != nil, p.e.ChangeType, p.e.OldValue != nil, p.e.NewValue != nil)
			case o.GetDefaultInt32() != w.old || nw.GetDefaultInt32() != w.new:
				bad = fmt.Sprintf("event #%d carries %d -> %d, the write was %d -> %d", k, o.GetDefaultInt32(), nw.GetDefaultInt32(), w.old, w.new)
			}
		}
		mu.Unlock()
		if bad != "" {
			r.Violation("C07/event-struct/collection.shared-with-filtering-subscriber", fmt.Sprintf("shared case %d (plain subscriber registered first: %v): %s", i, first, bad), map[string]any{"case": i})
		}
		cancel()
	}
	r.MustQuiesce("c07-shared-end")
	r.Require("shared-change-scenarios", 20)
}
