package main

import (
	"context"
	"fmt"

	"github.com/smart-core-os/sc-api/go/traits"
	"google.golang.org/protobuf/proto"

	"github.com/smart-core-os/sc-golang/internal/verif/vk"
	"github.com/smart-core-os/sc-golang/pkg/resource"
	"github.com/smart-core-os/sc-golang/pkg/trait/enterleavesensorpb"
	"github.com/smart-core-os/sc-golang/pkg/trait/metadatapb"
	"github.com/smart-core-os/sc-golang/pkg/trait/parentpb"
)

// concurrentSubscribe: a subscription is opened WHILE a write is pending: the subscribing goroutine is parked (hook
// value.sub.afterSnapshot / col.sub.afterSnapshot) right after it captured the seed, a write is started (it waits for
// the lock the subscriber holds), the subscriber is released and both race to completion. Everything handed out
// before (Get results, earlier events, write results) and everything the new subscription delivers is retained and
// re-compared: a seed that is edited after the check "is this still the stored message?" was made too early shows
// up here and nowhere in sequential use.
func concurrentSubscribe(r *vk.Run) {
	sched := vk.NewSched()
	defer sched.Close()
	n := r.Pick(300, 20000)
	for i := 0; i < n; i++ {
		if !r.Mine(i) {
			continue
		}
		rng := r.CaseRand("c07-conc", i)
		g := &modelRig{r: r, sh: vk.NewShadow(), caseN: i, ok: true}
		ctx, cancel := context.WithCancel(context.Background())
		var point string
		var openSub, write func()
		var observeState func(label string)
		switch rng.Intn(3) {
		case 0:
			g.name = "enterleavesensorpb.Model"
			point = "value.sub.afterSnapshot"
			m := enterleavesensorpb.NewModel()
			_ = m.CreateEnterLeaveEvent(&traits.EnterLeaveEvent{Direction: traits.EnterLeaveEvent_ENTER, Occupant: &traits.EnterLeaveEvent_Occupant{Name: "first"}})
			observeState = func(label string) {
				e, _ := m.GetEnterLeaveEvent()
				g.observe(label+":GetEnterLeaveEvent", e)
			}
			openSub = func() {
				ch := m.PullEnterLeaveEvents(ctx, resource.WithBackpressure(rng.Bool()))
				go func() {
					for c := range ch {
						g.observe("event:PullEnterLeaveEvents", c.Value)
					}
				}()
			}
			write = func() {
				_ = m.CreateEnterLeaveEvent(&traits.EnterLeaveEvent{Direction: traits.EnterLeaveEvent_LEAVE, Occupant: &traits.EnterLeaveEvent_Occupant{Name: "second"}})
			}
		case 1:
			g.name = "metadatapb.Model"
			point = "value.sub.afterSnapshot"
			m := metadatapb.NewModel()
			_, _ = m.UpdateMetadata(genMetadata(rng))
			observeState = func(label string) {
				md, _ := m.GetMetadata()
				g.observe(label+":GetMetadata", md)
			}
			openSub = func() {
				ch := m.PullMetadata(ctx, resource.WithBackpressure(rng.Bool()))
				go func() {
					for c := range ch {
						g.observe("event:PullMetadata", c.Metadata)
					}
				}()
			}
			write = func() { _, _ = m.MergeMetadata(genMetadata(rng)) }
		default:
			g.name = "parentpb.Model"
			point = "col.sub.afterSnapshot"
			m := parentpb.NewModel()
			m.AddChildTrait("k1", "a.A", "m.M", "x.X")
			observeState = func(label string) {
				for _, c := range m.ListChildren() {
					g.observe(label+":ListChildren", c)
				}
			}
			openSub = func() {
				ch := m.PullChildren(ctx, resource.WithBackpressure(rng.Bool()))
				go func() {
					for c := range ch {
						g.observe("event-new:PullChildren", c.NewValue)
						g.observe("event-old:PullChildren", c.OldValue)
					}
				}()
			}
			write = func() { m.AddChildTrait("k1", traitNames[rng.Intn(len(traitNames))]) }
		}
		g.setStep(0, "before")
		observeState("result")
		park := sched.ParkAt(point, nil)
		ts := vk.Go(openSub)
		vk.Quiesce()
		reached := park.Arrived()
		tw := vk.Go(write)
		vk.Quiesce()
		g.setStep(1, "subscribe racing with a pending write")
		park.Release()
		ts.Wait()
		tw.Wait()
		g.verify("Pull-racing-with-write")
		g.setStep(2, "after")
		observeState("result")
		write()
		g.verify("write-after-racing-Pull")
		observeState("result")
		g.verify("read-after-racing-Pull")
		r.Eval(1)
		r.Count("concurrent-subscribe-scenarios", 1)
		if reached {
			r.Distinct(fmt.Sprintf("conc-sub:%s:%d", g.name, i%50))
		} else {
			r.Count("concurrent-subscribe-window-not-reached", 1)
		}
		cancel()
	}
	r.Require("concurrent-subscribe-scenarios", 100)
}

var _ = proto.Clone
