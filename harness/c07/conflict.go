package main

import (
	"context"
	"fmt"

	"google.golang.org/protobuf/proto"

	"github.com/smart-core-os/sc-golang/internal/verif/vk"
	"github.com/smart-core-os/sc-golang/pkg/resource"
)

// conflictingWriters: writer A has read the stored value and is held up before it takes the write lock (hooks
// gau.afterRead / gau.beforeLock); writer B commits a different write to the same Value / item and keeps what it got
// back, what a Get returns and what a subscriber was sent. Then A goes on. However the library resolves the conflict
// (A fails, or A is applied after B), everything that was handed out for B's version stays what it was.
func conflictingWriters(r *vk.Run) {
	sched := vk.NewSched()
	defer sched.Close()
	idx := 0
	for _, kind := range []string{"value", "collection"} {
		for _, window := range []string{"gau.afterRead", "gau.beforeLock"} {
			for _, aMasked := range []bool{true, false} {
				for _, bp := range []bool{true, false} {
					idx++
					if !r.Mine(idx) {
						continue
					}
					sh := vk.NewShadow()
					step := 0
					observe := func(label string, m proto.Message) {
						if m != nil {
							sh.Observe(label, step, m)
						}
					}
					ctx, cancel := context.WithCancel(context.Background())
					init := &tat{DefaultString: "init", DefaultInt32: 1, DefaultInt64: 10, DefaultNestedMessage: &nested{A: 1}}
					var val *resource.Value
					var col *resource.Collection
					if kind == "value" {
						val = resource.NewValue(resource.WithInitialValue(proto.Clone(init)))
						ch := val.Pull(ctx, resource.WithBackpressure(bp))
						go func() {
							for e := range ch {
								observe("event:Value.Pull", e.Value)
							}
						}()
					} else {
						col = resource.NewCollection(resource.WithInitialRecord("x", proto.Clone(init)))
						ch := col.Pull(ctx, resource.WithBackpressure(bp))
						go func() {
							for e := range ch {
								observe("event:Collection.Pull.new", e.NewValue)
								observe("event:Collection.Pull.old", e.OldValue)
							}
						}()
					}
					vk.Quiesce()
					var aOpts []resource.WriteOption
					if aMasked {
						aOpts = append(aOpts, resource.WithUpdatePaths("default_string", "default_nested_message.a"))
					}
					aMsg := &tat{DefaultString: "from A", DefaultInt32: 7, DefaultNestedMessage: &nested{A: 77}}
					park := sched.ParkAt(window, nil)
					var aErr error
					ta := vk.Go(func() {
						var res proto.Message
						if kind == "value" {
							res, aErr = val.Set(aMsg, aOpts...)
						} else {
							res, aErr = col.Update("x", aMsg, aOpts...)
						}
						if aErr == nil {
							observe("result:A", res)
						}
					})
					vk.Quiesce()
					reached := park.Arrived()
					step = 1
					bMsg := &tat{DefaultString: "from B", DefaultInt32: 2, DefaultInt64: 20, DefaultNestedMessage: &nested{A: 2}}
					if kind == "value" {
						res, _ := val.Set(bMsg)
						observe("result:B", res)
						observe("get-after-B", val.Get())
					} else {
						res, _ := col.Update("x", bMsg)
						observe("result:B", res)
						g, _ := col.Get("x")
						observe("get-after-B", g)
						for _, m := range col.List() {
							observe("list-after-B", m)
						}
					}
					vk.Quiesce()
					step = 2
					park.Release()
					if _, ok := r.MustQuiesce("c07-conflict"); !ok {
						cancel()
						return
					}
					r.Eval(1)
					r.Count("conflicting-writer-scenarios", 1)
					if reached {
						r.Distinct(fmt.Sprintf("conflict|%s|%s|%v|%v", kind, window, aMasked, bp))
					}
					if !ta.Done() {
						r.Violation("C07/conflict/writer-stuck/"+kind, fmt.Sprintf("writer A (parked at %s while B committed) has not returned at the quiescent point", window), map[string]any{"kind": kind, "window": window})
						cancel()
						return
					}
					if aErr != nil {
						r.Count("conflicting-writer-scenarios/A-rejected", 1)
					} else {
						r.Count("conflicting-writer-scenarios/A-applied-after-B", 1)
					}
					for _, d := range sh.VerifyAll() {
						r.Violation(fmt.Sprintf("C07/%s/%s.conflicting-writer", d.Label, kind), fmt.Sprintf("%s: writer A (%s, update mask %v) was held at %s while writer B committed; after A went on (error: %v) a message handed out earlier changed: %v", kind, vk.JSON(aMsg), aMasked, window, aErr, d), map[string]any{"kind": kind, "window": window, "aMasked": aMasked, "bp": bp})
					}
					cancel()
					vk.Quiesce()
				}
			}
		}
	}
	r.Require("conflicting-writer-scenarios", 4)
}
