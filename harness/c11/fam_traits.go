package main

import (
	"context"
	"fmt"
	"math/rand"
	"time"

	"github.com/smart-core-os/sc-api/go/traits"
	"google.golang.org/protobuf/proto"
	"google.golang.org/protobuf/types/known/durationpb"
	"google.golang.org/protobuf/types/known/timestamppb"

	"github.com/smart-core-os/sc-golang/internal/verif/vk"
	"github.com/smart-core-os/sc-golang/pkg/resource"
	"github.com/smart-core-os/sc-golang/pkg/trait"
	"github.com/smart-core-os/sc-golang/pkg/trait/electricpb"
	"github.com/smart-core-os/sc-golang/pkg/trait/fanspeedpb"
	"github.com/smart-core-os/sc-golang/pkg/trait/hailpb"
	"github.com/smart-core-os/sc-golang/pkg/trait/metadatapb"
	"github.com/smart-core-os/sc-golang/pkg/trait/modepb"
	"github.com/smart-core-os/sc-golang/pkg/trait/openclosepb"
	"github.com/smart-core-os/sc-golang/pkg/trait/parentpb"
	"github.com/smart-core-os/sc-golang/pkg/trait/publicationpb"
	"github.com/smart-core-os/sc-golang/pkg/trait/vendingpb"
	"github.com/smart-core-os/sc-golang/pkg/trait/wastepb"
)

// pullOpts returns random subscription options (no read masks that could be invalid for the message type).
func pullOpts(rng *vk.Rand) []resource.ReadOption {
	var o []resource.ReadOption
	if rng.Bool() {
		o = append(o, resource.WithUpdatesOnly(true))
	}
	if rng.Bool() {
		o = append(o, resource.WithBackpressure(true))
	}
	return o
}

// readerOpts returns write options whose callbacks only read (added to some trait model writes).
func readerOpts(rng *vk.Rand, gp **G) []resource.WriteOption {
	var o []resource.WriteOption
	if rng.Chance(1, 4) {
		o = append(o, resource.WithExpectedCheck(func(old proto.Message) error { (*gp).sink += readMsg(old); return nil }))
	}
	return o
}

func ts(rng *vk.Rand) *timestamppb.Timestamp {
	return &timestamppb.Timestamp{Seconds: int64(rng.Range(1, 1_000_000))}
}

// ---- electric -----------------------------------------------------------------------------------------------

func genMode(rng *vk.Rand, id string) *traits.ElectricMode {
	m := &traits.ElectricMode{Id: id, Title: rng.PickStr("eco", "boost", "idle"), Voltage: float32(rng.Range(100, 250)),
		Normal: rng.Chance(1, 5)}
	for i, n := 0, rng.Intn(4); i < n; i++ {
		m.Segments = append(m.Segments, &traits.ElectricMode_Segment{
			Length: durationpb.New(time.Duration(rng.Range(1, 100)) * time.Second), Magnitude: float32(rng.Range(0, 9))})
	}
	return m
}

var modeIDs = []string{"m1", "m2", "m3", "m4"}

func buildElectric(rng *vk.Rand, nOps int) *Prog {
	p := newProg("electric", rng, rng.Range(4, 16), 6)
	nModels := rng.Range(1, 3)
	ownRng := rng.Chance(1, 3)
	p.flavor = fmt.Sprintf("models%d", nModels)
	if ownRng {
		p.flavor += "+own-rng"
	} else {
		p.flavor += "+default-rng"
	}
	models := make([]*electricpb.Model, nModels)
	for i := range models {
		var opts []resource.Option
		if ownRng {
			// electricpb.WithRNG takes a *rand.Rand for the model; one per model, the model serialises its own use
			opts = append(opts, electricpb.WithRNG(rand.New(rand.NewSource(int64(rng.Uint64()>>1)))))
		}
		if rng.Bool() {
			opts = append(opts, electricpb.WithInitialMode(genMode(rng, "m1")))
		}
		models[i] = electricpb.NewModel(opts...)
	}
	anyID := func(g *G, fallback string) string {
		if len(g.ids) > 0 && g.rng.Bool() {
			return g.ids[g.rng.Intn(len(g.ids))]
		}
		return fallback
	}
	spread(rng, p, nOps, func(gi int) {
		m := models[rng.Intn(nModels)]
		id := modeIDs[rng.Intn(len(modeIDs))]
		k, pace := rng.Intn(6), rng.Intn(3)
		switch w := rng.Intn(100); {
		case w < 6:
			p.add(gi, "electric.Demand", func(g *G) { g.sink += readMsg(m.Demand()) })
		case w < 14:
			d := &traits.ElectricDemand{Current: float32(rng.Range(0, 30)), Rating: 32}
			p.add(gi, "electric.UpdateDemand", func(g *G) {
				res, err := m.UpdateDemand(d)
				g.err(err)
				g.sink += readMsg(res)
			})
		case w < 18:
			o := pullOpts(rng)
			p.add(gi, "electric.PullDemand", func(g *G) {
				consume(g, m.PullDemand(g.ctx(k), o...), pace, func(c electricpb.PullDemandChange) uint64 {
					return readMsg(c.Value) + readTime(c.ChangeTime)
				})
			})
		case w < 23:
			p.add(gi, "electric.ActiveMode", func(g *G) { g.sink += readMsg(m.ActiveMode()) })
		case w < 27:
			o := pullOpts(rng)
			p.add(gi, "electric.PullActiveMode", func(g *G) {
				consume(g, m.PullActiveMode(g.ctx(k), o...), pace, func(c electricpb.PullActiveModeChange) uint64 {
					return readMsg(c.ActiveMode) + readTime(c.ChangeTime)
				})
			})
		case w < 31:
			mode := genMode(rng, id)
			p.add(gi, "electric.SetActiveMode", func(g *G) { g.err(m.SetActiveMode(mode)) })
		case w < 39:
			p.add(gi, "electric.ChangeActiveMode", func(g *G) {
				res, err := m.ChangeActiveMode(anyID(g, id))
				g.err(err)
				g.sink += readMsg(res)
			})
		case w < 43:
			p.add(gi, "electric.ChangeToNormalMode", func(g *G) {
				res, err := m.ChangeToNormalMode()
				g.err(err)
				g.sink += readMsg(res)
			})
		case w < 48:
			p.add(gi, "electric.FindMode", func(g *G) {
				res, _ := m.FindMode(anyID(g, id))
				g.sink += readMsg(res)
			})
		case w < 54:
			p.add(gi, "electric.Modes", func(g *G) {
				for _, x := range m.Modes() {
					g.sink += readMsg(x)
				}
			})
		case w < 68:
			mode := genMode(rng, "")
			p.add(gi, "electric.CreateMode", func(g *G) {
				res, err := m.CreateMode(mode)
				g.err(err)
				g.sink += readMsg(res)
				if err == nil && res != nil {
					g.ids = append(g.ids, res.Id)
				}
			})
		case w < 75:
			mode := genMode(rng, id)
			p.add(gi, "electric.AddMode", func(g *G) { g.err(m.AddMode(mode)) })
		case w < 82:
			var o []resource.WriteOption
			if rng.Bool() {
				o = append(o, resource.WithAllowMissing(true))
			}
			p.add(gi, "electric.DeleteMode", func(g *G) { g.err(m.DeleteMode(anyID(g, id), o...)) })
		case w < 89:
			mode := genMode(rng, "")
			mode.Normal = false
			gp := new(*G)
			o := readerOpts(rng, gp)
			p.add(gi, "electric.UpdateMode", func(g *G) {
				*gp = g
				mode.Id = anyID(g, id) // the message belongs to this operation alone
				res, err := m.UpdateMode(mode, o...)
				g.err(err)
				g.sink += readMsg(res)
			})
		case w < 93:
			o := pullOpts(rng)
			p.add(gi, "electric.PullModes", func(g *G) {
				consume(g, m.PullModes(g.ctx(k), o...), pace, func(c electricpb.PullModesChange) uint64 {
					return readMsg(c.OldValue) + readMsg(c.NewValue) + readTime(c.ChangeTime) + uint64(c.Type)
				})
			})
		case w < 96:
			p.add(gi, "electric.NormalMode", func(g *G) {
				res, _ := m.NormalMode()
				g.sink += readMsg(res)
			})
		default:
			p.add(gi, "cancel", func(g *G) { g.cancel(k) })
		}
	})
	return p
}

// ---- parent -------------------------------------------------------------------------------------------------

var traitPool = []trait.Name{trait.AirTemperature, trait.Electric, trait.FanSpeed, trait.Light, trait.Metadata, trait.OnOff, trait.Parent}

func pickTraits(rng *vk.Rand) []trait.Name {
	n := rng.Range(1, 3)
	out := make([]trait.Name, 0, n)
	for i := 0; i < n; i++ {
		out = append(out, traitPool[rng.Intn(len(traitPool))])
	}
	return out
}

func genChild(rng *vk.Rand, name string) *traits.Child {
	c := &traits.Child{Name: name}
	for _, t := range traitPool { // ascending order, as AddChild requires
		if rng.Chance(1, 3) {
			c.Traits = append(c.Traits, &traits.Trait{Name: string(t)})
		}
	}
	return c
}

func buildParent(rng *vk.Rand, nOps int) *Prog {
	p := newProg("parent", rng, rng.Range(4, 16), 4)
	names := []string{"c1", "c2", "c3"}
	var opts []resource.Option
	if rng.Bool() {
		opts = append(opts, parentpb.WithInitialChildren(genChild(rng, "c1"), genChild(rng, "c2")))
		p.flavor = "initial"
	} else {
		p.flavor = "empty"
	}
	m := parentpb.NewModel(opts...)
	spread(rng, p, nOps, func(gi int) {
		name := names[rng.Intn(len(names))]
		k, pace := rng.Intn(4), rng.Intn(3)
		switch w := rng.Intn(100); {
		case w < 10:
			c := genChild(rng, name)
			p.add(gi, "parent.AddChild", func(g *G) { m.AddChild(c) })
		case w < 18:
			var o []resource.WriteOption
			if rng.Bool() {
				o = append(o, resource.WithAllowMissing(true))
			}
			p.add(gi, "parent.RemoveChildByName", func(g *G) {
				res, err := m.RemoveChildByName(name, o...)
				g.err(err)
				g.sink += readMsg(res)
			})
		case w < 45:
			tn := pickTraits(rng)
			p.add(gi, "parent.AddChildTrait", func(g *G) {
				res, _ := m.AddChildTrait(name, tn...)
				g.sink += readMsg(res)
			})
		case w < 65:
			tn := pickTraits(rng)
			p.add(gi, "parent.RemoveChildTrait", func(g *G) { g.sink += readMsg(m.RemoveChildTrait(name, tn...)) })
		case w < 85:
			p.add(gi, "parent.ListChildren", func(g *G) {
				for _, c := range m.ListChildren() {
					g.sink += readMsg(c)
				}
			})
		case w < 94:
			o := pullOpts(rng)
			p.add(gi, "parent.PullChildren", func(g *G) {
				consume(g, m.PullChildren(g.ctx(k), o...), pace, func(c *traits.PullChildrenResponse_Change) uint64 { return readMsg(c) })
			})
		default:
			p.add(gi, "cancel", func(g *G) { g.cancel(k) })
		}
	})
	return p
}

// ---- metadata -----------------------------------------------------------------------------------------------

func genTraitMD(rng *vk.Rand) *traits.TraitMetadata {
	t := &traits.TraitMetadata{Name: string(traitPool[rng.Intn(len(traitPool))])}
	if rng.Bool() {
		t.More = map[string]string{rng.PickStr("k1", "k2", "k3"): rng.PickStr("v1", "v2")}
	}
	return t
}

func genMetadata(rng *vk.Rand) *traits.Metadata {
	m := &traits.Metadata{Name: rng.PickStr("dev1", "dev2")}
	for i, n := 0, rng.Intn(3); i < n; i++ {
		m.Traits = append(m.Traits, genTraitMD(rng))
	}
	if rng.Bool() {
		m.Appearance = &traits.Metadata_Appearance{Title: rng.PickStr("A", "B"), Description: "d"}
	}
	if rng.Bool() {
		m.More = map[string]string{rng.PickStr("x", "y"): rng.PickStr("1", "2")}
	}
	return m
}

func buildMetadataModel(rng *vk.Rand, nOps int) *Prog {
	p := newProg("metadata-model", rng, rng.Range(4, 16), 4)
	var opts []resource.Option
	if rng.Bool() {
		opts = append(opts, resource.WithInitialValue(genMetadata(rng)))
		p.flavor = "initial"
	} else {
		p.flavor = "default"
	}
	m := metadatapb.NewModel(opts...)
	spread(rng, p, nOps, func(gi int) {
		k, pace := rng.Intn(4), rng.Intn(3)
		gp := new(*G)
		switch w := rng.Intn(100); {
		case w < 25:
			p.add(gi, "metadata.GetMetadata", func(g *G) {
				res, _ := m.GetMetadata()
				g.sink += readMsg(res)
			})
		case w < 40:
			md := genMetadata(rng)
			o := readerOpts(rng, gp)
			p.add(gi, "metadata.UpdateMetadata", func(g *G) {
				*gp = g
				res, err := m.UpdateMetadata(md, o...)
				g.err(err)
				g.sink += readMsg(res)
			})
		case w < 62:
			md := genMetadata(rng)
			o := readerOpts(rng, gp)
			p.add(gi, "metadata.MergeMetadata", func(g *G) {
				*gp = g
				res, err := m.MergeMetadata(md, o...)
				g.err(err)
				g.sink += readMsg(res)
			})
		case w < 82:
			tm := genTraitMD(rng)
			p.add(gi, "metadata.UpdateTraitMetadata", func(g *G) {
				res, err := m.UpdateTraitMetadata(tm)
				g.err(err)
				g.sink += readMsg(res)
			})
		case w < 94:
			o := pullOpts(rng)
			p.add(gi, "metadata.PullMetadata", func(g *G) {
				consume(g, m.PullMetadata(g.ctx(k), o...), pace, func(c *traits.PullMetadataResponse_Change) uint64 { return readMsg(c) })
			})
		default:
			p.add(gi, "cancel", func(g *G) { g.cancel(k) })
		}
	})
	return p
}

func buildMetadataCollection(rng *vk.Rand, nOps int) *Prog {
	p := newProg("metadata-collection", rng, rng.Range(4, 16), 4)
	names := []string{"d1", "d2", "d3"}
	var opts []resource.Option
	if rng.Bool() {
		opts = append(opts, resource.WithInitialRecord("d1", genMetadata(rng)))
		p.flavor = "initial"
	} else {
		p.flavor = "empty"
	}
	m := metadatapb.NewCollection(opts...)
	spread(rng, p, nOps, func(gi int) {
		name := names[rng.Intn(len(names))]
		k, pace := rng.Intn(4), rng.Intn(3)
		switch w := rng.Intn(100); {
		case w < 15:
			p.add(gi, "metadataCol.GetMetadata", func(g *G) {
				res, err := m.GetMetadata(name)
				g.err(err)
				g.sink += readMsg(res)
			})
		case w < 30:
			md := genMetadata(rng)
			var o []resource.WriteOption
			if rng.Chance(2, 3) {
				o = append(o, resource.WithCreateIfAbsent())
			}
			p.add(gi, "metadataCol.UpdateMetadata", func(g *G) {
				res, err := m.UpdateMetadata(name, md, o...)
				g.err(err)
				g.sink += readMsg(res)
			})
		case w < 50:
			md := genMetadata(rng)
			var o []resource.WriteOption
			if rng.Chance(2, 3) {
				o = append(o, resource.WithCreateIfAbsent())
			}
			p.add(gi, "metadataCol.MergeMetadata", func(g *G) {
				res, err := m.MergeMetadata(name, md, o...)
				g.err(err)
				g.sink += readMsg(res)
			})
		case w < 65:
			tm := genTraitMD(rng)
			p.add(gi, "metadataCol.UpdateTraitMetadata", func(g *G) {
				res, err := m.UpdateTraitMetadata(name, tm, resource.WithCreateIfAbsent())
				g.err(err)
				g.sink += readMsg(res)
			})
		case w < 72:
			p.add(gi, "metadataCol.DeleteMetadata", func(g *G) {
				res, err := m.DeleteMetadata(name, resource.WithAllowMissing(true))
				g.err(err)
				g.sink += readMsg(res)
			})
		case w < 82:
			p.add(gi, "metadataCol.ListMetadata", func(g *G) {
				for _, x := range m.ListMetadata() {
					g.sink += readMsg(x)
				}
			})
		case w < 88:
			o := pullOpts(rng)
			p.add(gi, "metadataCol.PullMetadata", func(g *G) {
				consume(g, m.PullMetadata(g.ctx(k), name, o...), pace, func(c *traits.PullMetadataResponse_Change) uint64 { return readMsg(c) })
			})
		case w < 95:
			o := pullOpts(rng)
			p.add(gi, "metadataCol.PullAllMetadata", func(g *G) {
				consume(g, m.PullAllMetadata(g.ctx(k), o...), pace, func(c metadatapb.CollectionChange) uint64 {
					return readMsg(c.OldValue) + readMsg(c.NewValue) + uint64(len(c.Name)) + readTime(c.ChangeTime)
				})
			})
		default:
			p.add(gi, "cancel", func(g *G) { g.cancel(k) })
		}
	})
	return p
}

// ---- vending ------------------------------------------------------------------------------------------------

func qty(rng *vk.Rand) *traits.Consumable_Quantity {
	return &traits.Consumable_Quantity{Amount: float32(rng.Range(1, 50)), Unit: traits.Consumable_LITER}
}

func genStock(rng *vk.Rand, name string) *traits.Consumable_Stock {
	return &traits.Consumable_Stock{Consumable: name, Remaining: qty(rng), Used: qty(rng)}
}

func genConsumable(rng *vk.Rand, name string) *traits.Consumable {
	c := &traits.Consumable{Name: name, Title: rng.PickStr("tea", "coffee", "milk")}
	if rng.Bool() {
		c.DefaultPortion = qty(rng)
	}
	if rng.Bool() {
		c.More = map[string]string{"k": rng.PickStr("a", "b")}
	}
	return c
}

func buildVending(rng *vk.Rand, nOps int) *Prog {
	p := newProg("vending", rng, rng.Range(4, 16), 6)
	names := []string{"tea", "coffee", "milk"}
	var opts []resource.Option
	if rng.Bool() {
		opts = append(opts, vendingpb.WithInitialStock(genStock(rng, "tea"), genStock(rng, "coffee")))
		p.flavor = "initial"
	} else {
		p.flavor = "empty"
	}
	m := vendingpb.NewModel(opts...)
	anyName := func(g *G, fallback string) string {
		if len(g.ids) > 0 && g.rng.Chance(1, 3) {
			return g.ids[g.rng.Intn(len(g.ids))]
		}
		return fallback
	}
	spread(rng, p, nOps, func(gi int) {
		name := names[rng.Intn(len(names))]
		k, pace := rng.Intn(6), rng.Intn(3)
		gen := rng.Chance(1, 3)
		switch w := rng.Intn(100); {
		case w < 8:
			c := genConsumable(rng, name)
			if gen {
				c.Name = ""
			}
			p.add(gi, "vending.CreateConsumable", func(g *G) {
				res, err := m.CreateConsumable(c)
				g.err(err)
				g.sink += readMsg(res)
				if gen && err == nil {
					g.ids = append(g.ids, res.Name)
				}
			})
		case w < 13:
			p.add(gi, "vending.GetConsumable", func(g *G) {
				res, _ := m.GetConsumable(anyName(g, name))
				g.sink += readMsg(res)
			})
		case w < 20:
			c := genConsumable(rng, name)
			var o []resource.WriteOption
			if rng.Bool() {
				o = append(o, resource.WithCreateIfAbsent())
			}
			p.add(gi, "vending.UpdateConsumable", func(g *G) {
				res, err := m.UpdateConsumable(c, o...)
				g.err(err)
				g.sink += readMsg(res)
			})
		case w < 24:
			p.add(gi, "vending.DeleteConsumable", func(g *G) {
				res, err := m.DeleteConsumable(anyName(g, name), resource.WithAllowMissing(true))
				g.err(err)
				g.sink += readMsg(res)
			})
		case w < 28:
			o := pullOpts(rng)
			p.add(gi, "vending.PullConsumable", func(g *G) {
				consume(g, m.PullConsumable(g.ctx(k), name, o...), pace, func(c vendingpb.ConsumableChange) uint64 {
					return readMsg(c.Value) + readTime(c.ChangeTime)
				})
			})
		case w < 33:
			p.add(gi, "vending.ListConsumables", func(g *G) {
				for _, x := range m.ListConsumables() {
					g.sink += readMsg(x)
				}
			})
		case w < 37:
			o := pullOpts(rng)
			p.add(gi, "vending.PullConsumables", func(g *G) {
				consume(g, m.PullConsumables(g.ctx(k), o...), pace, func(c vendingpb.ConsumablesChange) uint64 {
					return readMsg(c.OldValue) + readMsg(c.NewValue) + readTime(c.ChangeTime) + uint64(len(c.ID))
				})
			})
		case w < 47:
			s := genStock(rng, name)
			if gen {
				s.Consumable = ""
			}
			p.add(gi, "vending.CreateStock", func(g *G) {
				res, err := m.CreateStock(s)
				g.err(err)
				g.sink += readMsg(res)
				if gen && err == nil {
					g.ids = append(g.ids, res.Consumable)
				}
			})
		case w < 53:
			p.add(gi, "vending.GetStock", func(g *G) {
				res, _ := m.GetStock(anyName(g, name))
				g.sink += readMsg(res)
			})
		case w < 62:
			s := genStock(rng, name)
			var o []resource.WriteOption
			if rng.Bool() {
				o = append(o, resource.WithCreateIfAbsent())
			}
			p.add(gi, "vending.UpdateStock", func(g *G) {
				res, err := m.UpdateStock(s, o...)
				g.err(err)
				g.sink += readMsg(res)
			})
		case w < 66:
			p.add(gi, "vending.DeleteStock", func(g *G) {
				res, err := m.DeleteStock(anyName(g, name), resource.WithAllowMissing(true))
				g.err(err)
				g.sink += readMsg(res)
			})
		case w < 70:
			o := pullOpts(rng)
			p.add(gi, "vending.PullStock", func(g *G) {
				consume(g, m.PullStock(g.ctx(k), name, o...), pace, func(c vendingpb.StockChange) uint64 {
					return readMsg(c.Value) + readTime(c.ChangeTime)
				})
			})
		case w < 76:
			p.add(gi, "vending.ListInventory", func(g *G) {
				for _, x := range m.ListInventory() {
					g.sink += readMsg(x)
				}
			})
		case w < 80:
			o := pullOpts(rng)
			p.add(gi, "vending.PullInventory", func(g *G) {
				consume(g, m.PullInventory(g.ctx(k), o...), pace, func(c vendingpb.InventoryChange) uint64 {
					return readMsg(c.OldValue) + readMsg(c.NewValue) + readTime(c.ChangeTime) + uint64(len(c.ID))
				})
			})
		case w < 96:
			q := qty(rng)
			p.add(gi, "vending.DispenseInstantly", func(g *G) {
				res, err := m.DispenseInstantly(name, q)
				g.err(err)
				g.sink += readMsg(res)
			})
		default:
			p.add(gi, "cancel", func(g *G) { g.cancel(k) })
		}
	})
	return p
}

// ---- publication --------------------------------------------------------------------------------------------

func genPublication(rng *vk.Rand, id string) *traits.Publication {
	pb := &traits.Publication{Id: id, Body: []byte(rng.PickStr("{}", "[1]", "hello")), MediaType: "application/json"}
	if rng.Bool() {
		pb.Audience = &traits.Publication_Audience{Name: rng.PickStr("x", "y"), Receipt: traits.Publication_Audience_ACCEPTED, ReceiptTime: ts(rng)}
	}
	return pb
}

func buildPublication(rng *vk.Rand, nOps int) *Prog {
	p := newProg("publication", rng, rng.Range(4, 16), 6)
	ids := []string{"p1", "p2", "p3"}
	var opts []resource.Option
	if rng.Bool() {
		opts = append(opts, publicationpb.WithInitialPublication(genPublication(rng, "p1")))
		p.flavor = "initial"
	} else {
		p.flavor = "empty"
	}
	m := publicationpb.NewModel(opts...)
	modelOpts := func() []resource.WriteOption {
		var o []resource.WriteOption
		if rng.Bool() {
			o = append(o, publicationpb.WithNewPublishTime())
		}
		if rng.Bool() {
			o = append(o, publicationpb.WithNewVersion())
		}
		if rng.Bool() {
			o = append(o, publicationpb.WithResetReceipt())
		}
		return o
	}
	anyID := func(g *G, fallback string) string {
		if len(g.ids) > 0 && g.rng.Chance(1, 3) {
			return g.ids[g.rng.Intn(len(g.ids))]
		}
		return fallback
	}
	spread(rng, p, nOps, func(gi int) {
		id := ids[rng.Intn(len(ids))]
		k, pace := rng.Intn(6), rng.Intn(3)
		switch w := rng.Intn(100); {
		case w < 20:
			gen := rng.Bool()
			pb := genPublication(rng, id)
			if gen {
				pb.Id = ""
			}
			o := modelOpts()
			p.add(gi, "publication.CreatePublication", func(g *G) {
				res, err := m.CreatePublication(pb, o...)
				g.err(err)
				g.sink += readMsg(res)
				if gen && err == nil {
					g.ids = append(g.ids, res.Id)
				}
			})
		case w < 32:
			p.add(gi, "publication.GetPublication", func(g *G) {
				res, _ := m.GetPublication(anyID(g, id))
				g.sink += readMsg(res)
			})
		case w < 55:
			pb := genPublication(rng, id)
			o := modelOpts()
			if rng.Bool() {
				o = append(o, resource.WithCreateIfAbsent())
			}
			if rng.Chance(1, 3) {
				o = append(o, resource.WithUpdatePaths("body", "audience"))
			}
			p.add(gi, "publication.UpdatePublication", func(g *G) {
				res, err := m.UpdatePublication(id, pb, o...)
				g.err(err)
				g.sink += readMsg(res)
			})
		case w < 63:
			p.add(gi, "publication.DeletePublication", func(g *G) {
				res, err := m.DeletePublication(anyID(g, id), resource.WithAllowMissing(true))
				g.err(err)
				g.sink += readMsg(res)
			})
		case w < 72:
			o := pullOpts(rng)
			p.add(gi, "publication.PullPublication", func(g *G) {
				consume(g, m.PullPublication(g.ctx(k), id, o...), pace, func(c publicationpb.PublicationChange) uint64 {
					return readMsg(c.Value) + readTime(c.ChangeTime)
				})
			})
		case w < 84:
			p.add(gi, "publication.ListPublications", func(g *G) {
				for _, x := range m.ListPublications() {
					g.sink += readMsg(x)
				}
			})
		case w < 94:
			o := pullOpts(rng)
			p.add(gi, "publication.PullPublications", func(g *G) {
				consume(g, m.PullPublications(g.ctx(k), o...), pace, func(c publicationpb.PublicationsChange) uint64 {
					return readMsg(c.OldValue) + readMsg(c.NewValue) + readTime(c.ChangeTime) + uint64(len(c.ID))
				})
			})
		default:
			p.add(gi, "cancel", func(g *G) { g.cancel(k) })
		}
	})
	return p
}

// ---- hail ---------------------------------------------------------------------------------------------------

func genHail(rng *vk.Rand, id string) *traits.Hail {
	h := &traits.Hail{Id: id, Origin: &traits.Hail_Location{Name: rng.PickStr("L1", "L2")}, CallTime: ts(rng)}
	if rng.Bool() {
		h.ArriveTime = ts(rng) // long ago: eligible for the model's garbage collection
	}
	return h
}

func buildHail(rng *vk.Rand, nOps int) *Prog {
	p := newProg("hail", rng, rng.Range(4, 16), 6)
	var opts []resource.Option
	switch rng.Intn(3) {
	case 0:
		opts = append(opts, hailpb.WithKeepAlive(0)) // collect arrived hails on every create
		p.flavor = "keepalive0"
	case 1:
		opts = append(opts, hailpb.WithKeepAlive(-1))
		p.flavor = "no-gc"
	default:
		p.flavor = "default"
	}
	m := hailpb.NewModel(opts...)
	someID := func(g *G) string {
		if len(g.ids) > 0 {
			return g.ids[g.rng.Intn(len(g.ids))]
		}
		return "none"
	}
	spread(rng, p, nOps, func(gi int) {
		k, pace := rng.Intn(6), rng.Intn(3)
		switch w := rng.Intn(100); {
		case w < 30:
			h := genHail(rng, "")
			p.add(gi, "hail.CreateHail", func(g *G) {
				res, err := m.CreateHail(h)
				g.err(err)
				g.sink += readMsg(res)
				if err == nil && res != nil {
					g.ids = append(g.ids, res.Id)
				}
			})
		case w < 42:
			p.add(gi, "hail.GetHail", func(g *G) {
				res, _ := m.GetHail(someID(g))
				g.sink += readMsg(res)
			})
		case w < 60:
			h := genHail(rng, "")
			p.add(gi, "hail.UpdateHail", func(g *G) {
				h.Id = someID(g) // the message belongs to this operation alone
				res, err := m.UpdateHail(h)
				g.err(err)
				g.sink += readMsg(res)
			})
		case w < 68:
			p.add(gi, "hail.DeleteHail", func(g *G) {
				res, err := m.DeleteHail(someID(g), resource.WithAllowMissing(true))
				g.err(err)
				g.sink += readMsg(res)
			})
		case w < 74:
			o := pullOpts(rng)
			p.add(gi, "hail.PullHail", func(g *G) {
				consume(g, m.PullHail(g.ctx(k), someID(g), o...), pace, func(c hailpb.HailChange) uint64 {
					return readMsg(c.Value) + readTime(c.ChangeTime)
				})
			})
		case w < 86:
			p.add(gi, "hail.ListHails", func(g *G) {
				for _, x := range m.ListHails() {
					g.sink += readMsg(x)
				}
			})
		case w < 94:
			o := pullOpts(rng)
			p.add(gi, "hail.PullHails", func(g *G) {
				consume(g, m.PullHails(g.ctx(k), o...), pace, func(c hailpb.HailsChange) uint64 {
					return readMsg(c.OldValue) + readMsg(c.NewValue) + readTime(c.ChangeTime) + uint64(c.ChangeType)
				})
			})
		default:
			p.add(gi, "cancel", func(g *G) { g.cancel(k) })
		}
	})
	return p
}

// ---- waste --------------------------------------------------------------------------------------------------

func buildWaste(rng *vk.Rand, nOps int) *Prog {
	p := newProg("waste", rng, rng.Range(4, 16), 4)
	p.flavor = "default"
	m := wastepb.NewModel()
	cl := wastepb.WrapApi(wastepb.NewModelServer(m)) // the RPCs have code of their own (paging, the history replay of Pull)
	spread(rng, p, nOps, func(gi int) {
		k, pace := rng.Intn(4), rng.Intn(3)
		switch w := rng.Intn(100); {
		case w < 8:
			uo := rng.Chance(1, 3)
			take := rng.Range(1, 40) // the history replay alone holds 49 records: the reads never wait for a new one
			p.add(gi, "waste.rpc.PullWasteRecords", func(g *G) {
				ctx, cancel := context.WithCancel(context.Background())
				defer cancel()
				st, err := cl.PullWasteRecords(ctx, &traits.PullWasteRecordsRequest{Name: "dev", UpdatesOnly: uo})
				if err != nil {
					g.errs++
					return
				}
				n := take
				if uo {
					n = 0 // an updates-only stream may stay silent: open it, cancel it
				}
				for i := 0; i < n; i++ {
					res, err := st.Recv()
					if err != nil {
						break
					}
					g.sink += readMsg(res)
				}
			})
		case w < 12:
			size := int32(rng.Range(1, 30))
			p.add(gi, "waste.rpc.ListWasteRecords", func(g *G) {
				res, err := cl.ListWasteRecords(context.Background(), &traits.ListWasteRecordsRequest{Name: "dev", PageSize: size})
				g.err(err)
				g.sink += readMsg(res)
			})
		case w < 25:
			wr := &traits.WasteRecord{Id: fmt.Sprint("w", rng.Intn(1000)), Weight: float32(rng.Range(1, 99)), WasteCreateTime: ts(rng), Area: "A"}
			p.add(gi, "waste.AddWasteRecord", func(g *G) {
				res, err := m.AddWasteRecord(wr)
				g.err(err)
				g.sink += readMsg(res)
			})
		case w < 45:
			t := ts(rng)
			p.add(gi, "waste.GenerateWasteRecord", func(g *G) {
				res, err := m.GenerateWasteRecord(t)
				g.err(err)
				g.sink += readMsg(res)
			})
		case w < 60:
			p.add(gi, "waste.GetWasteRecordCount", func(g *G) { g.sink += uint64(m.GetWasteRecordCount()) })
		case w < 82:
			count := rng.Range(1, 20)
			p.add(gi, "waste.ListWasteRecords", func(g *G) {
				for _, x := range m.ListWasteRecords(m.GetWasteRecordCount(), count) {
					g.sink += readMsg(x)
				}
			})
		case w < 94:
			o := pullOpts(rng)
			p.add(gi, "waste.PullWasteRecords", func(g *G) {
				consume(g, m.PullWasteRecords(g.ctx(k), o...), pace, func(c *traits.PullWasteRecordsResponse_Change) uint64 { return readMsg(c) })
			})
		default:
			p.add(gi, "cancel", func(g *G) { g.cancel(k) })
		}
	})
	return p
}

// ---- open/close ---------------------------------------------------------------------------------------------

func genPosition(rng *vk.Rand) *traits.OpenClosePosition {
	return &traits.OpenClosePosition{OpenPercent: float32(rng.Range(0, 4) * 25), Direction: traits.OpenClosePosition_Direction(rng.Range(0, 3))}
}

func buildOpenClose(rng *vk.Rand, nOps int) *Prog {
	p := newProg("openclose", rng, rng.Range(4, 16), 4)
	opts := []resource.Option{
		openclosepb.WithPreset(&traits.OpenClosePositions_Preset{Name: "open", Title: "Open"},
			&traits.OpenClosePosition{OpenPercent: 100, Direction: traits.OpenClosePosition_UP},
			&traits.OpenClosePosition{OpenPercent: 100, Direction: traits.OpenClosePosition_DOWN}),
		openclosepb.WithPreset(&traits.OpenClosePositions_Preset{Name: "closed", Title: "Closed"},
			&traits.OpenClosePosition{OpenPercent: 0, Direction: traits.OpenClosePosition_UP},
			&traits.OpenClosePosition{OpenPercent: 0, Direction: traits.OpenClosePosition_DOWN}),
	}
	if rng.Bool() {
		opts = append(opts, openclosepb.WithInitialPositions(
			&traits.OpenClosePosition{OpenPercent: 50, Direction: traits.OpenClosePosition_UP},
			&traits.OpenClosePosition{OpenPercent: 50, Direction: traits.OpenClosePosition_DOWN}))
		p.flavor = "presets+initial"
	} else {
		p.flavor = "presets"
	}
	m := openclosepb.NewModel(opts...)
	spread(rng, p, nOps, func(gi int) {
		k, pace := rng.Intn(4), rng.Intn(3)
		switch w := rng.Intn(100); {
		case w < 18:
			p.add(gi, "openclose.GetPositions", func(g *G) {
				res, err := m.GetPositions()
				g.err(err)
				g.sink += readMsg(res)
			})
		case w < 28:
			dir := traits.OpenClosePosition_Direction(rng.Range(0, 3))
			p.add(gi, "openclose.GetPosition", func(g *G) {
				res, err := m.GetPosition(dir)
				g.err(err)
				g.sink += readMsg(res)
			})
		case w < 50:
			ps := &traits.OpenClosePositions{}
			name := "openclose.UpdatePositions"
			if rng.Chance(1, 2) {
				ps.Preset = &traits.OpenClosePositions_Preset{Name: rng.PickStr("open", "closed", "nope")}
				name = "openclose.UpdatePositions(preset)"
			} else {
				for i, n := 0, rng.Range(1, 3); i < n; i++ {
					ps.States = append(ps.States, genPosition(rng))
				}
			}
			p.add(gi, name, func(g *G) {
				res, err := m.UpdatePositions(ps)
				g.err(err)
				g.sink += readMsg(res)
			})
		case w < 68:
			pos := genPosition(rng)
			var o []resource.WriteOption
			if rng.Chance(2, 3) {
				o = append(o, resource.WithCreateIfAbsent())
			}
			p.add(gi, "openclose.UpdatePosition", func(g *G) {
				res, err := m.UpdatePosition(pos, o...)
				g.err(err)
				g.sink += readMsg(res)
			})
		case w < 80:
			o := pullOpts(rng)
			p.add(gi, "openclose.PullPositions", func(g *G) {
				consume(g, m.PullPositions(g.ctx(k), o...), pace, func(c openclosepb.PullOpenClosePositionsChange) uint64 {
					return readMsg(c.Positions) + readTime(c.ChangeTime)
				})
			})
		case w < 88:
			p.add(gi, "openclose.ListPresets", func(g *G) {
				for _, x := range m.ListPresets() {
					g.sink += readMsg(x)
				}
			})
		case w < 94:
			n := rng.PickStr("open", "closed", "nope")
			p.add(gi, "openclose.HasPreset", func(g *G) {
				if m.HasPreset(n) {
					g.sink++
				}
			})
		default:
			p.add(gi, "cancel", func(g *G) { g.cancel(k) })
		}
	})
	return p
}

// ---- mode ---------------------------------------------------------------------------------------------------

func buildMode(rng *vk.Rand, nOps int) *Prog {
	p := newProg("mode", rng, rng.Range(4, 16), 4)
	var m *modepb.Model
	if rng.Bool() {
		m = modepb.NewModel()
		p.flavor = "default"
	} else {
		m = modepb.NewModelModes(&traits.Modes{Modes: []*traits.Modes_Mode{
			{Name: "speed", Ordered: true, Values: []*traits.Modes_Value{{Name: "slow"}, {Name: "fast"}}},
		}})
		p.flavor = "custom"
	}
	spread(rng, p, nOps, func(gi int) {
		k, pace := rng.Intn(4), rng.Intn(3)
		switch w := rng.Intn(100); {
		case w < 25:
			p.add(gi, "mode.ModeValues", func(g *G) { g.sink += readMsg(m.ModeValues()) })
		case w < 65:
			v := &traits.ModeValues{Values: map[string]string{
				rng.PickStr("temperature", "spin", "speed"): rng.PickStr("auto", "slow", "fast", "medium")}}
			var o []resource.WriteOption
			if rng.Bool() {
				o = append(o, resource.WithUpdatePaths("values"))
			}
			p.add(gi, "mode.UpdateModeValues", func(g *G) {
				res, err := m.UpdateModeValues(v, o...)
				g.err(err)
				g.sink += readMsg(res)
			})
		case w < 78:
			o := pullOpts(rng)
			p.add(gi, "mode.PullModeValues", func(g *G) {
				consume(g, m.PullModeValues(g.ctx(k), o...), pace, func(c modepb.ModeValuesChange) uint64 {
					return readMsg(c.Value) + readTime(c.ChangeTime)
				})
			})
		case w < 86:
			p.add(gi, "mode.Modes", func(g *G) { g.sink += readMsg(m.Modes()) })
		case w < 94:
			n := rng.PickStr("temperature", "spin", "speed")
			p.add(gi, "mode.AvailableValues", func(g *G) {
				for _, x := range m.AvailableValues(n) {
					g.sink += readMsg(x)
				}
			})
		default:
			p.add(gi, "cancel", func(g *G) { g.cancel(k) })
		}
	})
	return p
}

// ---- fan speed ----------------------------------------------------------------------------------------------

func buildFanSpeed(rng *vk.Rand, nOps int) *Prog {
	p := newProg("fanspeed", rng, rng.Range(4, 16), 4)
	var opts []resource.Option
	if rng.Bool() {
		opts = append(opts, fanspeedpb.WithPresets(fanspeedpb.Preset{Name: "off"}, fanspeedpb.Preset{Name: "on", Percentage: 100}))
		p.flavor = "two-presets"
	} else {
		p.flavor = "default"
	}
	m := fanspeedpb.NewModel(opts...)
	spread(rng, p, nOps, func(gi int) {
		k, pace := rng.Intn(4), rng.Intn(3)
		switch w := rng.Intn(100); {
		case w < 30:
			p.add(gi, "fanspeed.FanSpeed", func(g *G) { g.sink += readMsg(m.FanSpeed()) })
		case w < 78:
			fs := &traits.FanSpeed{}
			var o []resource.WriteOption
			switch rng.Intn(4) {
			case 0:
				fs.Preset = rng.PickStr("off", "low", "med", "high", "full", "on", "bogus")
				o = append(o, resource.WithUpdatePaths("preset"))
			case 1:
				fs.PresetIndex = int32(rng.Range(-1, 6))
				o = append(o, resource.WithUpdatePaths("preset_index"))
			case 2:
				fs.Percentage = float32(rng.Range(0, 4) * 25)
				o = append(o, resource.WithUpdatePaths("percentage"))
			default:
				fs.Direction = traits.FanSpeed_Direction(rng.Range(0, 2))
				fs.Percentage = float32(rng.Range(0, 100))
			}
			gp := new(*G)
			o = append(o, readerOpts(rng, gp)...)
			p.add(gi, "fanspeed.UpdateFanSpeed", func(g *G) {
				*gp = g
				res, err := m.UpdateFanSpeed(fs, o...)
				g.err(err)
				g.sink += readMsg(res)
			})
		case w < 94:
			o := pullOpts(rng)
			p.add(gi, "fanspeed.PullFanSpeed", func(g *G) {
				consume(g, m.PullFanSpeed(g.ctx(k), o...), pace, func(c fanspeedpb.FanSpeedChange) uint64 {
					return readMsg(c.Value) + readTime(c.ChangeTime)
				})
			})
		default:
			p.add(gi, "cancel", func(g *G) { g.cancel(k) })
		}
	})
	return p
}
