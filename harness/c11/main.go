// Monitor for C11: concurrent use of the public API is free of data races.
//
// The binary is built with -race -tags verif; the deciding oracle is the Go race detector (GORACE halt_on_error=0,
// log_path=<scratch>/race), whose reports the driver parses after the run. This program only has to generate
// genuinely concurrent workloads on every concurrently usable type and to measure what overlapped.
package main

import (
	"encoding/json"
	"fmt"
	"hash/fnv"
	"os"
	"strings"
	"syscall"
	"time"

	"github.com/smart-core-os/sc-golang/internal/verif/vk"
)

func main() {
	// A race-enabled binary that reported a race exits with GORACE's exitcode (default 66) even after os.Exit(0),
	// which the driver would take for a crashed worker. The reports are in the log files, so ask for exit code 0;
	// GORACE is only read at process start, hence the re-exec (same pid, same log file name).
	if g := os.Getenv("GORACE"); g != "" && !strings.Contains(g, "exitcode=") {
		if exe, err := os.Executable(); err == nil {
			_ = os.Setenv("GORACE", g+" exitcode=0")
			_ = syscall.Exec(exe, os.Args, os.Environ())
		}
	}
	vk.Main("C11", run)
}

type family struct {
	name  string
	build func(rng *vk.Rand, nOps int) *Prog
}

var families = []family{
	{"value", buildValue},
	{"collection", buildCollection},
	{"bus", buildBus},
	{"router", buildRouter},
	{"wrap", buildWrap},
	{"group", buildGroup},
	{"electric", buildElectric},
	{"parent", buildParent},
	{"metadata-model", buildMetadataModel},
	{"metadata-collection", buildMetadataCollection},
	{"vending", buildVending},
	{"publication", buildPublication},
	{"hail", buildHail},
	{"waste", buildWaste},
	{"openclose", buildOpenClose},
	{"mode", buildMode},
	{"fanspeed", buildFanSpeed},
}

func run(r *vk.Run) {
	r.Describe("seeded random concurrent programs: case i uses workload family i mod 17 (resource.Value, resource.Collection, minibus.Bus, router, wrapped client streams incl. a generated router over wrapped model servers, group.Execute*, and the trait models electric [1-3 instances, shared default or own rng], parent, metadata model, metadata collection, vending, publication, hail, waste, open/close, mode, fan speed); "+
		"4-16 goroutines start together and each runs its pre-generated list of operations (reads, writes with read-only interceptors / expected checks / generated ids / id interceptor / include filters / comparers, List, Pull and PullID with every option combination and consumers that read every event, cancellation of shared contexts by any goroutine, router Add/Remove/Has/Get with factory and fallback, streams used with one sender and one receiver and Header/Trailer read after the end, all group strategies). "+
		"A third of the programs run with vk.Sched stress yields at the hook points, a third with a synchronisation-free yield handler, a third without handler. "+
		"The race detector observes every memory access; the driver turns each report into a violation keyed by the innermost sc-golang functions of the two stacks. "+
		"Evaluations = operations executed under the detector; a case is distinct by (family, configuration, goroutine count, multiset of operations); overlap counters (pairs/...) are measured from per-goroutine monotonic timestamps after the join.",
		"the harness shares no mutable state between program goroutines while a program runs (records are goroutine-local and read after the WaitGroup join), so it adds no happens-before edges of its own",
		"callbacks, interceptors, filters, comparers and consumers only read the messages they are given; each written message is handed to exactly one call and never touched again by the harness",
		"WithRNG readers are not synchronised by the caller: neither resource.WithRNG nor electricpb.WithRNG documents that requirement (an electric model gets its own *rand.Rand when one is passed)",
		"wrapped streams are used within gRPC's contract: one sending and one receiving goroutine per stream, CloseSend after the last send, Trailer only after RecvMsg returned an error; the client may cancel its context at any time",
		"panics recovered on the caller's goroutine and call errors are counted, not judged (other properties own them); absence of a report means none observed on these schedules",
		"a program that does not finish within 90 s of wall clock is abandoned: inconclusive (hang/<family>), or only noted when a recovered panic preceded the hang; a worker restarted by the driver after a fatal error resumes from its last saved record (counter resumed-after-crash)")

	nProg := r.Pick(1071, 68000) // multiples of 17 families x 3 yield modes
	opsLo, opsHi := 260, 460
	pg := loadProgress()
	lastSave := time.Now()
	for i := pg.Next; i < nProg; i++ {
		if !r.Mine(i) {
			continue
		}
		fam := families[i%len(families)]
		key := "C11/crash/" + fam.name
		if !r.Selected(key) && !r.Selected("C11/race") {
			continue
		}
		rng := r.CaseRand("prog", i)
		mode := yieldMode((i / len(families)) % 3)
		nOps := rng.Range(opsLo, opsHi)
		p := fam.build(rng, nOps)
		desc := p.descriptor()
		if !r.Guard(key, map[string]any{"case": i, "family": fam.name, "flavor": p.flavor, "goroutines": len(p.gs), "yield": mode.String()}) {
			continue
		}
		// what was recorded up to here survives a death of the process inside this program: the driver restarts the
		// worker with this family skipped and the worker resumes after the last saved program instead of at case 0
		if time.Since(lastSave) > 3*time.Second {
			pg.Next = i
			pg.save()
			lastSave = time.Now()
		}
		out := p.run(mode, rng.Uint64())
		r.Unguard()

		st := pg.fam(fam.name)
		pg.Count["programs"]++
		pg.Count["programs/"+fam.name]++
		pg.Count["programs/yield-"+mode.String()]++
		pg.Count[fmt.Sprintf("programs/goroutines-%02d", len(p.gs))]++
		if out.hung {
			fmt.Fprintf(os.Stderr, "C11: case %d (%s, yield %s) did not finish within %v\n%s\n", i, desc, mode, progWatchdog, out.hungDetail)
			if out.hungAfterPanic > 0 {
				// a panic inside the library was recovered by the harness and left the object unusable (GetAndUpdate does not
				// release its read lock when its get callback panics): the rest of the program waits for that lock forever.
				// The program is abandoned; whatever race led to the panic is in the detector's log.
				pg.Count["abandoned-hung-after-recovered-panic/"+fam.name]++
				r.Note("case %d (%s, yield %s) abandoned: it hung after %d recovered panic(s); %s", i, trunc(desc, 200), mode, out.hungAfterPanic, trunc(out.hungDetail, 1500))
				continue
			}
			// a program that does not finish is not this property's subject, but it must not pass silently
			pg.inconclusive("hang/"+fam.name, fmt.Sprintf("case %d (%s, yield %s) did not finish within %v; %s", i, desc, mode, progWatchdog, trunc(out.hungDetail, 3000)))
			continue
		}
		if out.hungCons {
			pg.inconclusive("hang-consumer/"+fam.name, fmt.Sprintf("case %d (%s): a subscription did not end after its context was cancelled", i, desc))
		}
		pg.Descs = append(pg.Descs, fingerprint(desc))
		n := 0
		for m, c := range out.calls {
			st.Calls[p.methods[m]] += c
			n += c
		}
		pg.Evals += n
		st.Ops += n
		st.Overlaps += out.overlaps
		st.Events += out.events
		st.Errs += out.errs
		st.Panics += out.panics
		for k, c := range out.pairs {
			a, b := p.methods[k[0]], p.methods[k[1]]
			if a > b {
				a, b = b, a
			}
			st.Pairs[a+"×"+b] += c
		}
		for k, c := range p.opts {
			st.Opts[k] += c
		}
		for _, msg := range out.panicMsgs {
			if st.PanicNotes < 2 {
				st.PanicNotes++
				r.Note("recovered panic in %s (case %d, counted, not judged): %s", fam.name, i, trunc(msg, 300))
			}
		}
		if r.WantSample(fam.name) {
			r.Sample(fam.name, map[string]any{"case": i, "program": trunc(desc, 600), "yield": mode.String(), "ops": n,
				"overlapping-op-pairs": out.overlaps, "events-consumed": out.events, "errors": out.errs, "panics": out.panics,
				"wall_ms": out.wall.Milliseconds()})
		}
	}

	// flush the records into the run (between programs, never while one runs)
	if pg.Resumed > 0 {
		r.Count("resumed-after-crash", pg.Resumed)
	}
	r.Eval(pg.Evals)
	for _, d := range pg.Descs {
		r.Distinct(d)
	}
	for k, why := range pg.Inconcl {
		r.Inconclusive(k, why)
	}
	for k, c := range pg.Count {
		r.Count(k, c)
	}
	for _, f := range families {
		st := pg.fam(f.name)
		r.Count("ops", st.Ops)
		r.Count("ops/"+f.name, st.Ops)
		r.Count("overlaps", st.Overlaps)
		r.Count("overlaps/"+f.name, st.Overlaps)
		r.Count("events-consumed/"+f.name, st.Events)
		r.Count("call-errors/"+f.name, st.Errs)
		r.Count("panics-recovered/"+f.name, st.Panics)
		for m, c := range st.Calls {
			r.Count("calls/"+m, c)
		}
		for pr, c := range st.Pairs {
			r.Count("pairs/"+pr, c)
		}
		for o, c := range st.Opts {
			r.Count("options/"+o, c)
		}
	}

	// minimums: a run that overlapped nothing is inconclusive, not green
	perFam := nProg / len(families)
	r.Require("programs", nProg*7/10)
	r.Require("ops", nProg*opsLo/4)
	for _, f := range families {
		// a quarter: a worker that died in a family (a race can corrupt a map: "fatal error: concurrent map writes") is
		// restarted by the driver with that family skipped in its shard from then on
		r.Require("programs/"+f.name, perFam/4)
		r.Require("overlaps/"+f.name, perFam*20)
	}
	for _, m := range []string{"Value.Set", "Value.Get", "Value.Pull", "Collection.Add(genid)", "Collection.Update", "Collection.Delete",
		"Collection.Pull", "Collection.PullID", "Collection.List", "Bus.Send", "Bus.Listen", "Router.Get", "Router.Add", "Router.Remove",
		"wrap.Unary", "wrap.ServerStream", "wrap.ClientStream", "wrap.BidiStream", "routed.PullOnOff", "electric.CreateMode",
		"parent.AddChildTrait", "parent.RemoveChildTrait", "metadata.MergeMetadata", "metadataCol.MergeMetadata", "vending.DispenseInstantly",
		"publication.UpdatePublication", "hail.CreateHail", "waste.AddWasteRecord", "openclose.UpdatePositions(preset)",
		"mode.UpdateModeValues", "fanspeed.UpdateFanSpeed", "cancel"} {
		r.Require("calls/"+m, perFam*3)
	}
	for _, m := range []string{"wrap.ClientStream(linger,cancel)", "wrap.ClientStream(linger,deadline)", "wrap.UnaryAsStream",
		"wrap.Unary(concurrent-cancel)", "wrap.Unary(deadline)"} {
		r.Require("calls/"+m, perFam/2)
	}
	for _, m := range []string{"Value.Pull", "Collection.Pull", "Collection.PullID"} {
		for _, combo := range []string{"", "uo", "bp", "uo,bp", "rmask", "rmask,uo", "rmask,bp", "rmask,uo,bp"} {
			r.Require("options/"+m+"["+combo+"]", perFam/4)
		}
	}
	for _, o := range []string{"umask", "before", "after", "check", "expval", "wtime", "reset", "allw", "morew"} {
		r.Require("options/Value.Set:"+o, perFam*3)
		r.Require("options/Collection.Update:"+o, perFam)
	}
	for _, pr := range []string{"Value.Get×Value.Set", "Value.Set×Value.Set", "Collection.Add(genid)×Collection.Add(genid)",
		"Collection.List×Collection.Update", "Bus.Listen×Bus.Send", "Router.Add×Router.Get", "Router.Get×Router.Get",
		"electric.CreateMode×electric.CreateMode", "parent.AddChildTrait×parent.ListChildren", "parent.ListChildren×parent.RemoveChildTrait",
		"metadata.GetMetadata×metadata.MergeMetadata", "wrap.BidiStream×wrap.BidiStream"} {
		r.Require("pairs/"+pr, perFam*5)
	}
}

type famStats struct {
	Ops, Overlaps, Events, Errs, Panics int
	Pairs                               map[string]int
	Calls                               map[string]int
	Opts                                map[string]int
	PanicNotes                          int
}

// progress is everything this worker has recorded so far. It is saved next to the result file every few seconds so
// that a worker the driver restarts after a crash (a race can corrupt a map, which the runtime answers with a fatal
// error) continues where it was instead of repeating the whole shard.
type progress struct {
	Next    int // first case that is not covered by this record
	Resumed int
	Evals   int
	Descs   []string
	Count   map[string]int
	Inconcl map[string]string
	Fams    map[string]*famStats

	path string
}

func (pg *progress) fam(name string) *famStats {
	st := pg.Fams[name]
	if st == nil {
		st = &famStats{}
		pg.Fams[name] = st
	}
	if st.Pairs == nil {
		st.Pairs, st.Calls, st.Opts = map[string]int{}, map[string]int{}, map[string]int{}
	}
	return st
}

func (pg *progress) inconclusive(key, why string) {
	if _, ok := pg.Inconcl[key]; !ok {
		pg.Inconcl[key] = why
	}
}

func (pg *progress) save() {
	if pg.path == "" {
		return
	}
	b, err := json.Marshal(pg)
	if err != nil {
		return
	}
	tmp := pg.path + ".tmp"
	if os.WriteFile(tmp, b, 0o644) == nil {
		_ = os.Rename(tmp, pg.path)
	}
}

// loadProgress finds the worker's -out and -skipkeys arguments. A non-empty skip list means the driver restarted this
// worker after a crash: then the saved record is picked up. A first attempt starts from nothing.
func loadProgress() *progress {
	pg := &progress{Count: map[string]int{}, Inconcl: map[string]string{}, Fams: map[string]*famStats{}}
	var out, skip string
	for i, a := range os.Args {
		for _, f := range []struct {
			name string
			dst  *string
		}{{"out", &out}, {"skipkeys", &skip}} {
			switch {
			case (a == "-"+f.name || a == "--"+f.name) && i+1 < len(os.Args):
				*f.dst = os.Args[i+1]
			case strings.HasPrefix(a, "-"+f.name+"="):
				*f.dst = strings.TrimPrefix(a, "-"+f.name+"=")
			case strings.HasPrefix(a, "--"+f.name+"="):
				*f.dst = strings.TrimPrefix(a, "--"+f.name+"=")
			}
		}
	}
	if out == "" {
		return pg
	}
	pg.path = out + ".c11progress"
	restarted := false
	if b, err := os.ReadFile(skip); err == nil && strings.TrimSpace(string(b)) != "" {
		restarted = true
	}
	if !restarted {
		_ = os.Remove(pg.path)
		return pg
	}
	if b, err := os.ReadFile(pg.path); err == nil {
		old := &progress{}
		if json.Unmarshal(b, old) == nil && old.Count != nil && old.Inconcl != nil && old.Fams != nil {
			old.path = pg.path
			old.Resumed++
			return old
		}
	}
	return pg
}

func fingerprint(s string) string {
	h := fnv.New64a()
	h.Write([]byte(s))
	return fmt.Sprintf("%016x/%d", h.Sum64(), len(s))
}

func trunc(s string, n int) string {
	if len(s) > n {
		return s[:n] + "…"
	}
	return s
}
