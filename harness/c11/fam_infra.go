package main

import (
	"context"
	"errors"
	"fmt"
	"runtime"
	"strings"

	"google.golang.org/protobuf/proto"

	"github.com/smart-core-os/sc-golang/internal/minibus"
	"github.com/smart-core-os/sc-golang/internal/verif/vk"
	"github.com/smart-core-os/sc-golang/pkg/group"
	"github.com/smart-core-os/sc-golang/pkg/resource"
	"github.com/smart-core-os/sc-golang/pkg/router"
)

// ---- minibus.Bus -------------------------------------------------------------------------------------------

func readAny(ev any) uint64 {
	switch v := ev.(type) {
	case proto.Message:
		return readMsg(v)
	case string:
		return uint64(len(v))
	case *resource.ValueChange:
		return readValueChange(v)
	}
	return 0
}

func buildBus(rng *vk.Rand, nOps int) *Prog {
	p := newProg("bus", rng, rng.Range(4, 16), 8)
	p.flavor = "zero"
	bus := &minibus.Bus{}
	spread(rng, p, nOps, func(gi int) {
		switch w := rng.Intn(100); {
		case w < 55:
			var ev any = genTAT(rng)
			if rng.Chance(1, 4) {
				ev = fmt.Sprint("ev", rng.Intn(100))
			}
			k, own := rng.Intn(8), rng.Chance(1, 3)
			name := "Bus.Send"
			if own {
				name = "Bus.Send(cancellable)"
			}
			p.add(gi, name, func(g *G) {
				ctx := context.Background()
				if own {
					ctx = g.ctx(k)
				}
				if !bus.Send(ctx, ev) {
					g.errs++
				}
			})
		case w < 80:
			k, pace, drop := rng.Intn(8), rng.Intn(3), rng.Chance(1, 3)
			name := "Bus.Listen"
			if drop {
				name = "Bus.Listen+DropExcess"
			}
			p.add(gi, name, func(g *G) {
				ch := bus.Listen(g.ctx(k))
				if drop {
					ch = minibus.DropExcess(ch)
				}
				consume(g, ch, pace, readAny)
			})
		default:
			k := rng.Intn(8)
			p.add(gi, "cancel", func(g *G) { g.cancel(k) })
		}
	})
	return p
}

// ---- router.Router -----------------------------------------------------------------------------------------

type fakeClient struct {
	name string
	gen  int
}

var routeNames = []string{"n0", "n1", "n2", "n3", "n4", "n5", "n6", "n7"}

func buildRouter(rng *vk.Rand, nOps int) *Prog {
	p := newProg("router", rng, rng.Range(4, 16), 1)
	var opts []router.Option
	var fl []string
	if rng.Chance(2, 3) {
		// the factory may be called concurrently for one name (documented); it is a pure function
		opts = append(opts, router.WithFactory(func(name string) (any, error) {
			switch name[len(name)-1] {
			case '6':
				return nil, errors.New("factory refuses")
			case '7':
				return nil, nil
			}
			return &fakeClient{name: name, gen: -1}, nil
		}))
		fl = append(fl, "factory")
	}
	if rng.Chance(1, 2) {
		opts = append(opts, router.WithFallback(func(name string) (any, error) {
			switch name[len(name)-1] {
			case '0', '1':
				return &fakeClient{name: name, gen: -2}, nil
			case '2':
				return nil, errors.New("fallback refuses")
			}
			return nil, nil
		}))
		fl = append(fl, "fallback")
	}
	if rng.Chance(1, 2) {
		opts = append(opts, router.WithOnChange(func(c router.Change) {
			// reads only
			_ = len(c.Name)
			if fc, ok := c.New.(*fakeClient); ok {
				_ = fc.gen
			}
			if fc, ok := c.Old.(*fakeClient); ok {
				_ = fc.gen
			}
		}))
		fl = append(fl, "onchange")
	}
	p.flavor = strings.Join(fl, "+")
	rt := router.NewRouter(opts...)
	for i, n := 0, rng.Intn(3); i < n; i++ {
		rt.Add(routeNames[i], &fakeClient{name: routeNames[i]})
	}
	readClient := func(g *G, c any) {
		if fc, ok := c.(*fakeClient); ok && fc != nil {
			g.sink += uint64(len(fc.name)) + uint64(fc.gen)
		}
	}
	spread(rng, p, nOps, func(gi int) {
		name := routeNames[rng.Intn(len(routeNames))]
		switch w := rng.Intn(100); {
		case w < 20:
			c := &fakeClient{name: name, gen: rng.Intn(1000)}
			p.add(gi, "Router.Add", func(g *G) { readClient(g, rt.Add(name, c)) })
		case w < 40:
			p.add(gi, "Router.Remove", func(g *G) { readClient(g, rt.Remove(name)) })
		case w < 55:
			p.add(gi, "Router.Has", func(g *G) {
				if rt.Has(name) {
					g.sink++
				}
			})
		case w < 97:
			p.add(gi, "Router.Get", func(g *G) {
				c, err := rt.Get(name)
				g.err(err)
				readClient(g, c)
			})
		default:
			p.add(gi, "Router.HoldsType", func(g *G) {
				if rt.HoldsType(name) {
					g.sink++
				}
			})
		}
	})
	return p
}

// ---- group.Execute* ----------------------------------------------------------------------------------------

var errMember = errors.New("member fails")

// ExecuteFast and ExecuteRace leave the members that lost blocked forever on an unbuffered channel (C17's subject).
// The race detector supports at most 8128 live goroutines, so a program uses them only a few times.
const maxLeakyExec = 3

func buildGroup(rng *vk.Rand, nOps int) *Prog {
	p := newProg("group", rng, rng.Range(4, 12), 1)
	p.flavor = "shared-value"
	shared := resource.NewValue(resource.WithInitialValue(genTAT(rng)))
	leaky := 0
	// member kinds: 0 fresh message, 1 Get of the shared value, 2 Set of the shared value, 3 error, 4 wait for cancel
	member := func(kind int) group.Member {
		switch kind {
		case 0:
			msg := genTAT(rng)
			return func(context.Context) (proto.Message, error) { return msg, nil }
		case 1:
			return func(context.Context) (proto.Message, error) { return shared.Get(), nil }
		case 2:
			msg := genTAT(rng)
			return func(context.Context) (proto.Message, error) { return shared.Set(msg) }
		case 3:
			return func(context.Context) (proto.Message, error) { return nil, errMember }
		default:
			return func(ctx context.Context) (proto.Message, error) { <-ctx.Done(); return nil, ctx.Err() }
		}
	}
	spread(rng, p, nOps/3+1, func(gi int) {
		strategy := group.ExecutionStrategy(rng.Range(0, 6))
		isLeaky := strategy == group.ExecutionStrategyFast || strategy == group.ExecutionStrategyRace
		if isLeaky {
			if leaky >= maxLeakyExec {
				strategy = group.ExecutionStrategy(rng.Range(0, 4))
				isLeaky = false
			} else {
				leaky++
			}
		}
		n := rng.Range(1, 5)
		if isLeaky {
			n = rng.Range(1, 3)
		}
		members := make([]group.Member, n)
		for i := range members {
			members[i] = member(rng.Intn(4))
		}
		if isLeaky && n > 1 && rng.Bool() {
			// a member that only ends on cancellation is legal where a prompt member guarantees the cancellation
			members[0] = member(0)
			members[n-1] = member(4)
		}
		// the strategies that wait for every member ("will not return until all executions have completed") with a
		// caller whose own context ends mid-run: each member writes its own plain slot, the caller reads all slots once
		// the call has returned. The wait is what orders the two.
		callerCancels := !isLeaky && strategy != group.ExecutionStrategyOne && n > 1 && rng.Chance(1, 3)
		direct := rng.Bool()
		name := fmt.Sprintf("group.Execute(%d)", int(strategy))
		if direct {
			name = [...]string{"group.ExecuteAll", "group.ExecuteAll", "group.ExecuteMost", "group.ExecuteAny",
				"group.ExecuteOne", "group.ExecuteFast", "group.ExecuteRace"}[strategy]
		}
		p.add(gi, name, func(g *G) {
			ctx := context.Background()
			var (
				res []proto.Message
				one proto.Message
				err error
			)
			members := members
			var slots []int
			if callerCancels {
				cctx, cancel := context.WithCancel(ctx)
				defer cancel()
				ctx = cctx
				slots = make([]int, n)
				inner := members
				members = make([]group.Member, n)
				for i := range members {
					i := i
					members[i] = func(c context.Context) (proto.Message, error) {
						if i == 0 {
							cancel()
						} else {
							for k := 0; k < 3*i; k++ {
								runtime.Gosched()
							}
						}
						m, e := inner[i](c)
						slots[i] = i + 1
						return m, e
					}
				}
			}
			defer func() {
				for i := range slots {
					g.sink += uint64(slots[i])
				}
			}()
			if !direct {
				res, err = group.Execute(ctx, strategy, members)
			} else {
				switch strategy {
				case group.ExecutionStrategyMost:
					res, err = group.ExecuteMost(ctx, members)
				case group.ExecutionStrategyAny:
					res, err = group.ExecuteAny(ctx, members)
				case group.ExecutionStrategyOne:
					one, _, err = group.ExecuteOne(ctx, members)
				case group.ExecutionStrategyFast:
					one, _, err = group.ExecuteFast(ctx, members)
				case group.ExecutionStrategyRace:
					one, _, err = group.ExecuteRace(ctx, members)
				default:
					res, err = group.ExecuteAll(ctx, members)
				}
			}
			g.err(err)
			g.sink += readMsg(one)
			for _, m := range res {
				g.sink += readMsg(m)
			}
		})
	})
	return p
}
